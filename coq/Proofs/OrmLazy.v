(* C16, part 1: on every reachable state, for every instance,
   the dirty flag is true exactly while unwritten assignments are pending. *)
From Coq Require Import List ZArith Bool Lia ZifyBool.
From Model Require Import Orm.
From Proofs Require Import OrmBase OrmHeap OrmSpec.
Import ListNotations.
Open Scope Z_scope.

Definition has_pending (i : inst) : bool := match i_pending i with [] => false | _ => true end.
Definition dirty_ok (i : inst) : Prop := i_dirty i = has_pending i.

Lemma dirty_ok_blank k id : dirty_ok (blank_inst k id).
Proof. reflexivity. Qed.

Lemma fold_set_val_fields kw : forall i,
  let i' := fold_left (fun i cv => set_val (fst cv) (snd cv) i) kw i in
  i_dirty i' = i_dirty i /\ i_pending i' = i_pending i /\ i_k i' = i_k i /\ i_id i' = i_id i /\
  i_expired i' = i_expired i /\ i_obsolete i' = i_obsolete i /\ i_cv i' = i_cv i.
Proof.
  induction kw as [|[c v] r IH]; intros i; cbn; [repeat split|].
  specialize (IH (set_val c v i)). cbn in IH. exact IH.
Qed.

Lemma dirty_ok_fold kw i : dirty_ok i -> dirty_ok (fold_left (fun i cv => set_val (fst cv) (snd cv) i) kw i).
Proof.
  intros H. destruct (fold_set_val_fields kw i) as (Hd & Hp & _). unfold dirty_ok, has_pending in *.
  cbn in Hd, Hp. now rewrite Hd, Hp.
Qed.

Notation DI := (HI dirty_ok).
Local Hint Resolve dirty_ok_blank : kp.

Definition kui := keeps_upd_inst dirty_ok dirty_ok_blank.
Ltac upd := apply kui; intros ? Hok; unfold dirty_ok, has_pending in *; cbn; try exact Hok; auto.

Section WithConfig.
Variable cfg : config.

Lemma k_db_select_one k id cols : keeps DI (db_select_one k id cols).
Proof. unfold db_select_one. kp. Qed.
Lemma k_db_update k id upd : keeps DI (db_update k id upd).
Proof. unfold db_update. kp. Qed.
Lemma k_db_insert k vals : keeps DI (db_insert k vals).
Proof. unfold db_insert. kp. Qed.
Lemma k_db_delete k id : keeps DI (db_delete k id).
Proof. unfold db_delete. kp. Qed.
Local Hint Resolve k_db_select_one k_db_update k_db_insert k_db_delete : kp.

Lemma k_ensure_factory k : keeps DI (ensure_factory k).
Proof. unfold ensure_factory. kp. Qed.
Lemma k_cull k roots : keeps DI (cull cfg k roots).
Proof. unfold cull. kp. Qed.
Local Hint Resolve k_ensure_factory k_cull : kp.
Lemma k_cull_tick k roots : keeps DI (cull_tick cfg k roots).
Proof. unfold cull_tick. kp. Qed.
Local Hint Resolve k_cull_tick : kp.
Lemma k_cache_get k id roots : keeps DI (cache_get cfg k id roots).
Proof. unfold cache_get. kp. Qed.
Lemma k_cache_put k id o : keeps DI (cache_put cfg k id o).
Proof. unfold cache_put. kp. Qed.
Lemma k_cache_created k id o : keeps DI (cache_created cfg k id o).
Proof. unfold cache_created. kp. Qed.
Lemma k_cache_expire k id : keeps DI (cache_expire cfg k id).
Proof. unfold cache_expire. kp. Qed.
Lemma k_cache_try_get k id roots : keeps DI (cache_try_get cfg k id roots).
Proof. unfold cache_try_get. kp. Qed.
Lemma k_cache_purge k id : keeps DI (cache_purge k id).
Proof. unfold cache_purge. kp. Qed.
Local Hint Resolve k_cache_get k_cache_put k_cache_created k_cache_expire k_cache_purge k_cache_try_get : kp.

Lemma k_select_init o r : keeps DI (select_init o r).
Proof. unfold select_init. upd. Qed.
Local Hint Resolve k_select_init : kp.

Lemma k_upd_expired o b : keeps DI (upd_inst o (fun i => i_with_expired i b)).
Proof. upd. Qed.
Lemma k_upd_obsolete o b : keeps DI (upd_inst o (fun i => i_with_obsolete i b)).
Proof. upd. Qed.
Lemma k_upd_vals o v : keeps DI (upd_inst o (fun i => i_with_vals i v)).
Proof. upd. Qed.
Lemma k_upd_vals_f o (f : inst -> list (option val)) : keeps DI (upd_inst o (fun i => i_with_vals i (f i))).
Proof. upd. Qed.
Lemma k_upd_set_val o c v : keeps DI (upd_inst o (set_val c v)).
Proof. upd. Qed.
Lemma k_upd_clean o : keeps DI (upd_inst o (fun i => i_with_pending (i_with_dirty i false) [])).
Proof. upd. Qed.
Lemma k_upd_clean_cv o b : keeps DI (upd_inst o (fun i => i_with_cv (i_with_dirty (i_with_pending i []) false) b)).
Proof. upd. Qed.
Local Hint Resolve k_upd_expired k_upd_obsolete k_upd_vals k_upd_set_val k_upd_clean k_upd_clean_cv : kp.
Local Hint Extern 1 (keeps _ (upd_inst _ (fun i => i_with_vals i _))) => apply k_upd_vals_f : kp.

Lemma k_new_blank k id : keeps DI (new_inst (blank_inst k id)).
Proof. apply keeps_new_inst. reflexivity. Qed.
Local Hint Resolve k_new_blank : kp.

Lemma k_so_get k id sel roots : keeps DI (so_get cfg k id sel roots).
Proof. unfold so_get. kp. Qed.
Lemma k_validate v : keeps DI (validate v).
Proof. unfold validate. kp. Qed.
Local Hint Resolve k_so_get k_validate : kp.
Lemma k_validate_all kvs : keeps DI (validate_all kvs).
Proof. induction kvs as [|[c v] r IH]; cbn [validate_all]; kp. Qed.
Local Hint Resolve k_validate_all : kp.

Lemma k_so_setattr o c v : keeps DI (so_setattr o c v).
Proof.
  unfold so_setattr. kp.
  apply kui. intros i Hi. unfold dirty_ok, has_pending. cbn.
  match goal with |- context [nassoc_set ?c ?x ?l] => destruct (nassoc_set c x l) eqn:E end; [|reflexivity].
  exfalso. eapply nassoc_set_nonempty; eauto.
Qed.

Lemma k_so_set o kvs : keeps DI (so_set o kvs).
Proof.
  unfold so_set. kp.
  all: try (apply kui; intros i Hi; now apply dirty_ok_fold).
  apply kui. intros i Hi.
  set (kw := filter (fun cv : nat * val => is_col (fst cv)) (as_dict kvs)).
  destruct (fold_set_val_fields kw i) as (Hd & Hp & _). cbn in Hd, Hp.
  unfold dirty_ok, has_pending in *. cbn.
  destruct kw as [|kv r] eqn:E.
  - cbn. exact Hi.
  - destruct (pending_update (kv :: r) (i_pending i)) eqn:E2; [|reflexivity].
    exfalso. eapply pending_update_nonempty; [|exact E2]. left. discriminate.
Qed.

Lemma k_so_sync_update o : keeps DI (so_sync_update o).
Proof. unfold so_sync_update. kp. Qed.
Local Hint Resolve k_so_setattr k_so_set k_so_sync_update : kp.

Lemma k_so_sync o : keeps DI (so_sync o).
Proof. unfold so_sync. kp. Qed.
Lemma k_so_expire o : keeps DI (so_expire cfg o).
Proof. unfold so_expire. kp. Qed.
Lemma k_so_read o c : keeps DI (so_read o c).
Proof. unfold so_read. kp. Qed.
Lemma k_so_destroy o : keeps DI (so_destroy o).
Proof. unfold so_destroy. kp. Qed.
Local Hint Resolve k_so_sync k_so_expire k_so_read k_so_destroy : kp.

Lemma k_so_create k kvs : keeps DI (so_create cfg k kvs).
Proof.
  unfold so_create. kp.
  apply kui. intros i Hi.
  destruct (fold_set_val_fields l i) as (Hd & Hp & _). cbn in Hd, Hp.
  unfold dirty_ok, has_pending in *. cbn. now rewrite Hd, Hp.
Qed.

Lemma k_so_pickle o : keeps DI (so_pickle o).
Proof.
  unfold so_pickle. kp.
  intros s Hs. exact Hs.
Qed.

Lemma k_so_unpickle p : keeps DI (so_unpickle cfg p).
Proof.
  unfold so_unpickle. kp.
  apply keeps_new_inst. reflexivity.
Qed.
Local Hint Resolve k_so_create k_so_pickle k_so_unpickle : kp.

Lemma k_fold_expire items : forall m, keeps DI m ->
  keeps DI (fold_left (fun m o => m ;;; so_expire cfg o) items m).
Proof. induction items as [|o r IH]; intros m Hm; cbn [fold_left]; [exact Hm|]. apply IH. kp. Qed.

Lemma k_so_expire_all k : keeps DI (so_expire_all cfg k).
Proof. unfold so_expire_all. kp. apply k_fold_expire. kp. Qed.
Local Hint Resolve k_so_expire_all : kp.

Lemma k_slots f : keeps DI (modify (fun s => with_slots s (f s))).
Proof. apply keeps_modify. intros s Hs. exact Hs. Qed.
Lemma k_caches f : keeps DI (modify (fun s => with_caches s (f s))).
Proof. apply keeps_modify. intros s Hs. exact Hs. Qed.
Lemma k_fault f : keeps DI (modify (fun s => with_fault s f)).
Proof. apply keeps_modify. intros s Hs. exact Hs. Qed.
Local Hint Resolve k_slots k_caches k_fault : kp.

Lemma k_hold o : keeps DI (hold o).
Proof. unfold hold. kp. Qed.
Local Hint Resolve k_hold : kp.

Lemma k_hold_or_none m : keeps DI m -> keeps DI (hold_or_none m).
Proof.
  intros Hm s Hs. unfold hold_or_none. specialize (Hm s Hs).
  destruct (m s) as [[o|e] s']; [|exact Hm]. apply (k_hold o s' Hm).
Qed.

Lemma k_or_empty_slot {A} b (m : M A) : keeps DI m -> keeps DI (or_empty_slot b m).
Proof.
  intros Hm s Hs. unfold or_empty_slot. specialize (Hm s Hs).
  destruct (m s) as [[o|e] s']; [exact Hm|]. destruct b; exact Hm.
Qed.

Lemma k_handle h : keeps DI (handle h).
Proof. unfold handle. kp. Qed.
Local Hint Resolve k_handle : kp.

Lemma k_select_rows k rows : forall acc, keeps DI (select_rows cfg k rows acc).
Proof. induction rows as [|[id r] rest IH]; intros acc; cbn [select_rows]; kp. Qed.
Local Hint Resolve k_select_rows : kp.

Lemma k_run_op fuel : forall o, keeps DI (run_op cfg fuel o).
Proof.
  induction fuel as [|f IH]; intros o; destruct o; cbn [run_op];
    try (apply k_hold_or_none); try (apply k_or_empty_slot); kp;
    try (exact (k_slots _)); try (exact (k_caches _)).
Qed.

Theorem step_keeps_dirty_ok s o : DI s -> DI (snd (step cfg s o)).
Proof.
  intros Hs. unfold step. pose proof (k_run_op 2 o (with_fault (with_log s []) None)) as H.
  specialize (H Hs). destruct (run_op cfg 2 o _) as [[a|e] s']; exact H.
Qed.


Theorem reachable_dirty_ok ops : DI (run cfg ops).
Proof.
  unfold run. assert (H : DI init) by constructor.
  revert H. generalize init. induction ops as [|o r IH]; intros s Hs; cbn [fold_left]; [exact Hs|].
  apply IH. now apply step_keeps_dirty_ok.
Qed.

(* for every object the application holds *)
Corollary held_dirty_iff_pending ops h o :
  nth h (slots (run cfg ops)) None = Some o ->
  i_dirty (get_inst (run cfg ops) o) = has_pending (get_inst (run cfg ops) o).
Proof. intros _. apply HI_get_inst; [reflexivity|apply reachable_dirty_ok]. Qed.

End WithConfig.
