(* Invariants that hold pointwise for every instance on the heap:
   the proof engine `kp` walks through the monadic code of every function. *)
From Coq Require Import List ZArith Bool Lia ZifyBool.
From Model Require Import Orm.
From Proofs Require Import OrmBase.
Import ListNotations.
Open Scope Z_scope.

Section Pointwise.
Variable Pi : inst -> Prop.
Hypothesis Pi_blank : forall k id, Pi (blank_inst k id).
Definition HI (s : st) : Prop := Forall Pi (heap s).

Lemma HI_get_inst s o : HI s -> Pi (get_inst s o).
Proof. intros H. unfold get_inst. apply Forall_nth_default; auto. Qed.

(* every state change that leaves the heap alone *)
Lemma keeps_heap_same {A} (m : M A) :
  (forall s, heap (snd (m s)) = heap s) -> keeps HI m.
Proof.
  intros H s Hs. specialize (H s). destruct (m s) as [[a|e] s']; cbn in *; unfold HI; now rewrite H.
Qed.

Lemma keeps_upd_inst o f : (forall i, Pi i -> Pi (f i)) -> keeps HI (upd_inst o f).
Proof.
  intros Hf. apply keeps_modify. intros s Hs. unfold HI, with_heap; cbn.
  apply Forall_set_nth; auto. apply Hf. now apply HI_get_inst.
Qed.

Lemma keeps_new_inst i : Pi i -> keeps HI (new_inst i).
Proof.
  intros Hi s Hs. unfold new_inst, HI, with_heap; cbn. apply Forall_app; split; auto.
Qed.

Lemma keeps_statement q : keeps HI (statement q).
Proof.
  intros s Hs. unfold statement. destruct (fault s) as [n|]; [destruct (Nat.eqb n (length (log s)))|]; exact Hs.
Qed.

Lemma keeps_set_tbl k t : keeps HI (set_tbl k t).
Proof. apply keeps_modify. intros s Hs. exact Hs. Qed.
Lemma keeps_set_cch k c : keeps HI (set_cch k c).
Proof. apply keeps_modify. intros s Hs. exact Hs. Qed.

End Pointwise.

(* the engine: decompose binds, matches and ifs; close leaves with the hint database *)
Create HintDb kp discriminated.
#[export] Hint Resolve keeps_ret keeps_raise keeps_gets keeps_statement keeps_set_tbl keeps_set_cch : kp.

Ltac kp_step :=
  match goal with
  | |- keeps _ (bind _ _) => apply keeps_bind; [|intros]
  | |- keeps _ (match ?x with _ => _ end) => destruct x eqn:?
  | |- keeps _ (if ?x then _ else _) => destruct x eqn:?
  | |- keeps _ (let '(_, _) := ?x in _) => destruct x eqn:?
  | |- keeps _ (finally _ _) => apply keeps_finally; [|intros ? Hfin; exact Hfin]
  end.
Ltac kp := repeat kp_step; eauto with kp.
