(* (T) table well-formedness on every state reachable by ANY history:
   row ids are below t_next (AUTOINCREMENT never reuses an id), row ids are
   unique, every row has the three columns. *)
From Coq Require Import List ZArith Bool Lia ZifyBool.
From Model Require Import Orm.
From Proofs Require Import OrmBase OrmHeap OrmSpec OrmInvLists.
Import ListNotations.
Open Scope Z_scope.

Definition twf (t : table) : Prop :=
  (forall id r, In (id, r) (t_rows t) -> id < t_next t /\ length r = 3%nat) /\ NoDup (keys (t_rows t)).
Definition TI (s : st) : Prop := forall k, twf (tbl s k).

Lemma twf_empty : twf empty_table.
Proof. split; [intros id r []|constructor]. Qed.

Lemma TI_init : TI init.
Proof. intros [| |]; exact twf_empty. Qed.

Lemma twf_fresh t id : twf t -> t_next t <= id -> assoc id (t_rows t) = None.
Proof.
  intros [H _] Hle. destruct (assoc id (t_rows t)) as [r|] eqn:E; [|reflexivity].
  apply assoc_In in E. apply H in E. lia.
Qed.

Lemma twf_update t id r r' : twf t -> assoc id (t_rows t) = Some r -> length r' = 3%nat ->
  twf {| t_rows := assoc_set id r' (t_rows t); t_next := t_next t |}.
Proof.
  intros [H Hnd] Ha Hl. split; cbn [t_rows t_next].
  - intros a x Hi. apply In_assoc_set in Hi. destruct Hi as [[-> ->]|Hi]; [|auto].
    split; [|exact Hl]. apply assoc_In in Ha. apply H in Ha. tauto.
  - rewrite keys_assoc_set_present; [exact Hnd|]. eapply assoc_some_in_keys; eauto.
Qed.

Lemma twf_insert t r : twf t -> length r = 3%nat ->
  twf {| t_rows := t_rows t ++ [(t_next t, r)]; t_next := t_next t + 1 |}.
Proof.
  intros [H Hnd] Hl. split; cbn [t_rows t_next].
  - intros a x Hi. apply in_app_or in Hi. destruct Hi as [Hi|[Hi|[]]].
    + apply H in Hi. lia.
    + inversion Hi; subst. lia.
  - unfold keys. rewrite map_app. cbn. apply NoDup_snoc; [exact Hnd|].
    intros Hi. apply in_map_iff in Hi. destruct Hi as ([a x] & E & Hi). cbn in E. subst a. apply H in Hi. lia.
Qed.

Lemma twf_delete t id : twf t -> twf {| t_rows := assoc_remove id (t_rows t); t_next := t_next t |}.
Proof.
  intros [H Hnd]. split; cbn [t_rows t_next].
  - intros a x Hi. apply In_assoc_remove in Hi. apply H. tauto.
  - now apply NoDup_keys_assoc_remove.
Qed.

Lemma TI_set k t s : TI s -> twf t -> TI (with_tables s (tset k t (tables s))).
Proof.
  intros Hs Ht k'. unfold tbl. cbn. specialize (Hs k'). unfold tbl in Hs.
  destruct k, k'; cbn; auto.
Qed.

Lemma keeps_TI_same {A} (m : M A) : (forall s, tables (snd (m s)) = tables s) -> keeps TI m.
Proof.
  intros H s Hs. specialize (H s). destruct (m s) as [[a|e] s']; cbn in *; unfold TI, tbl; now rewrite H.
Qed.

Lemma kt_statement q : keeps TI (statement q).
Proof. apply keeps_TI_same. intros s. unfold statement. destruct (fault s) as [n|]; [destruct (Nat.eqb n _)|]; reflexivity. Qed.
Lemma kt_set_cch k c : keeps TI (set_cch k c).
Proof. apply keeps_TI_same. reflexivity. Qed.
Lemma kt_upd_inst o f : keeps TI (upd_inst o f).
Proof. apply keeps_TI_same. reflexivity. Qed.
Lemma kt_new_inst i : keeps TI (new_inst i).
Proof. apply keeps_TI_same. reflexivity. Qed.
Lemma kt_slots f : keeps TI (modify (fun s => with_slots s (f s))).
Proof. apply keeps_TI_same. reflexivity. Qed.
Lemma kt_caches f : keeps TI (modify (fun s => with_caches s (f s))).
Proof. apply keeps_TI_same. reflexivity. Qed.
Lemma kt_fault f : keeps TI (modify (fun s => with_fault s f)).
Proof. apply keeps_TI_same. reflexivity. Qed.
#[export] Hint Resolve kt_statement kt_set_cch kt_upd_inst kt_new_inst kt_slots kt_caches kt_fault : kt.
#[export] Hint Resolve keeps_ret keeps_raise keeps_gets : kt.

Ltac kt := repeat kp_step; eauto with kt.

Lemma kt_set_tbl k t : twf t -> keeps TI (set_tbl k t).
Proof. intros Ht. apply keeps_modify. intros s Hs. now apply TI_set. Qed.

Lemma hoare_gets_bind {A B} (I : st -> Prop) (f : st -> A) (g : A -> M B) :
  (forall s, I s -> keeps (fun s' => I s' /\ s' = s) (g (f s))) -> keeps I (x <- gets f ;; g x).
Proof.
  intros H s Hs. unfold bind, gets. specialize (H s Hs s (conj Hs eq_refl)).
  destruct (g (f s) s) as [[b|e] s']; tauto.
Qed.

Lemma kt_db_update k id upd : keeps TI (db_update k id upd).
Proof.
  unfold db_update. apply keeps_bind; [apply kt_statement|intros _].
  intros s Hs. unfold bind, gets. cbn.
  destruct (assoc id (t_rows (tbl s k))) as [r|] eqn:Ea; [|exact Hs].
  destruct (constraint_error _ _ _ _); [exact Hs|].
  assert (Hl : length (apply_updates upd r) = 3%nat).
  { rewrite length_apply_updates. apply assoc_In in Ea. destruct (Hs k) as [H _]. apply H in Ea. tauto. }
  apply (kt_set_tbl k _ (twf_update _ _ _ _ (Hs k) Ea Hl) s Hs).
Qed.

Lemma kt_db_insert k vals : keeps TI (db_insert k vals).
Proof.
  unfold db_insert. apply keeps_bind; [apply kt_statement|intros _].
  intros s Hs. unfold bind, gets. cbn.
  destruct (constraint_error _ _ _ _); [exact Hs|].
  unfold bind, set_tbl, modify, ret. cbn.
  apply (TI_set k _ s Hs). apply twf_insert; [apply Hs|]. now rewrite length_apply_updates.
Qed.

Lemma kt_db_delete k id : keeps TI (db_delete k id).
Proof.
  unfold db_delete. apply keeps_bind; [apply kt_statement|intros _].
  intros s Hs. unfold bind, gets. cbn.
  apply (kt_set_tbl k _ (twf_delete _ id (Hs k)) s Hs).
Qed.

Lemma kt_db_select_one k id cols : keeps TI (db_select_one k id cols).
Proof. unfold db_select_one. kt. Qed.
#[export] Hint Resolve kt_db_update kt_db_insert kt_db_delete kt_db_select_one : kt.

Section WithConfig.
Variable cfg : config.

Lemma kt_ensure_factory k : keeps TI (ensure_factory k).
Proof. unfold ensure_factory. kt. Qed.
Lemma kt_cull k roots : keeps TI (cull cfg k roots).
Proof. unfold cull. kt. Qed.
Local Hint Resolve kt_ensure_factory kt_cull : kt.
Lemma kt_cull_tick k roots : keeps TI (cull_tick cfg k roots).
Proof. unfold cull_tick. kt. Qed.
Local Hint Resolve kt_cull_tick : kt.
Lemma kt_cache_get k id roots : keeps TI (cache_get cfg k id roots).
Proof. unfold cache_get. kt. Qed.
Lemma kt_cache_put k id o : keeps TI (cache_put cfg k id o).
Proof. unfold cache_put. kt. Qed.
Lemma kt_cache_created k id o : keeps TI (cache_created cfg k id o).
Proof. unfold cache_created. kt. Qed.
Lemma kt_cache_expire k id : keeps TI (cache_expire cfg k id).
Proof. unfold cache_expire. kt. Qed.
Lemma kt_cache_try_get k id roots : keeps TI (cache_try_get cfg k id roots).
Proof. unfold cache_try_get. kt. Qed.
Lemma kt_cache_purge k id : keeps TI (cache_purge k id).
Proof. unfold cache_purge. kt. Qed.
Local Hint Resolve kt_cache_get kt_cache_put kt_cache_created kt_cache_expire kt_cache_purge kt_cache_try_get : kt.

Lemma kt_select_init o r : keeps TI (select_init o r).
Proof. unfold select_init. kt. Qed.
Local Hint Resolve kt_select_init : kt.
Lemma kt_so_get k id sel roots : keeps TI (so_get cfg k id sel roots).
Proof. unfold so_get. kt. Qed.
Lemma kt_validate v : keeps TI (validate v).
Proof. unfold validate. kt. Qed.
Local Hint Resolve kt_so_get kt_validate : kt.
Lemma kt_validate_all kvs : keeps TI (validate_all kvs).
Proof. induction kvs as [|[c v] r IH]; cbn [validate_all]; kt. Qed.
Local Hint Resolve kt_validate_all : kt.
Lemma kt_so_setattr o c v : keeps TI (so_setattr o c v).
Proof. unfold so_setattr. kt. Qed.
Lemma kt_so_set o kvs : keeps TI (so_set o kvs).
Proof. unfold so_set. kt. Qed.
Lemma kt_so_sync_update o : keeps TI (so_sync_update o).
Proof. unfold so_sync_update. kt. Qed.
Local Hint Resolve kt_so_setattr kt_so_set kt_so_sync_update : kt.
Lemma kt_so_sync o : keeps TI (so_sync o).
Proof. unfold so_sync. kt. Qed.
Lemma kt_so_expire o : keeps TI (so_expire cfg o).
Proof. unfold so_expire. kt. Qed.
Lemma kt_so_read o c : keeps TI (so_read o c).
Proof. unfold so_read. kt. Qed.
Lemma kt_so_destroy o : keeps TI (so_destroy o).
Proof. unfold so_destroy. kt. Qed.
Local Hint Resolve kt_so_sync kt_so_expire kt_so_read kt_so_destroy : kt.
Lemma kt_so_create k kvs : keeps TI (so_create cfg k kvs).
Proof. unfold so_create. kt. Qed.
Lemma kt_so_pickle o : keeps TI (so_pickle o).
Proof. unfold so_pickle. kt. intros s Hs. exact Hs. Qed.
Lemma kt_so_unpickle p : keeps TI (so_unpickle cfg p).
Proof. unfold so_unpickle. kt. Qed.
Local Hint Resolve kt_so_create kt_so_pickle kt_so_unpickle : kt.

Lemma kt_fold_expire items : forall m, keeps TI m -> keeps TI (fold_left (fun m o => m ;;; so_expire cfg o) items m).
Proof. induction items as [|o r IH]; intros m Hm; cbn [fold_left]; [exact Hm|]. apply IH. kt. Qed.
Lemma kt_so_expire_all k : keeps TI (so_expire_all cfg k).
Proof. unfold so_expire_all. kt. apply kt_fold_expire. kt. Qed.
Local Hint Resolve kt_so_expire_all : kt.

Lemma kt_hold o : keeps TI (hold o).
Proof. unfold hold. kt. Qed.
Local Hint Resolve kt_hold : kt.
Lemma kt_hold_or_none m : keeps TI m -> keeps TI (hold_or_none m).
Proof.
  intros Hm s Hs. unfold hold_or_none. specialize (Hm s Hs).
  destruct (m s) as [[o|e] s']; [|exact Hm]. apply (kt_hold o s' Hm).
Qed.
Lemma kt_or_empty_slot {A} b (m : M A) : keeps TI m -> keeps TI (or_empty_slot b m).
Proof.
  intros Hm s Hs. unfold or_empty_slot. specialize (Hm s Hs).
  destruct (m s) as [[o|e] s']; [exact Hm|]. destruct b; exact Hm.
Qed.
Lemma kt_handle h : keeps TI (handle h).
Proof. unfold handle. kt. Qed.
Local Hint Resolve kt_handle : kt.
Lemma kt_select_rows k rows : forall acc, keeps TI (select_rows cfg k rows acc).
Proof. induction rows as [|[id r] rest IH]; intros acc; cbn [select_rows]; kt. Qed.
Local Hint Resolve kt_select_rows : kt.

Lemma kt_raw_update k id c v :
  keeps TI (t <- gets (fun s => tbl s k) ;;
            match assoc id (t_rows t) with
            | None => ret RNone
            | Some r => set_tbl k {| t_rows := assoc_set id (set_nth c v r) (t_rows t); t_next := t_next t |} ;;; ret RNone
            end).
Proof.
  intros s Hs. unfold bind, gets. cbn. destruct (assoc id (t_rows (tbl s k))) as [r|] eqn:Ea; [|exact Hs].
  apply (TI_set k _ s Hs). eapply twf_update; [apply Hs|exact Ea|].
  rewrite length_set_nth. apply assoc_In in Ea. destruct (Hs k) as [H _]. apply H in Ea. tauto.
Qed.
Lemma kt_raw_delete k id :
  keeps TI (t <- gets (fun s => tbl s k) ;; set_tbl k {| t_rows := assoc_remove id (t_rows t); t_next := t_next t |} ;;; ret RNone).
Proof.
  intros s Hs. unfold bind, gets. cbn. apply (TI_set k _ s Hs). apply twf_delete. apply Hs.
Qed.

Lemma kt_run_op fuel : forall o, keeps TI (run_op cfg fuel o).
Proof.
  induction fuel as [|f IH]; intros o; destruct o; cbn [run_op];
    try (apply kt_hold_or_none); try (apply kt_or_empty_slot);
    try apply kt_raw_update; try apply kt_raw_delete; kt;
    try (exact (kt_slots _)); try (exact (kt_caches _)).
Qed.

Theorem step_keeps_TI s o : TI s -> TI (snd (step cfg s o)).
Proof.
  intros Hs. unfold step. pose proof (kt_run_op 2 o (with_fault (with_log s []) None)) as H.
  specialize (H Hs). destruct (run_op cfg 2 o _) as [[a|e] s']; exact H.
Qed.

Theorem reachable_TI ops : TI (run cfg ops).
Proof.
  unfold run. pose proof TI_init as H.
  revert H. generalize init. induction ops as [|o r IH]; intros s Hs; cbn [fold_left]; [exact Hs|].
  apply IH. now apply step_keeps_TI.
Qed.
End WithConfig.
