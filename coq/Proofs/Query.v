(* Top level of the C11 development: the statements that Props/C11.v exports. *)
From Coq Require Import List ZArith NArith Bool Lia Permutation Sorted.
From Lib Require Import PyLite QueryPy.
From Gen Require Import Query.
From Model Require Import Query.
From Proofs Require Import QueryChar QueryOrder QuerySort QueryWhere QueryAgg QueryLookup.
Import ListNotations.
Open Scope Z_scope.

(* ---------------------------------------------------------------- select / filter / orderBy / reversed / distinct *)
Lemma select_general dflt s0 ms rows out :
  ids_unique rows -> select_accepts (sr_sql dflt (sr_calls s0 ms)) rows out ->
  exists ks, resolve_order (q_order (sr_sql dflt (sr_calls s0 ms))) = OKeys ks /\
             Permutation out (filter (fun x => holds (sr_clause s0) x && forallb (fun f => wsat f x) (filters_of ms)) rows) /\
             ordered ks out.
Proof.
  intros Hu [ks [Hk [Hp Ho]]]. exists ks. split; [exact Hk|]. split; [|exact Ho].
  unfold sr_sql in Hp. rewrite distinct_is_identity in Hp by exact Hu.
  replace (filter _ rows) with (matching (sr_clause (sr_calls s0 ms)) rows); [exact Hp|].
  unfold matching. apply filter_ext. intros r. apply holds_chain.
Qed.

Theorem select_filter dflt w o rv d ms rows out :
  ids_unique rows ->
  select_accepts (sr_sql dflt (sr_calls (mksr (emit_where w) o rv d) ms)) rows out ->
  Permutation out (filter (chain_sat w ms) rows).
Proof.
  intros Hu Ha. destruct (select_general _ _ _ _ _ Hu Ha) as [ks [_ [Hp _]]].
  eapply perm_trans; [exact Hp|]. cbn [sr_clause].
  replace (filter (chain_sat w ms) rows) with
      (filter (fun x => holds (emit_where w) x && forallb (fun f => wsat f x) (filters_of ms)) rows);
    [apply Permutation_refl|].
  apply filter_ext. intros r. unfold chain_sat. rewrite holds_emit. reflexivity.
Qed.

Theorem select_order dflt w o rv d ms rows out r :
  spec_order colnames dflt (spec_given o ms) (spec_nrev rv ms) = Some r ->
  ids_unique rows ->
  select_accepts (sr_sql dflt (sr_calls (mksr (emit_where w) o rv d) ms)) rows out ->
  q_order (sr_sql dflt (sr_calls (mksr (emit_where w) o rv d) ms)) = option_map req_terms r /\
  exists ks, resolve_order (option_map req_terms r) = OKeys ks /\
             Permutation out (filter (chain_sat w ms) rows) /\ ordered ks out.
Proof.
  intros Hs Hu Ha.
  pose proof (chain_order_spec dflt (mksr (emit_where w) o rv d) ms r Hs) as Hq.
  split; [exact Hq|].
  destruct (select_general _ _ _ _ _ Hu Ha) as [ks [Hk [_ Ho]]].
  exists ks. rewrite <- Hq. split; [exact Hk|]. split; [|exact Ho].
  exact (select_filter _ _ _ _ _ _ _ _ Hu Ha).
Qed.

(* selectBy as the source, with the class's default order *)
Theorem selectby_select dflt kws ms rows out r :
  clause_leftover kws = false ->
  spec_order colnames dflt (spec_given BNoDefault ms) (spec_nrev false ms) = Some r ->
  ids_unique rows ->
  forall s0, sr_make (SSelectBy kws) = Some s0 ->
  select_accepts (sr_sql dflt (sr_calls s0 ms)) rows out ->
  exists ks, resolve_order (option_map req_terms r) = OKeys ks /\
             Permutation out (filter (fun x => kw_sat kws x && forallb (fun f => wsat f x) (filters_of ms)) rows) /\
             ordered ks out.
Proof.
  intros Hl Hs Hu s0 Hm Ha. unfold sr_make in Hm.
  destruct (selectby_where kws) as [w|] eqn:Hw; [|discriminate]. cbn [option_map] in Hm. inversion Hm; subst. clear Hm.
  pose proof (chain_order_spec dflt (mksr w BNoDefault false false) ms r Hs) as Hq.
  destruct (select_general _ _ _ _ _ Hu Ha) as [ks [Hk [Hp Ho]]].
  exists ks. rewrite <- Hq. split; [exact Hk|]. split; [|exact Ho].
  eapply perm_trans; [exact Hp|]. cbn [sr_clause].
  replace (filter (fun x => holds w x && forallb (fun f => wsat f x) (filters_of ms)) rows)
    with (filter (fun x => kw_sat kws x && forallb (fun f => wsat f x) (filters_of ms)) rows);
    [apply Permutation_refl|].
  apply filter_ext. intros x. rewrite (selectby_sat _ _ x Hw). reflexivity.
Qed.

Theorem selectby_type_error kws : clause_leftover kws = true -> sr_make (SSelectBy kws) = None.
Proof. intros H. unfold sr_make, selectby_where. rewrite H. reflexivity. Qed.

(* an ORDER BY the engine rejects: no list is accepted *)
Theorem rejected_no_result q rows out : select_rejected q -> ~ select_accepts q rows out.
Proof. unfold select_rejected. intros H [ks [Hk _]]. rewrite H in Hk. discriminate. Qed.

(* distinct() changes nothing on a single-table select *)
Theorem distinct_same_results dflt s ms rows out :
  ids_unique rows ->
  (select_accepts (sr_sql dflt (sr_calls s (ms ++ [MDistinct]))) rows out <->
   select_accepts (sr_sql dflt (sr_calls s ms)) rows out).
Proof.
  intros Hu. unfold sr_calls. rewrite fold_left_app. cbn [fold_left sr_call].
  fold (sr_calls s ms). set (t := sr_calls s ms).
  unfold select_accepts, sr_sql. cbn [sr_clause sr_given sr_rev sr_dist q_order].
  rewrite !distinct_is_identity by exact Hu. reflexivity.
Qed.

(* ---------------------------------------------------------------- aggregates *)
Definition final4 (f : aggf) (o : Z * Z * option Z * option Z) : aggres :=
  let '(c, s, mn, mx) := o in
  match f with
  | FCOUNT => AInt c
  | FSUM => if c =? 0 then ANull else AInt s
  | FMIN => match mn with None => ANull | Some m => AInt m end
  | FMAX => match mx with None => ANull | Some m => AInt m end
  | FAVG => if c =? 0 then ANull else ARat s c
  end.
Lemma agg_final4 f a : agg_final f a = final4 f (obs4 a).
Proof. destruct f; reflexivity. Qed.
Lemma agg_exec_closed f d v : agg_exec f d v = final4 f (closed (0, 0, None, None) (distinct_vals d v)).
Proof. unfold agg_exec. rewrite agg_final4, agg_obs. reflexivity. Qed.

Lemma nonnull_perm v v' : Permutation v v' -> Permutation (nonnull v) (nonnull v').
Proof.
  induction 1 as [|x l l' _ IH|x y l|l1 l2 l3 _ IH1 _ IH2].
  - apply perm_nil.
  - destruct x; cbn [nonnull]; [apply perm_skip|]; exact IH.
  - destruct x, y; cbn [nonnull]; try apply Permutation_refl. apply perm_swap.
  - eapply perm_trans; eassumption.
Qed.
Lemma zsum_perm l l' : Permutation l l' -> zsum l = zsum l'.
Proof. induction 1; cbn [zsum fold_right] in *; unfold zsum in *; lia. Qed.
Lemma lmin_perm l l' : Permutation l l' -> lmin l = lmin l'.
Proof.
  intros H. pose proof (lmin_spec l) as A. pose proof (lmin_spec l') as B.
  destruct (lmin l) as [m|], (lmin l') as [m'|].
  - destruct A as [A1 A2], B as [B1 B2]. f_equal.
    pose proof (A2 m' (Permutation_in _ (Permutation_sym H) B1)).
    pose proof (B2 m (Permutation_in _ H A1)). lia.
  - subst. apply Permutation_sym, Permutation_nil in H. subst. destruct A as [[] _].
  - subst. apply Permutation_nil in H. subst. destruct B as [[] _].
  - reflexivity.
Qed.
Lemma lmax_perm l l' : Permutation l l' -> lmax l = lmax l'.
Proof.
  intros H. pose proof (lmax_spec l) as A. pose proof (lmax_spec l') as B.
  destruct (lmax l) as [m|], (lmax l') as [m'|].
  - destruct A as [A1 A2], B as [B1 B2]. f_equal.
    pose proof (A2 m' (Permutation_in _ (Permutation_sym H) B1)).
    pose proof (B2 m (Permutation_in _ H A1)). lia.
  - subst. apply Permutation_sym, Permutation_nil in H. subst. destruct A as [[] _].
  - subst. apply Permutation_nil in H. subst. destruct B as [[] _].
  - reflexivity.
Qed.
Lemma distinct_vals_perm d v v' : Permutation v v' -> Permutation (distinct_vals d v) (distinct_vals d v').
Proof.
  intros H. apply nonnull_perm in H. unfold distinct_vals. destruct d; [|exact H].
  destruct (zdedup_spec (nonnull v)) as [N1 I1]. destruct (zdedup_spec (nonnull v')) as [N2 I2].
  apply NoDup_Permutation; [exact N1|exact N2|]. intros x. rewrite I1, I2.
  split; intros Hx; [exact (Permutation_in _ H Hx)|exact (Permutation_in _ (Permutation_sym H) Hx)].
Qed.

(* an aggregate does not depend on the order of its input *)
Theorem agg_exec_perm f d v v' : Permutation v v' -> agg_exec f d v = agg_exec f d v'.
Proof.
  intros H. rewrite !agg_exec_closed. apply (distinct_vals_perm d) in H.
  unfold closed. unfold zlength. rewrite (Permutation_length H), (zsum_perm _ _ H), (lmin_perm _ _ H), (lmax_perm _ _ H).
  reflexivity.
Qed.

Lemma run_agg_matching s win m attr c rows :
  resolve_attr attr = Some c ->
  run_agg s win m attr rows = OAgg (agg_exec (meth_f m) (sr_dist s) (map (getc c) (matching (sr_clause s) rows))).
Proof.
  intros Hc. unfold run_agg. rewrite agg_table_char, Hc, agg_distinct_char. reflexivity.
Qed.

(* sum/min/max/avg of an unsliced select aggregate the rows list(select) returns *)
Theorem agg_of_list dflt s win m attr c rows out :
  resolve_attr attr = Some c -> ids_unique rows ->
  select_accepts (sr_sql dflt s) rows out ->
  run_agg s win m attr rows = OAgg (agg_exec (meth_f m) (sr_dist s) (map (getc c) out)).
Proof.
  intros Hc Hu [ks [_ [Hp _]]]. rewrite (run_agg_matching _ _ _ _ _ _ Hc). f_equal.
  apply agg_exec_perm. apply Permutation_map. apply Permutation_sym.
  unfold sr_sql in Hp. rewrite distinct_is_identity in Hp by exact Hu. exact Hp.
Qed.

Theorem agg_unknown_column s win m attr rows :
  resolve_attr attr = None -> run_agg s win m attr rows = ODbError.
Proof. intros H. unfold run_agg. rewrite agg_table_char, H. reflexivity. Qed.

(* ---------------------------------------------------------------- the window: full statements and their refutation *)
Definition agg_full : Prop :=
  forall dflt s a e m attr c rows out,
    0 <= a -> (forall x, e = Some x -> a <= x) -> ids_unique rows -> resolve_attr attr = Some c ->
    select_accepts (sr_sql dflt s) rows out ->
    run_agg s (VInt a, pv_of_opt e) m attr rows = OAgg (agg_exec (meth_f m) (sr_dist s) (map (getc c) (window a e out))).

Definition w_row1 : row := mkrow 1 (Some 1) None None None None.
Definition w_row2 : row := mkrow 2 (Some 1) None None None None.
Definition w_sel : sr := mksr STrue (BVal (OStr n_id)) false false.

Theorem agg_window_refuted :
  exists dflt s a e m attr c rows out,
    0 <= a /\ (forall x, e = Some x -> a <= x) /\ ids_unique rows /\ resolve_attr attr = Some c /\
    select_accepts (sr_sql dflt s) rows out /\
    run_agg s (VInt a, pv_of_opt e) m attr rows <> OAgg (agg_exec (meth_f m) (sr_dist s) (map (getc c) (window a e out))).
Proof.
  exists BNoDefault, w_sel, 0, (Some 1), MSum, (RRaw n_a), CA, [w_row1; w_row2], [w_row1; w_row2].
  split; [lia|]. split; [intros x H; inversion H; lia|]. split.
  - unfold ids_unique. cbn. repeat constructor; cbn; intuition discriminate.
  - split; [reflexivity|]. split; [apply select_check_sound; vm_compute; reflexivity|]. vm_compute. discriminate.
Qed.

Lemma window_all {A} (l : list A) : window 0 None l = l.
Proof. reflexivity. Qed.

(* an unsliced select: count() is the length of the list it returns *)
Theorem count_of_list dflt s win rows out :
  sliced win = false -> ids_unique rows -> select_accepts (sr_sql dflt s) rows out ->
  run_count s win rows = OInt (zlength out).
Proof.
  intros E Hu Ha. destruct (unsliced_shape _ E) as [H1 H2]. destruct win as [ws we]. cbn [fst snd] in *. subst we.
  eapply count_matches_list; eassumption.
Qed.

(* guard: no window (start falsy, end absent) *)
Theorem agg_partial dflt s ws m attr c rows out :
  falsy ws -> ids_unique rows -> resolve_attr attr = Some c ->
  select_accepts (sr_sql dflt s) rows out ->
  run_agg s (ws, VNone) m attr rows = OAgg (agg_exec (meth_f m) (sr_dist s) (map (getc c) (window 0 None out))).
Proof. intros _ Hu Hc Ha. rewrite window_all. eapply agg_of_list; eassumption. Qed.

(* what the window does to aggregates in the model: nothing *)
Theorem agg_ignores_window s win win' m attr rows : run_agg s win m attr rows = run_agg s win' m attr rows.
Proof. reflexivity. Qed.

(* ---------------------------------------------------------------- sum / min / max / avg over the list *)
Theorem sum_of_list dflt s win attr c rows out :
  resolve_attr attr = Some c -> ids_unique rows -> select_accepts (sr_sql dflt s) rows out ->
  run_agg s win MSum attr rows =
  OAgg (match distinct_vals (sr_dist s) (map (getc c) out) with [] => ANull | l => AInt (zsum l) end).
Proof. intros Hc Hu Ha. rewrite (agg_of_list _ _ _ _ _ _ _ _ Hc Hu Ha). cbn [meth_f]. rewrite agg_sum. reflexivity. Qed.

Theorem avg_of_list dflt s win attr c rows out :
  resolve_attr attr = Some c -> ids_unique rows -> select_accepts (sr_sql dflt s) rows out ->
  run_agg s win MAvg attr rows =
  OAgg (match distinct_vals (sr_dist s) (map (getc c) out) with [] => ANull | l => ARat (zsum l) (zlength l) end).
Proof. intros Hc Hu Ha. rewrite (agg_of_list _ _ _ _ _ _ _ _ Hc Hu Ha). cbn [meth_f]. rewrite agg_avg. reflexivity. Qed.

Theorem min_of_list dflt s win attr c rows out :
  resolve_attr attr = Some c -> ids_unique rows -> select_accepts (sr_sql dflt s) rows out ->
  exists a, run_agg s win MMin attr rows = OAgg a /\
            match a with
            | ANull => distinct_vals (sr_dist s) (map (getc c) out) = []
            | AInt m => is_min m (distinct_vals (sr_dist s) (map (getc c) out))
            | ARat _ _ => False
            end.
Proof.
  intros Hc Hu Ha. rewrite (agg_of_list _ _ _ _ _ _ _ _ Hc Hu Ha). cbn [meth_f].
  eexists. split; [reflexivity|]. apply agg_min.
Qed.

Theorem max_of_list dflt s win attr c rows out :
  resolve_attr attr = Some c -> ids_unique rows -> select_accepts (sr_sql dflt s) rows out ->
  exists a, run_agg s win MMax attr rows = OAgg a /\
            match a with
            | ANull => distinct_vals (sr_dist s) (map (getc c) out) = []
            | AInt m => is_max m (distinct_vals (sr_dist s) (map (getc c) out))
            | ARat _ _ => False
            end.
Proof.
  intros Hc Hu Ha. rewrite (agg_of_list _ _ _ _ _ _ _ _ Hc Hu Ha). cbn [meth_f].
  eexists. split; [reflexivity|]. apply agg_max.
Qed.

(* a non-distinct select aggregates the plain non-NULL values; a distinct one their set *)
Theorem distinct_vals_plain vals : distinct_vals false vals = nonnull vals.
Proof. reflexivity. Qed.
Theorem distinct_vals_set vals :
  NoDup (distinct_vals true vals) /\ forall x, In x (distinct_vals true vals) <-> In x (nonnull vals).
Proof. apply zdedup_spec. Qed.
