(* C19: list-level facts about traces: what the pieces of a trace
   (signal deliveries, callback runs, writes) contain and how the trace
   predicates of Model/Events.v distribute over concatenation. *)
From Coq Require Import List ZArith NArith Bool Lia.
From Model Require Import Events.
Import ListNotations.
Open Scope Z_scope.

Lemma sig_eqb_refl s : sig_eqb s s = true.
Proof. destruct s; reflexivity. Qed.
Lemma sig_eqb_eq a b : sig_eqb a b = true <-> a = b.
Proof. destruct a, b; simpl; split; intro H; try reflexivity; try discriminate. Qed.
Lemma sig_eqb_sym a b : sig_eqb a b = sig_eqb b a.
Proof. destruct a, b; reflexivity. Qed.
Lemma col_eqb_refl c : col_eqb c c = true.
Proof. destruct c; reflexivity. Qed.
Lemma col_eqb_eq a b : col_eqb a b = true <-> a = b.
Proof. destruct a, b; simpl; split; intro H; try reflexivity; try discriminate. Qed.

(* ------------------------------------------------------------------ count *)
Lemma count_app {A} (f : A -> bool) a b : count f (a ++ b) = (count f a + count f b)%nat.
Proof. unfold count. rewrite filter_app, app_length. reflexivity. Qed.
Lemma count_nil {A} (f : A -> bool) : count f [] = 0%nat.
Proof. reflexivity. Qed.
Lemma count_none {A} (f : A -> bool) l : existsb f l = false -> count f l = 0%nat.
Proof.
  unfold count. induction l as [|x r IH]; simpl; [reflexivity|].
  intros H. apply orb_false_iff in H. destruct H as [H1 H2]. rewrite H1. auto.
Qed.

(* ------------------------------------------------------------------ pieces *)
Section Pieces.
Context {K : Type}.

Lemma exists_sig_events (f : ev K -> bool) s (k : K) id L kw :
  (forall kw li, f (ESig s k id kw li) = false) -> existsb f (sig_events s k id L kw) = false.
Proof.
  intros H. revert kw. induction L as [|l r IH]; intros kw; simpl; [reflexivity|].
  rewrite H, IH. reflexivity.
Qed.
Lemma exists_run_posts (f : ev K -> bool) s (k : K) id ts :
  (forall t, f (EPost s t k id) = false) -> existsb f (run_posts s k id ts) = false.
Proof.
  intros H. unfold run_posts. induction ts as [|t r IH]; simpl; [reflexivity|]. rewrite H, IH. reflexivity.
Qed.

Lemma no_write_sig_events s (k : K) id L kw : existsb is_write (sig_events s k id L kw) = false.
Proof. apply exists_sig_events. reflexivity. Qed.
Lemma no_write_run_posts s (k : K) id ts : existsb is_write (run_posts s k id ts) = false.
Proof. apply exists_run_posts. reflexivity. Qed.
Lemma no_insert_sig_events s (k : K) id L kw : existsb is_insert (sig_events s k id L kw) = false.
Proof. apply exists_sig_events. reflexivity. Qed.
Lemma no_insert_run_posts s (k : K) id ts : existsb is_insert (run_posts s k id ts) = false.
Proof. apply exists_run_posts. reflexivity. Qed.
Lemma no_sig_run_posts s' s (k : K) id ts : existsb (is_sig s') (run_posts s k id ts) = false.
Proof. apply exists_run_posts. reflexivity. Qed.
Lemma no_other_sig_events s' s (k : K) id L kw :
  sig_eqb s' s = false -> existsb (is_sig s') (sig_events s k id L kw) = false.
Proof. intros H. apply exists_sig_events. intros. simpl. exact H. Qed.

Lemma no_write_after_part tab s (k : K) id : existsb is_write (after_part tab s k id) = false.
Proof. unfold after_part. rewrite existsb_app, no_write_sig_events, no_write_run_posts. reflexivity. Qed.
Lemma no_insert_after_part tab s (k : K) id : existsb is_insert (after_part tab s k id) = false.
Proof. unfold after_part. rewrite existsb_app, no_insert_sig_events, no_insert_run_posts. reflexivity. Qed.
Lemma no_other_sig_after_part tab s' s (k : K) id :
  sig_eqb s' s = false -> existsb (is_sig s') (after_part tab s k id) = false.
Proof.
  intros H. unfold after_part. rewrite existsb_app, (no_other_sig_events _ _ _ _ _ _ H), no_sig_run_posts. reflexivity.
Qed.

(* ---------------------------------------------------------------- counting deliveries *)
Lemma count_sig_events s' i s (k : K) id L kw :
  count (is_sig_to s' i) (sig_events s k id L kw)
  = if sig_eqb s' s then count (fun p : Z * act => Z.eqb i (fst p)) L else 0%nat.
Proof.
  revert kw. induction L as [|l r IH]; intros kw.
  - simpl. destruct (sig_eqb s' s); reflexivity.
  - simpl sig_events. unfold count in *. simpl filter.
    destruct (sig_eqb s' s) eqn:E; simpl.
    + destruct (Z.eqb i (fst l)); simpl; rewrite IH; reflexivity.
    + rewrite IH. reflexivity.
Qed.
Lemma count_run_posts s' i s (k : K) id ts : count (is_sig_to s' i) (run_posts s k id ts) = 0%nat.
Proof. apply count_none. apply exists_run_posts. reflexivity. Qed.
Lemma count_after_part s' i tab s (k : K) id :
  count (is_sig_to s' i) (after_part tab s k id)
  = if sig_eqb s' s then count (fun p : Z * act => Z.eqb i (fst p)) (sel s tab) else 0%nat.
Proof.
  unfold after_part. rewrite count_app, count_sig_events, count_run_posts. lia.
Qed.
Lemma count_write s' i (w : write K) : count (is_sig_to s' i) [EWrite w] = 0%nat.
Proof. reflexivity. Qed.

(* ---------------------------------------------------------------- posts_last *)
Definition is_post (e : ev K) : bool := match e with EPost _ _ _ _ => true | _ => false end.

Lemma posts_last_app_nopost (a b : list (ev K)) :
  existsb is_post a = false -> posts_last (a ++ b) = posts_last b.
Proof.
  induction a as [|e r IH]; simpl; [reflexivity|].
  intros H. apply orb_false_iff in H. destruct H as [H1 H2].
  destruct e; simpl in H1; try discriminate; rewrite (IH H2); reflexivity.
Qed.
Lemma no_post_sig_events s (k : K) id L kw : existsb is_post (sig_events s k id L kw) = false.
Proof. apply exists_sig_events. reflexivity. Qed.

Lemma posts_last_run_posts s (k : K) id ts (b : list (ev K)) :
  existsb is_write b = false -> existsb (is_sig s) b = false -> posts_last b = true ->
  posts_last (run_posts s k id ts ++ b) = true.
Proof.
  intros Hw Hs Hb. induction ts as [|t r IH]; simpl; [exact Hb|].
  fold (run_posts s k id r). rewrite IH.
  rewrite !existsb_app, no_write_run_posts, no_sig_run_posts, Hw, Hs. reflexivity.
Qed.

Lemma posts_last_after_part tab s (k : K) id : posts_last (after_part tab s k id) = true.
Proof.
  unfold after_part. rewrite posts_last_app_nopost by apply no_post_sig_events.
  rewrite <- (app_nil_r (run_posts s k id _)). apply posts_last_run_posts; reflexivity.
Qed.

(* ---------------------------------------------------------------- ordered_around *)
Lemma ordered_around_app sb sa (a b : list (ev K)) :
  ordered_around sb sa (a ++ b)
  = ordered_around sb sa a && ordered_around sb sa b
    && (negb (existsb is_write a) || negb (existsb (is_sig sb) b))
    && (negb (existsb (is_sig sa) a) || negb (existsb is_write b)).
Proof.
  induction a as [|e r IH]; simpl.
  - rewrite !andb_true_r. reflexivity.
  - rewrite IH, !existsb_app.
    destruct (is_write e), (is_sig sa e), (existsb (is_sig sb) r), (existsb is_write r),
      (existsb (is_sig sb) b), (existsb is_write b), (ordered_around sb sa r), (ordered_around sb sa b),
      (existsb is_write r), (existsb (is_sig sa) r); reflexivity.
Qed.
Lemma ordered_around_nowrite sb sa (a : list (ev K)) :
  existsb is_write a = false -> ordered_around sb sa a = true.
Proof.
  induction a as [|e r IH]; simpl; [reflexivity|].
  intros H. apply orb_false_iff in H. destruct H as [H1 H2]. rewrite H1, H2, (IH H2).
  destruct (is_sig sa e); reflexivity.
Qed.

(* ---------------------------------------------------------------- created_after_inserts *)
Lemma cai_no_insert (a : list (ev K)) : existsb is_insert a = false -> created_after_inserts a = true.
Proof.
  induction a as [|e r IH]; simpl; [reflexivity|].
  intros H. apply orb_false_iff in H. destruct H as [H1 H2]. rewrite H2, (IH H2).
  destruct (is_sig SCreated e); reflexivity.
Qed.
Lemma cai_app (a b : list (ev K)) :
  existsb (is_sig SCreated) a = false -> created_after_inserts (a ++ b) = created_after_inserts b.
Proof.
  induction a as [|e r IH]; simpl; [reflexivity|].
  intros H. apply orb_false_iff in H. destruct H as [H1 H2]. rewrite H1, (IH H2). reflexivity.
Qed.
Lemma inserts_of_app (a b : list (ev K)) : inserts_of (a ++ b) = inserts_of a ++ inserts_of b.
Proof. unfold inserts_of. apply flat_map_app. Qed.
Lemma inserts_of_none (a : list (ev K)) : existsb is_insert a = false -> inserts_of a = [].
Proof.
  unfold inserts_of. induction a as [|e r IH]; simpl; [reflexivity|].
  intros H. apply orb_false_iff in H. destruct H as [H1 H2]. rewrite (IH H2).
  destruct e as [| |w]; try reflexivity. destruct w; simpl in H1; try discriminate; reflexivity.
Qed.
End Pieces.

(* ------------------------------------------------------------------ numbering *)
Lemma number_fst_ge {A} (l : list A) : forall i p, In p (number i l) -> i <= fst p.
Proof.
  induction l as [|x r IH]; intros i p H; simpl in H; [contradiction|].
  destruct H as [H|H]; [subst; simpl; lia|]. apply IH in H. lia.
Qed.

Lemma count_sel_number_lt s (l : list listener) i j :
  j < i -> count (fun p : Z * act => Z.eqb j (fst p)) (sel s (number i l)) = 0%nat.
Proof.
  revert i. induction l as [|x r IH]; intros i H; [reflexivity|].
  unfold sel. simpl. fold (sel s (number (i + 1) r)). rewrite count_app.
  rewrite IH by lia.
  destruct (sig_eqb s (fst x)); simpl; [|reflexivity].
  unfold count. simpl. destruct (Z.eqb j i) eqn:E; [apply Z.eqb_eq in E; lia|reflexivity].
Qed.

(* a registered listener is connected exactly once for its signal *)
Lemma count_sel_number s a (l : list listener) : forall i j,
  In (j, (s, a)) (number i l) -> count (fun p : Z * act => Z.eqb j (fst p)) (sel s (number i l)) = 1%nat.
Proof.
  induction l as [|x r IH]; intros i j H; simpl in H; [contradiction|].
  unfold sel. simpl. fold (sel s (number (i + 1) r)). rewrite count_app.
  destruct H as [H|H].
  - inversion H; subst. simpl. rewrite sig_eqb_refl. unfold count at 1. simpl. rewrite Z.eqb_refl. simpl.
    rewrite count_sel_number_lt by lia. reflexivity.
  - pose proof (number_fst_ge _ _ _ H) as Hge. simpl in Hge.
    rewrite (IH _ _ H).
    destruct (sig_eqb s (fst x)); simpl; [|reflexivity].
    unfold count. simpl. destruct (Z.eqb j i) eqn:E; [apply Z.eqb_eq in E; lia|reflexivity].
Qed.

(* nobody else is connected under that number *)
Lemma count_sel_number_other s (l : list listener) : forall i j,
  (forall a, ~ In (j, (s, a)) (number i l)) -> count (fun p : Z * act => Z.eqb j (fst p)) (sel s (number i l)) = 0%nat.
Proof.
  induction l as [|x r IH]; intros i j H; [reflexivity|].
  unfold sel. simpl. fold (sel s (number (i + 1) r)). rewrite count_app.
  rewrite IH by (intros a Ha; apply (H a); right; exact Ha).
  destruct (sig_eqb s (fst x)) eqn:E; simpl; [|reflexivity].
  unfold count. simpl. destruct (Z.eqb j i) eqn:E2; [|reflexivity].
  apply Z.eqb_eq in E2. apply sig_eqb_eq in E. subst. exfalso. apply (H (snd x)). left. destruct x; reflexivity.
Qed.

(* ------------------------------------------------------------------ phases in which nobody raises *)
Lemma raiser_none_cut fired L : raiser fired L = None -> cut fired L = L.
Proof.
  induction L as [|l r IH]; simpl; [reflexivity|].
  destruct (is_raise (snd l) && live fired (fst l)); [discriminate|]. intros H. rewrite (IH H). reflexivity.
Qed.
Lemma praiser_none_pcut fired items : praiser fired items = None -> pcut fired items = items.
Proof.
  induction items as [|it r IH]; simpl; [reflexivity|].
  destruct (snd it && live fired (snd (fst it))); [discriminate|]. intros H. rewrite (IH H). reflexivity.
Qed.

Section Quiet.
Context {K : Type}.

Lemma posts_x_quiet fired s (k : K) id L :
  p_raised (posts_x fired s k id L) = false ->
  p_tr (posts_x fired s k id L) = run_posts s k id (posts s L) /\ p_fired (posts_x fired s k id L) = fired.
Proof.
  unfold posts_x. cbn [p_raised p_tr p_fired].
  destruct (praiser fired (post_items s L)) eqn:E; [discriminate|]. intros _.
  rewrite (praiser_none_pcut _ _ E). split; reflexivity.
Qed.

Lemma after_x_quiet tab fired s (k : K) id :
  p_raised (after_x tab fired s k id) = false ->
  p_tr (after_x tab fired s k id) = after_part tab s k id /\ p_fired (after_x tab fired s k id) = fired.
Proof.
  unfold after_x, after_part. destruct (raiser fired (sel s tab)) eqn:E; cbn [p_raised p_tr p_fired]; [discriminate|].
  intros H. destruct (posts_x_quiet fired s k id (sel s tab) H) as [H1 H2]. rewrite H1, H2. split; reflexivity.
Qed.

(* whoever raises, a phase of signal s delivers only s *)
Lemma no_other_sig_posts_x s' fired s (k : K) id L : existsb (is_sig s') (p_tr (posts_x fired s k id L)) = false.
Proof. unfold posts_x. cbn [p_tr]. apply no_sig_run_posts. Qed.
Lemma no_other_sig_after_x tab s' fired s (k : K) id :
  sig_eqb s' s = false -> existsb (is_sig s') (p_tr (after_x tab fired s k id)) = false.
Proof.
  intros H. unfold after_x. destruct (raiser fired (sel s tab)); cbn [p_tr].
  - apply no_other_sig_events. exact H.
  - rewrite existsb_app, (no_other_sig_events _ _ _ _ _ _ H), no_other_sig_posts_x. reflexivity.
Qed.
End Quiet.
