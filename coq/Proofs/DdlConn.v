(* C14: a schema call with a per-call connection works on the addressed database only. *)
From Coq Require Import List ZArith NArith Bool String.
From Model Require Import Ddl DdlConn.
From Proofs Require Import DdlBase DdlState.
Import ListNotations.
Open Scope list_scope.
Open Scope N_scope.

Lemma connid_eqb_eq : forall a b, connid_eqb a b = true <-> a = b.
Proof. intros [] []; cbn; split; intro H; try reflexivity; try discriminate. Qed.
Lemma connid_eqb_refl : forall a, connid_eqb a a = true.
Proof. intros []; reflexivity. Qed.
Lemma connid_eqb_neq : forall a b, connid_eqb a b = false <-> a <> b.
Proof. intros [] []; cbn; split; intro H; try reflexivity; try discriminate; try congruence; exfalso; apply H; reflexivity. Qed.

Lemma get_put_same : forall c db w, get c (put c db w) = db.
Proof. intros [] db w; reflexivity. Qed.
Lemma get_put_other : forall c c' db w, c' <> c -> get c' (put c db w) = get c' w.
Proof. intros [] [] db w H; try reflexivity; exfalso; apply H; reflexivity. Qed.
Lemma put_put : forall c db db' w, put c db (put c db' w) = put c db w.
Proof. intros [] db db' w; reflexivity. Qed.
Lemma put_get : forall c w, put c (get c w) w = w.
Proof. intros [] [h s]; reflexivity. Qed.

(* one call: the addressed database makes exactly the single-database step, with its error
   flag and answer; every other database is what it was *)
Lemma world_step_spec : forall cc a b cl w,
  let c := route cc (c_arg cl) in
  let r := sch_step (call_decl a b cl) (c_op cl) (get c w) in
  get c (fst (fst (world_step cc a b cl w))) = fst (fst r)
  /\ snd (fst (world_step cc a b cl w)) = snd (fst r)
  /\ snd (world_step cc a b cl w) = snd r
  /\ forall c', c' <> c -> get c' (fst (fst (world_step cc a b cl w))) = get c' w.
Proof.
  intros cc a b cl w c r. unfold world_step. cbn [fst snd]. fold c. fold r.
  repeat split.
  - apply get_put_same.
  - intros c' H. apply get_put_other. exact H.
Qed.

(* a history: each database sees exactly the calls addressed to it, in order *)
Lemma world_run_projection : forall cc a b cls w c,
  get c (world_run cc a b cls w) = db_run a b (routed_to cc c cls) (get c w).
Proof.
  intros cc a b cls. induction cls as [|cl r IH]; intros w c; [reflexivity|].
  cbn [world_run routed_to filter]. rewrite IH. fold (routed_to cc c r).
  unfold world_step. cbn [fst snd].
  destruct (connid_eqb (route cc (c_arg cl)) c) eqn:E.
  - apply connid_eqb_eq in E. subst c. rewrite get_put_same. reflexivity.
  - apply connid_eqb_neq in E. rewrite get_put_other by congruence. reflexivity.
Qed.

(* a database no call of the history addresses is left exactly as it was *)
Lemma world_run_frame : forall cc a b cls w c,
  (forall cl, In cl cls -> route cc (c_arg cl) <> c) ->
  get c (world_run cc a b cls w) = get c w.
Proof.
  intros cc a b cls w c H. rewrite world_run_projection.
  replace (routed_to cc c cls) with (@nil call); [reflexivity|].
  symmetry. unfold routed_to. induction cls as [|cl r IH]; [reflexivity|].
  cbn [filter]. destruct (connid_eqb (route cc (c_arg cl)) c) eqn:E.
  - apply connid_eqb_eq in E. exfalso. apply (H cl); [left; reflexivity|exact E].
  - apply IH. intros cl' Hin. apply H. right. exact Hin.
Qed.

(* with a connection= argument the class's own connection plays no part *)
Lemma route_arg : forall cc cc' c, route cc (Some c) = route cc' (Some c).
Proof. reflexivity. Qed.
Lemma world_step_arg_any_binding : forall cc cc' a b (cl : call) w, c_arg cl <> None ->
  world_step cc a b cl w = world_step cc' a b cl w.
Proof.
  intros cc cc' a b [[c|] who op] w H; [reflexivity|]. exfalso. apply H. reflexivity.
Qed.

(* create-if-missing / drop-if-present through any connection argument: the second call changes
   no database and does not fail *)
Lemma world_drop_idem : forall cc a b arg who dj dj' w,
  let w1 := fst (fst (world_step cc a b {| c_arg := arg; c_who := who; c_op := ODrop true dj |} w)) in
  world_step cc a b {| c_arg := arg; c_who := who; c_op := ODrop true dj' |} w1 = (w1, false, None).
Proof.
  intros cc a b arg who dj dj' w. unfold world_step. cbn [fst snd c_arg c_who c_op call_decl sch_step].
  rewrite get_put_same. rewrite drop_full_idem. cbn [fst snd]. rewrite put_put. reflexivity.
Qed.

Lemma world_create_idem : forall cc (a b : decl) arg (who : bool) cj ci cj' ci' w,
  case_clash_free (get (route cc arg) w) (table_of (if who then a else b)) = true ->
  let w1 := fst (fst (world_step cc a b {| c_arg := arg; c_who := who; c_op := OCreate true cj ci |} w)) in
  world_step cc a b {| c_arg := arg; c_who := who; c_op := OCreate true cj' ci' |} w1 = (w1, false, None).
Proof.
  intros cc a b arg who cj ci cj' ci' w H. unfold world_step. cbn [fst snd c_arg c_who c_op call_decl sch_step].
  rewrite get_put_same. rewrite create_full_idem by exact H. cbn [fst snd]. rewrite put_put. reflexivity.
Qed.

(* tableExists answers for the addressed database and changes nothing anywhere *)
Lemma world_exists : forall cc (a b : decl) arg (who : bool) w,
  world_step cc a b {| c_arg := arg; c_who := who; c_op := OExists |} w
  = (w, false, Some (table_exists (get (route cc arg) w) (table_of (if who then a else b)))).
Proof.
  intros cc a b arg who w. unfold world_step. cbn [fst snd c_arg c_who c_op call_decl sch_step].
  rewrite put_get. reflexivity.
Qed.

(* ---------- schema evolution through the argument *)
(* one addColumn / delColumn: class and addressed database make exactly the step of the single-database
   evolution machine (so C14_evolution_inv speaks about them); every other database is what it was *)
Lemma evo_world_step_spec : forall cc arg op w,
  let c := route cc arg in
  let r := evo_step {| e_decl := ew_decl w; e_db := get c (ew_dbs w) |} op in
  ew_decl (fst (evo_world_step cc arg op w)) = e_decl (fst r)
  /\ get c (ew_dbs (fst (evo_world_step cc arg op w))) = e_db (fst r)
  /\ snd (evo_world_step cc arg op w) = snd r
  /\ forall c', c' <> c -> get c' (ew_dbs (fst (evo_world_step cc arg op w))) = get c' (ew_dbs w).
Proof.
  intros cc arg op w c r. unfold evo_world_step. cbn [fst snd ew_decl ew_dbs]. fold c. fold r.
  repeat split.
  - apply get_put_same.
  - intros c' H. apply get_put_other. exact H.
Qed.

(* ANY history of evolution steps: a database none of them addresses is left exactly as it was *)
Lemma evo_world_run_frame : forall cc ops w c,
  (forall p, In p ops -> route cc (fst p) <> c) ->
  get c (ew_dbs (evo_world_run cc ops w)) = get c (ew_dbs w).
Proof.
  intros cc ops. induction ops as [|[arg op] r IH]; intros w c H; [reflexivity|].
  cbn [evo_world_run]. rewrite IH.
  - unfold evo_world_step. cbn [fst snd ew_dbs]. apply get_put_other.
    intro E. apply (H (arg, op)); [left; reflexivity|]. cbn [fst]. symmetry. exact E.
  - intros p Hin. apply H. right. exact Hin.
Qed.
