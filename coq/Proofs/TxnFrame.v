(* The footprint relations of the C07 theorems and their consequences:
   - what an operation on one connection cannot touch (Rframe),
   - what cannot happen while the transaction holds the write lock (Rlock),
   - what a finished transaction cannot do (Robs). *)
From Coq Require Import List ZArith Bool Lia ZifyBool.
From Model Require Import Txn.
From Proofs Require Import TxnBase TxnFoot.
Import ListNotations.
Open Scope Z_scope.

(* ------------------------------------------------------------------ slots seen from one side *)
Lemma side_slots_app s sd l : side_slots (with_slots s (slots s ++ l)) sd = side_slots s sd ++ side_slots (with_slots s l) sd.
Proof. unfold side_slots. cbn. apply map_app. Qed.

Lemma map_set_nth {X Y} (f : X -> Y) n x l : map f (set_nth n x l) = set_nth n (f x) (map f l).
Proof. revert n; induction l as [|y l IH]; intros [|n]; cbn; auto. f_equal. apply IH. Qed.

Lemma set_nth_same_val {X} (l : list X) n d : nth n l d = d -> set_nth n d l = l.
Proof.
  revert n; induction l as [|y l IH]; intros [|n] H; cbn in *; auto.
  - congruence.
  - f_equal. apply IH. exact H.
Qed.

Lemma side_eqb_other sd : side_eqb (other sd) sd = false.
Proof. destruct sd; reflexivity. Qed.

Lemma side_slots_push_other s sd x :
  (x = None \/ exists o, x = Some (sd, o)) ->
  side_slots (with_slots s (slots s ++ [x])) (other sd) = side_slots s (other sd) ++ [None].
Proof.
  intros H. unfold side_slots. cbn. rewrite map_app. f_equal. cbn.
  destruct H as [->|[o ->]]; [reflexivity|]. rewrite side_eqb_other. reflexivity.
Qed.

Lemma side_slots_drop_other s sd h o :
  nth h (slots s) None = Some (sd, o) ->
  side_slots (with_slots s (set_nth h None (slots s))) (other sd) = side_slots s (other sd).
Proof.
  intros H. unfold side_slots. cbn. rewrite map_set_nth.
  apply set_nth_same_val.
  destruct (Nat.lt_ge_cases h (length (slots s))) as [Hlt|Hge].
  - erewrite nth_indep by (rewrite map_length; exact Hlt).
    rewrite (map_nth (fun x => match x with Some (sd', o0) => if side_eqb (other sd) sd' then Some o0 else None | None => None end)
               (slots s) None h). rewrite H. rewrite side_eqb_other. reflexivity.
  - apply nth_overflow. rewrite map_length. exact Hge.
Qed.

(* ------------------------------------------------------------------ Rframe: the other connection is out of reach *)
Definition Rframe (sd : side) (s s' : st) : Prop :=
  cn s' (other sd) = cn s (other sd) /\
  (exists k, side_slots s' (other sd) = side_slots s (other sd) ++ repeat None k) /\
  (sd = Txn -> committed s' = committed s) /\
  (sd = Par -> pending s' = pending s /\ deleted s' = deleted s /\ tobs s' = tobs s).

Lemma Rframe_refl sd s : Rframe sd s s.
Proof. repeat split; auto. exists 0%nat. cbn. now rewrite app_nil_r. Qed.

Lemma Rframe_trans sd a b c : Rframe sd a b -> Rframe sd b c -> Rframe sd a c.
Proof.
  intros (H1 & (k1 & H2) & H3 & H4) (G1 & (k2 & G2) & G3 & G4). split; [congruence|]. split.
  - exists (k1 + k2)%nat. rewrite G2, H2, <- app_assoc, repeat_app. reflexivity.
  - split; intros E.
    + rewrite (G3 E). auto.
    + destruct (H4 E) as (? & ? & ?), (G4 E) as (? & ? & ?). repeat split; congruence.
Qed.

Lemma Rframe_same sd s s' :
  cn s' (other sd) = cn s (other sd) -> slots s' = slots s ->
  (sd = Txn -> committed s' = committed s) ->
  (sd = Par -> pending s' = pending s /\ deleted s' = deleted s /\ tobs s' = tobs s) ->
  Rframe sd s s'.
Proof.
  intros H1 H2 H3 H4. split; [exact H1|]. split; [|split; assumption].
  exists 0%nat. unfold side_slots. rewrite H2. cbn. now rewrite app_nil_r.
Qed.

Section FrameInst.
Variable cfg : config.
Variable sd : side.

Lemma frame_read q : pres (Rframe sd) (stmt_read sd q).
Proof.
  intros s. unfold stmt_read. destruct (dead s sd); cbn; [apply Rframe_refl|].
  apply Rframe_same; cbn; auto; destruct sd; reflexivity.
Qed.
Lemma frame_write A q rf (f : table -> A * table) : pres (Rframe sd) (stmt_write sd q rf f).
Proof.
  intros s. unfold stmt_write. destruct sd.
  - destruct (pending s) eqn:E; cbn.
    + apply Rframe_same; cbn; auto; try discriminate; try (intros; discriminate).
    + destruct (rf (committed s)); cbn; [apply Rframe_same; cbn; auto; try discriminate; try (intros; discriminate)|].
      destruct (f (committed s)) as [a t]. cbn. apply Rframe_same; cbn; auto; try discriminate; try (intros; discriminate).
  - destruct (tobs s); cbn; [apply Rframe_refl|].
    match goal with |- context [rf ?x] => destruct (rf x) end; cbn;
      [apply Rframe_same; cbn; auto; try discriminate; try (intros; discriminate)|].
    match goal with |- context [f ?x] => destruct (f x) as [a t] end. cbn. apply Rframe_same; cbn; auto; try discriminate; try (intros; discriminate).
Qed.
Lemma frame_insert r : pres (Rframe sd) (db_insert cfg sd r). Proof. apply frame_write. Qed.
Lemma frame_update id c v : pres (Rframe sd) (db_update cfg sd id c v). Proof. apply frame_write. Qed.
Lemma frame_update_cols id l : pres (Rframe sd) (db_update_cols cfg sd id l). Proof. apply frame_write. Qed.
Lemma frame_delete id : pres (Rframe sd) (db_delete sd id). Proof. apply frame_write. Qed.
Lemma frame_with_cn s c : Rframe sd s (with_cn s sd c).
Proof. apply Rframe_same; destruct sd; cbn; auto. Qed.
Lemma frame_upd o f : keeps_id f -> pres (Rframe sd) (upd_inst sd o f).
Proof. intros _ s. unfold upd_inst, modify, with_heap. cbn. apply frame_with_cn. Qed.
Lemma frame_new i : pres (Rframe sd) (new_inst sd i).
Proof. intros s. unfold new_inst, with_heap. cbn. apply frame_with_cn. Qed.
Lemma frame_cch c : pres (Rframe sd) (set_cch sd c).
Proof. intros s. unfold set_cch, modify, with_cch. cbn. apply frame_with_cn. Qed.
Lemma frame_del : sd = Txn -> forall s x, Rframe sd s (with_deleted s x).
Proof. intros -> s x. apply Rframe_same; cbn; auto; try discriminate; try (intros; discriminate). Qed.
Lemma frame_push s x : (x = None \/ exists o, x = Some (sd, o)) -> Rframe sd s (with_slots s (slots s ++ [x])).
Proof.
  intros H. split; [destruct sd; reflexivity|]. split; [|split; intros; cbn; auto].
  exists 1%nat. apply side_slots_push_other. exact H.
Qed.
Lemma frame_drop s h o : nth h (slots s) None = Some (sd, o) -> Rframe sd s (with_slots s (set_nth h None (slots s))).
Proof.
  intros H. split; [destruct sd; reflexivity|]. split; [|split; intros; cbn; auto].
  exists 0%nat. rewrite (side_slots_drop_other s sd h o H). cbn. now rewrite app_nil_r.
Qed.

Ltac frame_inst :=
  first [ apply Rframe_refl | apply Rframe_trans | apply frame_read | apply frame_insert | apply frame_update | apply frame_update_cols
        | apply frame_delete | apply frame_upd | apply frame_new | apply frame_cch | apply frame_del
        | apply frame_push | apply frame_drop ].
Lemma frame_so_read o c : pres (Rframe sd) (so_read cfg sd o c). Proof. apply fp_so_read; frame_inst. Qed.
Lemma frame_so_set o c v : pres (Rframe sd) (so_set cfg sd o c v). Proof. apply fp_so_set; frame_inst. Qed.
Lemma frame_so_destroy o : pres (Rframe sd) (so_destroy sd o). Proof. apply (fp_so_destroy cfg); frame_inst. Qed.
Lemma frame_so_expire o : pres (Rframe sd) (so_expire cfg sd o). Proof. apply fp_so_expire; frame_inst. Qed.
Lemma frame_so_sync o : pres (Rframe sd) (so_sync cfg sd o). Proof. apply fp_so_sync; frame_inst. Qed.
Lemma frame_so_sync_update o : pres (Rframe sd) (so_sync_update cfg sd o). Proof. apply fp_so_sync_update; frame_inst. Qed.
Lemma frame_so_pickle o : pres (Rframe sd) (so_pickle cfg sd o). Proof. apply fp_so_pickle; frame_inst. Qed.

Definition frame_run_op :=
  fp_run_op cfg sd (Rframe sd) (Rframe_refl sd) (Rframe_trans sd) frame_read frame_insert frame_update frame_update_cols frame_delete frame_upd frame_new frame_cch
            frame_del frame_push frame_drop.
Definition frame_expire_ids :=
  fp_expire_ids cfg sd (Rframe sd) (Rframe_refl sd) (Rframe_trans sd) frame_upd frame_cch.
End FrameInst.

(* rollback and begin are transaction-side too *)
Lemma frame_rollback cfg : pres (Rframe Txn) (txn_rollback cfg).
Proof.
  unfold txn_rollback.
  apply pres_bind; [apply Rframe_trans|apply pres_gets, Rframe_refl|intros s0].
  destruct (tobs s0); [apply pres_ret, Rframe_refl|].
  apply pres_bind; [apply Rframe_trans| |intros _].
  { apply pres_modify. intros s. apply Rframe_same; cbn; auto; try discriminate; try (intros; discriminate). }
  apply pres_bind; [apply Rframe_trans|apply frame_expire_ids|intros _].
  unfold make_obsolete. apply pres_modify. intros s. apply Rframe_same; cbn; auto; try discriminate; try (intros; discriminate).
Qed.
Lemma frame_begin : pres (Rframe Txn) txn_begin.
Proof.
  unfold txn_begin.
  apply pres_bind; [apply Rframe_trans|apply pres_gets, Rframe_refl|intros s0].
  destruct (tobs s0); [|apply pres_raise, Rframe_refl].
  apply pres_modify. intros s. apply Rframe_same; cbn; auto; try discriminate; try (intros; discriminate).
Qed.

Lemma Rframe_log sd s l : Rframe sd s (with_log s l).
Proof. apply Rframe_same; cbn; auto. Qed.

(* every transaction-side operation other than commit leaves the parent connection, the committed
   table and the parent-side references alone *)
Lemma frame_step_txn cfg s o :
  op_side s o = Some Txn -> is_commit o = false -> Rframe Txn s (snd (step cfg s o)).
Proof.
  intros Hs Hc. unfold step. eapply Rframe_trans; [apply (Rframe_log Txn s [])|].
  destruct (orm_op o) eqn:Ho.
  - apply frame_run_op; auto.
  - destruct o; cbn in Ho, Hc; try discriminate; cbn [run_op].
    + refine ((_ : pres (Rframe Txn) (bind _ _)) _).
      apply pres_bind; [apply Rframe_trans|apply frame_rollback|intros; apply pres_ret, Rframe_refl].
    + refine ((_ : pres (Rframe Txn) (bind _ _)) _).
      apply pres_bind; [apply Rframe_trans|apply frame_begin|intros; apply pres_ret, Rframe_refl].
Qed.

(* ... and every parent-side operation leaves the transaction object alone *)
Lemma frame_step_par cfg s o :
  op_side s o = Some Par -> Rframe Par s (snd (step cfg s o)).
Proof.
  intros Hs. unfold step. eapply Rframe_trans; [apply (Rframe_log Par s [])|].
  apply frame_run_op; auto. destruct o; cbn in *; auto; discriminate.
Qed.

(* ------------------------------------------------------------------ Rlock: while the transaction holds the write lock *)
Definition Rlock (s s' : st) : Prop :=
  (pending s <> None -> committed s' = committed s /\ pending s' <> None) /\ tobs s' = tobs s.

Lemma Rlock_refl s : Rlock s s.
Proof. split; auto. Qed.
Lemma Rlock_trans a b c : Rlock a b -> Rlock b c -> Rlock a c.
Proof.
  intros [H1 H2] [G1 G2]. split; [|congruence].
  intros Hp. destruct (H1 Hp) as [E1 E2]. destruct (G1 E2) as [F1 F2]. split; [congruence|auto].
Qed.
Lemma Rlock_same s s' : committed s' = committed s -> pending s' = pending s -> tobs s' = tobs s -> Rlock s s'.
Proof. intros H1 H2 H3. split; auto. intros Hp. split; auto. now rewrite H2. Qed.

Section LockInst.
Variable cfg : config.
Variable sd : side.
Lemma lock_read q : pres Rlock (stmt_read sd q).
Proof. intros s. unfold stmt_read. destruct (dead s sd); cbn; [apply Rlock_refl|apply Rlock_same; auto]. Qed.
Lemma lock_write A q rf (f : table -> A * table) : pres Rlock (stmt_write sd q rf f).
Proof.
  intros s. unfold stmt_write. destruct sd.
  - destruct (pending s) eqn:E; cbn.
    + apply Rlock_same; cbn; auto.
    + destruct (rf (committed s)); cbn; [apply Rlock_same; cbn; auto|].
      destruct (f (committed s)) as [a t]. cbn. split; cbn; auto. congruence.
  - destruct (tobs s); cbn; [apply Rlock_refl|].
    match goal with |- context [rf ?x] => destruct (rf x) end; cbn; [split; cbn; auto; intros _; split; [auto|discriminate]|].
    match goal with |- context [f ?x] => destruct (f x) as [a t] end. cbn. split; cbn; auto. intros _. split; [auto|discriminate].
Qed.
Lemma lock_insert r : pres Rlock (db_insert cfg sd r). Proof. apply lock_write. Qed.
Lemma lock_update id c v : pres Rlock (db_update cfg sd id c v). Proof. apply lock_write. Qed.
Lemma lock_update_cols id l : pres Rlock (db_update_cols cfg sd id l). Proof. apply lock_write. Qed.
Lemma lock_delete id : pres Rlock (db_delete sd id). Proof. apply lock_write. Qed.
Lemma lock_with_cn s c : Rlock s (with_cn s sd c).
Proof. apply Rlock_same; destruct sd; cbn; auto. Qed.
Lemma lock_upd o f : keeps_id f -> pres Rlock (upd_inst sd o f).
Proof. intros _ s. unfold upd_inst, modify, with_heap. cbn. apply lock_with_cn. Qed.
Lemma lock_new i : pres Rlock (new_inst sd i).
Proof. intros s. unfold new_inst, with_heap. cbn. apply lock_with_cn. Qed.
Lemma lock_cch c : pres Rlock (set_cch sd c).
Proof. intros s. unfold set_cch, modify, with_cch. cbn. apply lock_with_cn. Qed.
Lemma lock_del : sd = Txn -> forall s x, Rlock s (with_deleted s x).
Proof. intros _ s x. apply Rlock_same; cbn; auto. Qed.
Lemma lock_push s x : (x = None \/ exists o, x = Some (sd, o)) -> Rlock s (with_slots s (slots s ++ [x])).
Proof. intros _. apply Rlock_same; cbn; auto. Qed.
Lemma lock_drop s h o : nth h (slots s) None = Some (sd, o) -> Rlock s (with_slots s (set_nth h None (slots s))).
Proof. intros _. apply Rlock_same; cbn; auto. Qed.
Definition lock_run_op :=
  fp_run_op cfg sd Rlock Rlock_refl Rlock_trans lock_read lock_insert lock_update lock_update_cols lock_delete lock_upd lock_new lock_cch lock_del lock_push lock_drop.
End LockInst.

(* while the transaction has uncommitted changes, no operation other than commit / rollback changes the
   committed table or ends the transaction's hold *)
Lemma lock_step cfg s o sd :
  op_side s o = Some sd -> orm_op o = true -> pending s <> None ->
  committed (snd (step cfg s o)) = committed s /\ pending (snd (step cfg s o)) <> None.
Proof.
  intros Hs Ho Hp. unfold step.
  pose proof (lock_run_op cfg sd o (with_log s []) Ho Hs) as [H _]. cbn in H. apply H. exact Hp.
Qed.

(* ------------------------------------------------------------------ Robs: a finished transaction *)
Definition Robs (s s' : st) : Prop :=
  tobs s = true -> tobs s' = true /\ committed s' = committed s /\ pending s' = pending s /\ log s' = log s.

Lemma Robs_refl s : Robs s s.
Proof. intros H. auto. Qed.
Lemma Robs_trans a b c : Robs a b -> Robs b c -> Robs a c.
Proof. intros H G Ha. destruct (H Ha) as (H1 & H2 & H3 & H4). destruct (G H1) as (G1 & G2 & G3 & G4). repeat split; congruence. Qed.
Lemma Robs_same s s' : tobs s' = tobs s -> committed s' = committed s -> pending s' = pending s -> log s' = log s -> Robs s s'.
Proof. intros H1 H2 H3 H4 H. repeat split; congruence. Qed.

Section ObsInst.
Variable cfg : config.
Lemma obs_read q : pres Robs (stmt_read Txn q).
Proof. intros s. unfold stmt_read. cbn. destruct (tobs s) eqn:E; cbn; [apply Robs_refl|]. intros H. cbn in H. congruence. Qed.
Lemma obs_write A q rf (f : table -> A * table) : pres Robs (stmt_write Txn q rf f).
Proof.
  intros s. unfold stmt_write. destruct (tobs s) eqn:E; cbn; [apply Robs_refl|].
  match goal with |- context [rf ?x] => destruct (rf x) end; cbn; [intros H; congruence|].
  match goal with |- context [f ?x] => destruct (f x) as [a t] end. cbn. intros H. congruence.
Qed.
Lemma obs_insert r : pres Robs (db_insert cfg Txn r). Proof. apply obs_write. Qed.
Lemma obs_update id c v : pres Robs (db_update cfg Txn id c v). Proof. apply obs_write. Qed.
Lemma obs_update_cols id l : pres Robs (db_update_cols cfg Txn id l). Proof. apply obs_write. Qed.
Lemma obs_delete id : pres Robs (db_delete Txn id). Proof. apply obs_write. Qed.
Lemma obs_with_cn s c : Robs s (with_cn s Txn c).
Proof. apply Robs_same; cbn; auto. Qed.
Lemma obs_upd o f : keeps_id f -> pres Robs (upd_inst Txn o f).
Proof. intros _ s. unfold upd_inst, modify, with_heap. cbn. apply (obs_with_cn s). Qed.
Lemma obs_new i : pres Robs (new_inst Txn i).
Proof. intros s. unfold new_inst, with_heap. cbn. apply (obs_with_cn s). Qed.
Lemma obs_cch c : pres Robs (set_cch Txn c).
Proof. intros s. unfold set_cch, modify, with_cch. cbn. apply (obs_with_cn s). Qed.
Lemma obs_del : Txn = Txn -> forall s x, Robs s (with_deleted s x).
Proof. intros _ s x. apply Robs_same; cbn; auto. Qed.
Lemma obs_push s x : (x = None \/ exists o, x = Some (Txn, o)) -> Robs s (with_slots s (slots s ++ [x])).
Proof. intros _. apply Robs_same; cbn; auto. Qed.
Lemma obs_drop s h o : nth h (slots s) None = Some (Txn, o) -> Robs s (with_slots s (set_nth h None (slots s))).
Proof. intros _. apply Robs_same; cbn; auto. Qed.
Definition obs_run_op :=
  fp_run_op cfg Txn Robs Robs_refl Robs_trans obs_read obs_insert obs_update obs_update_cols obs_delete obs_upd obs_new obs_cch obs_del obs_push obs_drop.
End ObsInst.

(* a finished transaction sends no statement and leaves the database alone, whatever is tried on it *)
Lemma obs_step cfg s o :
  tobs s = true -> op_side s o = Some Txn -> o <> OBegin ->
  let s' := snd (step cfg s o) in
  tobs s' = true /\ committed s' = committed s /\ pending s' = pending s /\ log s' = [].
Proof.
  intros Ht Hs Hb. unfold step.
  destruct (orm_op o) eqn:Ho.
  - pose proof (obs_run_op cfg o (with_log s []) Ho Hs Ht) as H. exact H.
  - destruct o; cbn in Ho; try discriminate; cbn [run_op].
    + (* commit: a no-op *) unfold bind, txn_commit, gets. cbn. rewrite Ht. cbn. auto.
    + unfold bind, txn_rollback, gets. cbn. rewrite Ht. cbn. auto.
    + congruence.
Qed.

(* ------------------------------------------------------------------ Rdb: the tables are not touched (expire loops) *)
Definition Rdb (s s' : st) : Prop := committed s' = committed s /\ pending s' = pending s.
Lemma Rdb_refl s : Rdb s s. Proof. split; auto. Qed.
Lemma Rdb_trans a b c : Rdb a b -> Rdb b c -> Rdb a c.
Proof. intros [H1 H2] [G1 G2]. split; congruence. Qed.
Lemma db_upd sd o f : keeps_id f -> pres Rdb (upd_inst sd o f).
Proof. intros _ s. unfold upd_inst, modify, with_heap. cbn. destruct sd; split; reflexivity. Qed.
Lemma db_cch sd c : pres Rdb (set_cch sd c).
Proof. intros s. unfold set_cch, modify, with_cch. cbn. destruct sd; split; reflexivity. Qed.
Definition db_expire_ids cfg sd := fp_expire_ids cfg sd Rdb Rdb_refl Rdb_trans (db_upd sd) (db_cch sd).
