(* C03: the rendered token sequence, read by the reference parser under ANY
   precedence table, is the expression the Python tree stands for. *)
From Coq Require Import List ZArith NArith Bool Arith Lia.
From Lib Require Import ExprSyntax.
From Gen Require Import Expr.
From Model Require Import Expr.
From Proofs Require Import ExprInd.
Import ListNotations.
Local Open Scope nat_scope.

(* ================================================================ sql_tokens through the renderer *)
Ltac case_neg :=
  match goal with |- context [(?z <? 0)%Z] => destruct (z <? 0)%Z end; try reflexivity.
Lemma sql_tokens_app a b : sql_tokens (a ++ b) = sql_tokens a ++ sql_tokens b.
Proof. apply flat_map_app. Qed.
Lemma sql_tokens_cons_plain t r :
  split_num t = [t] -> sql_tokens (t :: r) = t :: sql_tokens r.
Proof. intros H. unfold sql_tokens. cbn [flat_map]. rewrite H. reflexivity. Qed.
Lemma split_num_nonempty t : split_num t <> [].
Proof. destruct t; cbn [split_num]; try discriminate; match goal with |- context [(?z <? 0)%Z] => destruct (z <? 0)%Z end; discriminate. Qed.
Lemma sql_tokens_nil s : sql_tokens s = [] -> s = [].
Proof.
  destruct s as [|t r]; [reflexivity|]. cbn. intros H. apply app_eq_nil in H as [H _].
  exfalso; eapply split_num_nonempty; eauto.
Qed.
Lemma is_lp_headed_sql s : is_lp_headed (sql_tokens s) = is_lp_headed s.
Proof. destruct s as [|t r]; [reflexivity|]. destruct t; try reflexivity; cbn [sql_tokens flat_map split_num]; case_neg. Qed.
Lemma is_null_text_sql s : is_null_text (sql_tokens s) = is_null_text s.
Proof.
  destruct s as [|t r]; [reflexivity|]. destruct t; try reflexivity.
  - cbn [sql_tokens flat_map split_num app is_null_text].
    destruct r as [|u r']; [reflexivity|].
    destruct (flat_map split_num (u :: r')) eqn:E; [|reflexivity].
    apply sql_tokens_nil in E. discriminate.
  - cbn [sql_tokens flat_map split_num]. case_neg.
  - cbn [sql_tokens flat_map split_num]. case_neg.
Qed.
Lemma sql_tokens_wrap s : sql_tokens (wrap s) = wrap (sql_tokens s).
Proof.
  unfold wrap. rewrite is_lp_headed_sql, is_null_text_sql.
  destruct (is_lp_headed s || is_null_text s); [reflexivity|].
  cbn [sql_tokens flat_map split_num app]. fold (sql_tokens (s ++ [TRP])).
  rewrite sql_tokens_app. reflexivity.
Qed.
Lemma sql_tokens_optoks o : sql_tokens (optoks o) = optoks o.
Proof. destruct o; reflexivity. Qed.
Lemma sql_tokens_prefixtoks p : sql_tokens (prefixtoks p) = prefixtoks p.
Proof. destruct p; reflexivity. Qed.
Lemma sql_tokens_insub_op neg : sql_tokens (insub_op neg) = insub_op neg.
Proof. destruct neg; reflexivity. Qed.
Lemma sql_tokens_sqlop op s1 s2 :
  sql_tokens op = op ->
  sql_tokens (sqlop_repr op s1 s2) = sqlop_repr op (sql_tokens s1) (sql_tokens s2).
Proof.
  intros Hop. unfold sqlop_repr. cbn [sql_tokens flat_map split_num app].
  fold (sql_tokens (wrap s1 ++ op ++ wrap s2 ++ [TRP])).
  rewrite !sql_tokens_app, !sql_tokens_wrap, Hop. reflexivity.
Qed.

(* the SQL tokens of a rendering, as a recursive function of their own *)
Definition atom_st (a : atom) : list tok := sql_tokens (atom_toks a).
Fixpoint rt (d : dialect) (n : node) : list tok :=
  match n with
  | NField c => [TCol c]
  | NAtom a => atom_st a
  | NList l => TLP :: join_toks [TComma] (map (rt d) l) ++ [TRP]
  | NSelect k => [TSub k]
  | NSQLOp op a b => sqlop_repr (optoks op) (rt d a) (rt d b)
  | NSQLModulo a b =>
      if is_sqlite d then sqlop_repr [TOp BMod] (rt d a) (rt d b)
      else TFn FMod :: TLP :: rt d a ++ TComma :: rt d b ++ [TRP]
  | NSQLCall2 f a b => TFn f :: TLP :: rt d a ++ TComma :: rt d b ++ [TRP]
  | NSQLPrefix p a => prefixtoks p ++ rt d a
  | NINSubquery neg a s => insub_repr (insub_op neg) (rt d a) (rt d s)
  | NBad => [TBad]
  end.

Lemma sql_tokens_nil_eq : sql_tokens [] = [].
Proof. reflexivity. Qed.
Ltac st_norm :=
  repeat first [ (rewrite sql_tokens_cons_plain by reflexivity)
               | rewrite sql_tokens_app | rewrite sql_tokens_nil_eq ].

Lemma sql_tokens_insub neg a s :
  sql_tokens (insub_repr (insub_op neg) a s) = insub_repr (insub_op neg) (sql_tokens a) (sql_tokens s).
Proof.
  unfold insub_repr. rewrite is_lp_headed_sql. destruct (is_lp_headed a); cbn [app]; st_norm;
    rewrite sql_tokens_insub_op; reflexivity.
Qed.

Lemma sql_tokens_join ls :
  sql_tokens (join_toks [TComma] ls) = join_toks [TComma] (map sql_tokens ls).
Proof.
  induction ls as [|x r IH]; [reflexivity|]. destruct r as [|y r'].
  - reflexivity.
  - cbn [join_toks map] in *. st_norm. rewrite IH. reflexivity.
Qed.

Lemma sql_tokens_render d n : sql_tokens (render d n) = rt d n.
Proof.
  induction n as [c|a|l IHl|k|op a b IHa IHb _|a b IHa IHb|f a b IHa IHb|p a IHa|neg a s IHa IHs|] using node_ind2;
    cbn [render rt].
  - reflexivity.
  - reflexivity.
  - unfold seq_repr. st_norm. rewrite sql_tokens_join, map_map.
    rewrite (map_ext_Forall _ _ IHl). reflexivity.
  - reflexivity.
  - rewrite sql_tokens_sqlop by apply sql_tokens_optoks. rewrite IHa, IHb. reflexivity.
  - destruct (is_sqlite d).
    + rewrite sql_tokens_sqlop by reflexivity. rewrite IHa, IHb. reflexivity.
    + cbn [app]. st_norm. rewrite IHa, IHb. reflexivity.
  - unfold seq_repr. cbn [join_toks app]. st_norm. rewrite IHa, IHb.
    rewrite <- app_assoc. reflexivity.
  - rewrite sql_tokens_app, sql_tokens_prefixtoks, IHa. reflexivity.
  - rewrite sql_tokens_insub, IHa, IHs. reflexivity.
  - reflexivity.
Qed.

Lemma is_lp_headed_rt d n : is_lp_headed (render d n) = is_lp_headed (rt d n).
Proof. rewrite <- sql_tokens_render. symmetry. apply is_lp_headed_sql. Qed.

(* ================================================================ IN lists *)
Lemma atom_st_cases a :
  (exists z, a = AInt z /\ (z <? 0)%Z = true /\ atom_st a = [TOp BSub; TNum (- z)]) \/
  (exists z, a = AInt z /\ (z <? 0)%Z = false /\ atom_st a = [TNum z]) \/
  (exists s, a = AStr s /\ atom_st a = [TStr s]) \/
  (a = ANone /\ atom_st a = [TNull]) \/
  (exists h, a = AFlo h /\ (h <? 0)%Z = true /\ atom_st a = [TOp BSub; TFlo (- h)]) \/
  (exists h, a = AFlo h /\ (h <? 0)%Z = false /\ atom_st a = [TFlo h]).
Proof.
  destruct a as [z|s| |h].
  - unfold atom_st. cbn [atom_toks sql_tokens flat_map split_num app].
    destruct (z <? 0)%Z eqn:E; [left|right; left]; exists z; auto.
  - right; right; left. exists s. auto.
  - right; right; right; left. auto.
  - unfold atom_st. cbn [atom_toks sql_tokens flat_map split_num app].
    destruct (h <? 0)%Z eqn:E; right; right; right; right; [left|right]; exists h; auto.
Qed.

(* ================================================================ the parser on rendered trees *)
Definition stops (rest : list tok) : Prop :=
  match rest with [] => True | TRP :: _ => True | TComma :: _ => True | _ => False end.

(* fuel that suffices for a tree *)
Fixpoint need (n : node) : nat :=
  match n with
  | NSQLOp _ a b | NSQLModulo a b | NSQLCall2 _ a b => need a + need b + 20
  | NSQLPrefix _ a => need a + 6
  | NINSubquery _ a _ => need a + 10
  | NList l => list_sum (map (fun x => need x + 4) l) + 6
  | _ => 6
  end.

Ltac fuel f := destruct f as [|f]; [exfalso; lia|].

Section Parse.
  Variable pt : ptable.
  Variable d : dialect.

  Lemma loop_stops f minp lhs rest :
    stops rest -> loop pt (S f) minp lhs rest = POk (lhs, rest).
  Proof.
    intros H. destruct rest as [|t r]; [reflexivity|].
    destruct t; cbn in H; try contradiction; reflexivity.
  Qed.

  Lemma parse_nonnot f minp t r :
    t <> TNot ->
    parse pt (S f) minp (t :: r) = pbind (unary pt f (t :: r)) (fun x => loop pt f minp (fst x) (snd x)).
  Proof. intros H. destruct t; try reflexivity. congruence. Qed.

  (* an IN-subquery that renders itself parenthesised *)
  Definition closed_rt (n : node) : bool :=
    match n with NINSubquery _ a _ => is_lp_headed (rt d a) | _ => false end.
  Lemma closed_insub_rt n : closed_insub d n = closed_rt n.
  Proof. destruct n; try reflexivity. cbn [closed_insub closed_rt]. apply is_lp_headed_rt. Qed.
  (* renderings the parser's `unary` level reads whole, whatever follows *)
  Definition uform (n : node) : bool := unary_ok n || closed_rt n.

  Definition lvl_ok (minp : nat) (n : node) : Prop :=
    match n with
    | NSQLPrefix PNot _ => minp <= p_not pt
    | NINSubquery _ _ _ => closed_rt n = true \/ minp <= p_in pt
    | _ => True
    end.
  Lemma lvl_ok_0 n : lvl_ok 0 n.
  Proof. destruct n as [| | | | | | |[]| |]; cbn [lvl_ok]; try exact I; try lia; right; lia. Qed.

  (* a complete rendering, followed by a closing token, parses to its meaning *)
  Definition Gs (n : node) : Prop :=
    forall f minp rest, need n + 2 <= f -> stops rest -> lvl_ok minp n ->
      parse pt f minp (rt d n ++ rest) = POk (denote n, rest).
  (* ... and, when it is a unary-level expression, whatever follows *)
  Definition Us (n : node) : Prop :=
    uform n = true ->
    forall f rest, need n <= f -> unary pt f (rt d n ++ rest) = POk (denote n, rest).

  Lemma uform_of_unary_ok n : unary_ok n = true -> uform n = true.
  Proof. intros H. unfold uform. now rewrite H. Qed.
  Lemma uform_notprefix n : uform n = true -> is_notprefix n = false.
  Proof.
    unfold uform, unary_ok. intros H. apply orb_true_iff in H as [H|H].
    - apply andb_true_iff in H as [_ H]. now apply negb_true_iff in H.
    - destruct n; try discriminate. reflexivity.
  Qed.

  (* the first token of a rendering *)
  Lemma rt_head n :
    wf n = true -> is_notprefix n = false -> exists t r, rt d n = t :: r /\ t <> TNot.
  Proof.
    induction n; cbn [wf]; intros W N; try discriminate.
    - eexists _, _; split; [reflexivity|discriminate].
    - destruct (atom_st_cases a) as [(z & -> & Hz & E)|[(z & -> & Hz & E)|[(s & -> & E)|[(-> & E)|[(h & -> & Hh & E)|(h & -> & Hh & E)]]]]];
        cbn [rt]; rewrite E; eexists _, _; (split; [reflexivity|discriminate]).
    - cbn [rt]. unfold sqlop_repr. eexists _, _; split; [reflexivity|discriminate].
    - cbn [rt]. destruct (is_sqlite d); unfold sqlop_repr; eexists _, _; (split; [reflexivity|discriminate]).
    - cbn [rt]. eexists _, _; split; [reflexivity|discriminate].
    - destruct p; cbn [rt prefixtoks app]; try discriminate; eexists _, _; (split; [reflexivity|discriminate]).
    - apply andb_true_iff in W as [W _]. apply andb_true_iff in W as [W U].
      unfold unary_ok in U. apply andb_true_iff in U as [_ U]. apply negb_true_iff in U.
      destruct (IHn1 W U) as (t & r & E & Ht). cbn [rt]. unfold insub_repr.
      destruct (is_lp_headed (rt d n1)).
      + eexists _, _; split; [reflexivity|discriminate].
      + rewrite E. cbn [app]. eexists _, _; split; [reflexivity|exact Ht].
  Qed.

  Lemma G_of_U n : wf n = true -> uform n = true -> Us n -> Gs n.
  Proof.
    intros W U HU f minp rest Hf Hs _.
    pose proof (uform_notprefix n U) as N.
    destruct (rt_head n W N) as (t & r & E & Ht).
    assert (6 <= need n) by (destruct n; cbn [need]; lia).
    fuel f. rewrite E. cbn [app]. rewrite parse_nonnot by exact Ht.
    change (t :: r ++ rest) with ((t :: r) ++ rest). rewrite <- E.
    rewrite (HU U) by lia. cbn [pbind fst snd]. fuel f. now apply loop_stops.
  Qed.

  (* "( rendering )" is a primary *)
  Lemma W_of_G n : Gs n ->
    forall f rest, need n + 3 <= f ->
      primary pt f (TLP :: rt d n ++ TRP :: rest) = POk (denote n, rest).
  Proof.
    intros HG f rest Hf. fuel f. cbn [primary].
    rewrite HG; [reflexivity|lia|exact I|apply lvl_ok_0].
  Qed.

  Lemma sqlop_app op s1 s2 rest :
    sqlop_repr op s1 s2 ++ rest = TLP :: wrap s1 ++ op ++ wrap s2 ++ TRP :: rest.
  Proof. unfold sqlop_repr. cbn [app]. rewrite <- !app_assoc. reflexivity. Qed.

  Lemma insub_shape neg a s :
    wf (NINSubquery neg a s) = true ->
    exists t r k, rt d a = t :: r /\ t <> TNot /\ s = NSelect k /\ wf a = true /\ unary_ok a = true.
  Proof.
    cbn [wf]. intros W. apply andb_true_iff in W as [W S]. apply andb_true_iff in W as [W U].
    assert (N : is_notprefix a = false).
    { unfold unary_ok in U. apply andb_true_iff in U as [_ U']. now apply negb_true_iff in U'. }
    destruct (rt_head a W N) as (t & r & E & Ht).
    destruct s; try discriminate. eauto 10.
  Qed.

  Lemma not_uform n :
    uform n = false ->
    (exists a, n = NSQLPrefix PNot a) \/
    (exists neg a s, n = NINSubquery neg a s /\ is_lp_headed (rt d a) = false).
  Proof.
    unfold uform. destruct n; cbn; try discriminate.
    - destruct p; cbn; try discriminate. left; eauto.
    - intros H. right. eauto 10.
  Qed.

  Lemma insub_unwrapped t r X :
    X <> [] -> is_lp_headed (t :: r ++ X) || is_null_text (t :: r ++ X) = true ->
    is_lp_headed (t :: r) = true.
  Proof.
    intros HX. destruct t; cbn; try discriminate; try reflexivity.
    destruct (r ++ X) eqn:E2; [|discriminate].
    apply app_eq_nil in E2 as [_ E2]. contradiction.
  Qed.
  Lemma insub_tail_nonempty neg k : insub_op neg ++ [TLP] ++ [TSub k] ++ [TRP] <> [].
  Proof. destruct neg; discriminate. Qed.

  (* an unparenthesised IN-subquery is always wrapped by SQLOp *)
  Lemma open_insub_wrapped neg a s :
    wf (NINSubquery neg a s) = true -> is_lp_headed (rt d a) = false ->
    is_lp_headed (rt d (NINSubquery neg a s)) || is_null_text (rt d (NINSubquery neg a s)) = false.
  Proof.
    intros W C. destruct (insub_shape neg a s W) as (t & r & k & E & Ht & -> & Wa & Ua).
    cbn [rt]. unfold insub_repr. rewrite C.
    destruct (is_lp_headed _ || is_null_text _) eqn:HW; [|reflexivity]. exfalso.
    rewrite E in HW, C.
    change ((t :: r) ++ insub_op neg ++ [TLP] ++ [TSub k] ++ [TRP]) with
        (t :: r ++ insub_op neg ++ [TLP] ++ [TSub k] ++ [TRP]) in HW.
    apply insub_unwrapped in HW; [congruence|apply insub_tail_nonempty].
  Qed.

  (* an operand in right-hand (or any closed) position *)
  Lemma RO n : wf n = true -> Gs n -> Us n ->
    forall f minp rest, need n + 5 <= f -> stops rest ->
      parse pt f minp (wrap (rt d n) ++ rest) = POk (denote n, rest).
  Proof.
    intros W HG HU f minp rest Hf Hs. unfold wrap.
    destruct (is_lp_headed (rt d n) || is_null_text (rt d n)) eqn:HW.
    - (* left as it is *)
      destruct (uform n) eqn:U.
      + assert (exists t r, rt d n = t :: r /\ t <> TNot) as (t & r & E & Ht).
        { destruct (rt d n) as [|t r]; [discriminate|]. exists t, r. split; [reflexivity|].
          intros ->. discriminate. }
        fuel f. rewrite E. cbn [app]. rewrite parse_nonnot by exact Ht.
        change (t :: r ++ rest) with ((t :: r) ++ rest). rewrite <- E.
        rewrite (HU U) by lia. cbn [pbind fst snd]. fuel f. now apply loop_stops.
      + exfalso. destruct (not_uform n U) as [(a & ->)|(neg & a & s & -> & C)].
        * cbn in HW. discriminate.
        * rewrite (open_insub_wrapped neg a s W C) in HW. discriminate.
    - (* parenthesised *)
      cbn [app]. rewrite <- app_assoc. cbn [app].
      fuel f. rewrite parse_nonnot by discriminate. fuel f. cbn [unary].
      rewrite (W_of_G n HG) by lia. cbn [pbind fst snd]. now apply loop_stops.
  Qed.

  (* an operand in left-hand position: what the operator loop does next decides *)
  Definition Ls (n : node) : Prop :=
    forall f rest K m, need n + 5 + m <= f ->
      (forall g, m <= g -> loop pt g 0 (denote n) rest = K) ->
      parse pt f 0 (wrap (rt d n) ++ rest) = K.

  Lemma L_generic n : wf n = true -> Gs n -> Us n -> Ls n.
  Proof.
    intros W HG HU f rest K m Hf HK. unfold wrap.
    destruct (is_lp_headed (rt d n) || is_null_text (rt d n)) eqn:HW.
    - destruct (uform n) eqn:U.
      + assert (exists t r, rt d n = t :: r /\ t <> TNot) as (t & r & E & Ht).
        { destruct (rt d n) as [|t r]; [discriminate|]. exists t, r. split; [reflexivity|].
          intros ->. discriminate. }
        fuel f. rewrite E. cbn [app]. rewrite parse_nonnot by exact Ht.
        change (t :: r ++ rest) with ((t :: r) ++ rest). rewrite <- E.
        rewrite (HU U) by lia. cbn [pbind fst snd]. apply HK. lia.
      + exfalso. destruct (not_uform n U) as [(a & ->)|(neg & a & s & -> & C)].
        * cbn in HW. discriminate.
        * rewrite (open_insub_wrapped neg a s W C) in HW. discriminate.
    - cbn [app]. rewrite <- app_assoc. cbn [app].
      fuel f. rewrite parse_nonnot by discriminate. fuel f. cbn [unary].
      rewrite (W_of_G n HG) by lia. cbn [pbind fst snd]. apply HK. lia.
  Qed.

  (* ---------------- one-step equations of the parser *)
  Lemma primary_lp f r :
    primary pt (S f) (TLP :: r) =
    pbind (parse pt f 0 r) (fun x => match x with (e, TRP :: r') => POk (e, r') | _ => PErr end).
  Proof. reflexivity. Qed.
  Lemma primary_mod f r :
    primary pt (S f) (TFn FMod :: TLP :: r) =
    pbind (parse pt f 0 r) (fun x =>
      match x with
      | (a, TComma :: r1) =>
          pbind (parse pt f 0 r1) (fun y =>
            match y with (b, TRP :: r2) => POk (SBin BMod a b, r2) | _ => PErr end)
      | _ => PErr
      end).
  Proof. reflexivity. Qed.
  Lemma unary_neg f r :
    unary pt (S f) (TOp BSub :: r) = pbind (unary pt f r) (fun x => POk (SNeg (fst x), snd x)).
  Proof. reflexivity. Qed.
  Lemma unary_pos f r :
    unary pt (S f) (TOp BAdd :: r) = pbind (unary pt f r) (fun x => POk (SPos (fst x), snd x)).
  Proof. reflexivity. Qed.
  Lemma unary_lp f r : unary pt (S f) (TLP :: r) = primary pt f (TLP :: r).
  Proof. reflexivity. Qed.
  Lemma unary_fn f fn r : unary pt (S f) (TFn fn :: r) = primary pt f (TFn fn :: r).
  Proof. reflexivity. Qed.
  Lemma unary_col f c r : unary pt (S (S f)) (TCol c :: r) = POk (SCol c, r).
  Proof. reflexivity. Qed.
  Lemma unary_num f z r : unary pt (S (S f)) (TNum z :: r) = POk (SNum z, r).
  Proof. reflexivity. Qed.
  Lemma unary_flo f h r : unary pt (S (S f)) (TFlo h :: r) = POk (SFlo h, r).
  Proof. reflexivity. Qed.
  Lemma unary_str f s r : unary pt (S (S f)) (TStr s :: r) = POk (SStr s, r).
  Proof. reflexivity. Qed.
  Lemma unary_null f r : unary pt (S (S f)) (TNull :: r) = POk (SNull, r).
  Proof. reflexivity. Qed.
  Lemma parse_not f minp r :
    parse pt (S f) minp (TNot :: r) =
    if Nat.leb minp (p_not pt)
    then pbind (parse pt f (p_not pt) r) (fun x => loop pt f minp (SNot (fst x)) (snd x))
    else PErr.
  Proof. reflexivity. Qed.
  Lemma loop_op f minp lhs o r :
    loop pt (S f) minp lhs (TOp o :: r) =
    if Nat.leb minp (p_bin pt o)
    then pbind (parse pt f (S (p_bin pt o)) r) (fun x => loop pt f minp (SBin o lhs (fst x)) (snd x))
    else POk (lhs, TOp o :: r).
  Proof. reflexivity. Qed.
  Lemma loop_is f minp lhs r :
    loop pt (S f) minp lhs (TIs :: TNull :: r) =
    if Nat.leb minp (p_is pt) then loop pt f minp (SIsNull false lhs) r else POk (lhs, TIs :: TNull :: r).
  Proof. reflexivity. Qed.
  Lemma loop_isnot f minp lhs r :
    loop pt (S f) minp lhs (TIs :: TNot :: TNull :: r) =
    if Nat.leb minp (p_is pt) then loop pt f minp (SIsNull true lhs) r
    else POk (lhs, TIs :: TNot :: TNull :: r).
  Proof. reflexivity. Qed.
  Lemma loop_in f minp lhs r :
    loop pt (S f) minp lhs (TIn :: TLP :: r) =
    if Nat.leb minp (p_in pt) then in_tail false lhs r (items pt f) (loop pt f minp)
    else POk (lhs, TIn :: TLP :: r).
  Proof. reflexivity. Qed.
  Lemma loop_notin f minp lhs r :
    loop pt (S f) minp lhs (TNot :: TIn :: TLP :: r) =
    if Nat.leb minp (p_in pt) then in_tail true lhs r (items pt f) (loop pt f minp)
    else POk (lhs, TNot :: TIn :: TLP :: r).
  Proof. reflexivity. Qed.
  Lemma in_tail_sub neg lhs k r its K : in_tail neg lhs (TSub k :: TRP :: r) its K = K (SInSub neg lhs k) r.
  Proof. reflexivity. Qed.
  Lemma in_tail_empty neg lhs r its K : in_tail neg lhs (TRP :: r) its K = K (SIn neg lhs []) r.
  Proof. reflexivity. Qed.
  Lemma items_eq f ts :
    items pt (S f) ts =
    pbind (parse pt f 0 ts) (fun x =>
      match snd x with
      | TComma :: r => pbind (items pt f r) (fun y => POk (fst x :: fst y, snd y))
      | _ => POk ([fst x], snd x)
      end).
  Proof. reflexivity. Qed.

  (* a rendering starts with a token that can start an expression *)
  Definition is_start (t : tok) : bool :=
    match t with
    | TLP | TNot | TNull | TNum _ | TFlo _ | TStr _ | TCol _ | TFn _ => true
    | TOp BSub | TOp BAdd => true
    | _ => false
    end.
  Lemma rt_start n : wf n = true -> exists t r, rt d n = t :: r /\ is_start t = true.
  Proof.
    induction n; cbn [wf]; intros W; try discriminate.
    - eexists _, _; split; reflexivity.
    - destruct (atom_st_cases a) as [(z & -> & Hz & E)|[(z & -> & Hz & E)|[(s & -> & E)|[(-> & E)|[(h & -> & Hh & E)|(h & -> & Hh & E)]]]]];
        cbn [rt]; rewrite E; eexists _, _; split; reflexivity.
    - cbn [rt]. unfold sqlop_repr. eexists _, _; split; reflexivity.
    - cbn [rt]. destruct (is_sqlite d); unfold sqlop_repr; eexists _, _; split; reflexivity.
    - cbn [rt]. eexists _, _; split; reflexivity.
    - destruct p; cbn [rt prefixtoks app]; eexists _, _; split; reflexivity.
    - apply andb_true_iff in W as [W _]. apply andb_true_iff in W as [W U].
      destruct (IHn1 W) as (t & r & E & Ht). cbn [rt]. unfold insub_repr.
      destruct (is_lp_headed (rt d n1)).
      + eexists _, _; split; reflexivity.
      + rewrite E. cbn [app]. eexists _, _; split; [reflexivity|exact Ht].
  Qed.

  (* IN ( item, ... ) with a non-empty list the item reader has read *)
  Lemma in_tail_items neg lhs ts r its K ds :
    (exists t r0, ts = t :: r0 /\ is_start t = true) ->
    its (ts ++ TRP :: r) = POk (ds, TRP :: r) ->
    in_tail neg lhs (ts ++ TRP :: r) its K = K (SIn neg lhs ds) r.
  Proof.
    intros (t & r0 & -> & Ht) Hits. unfold in_tail. cbn [app] in *.
    destruct t; try discriminate Ht; try (rewrite Hits; reflexivity).
  Qed.
End Parse.

Section Main.
  Variable pt : ptable.
  Variable d : dialect.
  Notation Gs := (Gs pt d). Notation Us := (Us pt d). Notation Ls := (Ls pt d).

  Lemma pack n : wf n = true -> uform d n = true -> Us n -> Gs n /\ Us n /\ Ls n.
  Proof.
    intros W U HU. assert (HG : Gs n) by (apply G_of_U; assumption).
    split; [exact HG|]. split; [exact HU|]. apply L_generic; auto.
  Qed.

  Lemma leb0 k : Nat.leb 0 k = true.
  Proof. reflexivity. Qed.

  Lemma mod_call_parses a b f rest :
    Gs a -> Gs b -> need a + need b + 20 <= f ->
    unary pt f (TFn FMod :: TLP :: rt d a ++ TComma :: rt d b ++ TRP :: rest)
    = POk (SBin BMod (denote a) (denote b), rest).
  Proof.
    intros Ga Gb Hf. fuel f. rewrite unary_fn. fuel f. rewrite primary_mod.
    rewrite Ga; [|lia|exact I|apply (lvl_ok_0 pt d)].
    cbn [pbind]. rewrite Gb; [|lia|exact I|apply (lvl_ok_0 pt d)].
    reflexivity.
  Qed.

  (* "( a  op-tokens  ... )": the left operand, then whatever the loop does *)
  Lemma sqlop_parses a opts tail f rest e :
    Ls a -> forall m, need a + 7 + m <= f ->
    (forall g, m <= g -> loop pt g 0 (denote a) (opts ++ tail ++ TRP :: rest) = POk (e, TRP :: rest)) ->
    unary pt f (TLP :: wrap (rt d a) ++ opts ++ tail ++ TRP :: rest) = POk (e, rest).
  Proof.
    intros La m Hf HK. fuel f. rewrite unary_lp. fuel f. rewrite primary_lp.
    rewrite (La f (opts ++ tail ++ TRP :: rest) (POk (e, TRP :: rest)) m); [reflexivity|lia|exact HK].
  Qed.

  (* the members of an IN list *)
  Definition rtl (l : list node) : list tok := join_toks [TComma] (map (rt d) l).
  Definition needl (l : list node) : nat := list_sum (map (fun x => need x + 4) l).
  Lemma rtl_cons2 x y l : rtl (x :: y :: l) = rt d x ++ TComma :: rtl (y :: l).
  Proof. reflexivity. Qed.
  Lemma rtl_start x l : wf x = true -> exists t r0, rtl (x :: l) = t :: r0 /\ is_start t = true.
  Proof.
    intros W. destruct (rt_start d x W) as (t & r & E & Ht). destruct l as [|y l'].
    - exists t, r. split; [exact E|exact Ht].
    - rewrite rtl_cons2, E. cbn [app]. eexists _, _; split; [reflexivity|exact Ht].
  Qed.
  Lemma items_list l : l <> [] -> Forall Gs l ->
    forall f rest, needl l <= f -> items pt f (rtl l ++ TRP :: rest) = POk (map denote l, TRP :: rest).
  Proof.
    induction l as [|x l IH]; [congruence|]. intros _ F f rest Hf.
    inversion F as [|? ? Gx Fl]; subst. destruct l as [|y l'].
    - unfold needl, list_sum in Hf. cbn [map fold_right] in Hf. cbn [rtl map join_toks]. fuel f. rewrite items_eq.
      rewrite Gx; [|lia|exact I|apply lvl_ok_0]. reflexivity.
    - rewrite rtl_cons2. rewrite <- app_assoc. cbn [app].
      unfold needl, list_sum in Hf. cbn [map fold_right] in Hf. fuel f. rewrite items_eq.
      rewrite Gx; [|lia|exact I|apply lvl_ok_0]. cbn [pbind snd fst].
      rewrite IH; [reflexivity|discriminate|exact Fl|unfold needl, list_sum; cbn [map fold_right]; lia].
  Qed.

  Theorem rendered_parses n :
    wf n = true -> safe pt d n = true -> Gs n /\ Us n /\ Ls n.
  Proof.
    induction n as [c|a|l IHl|k|op a b IHa IHb IHl|a b IHa IHb|fn a b IHa IHb|p a IHa|neg a s IHa IHs|]
      using node_ind2; cbn [wf]; intros W S; try discriminate.
    - (* field *)
      apply pack; try reflexivity. intros _ f rest Hf. cbn [need] in Hf.
      fuel f. fuel f. cbn [rt app]. apply unary_col.
    - (* constant *)
      apply pack; try reflexivity. intros _ f rest Hf. cbn [need] in Hf. cbn [rt denote atom_sx].
      destruct (atom_st_cases a) as [(z & -> & Hz & E)|[(z & -> & Hz & E)|[(s & -> & E)|[(-> & E)|[(h & -> & Hh & E)|(h & -> & Hh & E)]]]]];
        rewrite E; cbn [app atom_sx]; unfold num_sx, flo_sx; rewrite ?Hz, ?Hh.
      + fuel f. rewrite unary_neg. fuel f. fuel f. rewrite unary_num. reflexivity.
      + fuel f. fuel f. apply unary_num.
      + fuel f. fuel f. apply unary_str.
      + fuel f. fuel f. apply unary_null.
      + fuel f. rewrite unary_neg. fuel f. fuel f. rewrite unary_flo. reflexivity.
      + fuel f. fuel f. apply unary_flo.
    - (* SQLOp *)
      destruct op as [o| | |].
      + apply andb_true_iff in W as [Wa Wb].
        cbn [safe] in S. apply andb_true_iff in S as [Sa Sb].
        destruct (IHa Wa Sa) as (Ga & Ua & La). destruct (IHb Wb Sb) as (Gb & Ub & Lb).
        apply pack; [cbn [wf]; rewrite Wa, Wb; reflexivity|reflexivity|].
        intros _ f rest Hf. cbn [need] in Hf. cbn [rt denote optoks]. rewrite sqlop_app.
        apply (sqlop_parses a [TOp o] (wrap (rt d b)) f rest _ La (need b + 7)); [lia|].
        intros g Hg. cbn [app]. fuel g. rewrite loop_op, leb0.
        rewrite (RO pt d b Wb Gb Ub); [|lia|exact I].
        cbn [pbind fst snd]. fuel g. apply loop_stops. exact I.
      + (* IN list *)
        apply andb_true_iff in W as [Wa Wb]. destruct b as [| |l| | | | | | |]; try discriminate.
        cbn [safe] in S. apply andb_true_iff in S as [Sa Sl].
        destruct (IHa Wa Sa) as (Ga & Ua & La).
        assert (Gl : Forall Gs l).
        { specialize (IHl l eq_refl). rewrite Forall_forall in *. intros x Hx.
          rewrite forallb_forall in Wb, Sl. destruct (IHl x Hx (Wb x Hx) (Sl x Hx)) as (G & _). exact G. }
        assert (Wl : Forall (fun x => wf x = true) l).
        { rewrite Forall_forall. rewrite forallb_forall in Wb. exact Wb. }
        apply pack; [cbn [wf]; rewrite Wa, Wb; reflexivity|reflexivity|].
        intros _ f rest Hf. cbn [need] in Hf. cbn [rt denote optoks]. rewrite sqlop_app.
        unfold wrap at 2. cbn [is_lp_headed orb].
        apply (sqlop_parses a [TIn] (TLP :: rtl l ++ [TRP]) f rest _ La (needl l + 4)); [unfold needl; lia|].
        intros g Hg. cbn [app]. rewrite <- app_assoc. cbn [app].
        fuel g. rewrite loop_in, leb0.
        destruct l as [|x l'].
        * cbn [rtl map join_toks app]. rewrite in_tail_empty. fuel g. apply loop_stops. exact I.
        * inversion Wl as [|? ? Wx _]; subst.
          rewrite (in_tail_items false (denote a) (rtl (x :: l')) (TRP :: rest) (items pt g) (loop pt g 0)
                     (map denote (x :: l')) (rtl_start x l' Wx)).
          -- fuel g. apply loop_stops. exact I.
          -- apply items_list; [discriminate|exact Gl|lia].
      + (* IS NULL *)
        apply andb_true_iff in W as [Wa Wb]. destruct b as [|[]| | | | | | | |]; try discriminate.
        cbn [safe] in S. destruct (IHa Wa S) as (Ga & Ua & La).
        apply pack; [cbn [wf]; rewrite Wa; reflexivity|reflexivity|].
        intros _ f rest Hf. cbn [need] in Hf. cbn [rt denote optoks]. rewrite sqlop_app.
        change (wrap (atom_st ANone)) with [TNull].
        apply (sqlop_parses a [TIs] [TNull] f rest _ La 2); [lia|].
        intros g Hg. cbn [app]. fuel g. rewrite loop_is, leb0. fuel g. apply loop_stops. exact I.
      + (* IS NOT NULL *)
        apply andb_true_iff in W as [Wa Wb]. destruct b as [|[]| | | | | | | |]; try discriminate.
        cbn [safe] in S. destruct (IHa Wa S) as (Ga & Ua & La).
        apply pack; [cbn [wf]; rewrite Wa; reflexivity|reflexivity|].
        intros _ f rest Hf. cbn [need] in Hf. cbn [rt denote optoks]. rewrite sqlop_app.
        change (wrap (atom_st ANone)) with [TNull].
        apply (sqlop_parses a [TIs; TNot] [TNull] f rest _ La 2); [lia|].
        intros g Hg. cbn [app]. fuel g. rewrite loop_isnot, leb0. fuel g. apply loop_stops. exact I.
    - (* SQLModulo *)
      apply andb_true_iff in W as [Wa Wb].
      cbn [safe] in S. apply andb_true_iff in S as [Sa Sb].
      destruct (IHa Wa Sa) as (Ga & Ua & La). destruct (IHb Wb Sb) as (Gb & Ub & Lb).
      apply pack; [cbn [wf]; rewrite Wa, Wb; reflexivity|reflexivity|].
      intros _ f rest Hf. cbn [need] in Hf. cbn [rt denote].
      destruct (is_sqlite d) eqn:D.
      + rewrite sqlop_app.
        apply (sqlop_parses a [TOp BMod] (wrap (rt d b)) f rest _ La (need b + 7)); [lia|].
        intros g Hg. cbn [app]. fuel g. rewrite loop_op, leb0.
        rewrite (RO pt d b Wb Gb Ub); [|lia|exact I].
        cbn [pbind fst snd]. fuel g. apply loop_stops. exact I.
      + cbn [app]. repeat (rewrite <- app_assoc; cbn [app]). apply mod_call_parses; assumption.
    - (* MOD(a, b) *)
      apply andb_true_iff in W as [Wa Wb].
      cbn [safe] in S. apply andb_true_iff in S as [Sa Sb].
      destruct (IHa Wa Sa) as (Ga & Ua & La). destruct (IHb Wb Sb) as (Gb & Ub & Lb).
      apply pack; [cbn [wf]; rewrite Wa, Wb; reflexivity|reflexivity|].
      intros _ f rest Hf. cbn [need] in Hf. destruct fn. cbn [rt denote].
      cbn [app]. repeat (rewrite <- app_assoc; cbn [app]). apply mod_call_parses; assumption.
    - (* SQLPrefix *)
      destruct p.
      + apply andb_true_iff in W as [Wa Uok]. cbn [safe] in S.
        destruct (IHa Wa S) as (Ga & Ua & La).
        apply pack; [cbn [wf]; rewrite Wa, Uok; reflexivity|reflexivity|].
        intros _ f rest Hf. cbn [need] in Hf. cbn [rt denote prefixtoks app].
        fuel f. rewrite unary_neg. rewrite (Ua (uform_of_unary_ok d a Uok)) by lia. reflexivity.
      + apply andb_true_iff in W as [Wa Uok]. cbn [safe] in S.
        destruct (IHa Wa S) as (Ga & Ua & La).
        apply pack; [cbn [wf]; rewrite Wa, Uok; reflexivity|reflexivity|].
        intros _ f rest Hf. cbn [need] in Hf. cbn [rt denote prefixtoks app].
        fuel f. rewrite unary_pos. rewrite (Ua (uform_of_unary_ok d a Uok)) by lia. reflexivity.
      + cbn [safe] in S. apply andb_true_iff in S as [Sa Sc].
        destruct (IHa W Sa) as (Ga & Ua & La).
        assert (HG : Gs (NSQLPrefix PNot a)).
        { intros f minp rest Hf Hs Hl. cbn [need] in Hf. cbn [lvl_ok] in Hl.
          cbn [rt denote prefixtoks app]. fuel f. rewrite parse_not.
          destruct (Nat.leb_spec minp (p_not pt)); [|lia].
          rewrite Ga; [|lia|exact Hs|].
          - cbn [pbind fst snd]. fuel f. now apply loop_stops.
          - destruct a as [| | | | | | |[]|neg' a' s'|]; cbn [lvl_ok]; try exact I; try lia.
            destruct (closed_rt d (NINSubquery neg' a' s')) eqn:C; [now left|right].
            rewrite closed_insub_rt, C in Sc. cbn [is_insub andb negb] in Sc.
            apply Nat.leb_le in Sc. exact Sc. }
        split; [exact HG|]. split; [intros U; discriminate|].
        apply L_generic; auto. intros U; discriminate.
    - (* INSubquery *)
      destruct (insub_shape d neg a s W) as (t & r & k & E & Ht & -> & Wa & Uok).
      cbn [safe] in S. destruct (IHa Wa S) as (Ga & Ua & La).
      (* the unparenthesised form  item IN (subquery) *)
      assert (GI : forall f minp rest, need a + 4 <= f -> stops rest -> minp <= p_in pt ->
                 parse pt f minp (rt d a ++ insub_op neg ++ [TLP] ++ [TSub k] ++ TRP :: rest)
                 = POk (SInSub neg (denote a) k, rest)).
      { intros f minp rest Hf Hs Hl. fuel f. rewrite E. cbn [app].
        rewrite parse_nonnot by exact Ht.
        change (t :: r ++ insub_op neg ++ TLP :: TSub k :: TRP :: rest)
          with ((t :: r) ++ insub_op neg ++ TLP :: TSub k :: TRP :: rest).
        rewrite <- E. rewrite (Ua (uform_of_unary_ok d a Uok)) by lia. cbn [pbind fst snd].
        fuel f. destruct neg; cbn [insub_op app]; rewrite ?loop_in, ?loop_notin, in_tail_sub;
          (destruct (Nat.leb_spec minp (p_in pt)); [|lia]); fuel f; now apply loop_stops. }
      destruct (is_lp_headed (rt d a)) eqn:C.
      + (* parenthesised as a whole: a primary *)
        apply pack; [cbn [wf]; rewrite Wa, Uok; reflexivity|unfold uform; cbn [closed_rt]; rewrite C; apply orb_true_r|].
        intros _ f rest Hf. cbn [need] in Hf. cbn [rt denote]. unfold insub_repr. rewrite C.
        cbn [rt app]. rewrite <- !app_assoc. cbn [app].
        fuel f. rewrite unary_lp. fuel f. rewrite primary_lp.
        change (rt d a ++ insub_op neg ++ TLP :: TSub k :: TRP :: TRP :: rest)
          with (rt d a ++ insub_op neg ++ [TLP] ++ [TSub k] ++ TRP :: TRP :: rest).
        rewrite GI; [reflexivity|lia|exact I|lia].
      + assert (HG : Gs (NINSubquery neg a (NSelect k))).
        { intros f minp rest Hf Hs Hl. cbn [need] in Hf. cbn [lvl_ok closed_rt] in Hl.
          destruct Hl as [Hl|Hl]; [congruence|].
          cbn [rt denote]. unfold insub_repr. rewrite C. cbn [rt]. rewrite <- !app_assoc.
          change (([TRP] ++ rest)) with (TRP :: rest). apply GI; [lia|exact Hs|exact Hl]. }
        assert (HU : Us (NINSubquery neg a (NSelect k))).
        { intros U. unfold uform in U. cbn [unary_ok is_insub negb andb orb closed_rt] in U. congruence. }
        split; [exact HG|]. split; [exact HU|]. apply L_generic; auto.
  Qed.
End Main.

(* ================================================================ enough fuel *)
Lemma wrap_length s : length s <= length (wrap s).
Proof.
  unfold wrap. destruct (is_lp_headed s || is_null_text s); [lia|].
  cbn [length]. rewrite app_length. cbn [length]. lia.
Qed.
Lemma sqlop_length op s1 s2 :
  length s1 + length op + length s2 + 2 <= length (sqlop_repr op s1 s2).
Proof.
  unfold sqlop_repr. cbn [length]. rewrite !app_length. cbn [length].
  pose proof (wrap_length s1). pose proof (wrap_length s2). lia.
Qed.
Lemma atom_st_length a : 1 <= length (atom_st a).
Proof.
  destruct (atom_st_cases a) as [(z & -> & Hz & E)|[(z & -> & Hz & E)|[(s & -> & E)|[(-> & E)|[(h & -> & Hh & E)|(h & -> & Hh & E)]]]]];
    rewrite E; cbn [length]; lia.
Qed.

Lemma needl_le_length d l :
  Forall (fun x => need x <= 8 * length (rt d x)) l ->
  list_sum (map (fun x => need x + 4) l) <= 8 * length (join_toks [TComma] (map (rt d) l)) + 4.
Proof.
  induction l as [|x l IH]; intros F; [cbn; lia|].
  inversion F as [|? ? Hx Fl]; subst. specialize (IH Fl). destruct l as [|y l'].
  - unfold list_sum. cbn [map fold_right join_toks]. lia.
  - unfold list_sum in *. cbn [map fold_right] in *. cbn [join_toks].
    rewrite !app_length. cbn [length]. cbn [map join_toks] in IH. lia.
Qed.

Lemma need_le_length d n : need n <= 8 * length (rt d n).
Proof.
  induction n as [c|a|l IHl|k|op a b IHa IHb _|a b IHa IHb|f a b IHa IHb|p a IHa|neg a s IHa IHs|] using node_ind2;
    cbn [need rt].
  - cbn [length]. lia.
  - pose proof (atom_st_length a). lia.
  - pose proof (needl_le_length d l IHl). cbn [length]. rewrite app_length. cbn [length]. lia.
  - cbn [length]. lia.
  - pose proof (sqlop_length (optoks op) (rt d a) (rt d b)).
    assert (1 <= length (optoks op)) by (destruct op; cbn [optoks length]; lia). lia.
  - destruct (is_sqlite d).
    + pose proof (sqlop_length [TOp BMod] (rt d a) (rt d b)). cbn [length] in *. lia.
    + cbn [length]. rewrite !app_length. cbn [length]. rewrite app_length. cbn [length]. lia.
  - cbn [length]. rewrite !app_length. cbn [length]. rewrite app_length. cbn [length]. lia.
  - rewrite app_length. assert (1 <= length (prefixtoks p)) by (destruct p; cbn [prefixtoks length]; lia). lia.
  - unfold insub_repr. destruct (is_lp_headed (rt d a)); cbn [length]; rewrite !app_length;
      cbn [length]; rewrite ?app_length; cbn [length]; lia.
  - cbn [length]. lia.
Qed.

(* ================================================================ the parse theorem *)
Theorem parse_rendered_ok pt d n :
  wf n = true -> safe pt d n = true ->
  parse_rendered pt (render d n) = Parsed (denote n).
Proof.
  intros W S. unfold parse_rendered, parse_sql. rewrite sql_tokens_render.
  destruct (rendered_parses pt d n W S) as (G & _ & _).
  specialize (G (parse_fuel (rt d n)) 0 []).
  rewrite app_nil_r in G. rewrite G; [reflexivity| |exact I|apply lvl_ok_0].
  unfold parse_fuel. pose proof (need_le_length d n). lia.
Qed.

(* ================================================================ typing gives the side conditions *)
Lemma infer_unary_ok n x : infer n = Some x -> ity_is x TyNum = true -> unary_ok n = true.
Proof.
  destruct n; try reflexivity; cbn [infer].
  - destruct p; try reflexivity.
    destruct (infer n); [|discriminate]. destruct (ity_is i TyBool); [|discriminate].
    intros [= <-]. discriminate.
  - destruct (infer n1); [|discriminate]. destruct (ity_is i TyNum && is_select n2); [|discriminate].
    intros [= <-]. discriminate.
Qed.

Lemma wt_wf n : wt n = true -> wf n = true.
Proof.
  unfold wt.
  induction n as [c|a|l IHl|k|op n1 n2 IHn1 IHn2 IHl|n1 n2 IHn1 IHn2|f n1 n2 IHn1 IHn2|p n IHn|neg n1 n2 IHn1 IHn2|]
    using node_ind2; cbn [infer wf]; try reflexivity; try discriminate.
  - (* SQLOp *)
    destruct op as [o| | |].
    + destruct (infer n1) as [x|]; [|discriminate]. destruct (infer n2) as [y|]; [|discriminate].
      intros _. rewrite IHn1, IHn2; reflexivity.
    + destruct (infer n1) as [x|]; [|discriminate]. destruct n2 as [| |l| | | | | | |]; try discriminate.
      destruct (existsb _ _) eqn:Ex; [|discriminate]. intros _. rewrite IHn1 by reflexivity. cbn [andb].
      apply existsb_exists in Ex as (t & _ & Ht). apply andb_true_iff in Ht as [_ Ht].
      specialize (IHl l eq_refl). rewrite Forall_forall in IHl. rewrite forallb_forall in *.
      intros c Hc. apply IHl; [exact Hc|]. specialize (Ht c Hc). destruct (infer c); [reflexivity|discriminate].
    + destruct (infer n1) as [x|]; [|discriminate]. destruct (is_none n2); [|discriminate].
      intros _. rewrite IHn1; reflexivity.
    + destruct (infer n1) as [x|]; [|discriminate]. destruct (is_none n2); [|discriminate].
      intros _. rewrite IHn1; reflexivity.
  - destruct (infer n1) as [x|]; [|discriminate]. destruct (infer n2) as [y|]; [|discriminate].
    intros _. rewrite IHn1, IHn2; reflexivity.
  - destruct (infer n1) as [x|]; [|discriminate]. destruct (infer n2) as [y|]; [|discriminate].
    intros _. rewrite IHn1, IHn2; reflexivity.
  - destruct p.
    + destruct (infer n) as [x|] eqn:E; [|discriminate]. destruct (ity_is x TyNum) eqn:T; [|discriminate].
      intros _. rewrite IHn by reflexivity. rewrite (infer_unary_ok n x E T). reflexivity.
    + destruct (infer n) as [x|] eqn:E; [|discriminate]. destruct (ity_is x TyNum) eqn:T; [|discriminate].
      intros _. rewrite IHn by reflexivity. rewrite (infer_unary_ok n x E T). reflexivity.
    + destruct (infer n) as [x|]; [|discriminate]. intros _. apply IHn. reflexivity.
  - destruct (infer n1) as [x|] eqn:E; [|discriminate].
    destruct (ity_is x TyNum) eqn:T; [|discriminate]. destruct (is_select n2) eqn:Sel; [|discriminate].
    intros _. rewrite IHn1 by reflexivity. rewrite (infer_unary_ok n1 x E T). reflexivity.
Qed.

Lemma no_subquery_not_insub n : no_subquery n = true -> is_insub n = false.
Proof. destruct n; cbn; try reflexivity. discriminate. Qed.

Lemma no_subquery_safe pt d n : no_subquery n = true -> safe pt d n = true.
Proof.
  induction n as [c|a|l IHl|k|op n1 n2 IHn1 IHn2 IHl|n1 n2 IHn1 IHn2|f n1 n2 IHn1 IHn2|p n IHn|neg n1 n2 IHn1 IHn2|]
    using node_ind2; cbn [no_subquery safe]; try reflexivity; try discriminate.
  - intros H. apply andb_true_iff in H as [H1 H2]. destruct op.
    + rewrite IHn1, IHn2 by assumption. reflexivity.
    + rewrite IHn1 by assumption. destruct n2 as [| |l| | | | | | |]; try reflexivity. cbn [andb].
      specialize (IHl l eq_refl). rewrite Forall_forall in IHl. cbn [no_subquery] in H2.
      rewrite forallb_forall in *. intros c Hc. apply IHl; auto.
    + now apply IHn1.
    + now apply IHn1.
  - intros H. apply andb_true_iff in H as [H1 H2]. rewrite IHn1, IHn2 by assumption. reflexivity.
  - intros H. apply andb_true_iff in H as [H1 H2]. rewrite IHn1, IHn2 by assumption. reflexivity.
  - intros H. destruct p; try (now apply IHn).
    rewrite IHn by assumption. rewrite (no_subquery_not_insub n H). reflexivity.
Qed.

(* NOT no tighter than IN: every tree is safe *)
Lemma table_safe pt d n : Nat.leb (p_not pt) (p_in pt) = true -> safe pt d n = true.
Proof.
  intros T.
  induction n as [c|a|l IHl|k|op n1 n2 IHn1 IHn2 IHl|n1 n2 IHn1 IHn2|f n1 n2 IHn1 IHn2|p n IHn|neg n1 n2 IHn1 IHn2|]
    using node_ind2; cbn [safe]; try reflexivity.
  - destruct op; rewrite ?IHn1, ?IHn2; try reflexivity.
    destruct n2 as [| |l| | | | | | |]; try reflexivity. cbn [andb].
    specialize (IHl l eq_refl). rewrite Forall_forall in IHl. rewrite forallb_forall. exact IHl.
  - rewrite IHn1, IHn2. reflexivity.
  - rewrite IHn1, IHn2. reflexivity.
  - destruct p; rewrite IHn; try reflexivity. rewrite T. destruct (is_insub n && negb (closed_insub d n)); reflexivity.
  - exact IHn1.
Qed.

(* ---------------- the statements used by Props/C03.v *)
Theorem render_parse_any_table pt d n :
  wt n = true -> no_subquery n = true ->
  parse_rendered pt (render d n) = Parsed (denote n).
Proof. intros W N. apply parse_rendered_ok; [now apply wt_wf|now apply no_subquery_safe]. Qed.

Theorem render_parse_full d n :
  wt n = true -> parse_rendered std_table (render d n) = Parsed (denote n).
Proof. intros W. apply parse_rendered_ok; [now apply wt_wf|now apply table_safe]. Qed.

Theorem render_parse_tables pt d n :
  Nat.leb (p_not pt) (p_in pt) = true -> wt n = true ->
  parse_rendered pt (render d n) = Parsed (denote n).
Proof. intros T W. apply parse_rendered_ok; [now apply wt_wf|now apply table_safe]. Qed.

Theorem render_parse_safe pt d n :
  wt n = true -> safe pt d n = true ->
  parse_rendered pt (render d n) = Parsed (denote n).
Proof. intros W S. apply parse_rendered_ok; [now apply wt_wf|exact S]. Qed.
