(* C20: facts about rows, tables, the version list and the ghost history. *)
From Coq Require Import List ZArith NArith Bool Lia.
From Model Require Import Events Versioning.
From Proofs Require Import EventsBase.
Import ListNotations.
Open Scope Z_scope.

Definition full (r : kwargs) : Prop := map fst r = all_cols.

(* ------------------------------------------------------------------ rows *)
Lemma full_inv r : full r -> exists a b c, r = [(CA, a); (CB, b); (CC, c)].
Proof.
  unfold full, all_cols. intros H.
  destruct r as [|[c1 v1] [|[c2 v2] [|[c3 v3] [|? ?]]]]; simpl in H; try discriminate.
  inversion H; subst. eauto.
Qed.
Lemma sort_cols_full r : full r -> sort_cols r = r.
Proof. intros H. destruct (full_inv r H) as [a [b [c ->]]]. reflexivity. Qed.
Lemma row_update_full w r : full w -> full r -> row_update w r = w.
Proof.
  intros Hw Hr. destruct (full_inv w Hw) as [a [b [c ->]]]. destruct (full_inv r Hr) as [a' [b' [c' ->]]]. reflexivity.
Qed.
Lemma row_update_keys w r : map fst (row_update w r) = map fst r.
Proof.
  unfold row_update. induction r as [|p rest IH]; simpl; [reflexivity|].
  rewrite IH. destruct (kw_get (fst p) w); reflexivity.
Qed.
Lemma row_update_keeps_full w r : full r -> full (row_update w r).
Proof. unfold full. rewrite row_update_keys. auto. Qed.

Lemma kw_get_In c kw v : kw_get c kw = Some v -> In (c, v) kw.
Proof.
  induction kw as [|[c' v'] r IH]; simpl; [discriminate|].
  destruct (col_eqb c c') eqn:E.
  - intros H. inversion H; subst. apply col_eqb_eq in E. subst. left. reflexivity.
  - intros H. right. exact (IH H).
Qed.
Lemma validate_get kw c v : validate kw = true -> kw_get c kw = Some v -> val_ok (col_ty c) v = true.
Proof.
  intros Hv Hg. unfold validate in Hv. rewrite forallb_forall in Hv.
  exact (Hv _ (kw_get_In _ _ _ Hg)).
Qed.
Lemma validate_sort_cols kw : validate kw = true -> validate (sort_cols kw) = true.
Proof.
  intros H. unfold sort_cols, all_cols. cbn [flat_map].
  destruct (kw_get CA kw) eqn:EA; destruct (kw_get CB kw) eqn:EB; destruct (kw_get CC kw) eqn:EC;
    cbn [app]; unfold validate; cbn [forallb fst snd];
    rewrite ?(validate_get kw CA _ H EA), ?(validate_get kw CB _ H EB), ?(validate_get kw CC _ H EC); reflexivity.
Qed.
Lemma validate_row_update w r : validate w = true -> validate r = true -> validate (row_update w r) = true.
Proof.
  intros Hw. unfold row_update, validate. induction r as [|[c v] rest IH]; cbn [map forallb fst snd]; [reflexivity|].
  intros H. apply andb_true_iff in H. destruct H as [H1 H2].
  destruct (kw_get c w) eqn:E; cbn [fst snd].
  - rewrite (validate_get w c _ Hw E). apply IH. exact H2.
  - rewrite H1. apply IH. exact H2.
Qed.

Lemma kw_has_app c a b : kw_has c (a ++ b) = kw_has c a || kw_has c b.
Proof.
  unfold kw_has. induction a as [|[c' v'] r IH]; simpl; [reflexivity|].
  destruct (col_eqb c c'); [reflexivity|exact IH].
Qed.
Lemma fill_defaults_has kw kw2 :
  fill_defaults all_cols kw = Some kw2 -> kw_has CA kw2 = true /\ kw_has CB kw2 = true /\ kw_has CC kw2 = true.
Proof.
  unfold all_cols. cbn [fill_defaults].
  destruct (kw_has CA kw) eqn:EA; cbn [col_default]; [|discriminate].
  destruct (kw_has CB kw) eqn:EB; cbn [col_default].
  - destruct (kw_has CC kw) eqn:EC; cbn [col_default]; intros H; inversion H; subst;
      rewrite ?kw_has_app, ?EA, ?EB, ?EC; repeat split; reflexivity.
  - destruct (kw_has CC (kw ++ [(CB, VNull)])) eqn:EC; cbn [col_default]; intros H; inversion H; subst;
      rewrite ?kw_has_app in *; rewrite ?EA, ?EB, ?EC; repeat split; try reflexivity; try assumption.
Qed.
Lemma sort_cols_full_of kw :
  kw_has CA kw = true -> kw_has CB kw = true -> kw_has CC kw = true -> full (sort_cols kw).
Proof.
  unfold kw_has, sort_cols, all_cols, full. simpl.
  destruct (kw_get CA kw); [|discriminate]. destruct (kw_get CB kw); [|discriminate].
  destruct (kw_get CC kw); [|discriminate]. reflexivity.
Qed.

(* ------------------------------------------------------------------ tables *)
Lemma row_of_app m t id row :
  row_of m (t ++ [(id, row)]) = match row_of m t with Some r => Some r | None => if Z.eqb m id then Some row else None end.
Proof.
  induction t as [|[i r] rest IH]; simpl; [reflexivity|].
  destruct (Z.eqb m i); [reflexivity|exact IH].
Qed.
Lemma row_of_tbl_update m' m w t :
  row_of m' (tbl_update m w t)
  = match row_of m' t with Some r => Some (if Z.eqb m' m then row_update w r else r) | None => None end.
Proof.
  unfold tbl_update. induction t as [|[i r] rest IH]; simpl; [reflexivity|].
  destruct (Z.eqb i m) eqn:E; simpl.
  - destruct (Z.eqb m' i) eqn:E2.
    + apply Z.eqb_eq in E. apply Z.eqb_eq in E2. subst. rewrite Z.eqb_refl. reflexivity.
    + exact IH.
  - destruct (Z.eqb m' i) eqn:E2.
    + apply Z.eqb_eq in E2. subst. rewrite E. reflexivity.
    + exact IH.
Qed.

(* ------------------------------------------------------------------ ghost history *)
Lemma hist_get_push_same m r h : hist_get m (hist_push m r h) = hist_get m h ++ [r].
Proof.
  induction h as [|[i l] rest IH]; simpl.
  - rewrite Z.eqb_refl. reflexivity.
  - destruct (Z.eqb m i) eqn:E; simpl; rewrite E; [reflexivity|exact IH].
Qed.
Lemma hist_get_push_other m m' r h : m' <> m -> hist_get m' (hist_push m r h) = hist_get m' h.
Proof.
  intros Hn. induction h as [|[i l] rest IH]; simpl.
  - destruct (Z.eqb m' m) eqn:E; [apply Z.eqb_eq in E; contradiction|reflexivity].
  - destruct (Z.eqb m i) eqn:E; simpl.
    + apply Z.eqb_eq in E. subst i. destruct (Z.eqb m' m) eqn:E2; [apply Z.eqb_eq in E2; contradiction|reflexivity].
    + destruct (Z.eqb m' i); [reflexivity|exact IH].
Qed.

Lemma find_version_In vid t ver : find_version vid t = Some ver -> In ver t /\ v_id ver = vid.
Proof.
  unfold find_version. intros H. apply find_some in H. destruct H as [H1 H2]. apply Z.eqb_eq in H2. auto.
Qed.
