(* C19: the inheritance chain -- every RowCreatedSignal of a successful
   creation is delivered after the INSERTs of all levels. *)
From Coq Require Import List ZArith NArith Bool Lia Arith.
From Model Require Import Events.
From Proofs Require Import EventsBase.
Import ListNotations.
Open Scope Z_scope.

Lemma ctable_set_same s l x : ctable (set_ctable s l x) l = x.
Proof. destruct l; reflexivity. Qed.
Lemma ctable_set_other s l a x : a <> l -> ctable (set_ctable s l x) a = ctable s a.
Proof. destruct l, a; intros H; try reflexivity; contradiction. Qed.
Lemma lvl_dec (a b : lvl) : {a = b} + {a <> b}.
Proof. decide equality. Qed.

Lemma has_row_append s l a id row :
  has_row id (ctable s a) = true -> has_row id (ctable (set_ctable s l (ctable s l ++ [row])) a) = true.
Proof.
  intros H. destruct (lvl_dec a l) as [->|Hn].
  - rewrite ctable_set_same. unfold has_row in *. rewrite existsb_app, H. reflexivity.
  - rewrite ctable_set_other by exact Hn. exact H.
Qed.
Lemma ctable_next s n a : ctable (set_cnext s n) a = ctable s a.
Proof. destruct a; reflexivity. Qed.
Lemma ctable_fired s f a : ctable (set_cfired s f) a = ctable s a.
Proof. destruct a; reflexivity. Qed.

Lemma chain_level_ok t : forall ls seen kw child s,
  x_ok (chain_level t ls seen kw child s) = None ->
  x_id (chain_level t ls seen kw child s) = cnext s
  /\ existsb (is_sig SCreated) (x_tr (chain_level t ls seen kw child s)) = false
  /\ inserts_of (x_tr (chain_level t ls seen kw child s)) = map (fun a => (a, cnext s)) (rev ls)
  /\ x_done (chain_level t ls seen kw child s) = rev ls
  /\ (forall a, In a ls -> has_row (cnext s) (ctable (x_st (chain_level t ls seen kw child s)) a) = true).
Proof.
  induction ls as [|l ps IH]; intros seen kw child s.
  - intros _. simpl. repeat split; try reflexivity. intros a [].
  - cbn [chain_level].
    destruct (raiser (cfired s) (sel SCreate (ltab t l))); [cbn [x_ok]; discriminate|].
    destruct (negb (is_nil ps) && negb (kw_has (own l) kw) && no_default (own l)); [cbn [x_ok]; discriminate|].
    specialize (IH [] kw (Some l) s).
    remember (chain_level t ps [] kw (Some l) s) as p eqn:Hp.
    destruct (x_ok p) eqn:Hok; [cbn [x_ok]; discriminate|].
    destruct (IH eq_refl) as [Hid [Hnc [Hins [Hdone Hrows]]]].
    assert (Hid' : (if is_nil ps then cnext (x_st p) else x_id p) = cnext s).
    { destruct ps; [|exact Hid]. simpl in Hp. subst p. reflexivity. }
    rewrite Hid'.
    destruct (match kw_get (own l) kw with Some v => Some v | None => col_default (own l) end) as [v|];
      [|cbn [x_ok]; discriminate].
    destruct (negb (val_ok (col_ty (own l)) v)); [cbn [x_ok]; discriminate|].
    cbn [x_ok]. destruct (p_raised (posts_x _ SCreate l (cnext s) _)) eqn:Eq; [discriminate|].
    intros _. destruct (posts_x_quiet _ _ _ _ _ Eq) as [Hq _]. cbn [x_id x_tr x_done x_st]. rewrite Hq. repeat split.
    + repeat rewrite existsb_app. rewrite Hnc, no_sig_run_posts.
      rewrite (no_other_sig_events SCreated SCreate) by reflexivity. reflexivity.
    + repeat rewrite inserts_of_app. rewrite Hins.
      rewrite (inserts_of_none (sig_events _ _ _ _ _)) by apply no_insert_sig_events.
      rewrite (inserts_of_none (run_posts _ _ _ _)) by apply no_insert_run_posts.
      simpl rev. rewrite map_app. simpl. reflexivity.
    + rewrite Hdone. reflexivity.
    + intros a [Ha|Ha].
      * subst a.
        assert (Hx : has_row (cnext s) (ctable (set_ctable (x_st p) l (ctable (x_st p) l ++ [(cnext s, v, child)])) l) = true).
        { rewrite ctable_set_same. unfold has_row. rewrite existsb_app. simpl. unfold crow_id. simpl.
          rewrite Z.eqb_refl, orb_true_r. reflexivity. }
        rewrite ctable_fired. destruct (is_nil ps); [rewrite ctable_next|]; exact Hx.
      * pose proof (has_row_append (x_st p) l a (cnext s) (cnext s, v, child) (Hrows a Ha)) as Hx.
        rewrite ctable_fired. destruct (is_nil ps); [rewrite ctable_next|]; exact Hx.
Qed.

Lemma flush_quiet t : forall done fired id,
  p_raised (flush_x t fired id done) = false ->
  p_tr (flush_x t fired id done) = flat_map (fun a : lvl => after_part (ltab t a) SCreated a id) done.
Proof.
  induction done as [|a r IH]; intros fired id; cbn [flush_x flat_map]; [reflexivity|].
  destruct (p_raised (after_x (ltab t a) fired SCreated a id)) eqn:E; [intros H; congruence|].
  cbn [p_raised p_tr]. intros H. destruct (after_x_quiet _ _ _ _ _ E) as [H1 _]. rewrite H1, (IH _ _ H). reflexivity.
Qed.

Lemma flat_after_no_insert t ls id :
  existsb is_insert (flat_map (fun a : lvl => after_part (ltab t a) SCreated a id) ls) = false.
Proof.
  induction ls as [|a r IH]; simpl; [reflexivity|]. rewrite existsb_app, no_insert_after_part, IH. reflexivity.
Qed.

Lemma lineage_rev_root l : exists rest, rev (lineage l) = LA :: rest.
Proof. destruct l; simpl; eauto. Qed.

(* a successful creation at any level of the chain, with any listeners *)
Lemma chain_created_after t l kw s s' id tr :
  chain_create t l kw s = (s', CDone id, tr) ->
  created_after_inserts tr = true
  /\ inserts_of tr = map (fun a => (a, id)) (rev (lineage l))
  /\ (forall a, In a (lineage l) -> has_row id (ctable s' a) = true).
Proof.
  unfold chain_create. destruct (negb (chain_kw_ok l (mk_kw kw))); [discriminate|].
  remember (chain_level t (lineage l) (mk_kw kw) (mk_kw kw) None s) as r eqn:Hr.
  destruct (p_raised (flush_x t (cfired (x_st r)) (cnext s) (x_done r))) eqn:Ef; [discriminate|].
  destruct (x_ok r) eqn:Hok; [discriminate|].
  intros H. inversion H; subst s' id tr; clear H. rewrite (flush_quiet _ _ _ _ Ef).
  pose proof (chain_level_ok t (lineage l) (mk_kw kw) (mk_kw kw) None s) as L.
  rewrite <- Hr in L. destruct (L Hok) as [Hid [Hnc [Hins [Hdone Hrows]]]].
  rewrite Hid. repeat split.
  - rewrite cai_app by exact Hnc. apply cai_no_insert, flat_after_no_insert.
  - rewrite inserts_of_app, Hins, inserts_of_none by apply flat_after_no_insert. apply app_nil_r.
  - intros a Ha. rewrite ctable_fired. exact (Hrows a Ha).
Qed.

(* all histories of creations *)
Lemma chain_run_created_after t : forall ops s r,
  In r (chain_run t s ops) -> forall id, cr_out r = CDone id ->
  created_after_inserts (cr_tr r) = true
  /\ inserts_of (cr_tr r) = map (fun a => (a, id)) (rev (lineage (cr_lvl r)))
  /\ (forall a, In a (lineage (cr_lvl r)) -> has_row id (ctable (cr_post r) a) = true).
Proof.
  induction ops as [|[l kw] rest IH]; intros s r H; simpl in H; [contradiction|].
  destruct H as [H|H]; [|exact (IH _ _ H)].
  subst r. simpl. intros id Hid. apply (chain_created_after t l kw s).
  destruct (chain_create t l kw s) as [[s' o] tr]. simpl in *. subst o. reflexivity.
Qed.

(* ================================================================== *)
(* updates of chain instances                                          *)

(* ------------------------------------------------------------------ recv_of over the pieces *)
Lemma recv_app {K} keq s (a : K) (x y : list (ev K)) : recv_of keq s a (x ++ y) = recv_of keq s a x ++ recv_of keq s a y.
Proof. unfold recv_of. apply flat_map_app. Qed.
Lemma recv_sig_events {K} keq s (a : K) s' k id L kw :
  recv_of keq s a (sig_events s' k id L kw) = if sig_eqb s s' && keq a k then map fst L else [].
Proof.
  revert kw. induction L as [|l r IH]; intros kw; cbn [sig_events map].
  - destruct (sig_eqb s s' && keq a k); reflexivity.
  - unfold recv_of in *. cbn [flat_map]. rewrite IH. destruct (sig_eqb s s' && keq a k); reflexivity.
Qed.
Lemma recv_run_posts {K} keq s (a : K) s' k id ts : recv_of keq s a (run_posts s' k id ts) = [].
Proof. unfold run_posts, recv_of. induction ts as [|x r IH]; cbn [map flat_map]; [reflexivity|exact IH]. Qed.
Lemma recv_after_part {K} keq s (a : K) tab s' k id :
  recv_of keq s a (after_part tab s' k id) = if sig_eqb s s' && keq a k then map fst (sel s' tab) else [].
Proof. unfold after_part. rewrite recv_app, recv_sig_events, recv_run_posts, app_nil_r. reflexivity. Qed.
Lemma recv_write {K} keq s (a : K) (w : write K) : recv_of keq s a [EWrite w] = [].
Proof. reflexivity. Qed.

Lemma recv_nil {K} keq s (a : K) : recv_of keq s a [] = [].
Proof. reflexivity. Qed.
Lemma rounds_0 L : rounds 0 L = [].
Proof. reflexivity. Qed.
Lemma rounds_1 L : rounds 1 L = map fst L.
Proof. unfold rounds. cbn [repeat concat]. apply app_nil_r. Qed.
Lemma rounds_add m n L : rounds (m + n) L = rounds m L ++ rounds n L.
Proof. unfold rounds. rewrite repeat_app, concat_app. reflexivity. Qed.

(* ------------------------------------------------------------------ the setters against the closed form *)
Lemma kw_ok_le l c : existsb (fun a => col_eqb c (own a)) (lineage l) = lvl_le (owner c) l.
Proof. destruct l, c; reflexivity. Qed.
Lemma owner_own l : owner (own l) = l.
Proof. destruct l; reflexivity. Qed.
Lemma lvl_eqb_eq a b : lvl_eqb a b = true <-> a = b.
Proof. destruct a, b; simpl; split; intros H; try reflexivity; try discriminate. Qed.

Lemma uassign_at_ok t l id c v s :
  lvl_le (owner c) l = true ->
  uassign_at t (lineage l) id c v s =
    if negb (val_ok (col_ty c) v)
    then (Some XInvalid,
          flat_map (fun a => sig_events SUpdate a (Some id) (sel SUpdate (ltab t a)) [(c, v)]) (path_to l (owner c)), s)
    else (None, uspec_assign t l id c v, store id s (c, v)).
Proof.
  unfold uspec_assign, store.
  destruct l, c; try discriminate; intros _;
    cbn [uassign_at lineage owner lvl_eqb path_to filter lvl_le existsb orb flat_map fst snd];
    destruct (negb (val_ok _ v)); cbn [fst snd]; rewrite ?app_nil_r, <- ?app_assoc; reflexivity.
Qed.

Lemma uextras_ok t l id : forall extra s,
  forallb (fun p => lvl_le (owner (fst p)) l) extra = true ->
  fst (fst (uextras t (lineage l) id extra s)) = None ->
  uextras t (lineage l) id extra s
  = (None, flat_map (fun p => uspec_assign t l id (fst p) (snd p)) extra, fold_left (store id) extra s).
Proof.
  induction extra as [|[c v] r IH]; intros s Hle; [reflexivity|].
  cbn [forallb fst] in Hle. apply andb_true_iff in Hle. destruct Hle as [Hc Hr].
  cbn [uextras flat_map fold_left fst snd]. rewrite (uassign_at_ok _ _ _ _ _ _ Hc).
  destruct (negb (val_ok (col_ty c) v)); cbn [fst snd]; [discriminate|].
  intros H. rewrite (IH _ Hr) in *.
  - reflexivity.
  - destruct (uextras t (lineage l) id r (store id s (c, v))) as [[e tr] s']. cbn [fst snd] in *. exact H.
  - destruct (uextras t (lineage l) id r (store id s (c, v))) as [[e tr] s']. cbn [fst snd] in *. exact H.
Qed.

Lemma forallb_filter {A} (f g : A -> bool) l : forallb f l = true -> forallb f (filter g l) = true.
Proof.
  induction l as [|x r IH]; simpl; [reflexivity|]. intros H. apply andb_true_iff in H. destruct H as [H1 H2].
  destruct (g x); simpl; [rewrite H1|]; auto.
Qed.
Lemma kw_ok_forall l kw : chain_kw_ok l kw = true -> forallb (fun p => lvl_le (owner (fst p)) l) kw = true.
Proof.
  unfold chain_kw_ok. induction kw as [|p r IH]; cbn [forallb]; [reflexivity|].
  intros H. apply andb_true_iff in H. destruct H as [H1 H2]. rewrite kw_ok_le in H1. rewrite H1, (IH H2). reflexivity.
Qed.

(* a successful update is the closed form: trace and rows *)
Lemma chain_step_update t s o s' id tr :
  is_uupdate o = true -> chain_step t s o = (s', CDone id, tr) -> tr = uspec t o /\ s' = uspec_state o s.
Proof.
  destruct o as [l kw|l id0 c v|l id0 kw0]; [discriminate| |]; intros _; unfold chain_step.
  - destruct (negb (has_handle s l id0) || negb (chain_kw_ok l [(c, v)])) eqn:G; [discriminate|].
    apply orb_false_iff in G. destruct G as [_ G]. apply negb_false_iff in G.
    unfold chain_kw_ok in G. cbn [forallb fst] in G. rewrite andb_true_r, kw_ok_le in G.
    rewrite (uassign_at_ok _ _ _ _ _ _ G). unfold ures_out.
    destruct (negb (val_ok (col_ty c) v)); cbn [fst snd]; intros H; inversion H; split; reflexivity.
  - destruct (negb (has_handle s l id0) || negb (chain_kw_ok l (mk_kw kw0))) eqn:G; [discriminate|].
    apply orb_false_iff in G. destruct G as [_ G]. apply negb_false_iff in G.
    unfold uset, ures_out, uspec, uspec_state.
    set (kw := mk_kw kw0) in *.
    set (own_kw := filter (fun p => lvl_eqb (owner (fst p)) l) kw).
    set (extra := filter (fun p => negb (lvl_eqb (owner (fst p)) l)) kw).
    destruct (negb (validate own_kw)); cbn [fst snd]; [discriminate|].
    assert (Hx : forallb (fun p => lvl_le (owner (fst p)) l) extra = true)
      by (apply forallb_filter, kw_ok_forall; exact G).
    destruct (fst (fst (uextras t (lineage l) id0 extra s))) eqn:E; cbn [fst snd]; [discriminate|].
    rewrite (uextras_ok _ _ _ _ _ Hx E). cbn [fst snd].
    intros H. inversion H. split; [reflexivity|].
    destruct (kw_get (own l) own_kw); [|reflexivity]. unfold store. cbn [fst snd]. rewrite owner_own. reflexivity.
Qed.

(* ------------------------------------------------------------------ who receives what, how often *)
Lemma recv_assign t l id c v s a :
  recv_of lvl_eqb s a (uspec_assign t l id c v) = rounds (uowed_assign l c a s) (sel s (ltab t a)).
Proof.
  unfold uspec_assign.
  destruct l, c, a;
    cbn [lineage owner path_to filter lvl_le existsb lvl_eqb orb flat_map];
    repeat rewrite recv_app; rewrite ?recv_sig_events, ?recv_after_part, ?recv_write;
    destruct s; cbn [sig_eqb lvl_eqb andb uowed_assign lvl_le lineage existsb orb owner b2n app];
    rewrite ?rounds_0, ?rounds_1, ?app_nil_r; reflexivity.
Qed.

Lemma recv_extras t l id s a : forall extra,
  recv_of lvl_eqb s a (flat_map (fun p => uspec_assign t l id (fst p) (snd p)) extra)
  = rounds (list_sum (map (fun p => uowed_assign l (fst p) a s) extra)) (sel s (ltab t a)).
Proof.
  induction extra as [|p r IH]; [reflexivity|].
  cbn [flat_map map list_sum fold_right]. fold (list_sum (map (fun p : col * val => uowed_assign l (fst p) a s) r)). rewrite recv_app, recv_assign, IH, rounds_add. reflexivity.
Qed.

Lemma recv_uspec t o s a :
  is_uupdate o = true -> recv_of lvl_eqb s a (uspec t o) = rounds (uowed o a s) (sel s (ltab t a)).
Proof.
  destruct o as [l kw|l id c v|l id kw0]; [discriminate| |]; intros _.
  - apply recv_assign.
  - unfold uspec, uowed. repeat rewrite recv_app. rewrite recv_extras, recv_after_part, rounds_add.
    assert (Hw : recv_of lvl_eqb s a
                   (if is_nil (filter (fun p => lvl_eqb (owner (fst p)) l) (mk_kw kw0)) then []
                    else [EWrite (WUpdate l id (sort_cols (filter (fun p => lvl_eqb (owner (fst p)) l) (mk_kw kw0))))]) = [])
      by (destruct (is_nil _); reflexivity).
    rewrite Hw. cbn [app].
    destruct l; cbn [parent]; rewrite ?recv_sig_events, ?recv_nil;
      destruct s, a; cbn [sig_eqb lvl_eqb andb b2n app]; rewrite ?rounds_0, ?app_nil_r; cbn [app];
      try reflexivity; rewrite <- ?rounds_1; rewrite <- ?rounds_add; f_equal; lia.
Qed.

(* ------------------------------------------------------------------ histories *)
Definition is_ustep (t : tabs) (r : urec) : Prop :=
  chain_step t (ur_pre r) (ur_op r) = (ur_post r, ur_out r, ur_tr r).
Lemma chain_hist_is_step t : forall ops s r, In r (chain_steps t s ops) -> is_ustep t r.
Proof.
  induction ops as [|o rest IH]; intros s r H; simpl in H; [contradiction|].
  destruct H as [H|H]; [|exact (IH _ _ H)]. subst r. unfold is_ustep. cbn [ur_pre ur_op ur_post ur_out ur_tr].
  destruct (chain_step t s o) as [[s' out] tr]. reflexivity.
Qed.

Lemma chain_hist_update t ops r id :
  In r (chain_steps t cinit ops) -> is_uupdate (ur_op r) = true -> ur_out r = CDone id ->
  ur_tr r = uspec t (ur_op r)
  /\ ur_post r = uspec_state (ur_op r) (ur_pre r)
  /\ forall s a, recv_of lvl_eqb s a (ur_tr r) = rounds (uowed (ur_op r) a s) (sel s (ltab t a)).
Proof.
  intros Hin Hu Ho. pose proof (chain_hist_is_step t ops cinit r Hin) as Hs. unfold is_ustep in Hs. rewrite Ho in Hs.
  destruct (chain_step_update _ _ _ _ _ _ Hu Hs) as [H1 H2]. split; [exact H1|split; [exact H2|]].
  intros s a. rewrite H1. apply recv_uspec. exact Hu.
Qed.

(* the updates that involve one class only behave like those of a plain class *)
Lemma root_no_extra kw :
  chain_kw_ok LA kw = true -> filter (fun p => negb (lvl_eqb (owner (fst p)) LA)) kw = [].
Proof.
  unfold chain_kw_ok. induction kw as [|[c v] r IH]; cbn [forallb filter fst]; [reflexivity|].
  intros H. apply andb_true_iff in H. destruct H as [H1 H2].
  destruct c; cbn in H1; try discriminate. cbn [owner lvl_eqb negb]. exact (IH H2).
Qed.

Lemma chain_step_set_kw t s l id0 kw0 s' id tr :
  chain_step t s (USet l id0 kw0) = (s', CDone id, tr) -> chain_kw_ok l (mk_kw kw0) = true.
Proof.
  unfold chain_step. destruct (chain_kw_ok l (mk_kw kw0)); [reflexivity|]. rewrite orb_true_r. discriminate.
Qed.

Lemma uplain_owed t s o s' id tr a sg :
  chain_step t s o = (s', CDone id, tr) -> uplain o = true -> (sg = SUpdate \/ sg = SUpdated) ->
  uowed o a sg = b2n (lvl_eqb a (uop_lvl o)).
Proof.
  destruct o as [l kw|l id0 c v|l id0 kw0]; cbn [uplain uop_lvl]; [discriminate| |]; intros Hst H Hs.
  - apply lvl_eqb_eq in H. unfold uowed, uowed_assign. rewrite H.
    destruct Hs; subst sg; [|reflexivity]. destruct l, a; reflexivity.
  - apply lvl_eqb_eq in H. subst l. unfold uowed.
    rewrite (root_no_extra _ (chain_step_set_kw _ _ _ _ _ _ _ _ Hst)).
    destruct Hs; subst sg; cbn; rewrite ?Nat.add_0_r; reflexivity.
Qed.

Ltac oa2_rw :=
  repeat rewrite ordered_around_app; repeat rewrite existsb_app;
  rewrite ?no_write_sig_events, ?no_write_after_part;
  rewrite ?(no_other_sig_events SUpdated SUpdate) by reflexivity;
  rewrite ?(no_other_sig_after_part _ SUpdate SUpdated) by reflexivity;
  rewrite ?(ordered_around_nowrite _ _ (sig_events _ _ _ _ _)) by apply no_write_sig_events;
  rewrite ?(ordered_around_nowrite _ _ (after_part _ _ _ _)) by apply no_write_after_part.
Ltac oa2 := oa2_rw; cbn [ordered_around existsb is_write is_sig orb andb negb]; oa2_rw; reflexivity.

Lemma uspec_ordered_plain t s o s' id tr :
  chain_step t s o = (s', CDone id, tr) -> uplain o = true -> ordered_around SUpdate SUpdated (uspec t o) = true.
Proof.
  destruct o as [l kw|l id0 c v|l id0 kw0]; cbn [uplain]; [discriminate| |]; intros Hst Hp.
  - unfold uspec, uspec_assign.
    destruct l, c; try discriminate;
      cbn [owner lineage path_to filter lvl_le existsb lvl_eqb orb flat_map]; rewrite app_nil_r; oa2.
  - apply lvl_eqb_eq in Hp. subst l. unfold uspec.
    rewrite (root_no_extra _ (chain_step_set_kw _ _ _ _ _ _ _ _ Hst)). cbn [flat_map app parent].
    destruct (is_nil _); cbn [app]; oa2.
Qed.

Lemma uplain_is_update o : uplain o = true -> is_uupdate o = true.
Proof. destruct o; [discriminate|reflexivity|reflexivity]. Qed.

(* an update that involves one class only: the receivers of that class get the
   before-event once, in registration order, then the UPDATE, then the
   after-event once; no other class hears of it *)
Lemma chain_hist_plain t ops r id :
  In r (chain_steps t cinit ops) -> uplain (ur_op r) = true -> ur_out r = CDone id ->
  (forall s, s = SUpdate \/ s = SUpdated -> forall a,
     recv_of lvl_eqb s a (ur_tr r) = if lvl_eqb a (uop_lvl (ur_op r)) then map fst (sel s (ltab t a)) else [])
  /\ ordered_around SUpdate SUpdated (ur_tr r) = true.
Proof.
  intros Hin Hp Ho. pose proof (uplain_is_update _ Hp) as Hu.
  destruct (chain_hist_update t ops r id Hin Hu Ho) as [H1 [_ H3]].
  pose proof (chain_hist_is_step t ops cinit r Hin) as Hs. unfold is_ustep in Hs. rewrite Ho in Hs.
  split.
  - intros s Hsig a. rewrite H3, (uplain_owed _ _ _ _ _ _ a s Hs Hp Hsig).
    destruct (lvl_eqb a (uop_lvl (ur_op r))); [apply rounds_1|apply rounds_0].
  - rewrite H1. exact (uspec_ordered_plain _ _ _ _ _ _ Hs Hp).
Qed.

(* creations inside mixed histories *)
Lemma chain_hist_created_after t ops r l kw id :
  In r (chain_steps t cinit ops) -> ur_op r = UCreate l kw -> ur_out r = CDone id ->
  created_after_inserts (ur_tr r) = true
  /\ inserts_of (ur_tr r) = map (fun a => (a, id)) (rev (lineage l))
  /\ (forall a, In a (lineage l) -> has_row id (ctable (ur_post r) a) = true).
Proof.
  intros Hin Hop Ho. pose proof (chain_hist_is_step t ops cinit r Hin) as Hs. unfold is_ustep in Hs.
  rewrite Ho, Hop in Hs. cbn [chain_step] in Hs. exact (chain_created_after _ _ _ _ _ _ _ Hs).
Qed.

(* a history of creations only is a chain_run *)
Lemma chain_hist_creates t : forall ops s,
  map (fun r => (uop_lvl (ur_op r), ur_out r, ur_tr r, ur_post r))
      (chain_steps t s (map (fun p => UCreate (fst p) (snd p)) ops))
  = map (fun r => (cr_lvl r, cr_out r, cr_tr r, cr_post r)) (chain_run t s ops).
Proof.
  induction ops as [|[l kw] rest IH]; intros s; [reflexivity|].
  cbn [map chain_steps chain_run chain_step fst snd ur_op ur_out ur_tr ur_post cr_lvl cr_out cr_tr cr_post uop_lvl].
  rewrite IH. reflexivity.
Qed.
