(* C19: the inheritance chain -- every RowCreatedSignal of a successful
   creation is delivered after the INSERTs of all levels. *)
From Coq Require Import List ZArith NArith Bool Lia.
From Model Require Import Events.
From Proofs Require Import EventsBase.
Import ListNotations.
Open Scope Z_scope.

Lemma ctable_set_same s l x : ctable (set_ctable s l x) l = x.
Proof. destruct l; reflexivity. Qed.
Lemma ctable_set_other s l a x : a <> l -> ctable (set_ctable s l x) a = ctable s a.
Proof. destruct l, a; intros H; try reflexivity; contradiction. Qed.
Lemma lvl_dec (a b : lvl) : {a = b} + {a <> b}.
Proof. decide equality. Qed.

Lemma has_row_append s l a id row :
  has_row id (ctable s a) = true -> has_row id (ctable (set_ctable s l (ctable s l ++ [row])) a) = true.
Proof.
  intros H. destruct (lvl_dec a l) as [->|Hn].
  - rewrite ctable_set_same. unfold has_row in *. rewrite existsb_app, H. reflexivity.
  - rewrite ctable_set_other by exact Hn. exact H.
Qed.
Lemma ctable_next s n a : ctable (set_cnext s n) a = ctable s a.
Proof. destruct a; reflexivity. Qed.
Lemma ctable_fired s f a : ctable (set_cfired s f) a = ctable s a.
Proof. destruct a; reflexivity. Qed.

Lemma chain_level_ok t : forall ls seen kw child s,
  x_ok (chain_level t ls seen kw child s) = None ->
  x_id (chain_level t ls seen kw child s) = cnext s
  /\ existsb (is_sig SCreated) (x_tr (chain_level t ls seen kw child s)) = false
  /\ inserts_of (x_tr (chain_level t ls seen kw child s)) = map (fun a => (a, cnext s)) (rev ls)
  /\ x_done (chain_level t ls seen kw child s) = rev ls
  /\ (forall a, In a ls -> has_row (cnext s) (ctable (x_st (chain_level t ls seen kw child s)) a) = true).
Proof.
  induction ls as [|l ps IH]; intros seen kw child s.
  - intros _. simpl. repeat split; try reflexivity. intros a [].
  - cbn [chain_level].
    destruct (raiser (cfired s) (sel SCreate (ltab t l))); [cbn [x_ok]; discriminate|].
    destruct (negb (is_nil ps) && negb (kw_has (own l) kw) && no_default (own l)); [cbn [x_ok]; discriminate|].
    specialize (IH [] kw (Some l) s).
    remember (chain_level t ps [] kw (Some l) s) as p eqn:Hp.
    destruct (x_ok p) eqn:Hok; [cbn [x_ok]; discriminate|].
    destruct (IH eq_refl) as [Hid [Hnc [Hins [Hdone Hrows]]]].
    assert (Hid' : (if is_nil ps then cnext (x_st p) else x_id p) = cnext s).
    { destruct ps; [|exact Hid]. simpl in Hp. subst p. reflexivity. }
    rewrite Hid'.
    destruct (match kw_get (own l) kw with Some v => Some v | None => col_default (own l) end) as [v|];
      [|cbn [x_ok]; discriminate].
    destruct (negb (val_ok (col_ty (own l)) v)); [cbn [x_ok]; discriminate|].
    cbn [x_ok]. destruct (p_raised (posts_x _ SCreate l (cnext s) _)) eqn:Eq; [discriminate|].
    intros _. destruct (posts_x_quiet _ _ _ _ _ Eq) as [Hq _]. cbn [x_id x_tr x_done x_st]. rewrite Hq. repeat split.
    + repeat rewrite existsb_app. rewrite Hnc, no_sig_run_posts.
      rewrite (no_other_sig_events SCreated SCreate) by reflexivity. reflexivity.
    + repeat rewrite inserts_of_app. rewrite Hins.
      rewrite (inserts_of_none (sig_events _ _ _ _ _)) by apply no_insert_sig_events.
      rewrite (inserts_of_none (run_posts _ _ _ _)) by apply no_insert_run_posts.
      simpl rev. rewrite map_app. simpl. reflexivity.
    + rewrite Hdone. reflexivity.
    + intros a [Ha|Ha].
      * subst a.
        assert (Hx : has_row (cnext s) (ctable (set_ctable (x_st p) l (ctable (x_st p) l ++ [(cnext s, v, child)])) l) = true).
        { rewrite ctable_set_same. unfold has_row. rewrite existsb_app. simpl. unfold crow_id. simpl.
          rewrite Z.eqb_refl, orb_true_r. reflexivity. }
        rewrite ctable_fired. destruct (is_nil ps); [rewrite ctable_next|]; exact Hx.
      * pose proof (has_row_append (x_st p) l a (cnext s) (cnext s, v, child) (Hrows a Ha)) as Hx.
        rewrite ctable_fired. destruct (is_nil ps); [rewrite ctable_next|]; exact Hx.
Qed.

Lemma flush_quiet t : forall done fired id,
  p_raised (flush_x t fired id done) = false ->
  p_tr (flush_x t fired id done) = flat_map (fun a : lvl => after_part (ltab t a) SCreated a id) done.
Proof.
  induction done as [|a r IH]; intros fired id; cbn [flush_x flat_map]; [reflexivity|].
  destruct (p_raised (after_x (ltab t a) fired SCreated a id)) eqn:E; [intros H; congruence|].
  cbn [p_raised p_tr]. intros H. destruct (after_x_quiet _ _ _ _ _ E) as [H1 _]. rewrite H1, (IH _ _ H). reflexivity.
Qed.

Lemma flat_after_no_insert t ls id :
  existsb is_insert (flat_map (fun a : lvl => after_part (ltab t a) SCreated a id) ls) = false.
Proof.
  induction ls as [|a r IH]; simpl; [reflexivity|]. rewrite existsb_app, no_insert_after_part, IH. reflexivity.
Qed.

Lemma lineage_rev_root l : exists rest, rev (lineage l) = LA :: rest.
Proof. destruct l; simpl; eauto. Qed.

(* a successful creation at any level of the chain, with any listeners *)
Lemma chain_created_after t l kw s s' id tr :
  chain_create t l kw s = (s', CDone id, tr) ->
  created_after_inserts tr = true
  /\ inserts_of tr = map (fun a => (a, id)) (rev (lineage l))
  /\ (forall a, In a (lineage l) -> has_row id (ctable s' a) = true).
Proof.
  unfold chain_create. destruct (negb (chain_kw_ok l (mk_kw kw))); [discriminate|].
  remember (chain_level t (lineage l) (mk_kw kw) (mk_kw kw) None s) as r eqn:Hr.
  destruct (p_raised (flush_x t (cfired (x_st r)) (cnext s) (x_done r))) eqn:Ef; [discriminate|].
  destruct (x_ok r) eqn:Hok; [discriminate|].
  intros H. inversion H; subst s' id tr; clear H. rewrite (flush_quiet _ _ _ _ Ef).
  pose proof (chain_level_ok t (lineage l) (mk_kw kw) (mk_kw kw) None s) as L.
  rewrite <- Hr in L. destruct (L Hok) as [Hid [Hnc [Hins [Hdone Hrows]]]].
  rewrite Hid. repeat split.
  - rewrite cai_app by exact Hnc. apply cai_no_insert, flat_after_no_insert.
  - rewrite inserts_of_app, Hins, inserts_of_none by apply flat_after_no_insert. apply app_nil_r.
  - intros a Ha. rewrite ctable_fired. exact (Hrows a Ha).
Qed.

(* all histories of creations *)
Lemma chain_run_created_after t : forall ops s r,
  In r (chain_run t s ops) -> forall id, cr_out r = CDone id ->
  created_after_inserts (cr_tr r) = true
  /\ inserts_of (cr_tr r) = map (fun a => (a, id)) (rev (lineage (cr_lvl r)))
  /\ (forall a, In a (lineage (cr_lvl r)) -> has_row id (ctable (cr_post r) a) = true).
Proof.
  induction ops as [|[l kw] rest IH]; intros s r H; simpl in H; [contradiction|].
  destruct H as [H|H]; [|exact (IH _ _ H)].
  subst r. simpl. intros id Hid. apply (chain_created_after t l kw s).
  destruct (chain_create t l kw s) as [[s' o] tr]. simpl in *. subst o. reflexivity.
Qed.

