(* C15: selectBy / alternate-id lookup on a class -- InheritableSelectResults
   with the class itself as source, joined up to the class owning the column. *)
From Coq Require Import List ZArith Bool Lia.
From Model Require Import Inherit.
From Proofs Require Import InheritBase InheritOps InheritInv InheritJoin InheritSelect.
Import ListNotations.
Open Scope Z_scope.

(* the natural join over any non-empty list of tables *)
Lemma natural_join_any : forall s os l0 r (Q : env -> bool), repr s os ->
  filter (fun e => match e with (_, x) :: e' => ids_all (rid x) e' | [] => true end && Q e) (product s (l0 :: r)) =
  flat_map (fun o => if in_all (l0 :: r) o && Q (oenv (l0 :: r) o) then [oenv (l0 :: r) o] else []) os.
Proof.
  intros s os l0 r Q Hr. assert (Hr' := Hr). destruct Hr' as [Hnd [Ht _]].
  rewrite product_cons, filter_flat_map, Ht. unfold proj at 1. rewrite flat_map_flat_map.
  apply flat_map_ext_in. intros o Ho. unfold pr1 at 1. unfold in_all. cbn [forallb].
  destruct (memc l0 (chain (ak o))) eqn:Hm; [|reflexivity].
  cbn [flat_map]. rewrite app_nil_r.
  rewrite filter_map_comm. cbn [ids_all].
  rewrite filter_and. fold (ids_all (rid (arow l0 o))). rewrite (product_one_id s os _ r Hr).
  cbn [arow rid]. rewrite (afind_in os o Hnd Ho). cbn [andb]. fold (in_all r o).
  destruct (in_all r o); [|reflexivity]. cbn [filter oenv map].
  destruct (Q _); reflexivity.
Qed.

Lemma joins_ids_seg : forall lo hi e, memc lo (chain hi) = true -> map fst e = seg lo hi ->
  forallb (fun j => holds j e) (joins (seg lo hi)) = match e with (_, x) :: e' => ids_all (rid x) e' | [] => true end.
Proof.
  intros lo hi e Hm H.
  destruct lo, hi; try discriminate Hm; cbn in H;
    repeat (match goal with
            | H : map fst ?e = _ :: _ |- _ => destruct e as [|[? ?] e]; cbn in H; [discriminate|]; inversion H; clear H; subst
            | H : map fst ?e = [] |- _ => destruct e; [|discriminate]; clear H
            end);
    cbn; unfold holds; cbn; try reflexivity;
    repeat match goal with |- context [?a =? ?b] => destruct (a =? b) eqn:? end; cbn; try reflexivity;
    rewrite ?Z.eqb_eq, ?Z.eqb_neq in *; lia.
Qed.

Lemma from_tables_by : forall k c v, memc c (chain k) = true -> from_tables k (XCmp c Ceq v) = seg c k.
Proof. destruct k, c; intros v H; try discriminate H; reflexivity. Qed.
Lemma from_tables_all : forall k, from_tables k XTrue = [k].
Proof. destruct k; reflexivity. Qed.
Lemma seg_nonempty : forall c k, memc c (chain k) = true -> seg c k = c :: tl (seg c k).
Proof. destruct c, k; intro H; try discriminate H; reflexivity. Qed.
Lemma in_all_seg : forall c k o, memc c (chain k) = true -> in_all (seg c k) o = memc k (chain (ak o)).
Proof. intros c k o H. unfold in_all. destruct c, k; try discriminate H; destruct (ak o); reflexivity. Qed.
Lemma memc_seg_lo : forall c k, memc c (chain k) = true -> memc c (seg c k) = true.
Proof. destruct c, k; intro H; try discriminate H; reflexivity. Qed.
Lemma memc_seg_hi : forall c k, memc c (chain k) = true -> memc k (seg c k) = true.
Proof. destruct c, k; intro H; try discriminate H; reflexivity. Qed.

Definition bsel (k : cls) (col : option cls) (v : option Z) (o : aobj) : bool :=
  memc k (chain (ak o)) &&
  match col with
  | None => true
  | Some c => match cmp3 Ceq (av o c) v with Some true => true | _ => false end
  end.

Lemma sql_select_by : forall s os k col v, repr s os ->
  match col with Some c => memc c (chain k) = true | None => True end ->
  sql_select s k (by_clause col v) = map aid (filter (bsel k col v) os).
Proof.
  intros s os k col v Hr Hc. unfold sql_select, full_clause.
  set (c := match col with Some c => c | None => k end).
  assert (Hck : memc c (chain k) = true) by (unfold c; destruct col; [exact Hc|apply memc_self]).
  assert (Hft : from_tables k (by_clause col v) = seg c k).
  { unfold c. destruct col as [c'|]; cbn [by_clause]; [apply from_tables_by; exact Hc|].
    rewrite from_tables_all. destruct k; reflexivity. }
  rewrite Hft.
  rewrite (filter_ext_in' _ _ (fun e => match e with (_, r) :: e' => ids_all (rid r) e' | [] => true end && holds (by_clause col v) e)).
  2:{ intros e He. apply product_shape in He. rewrite holds_fold, (joins_ids_seg c k e Hck He). apply andb_comm. }
  rewrite (seg_nonempty c k Hck), (natural_join_any s os _ _ _ Hr), <- (seg_nonempty c k Hck).
  rewrite flat_map_flat_map.
  rewrite (flat_map_ext_in _ _ _ (fun o => if bsel k col v o then [aid o] else [])).
  - apply flat_map_if_single.
  - intros o _. rewrite (in_all_seg c k o Hck). unfold bsel.
    destruct (memc k (chain (ak o))) eqn:Hk; [|reflexivity]. cbn [andb].
    assert (Hh : holds (by_clause col v) (oenv (seg c k) o) =
                 match col with None => true | Some c0 => match cmp3 Ceq (av o c0) v with Some true => true | _ => false end end).
    { unfold c. destruct col as [c'|]; cbn [by_clause]; [|reflexivity]. unfold holds. cbn [ev].
      rewrite lookup_oenv by (apply memc_seg_lo; exact Hc). reflexivity. }
    rewrite Hh. destruct (match col with None => true | Some _ => _ end); [|reflexivity].
    cbn. rewrite lookup_oenv by (apply memc_seg_hi; exact Hck). reflexivity.
Qed.

(* selectBy on class k returns exactly the objects of class k or a subclass
   whose column equals the value (IS NULL for None), most-derived, with the rows' values *)
Theorem select_by_repr : forall s os k col v, repr s os ->
  match col with Some c => memc c (chain k) = true | None => True end ->
  exists from,
    run_select s k (by_clause col v) =
      RObjs (map obj_of (filter (bsel k col v) os)) (Z.of_nat (length (filter (bsel k col v) os))) from.
Proof.
  intros s os k col v Hr Hc. unfold run_select. rewrite (sql_select_by s os k col v Hr Hc).
  rewrite (get_all_repr s os k _ Hr).
  - rewrite map_length. eexists. reflexivity.
  - intros o Ho. apply filter_In in Ho. destruct Ho as [Ho Hs]. split; [exact Ho|].
    unfold bsel in Hs. apply andb_true_iff in Hs. tauto.
Qed.


Theorem select_by_own_kind_repr : forall s os k col v, repr s os ->
  match col with Some c => memc c (chain k) = true | None => True end ->
  exists objs from,
    run_select s k (by_clause col v) = RObjs objs (Z.of_nat (length objs)) from /\
    map oid objs = filter (fun id => kind_of s k id && by_true s col v id) (ids (tA s)) /\
    forall ob, In ob objs ->
      born_as s (oid ob) = Some (ocls ob) /\ memc k (chain (ocls ob)) = true /\
      ovals ob = map (fun l => val_of s l (oid ob)) (chain (ocls ob)).
Proof.
  intros s os k col v Hr Hc. destruct (select_by_repr s os k col v Hr Hc) as [from Hrun].
  exists (map obj_of (filter (bsel k col v) os)), from. split; [|split].
  - rewrite Hrun, map_length. reflexivity.
  - assert (tA s = tab s KA) as -> by reflexivity.
    assert (Hr' := Hr). destruct Hr' as [Hnd [Ht Hrest]]. rewrite Ht, proj_root_ids. unfold aids.
    rewrite filter_map_comm, map_map. cbn [oid obj_of].
    f_equal. apply filter_ext_in'. intros o Ho. unfold bsel, kind_of.
    rewrite (born_as_repr s os o Hr Ho).
    destruct (memc k (chain (ak o))) eqn:Hk; [|reflexivity]. cbn [andb].
    unfold by_true. destruct col as [c|]; [|reflexivity].
    rewrite (val_of_repr s os o c Hr Ho); [reflexivity|]. eapply sub_trans; eassumption.
  - intros ob Hob. apply in_map_iff in Hob. destruct Hob as [o [<- Ho]]. apply filter_In in Ho. destruct Ho as [Ho Hs].
    cbn [oid ocls ovals obj_of]. split; [apply (born_as_repr s os o Hr Ho)|]. split.
    + unfold bsel in Hs. apply andb_true_iff in Hs. tauto.
    + apply map_ext_in. intros l Hl. symmetry. apply (val_of_repr s os o l Hr Ho). apply memc_In. exact Hl.
Qed.
