(* Characterisation of the GENERATED builder / renderer definitions
   (Gen/Expr.v, re-created from sqlbuilder.py and converters.py on every run)
   by the clean functions of Model/Expr.v that the theorems talk about.  A
   change of an operator method, of AND/OR/NOT/IN/NOTIN/ISNULL/ISNOTNULL or of
   a __sqlrepr__ body changes Gen/Expr.v, and these lemmas are the obligations
   that break. *)
From Coq Require Import List ZArith NArith Bool String.
From Lib Require Import ExprSyntax.
From Gen Require Import Expr.
From Model Require Import Expr.
From Proofs Require Import ExprInd.
Import ListNotations.

(* ---------------------------------------------------------------- builders *)
Lemma gen_ISNULL_char e : gen_ISNULL e = b_ISNULL e.
Proof. reflexivity. Qed.
Lemma gen_ISNOTNULL_char e : gen_ISNOTNULL e = b_ISNOTNULL e.
Proof. reflexivity. Qed.
Lemma gen_NOT_char e : gen_NOT e = b_NOT e.
Proof. reflexivity. Qed.
Lemma gen_IN_list_char a l : gen_IN_list a l = b_IN_list a l.
Proof. reflexivity. Qed.
Lemma gen_IN_char a l : gen_IN a l = b_IN a l.
Proof. unfold gen_IN, b_IN. destruct (is_select l); reflexivity. Qed.
Lemma gen_NOTIN_char a l : gen_NOTIN a l = b_NOTIN a l.
Proof. unfold gen_NOTIN, b_NOTIN. destruct (is_select l); reflexivity. Qed.

Lemma gen_AND_char ops : gen_AND ops = b_AND ops.
Proof.
  unfold b_AND. induction ops as [|x r IH]; [reflexivity|].
  cbn [gen_AND b_fold]. destruct r; [reflexivity|]. rewrite IH. reflexivity.
Qed.
Lemma gen_OR_char ops : gen_OR ops = b_OR ops.
Proof.
  unfold b_OR. induction ops as [|x r IH]; [reflexivity|].
  cbn [gen_OR b_fold]. destruct r; [reflexivity|]. rewrite IH. reflexivity.
Qed.

Lemma gen_dunder_char m a b : gen_dunder m a b = dunder_tbl m a b.
Proof.
  destruct m; try reflexivity; cbn [gen_dunder dunder_tbl]; unfold b_eq, b_ne;
    destruct (is_none b); reflexivity.
Qed.
Lemma gen_field_eq_char a b : gen_field_eq a b = b_eq a b.
Proof. unfold gen_field_eq, b_eq. destruct (is_none b); reflexivity. Qed.
Lemma gen_field_ne_char a b : gen_field_ne a b = b_ne a b.
Proof. unfold gen_field_ne, b_ne. destruct (is_none b); reflexivity. Qed.

Lemma call_dunder_char m a b :
  call_dunder gen_dunder gen_field_eq gen_field_ne m a b = call_dunder dunder_tbl b_eq b_ne m a b.
Proof.
  unfold call_dunder.
  destruct a; destruct m;
    rewrite ?gen_field_eq_char, ?gen_field_ne_char, ?gen_dunder_char; reflexivity.
Qed.
Lemma g_py_binop_char o x y : g_py_binop o x y = py_binop o x y.
Proof.
  unfold g_py_binop, py_binop, py_binop_with.
  destruct (is_expr x).
  - destruct (is_comparison o && is_expr y && proper_subclass (class_of y) (class_of x)); apply call_dunder_char.
  - destruct (is_expr y); [apply call_dunder_char|reflexivity].
Qed.
Lemma g_py_unop_char u x : g_py_unop u x = py_unop u x.
Proof.
  unfold g_py_unop, py_unop, py_unop_with.
  destruct (is_expr x); [apply call_dunder_char|reflexivity].
Qed.

(* ---------------------------------------------------------------- renderers *)
Lemma head_is_lp s : head_is s [TLP] = is_lp_headed s.
Proof. destruct s as [|t r]; [reflexivity|]. destruct t; try reflexivity; destruct f; reflexivity. Qed.
Lemma toks_eqb_null s : toks_eqb s [TNull] = is_null_text s.
Proof.
  destruct s as [|t r]; [reflexivity|].
  destruct t; try reflexivity; try (destruct f; reflexivity).
  destruct r; reflexivity.
Qed.

Ltac bools :=
  repeat match goal with
         | |- context [is_lp_headed ?s] => destruct (is_lp_headed s)
         | |- context [is_null_text ?s] => destruct (is_null_text s)
         end; cbn [negb andb orb app]; rewrite <- ?app_assoc; cbn [app]; try reflexivity.

Lemma gen_sqlop_repr_char d op s1 s2 : gen_sqlop_repr d false op s1 s2 = sqlop_repr op s1 s2.
Proof.
  unfold gen_sqlop_repr, sqlop_repr, wrap. rewrite !head_is_lp, !toks_eqb_null. bools.
Qed.
Lemma dialect_eqb_sqlite d : dialect_eqb d Sqlite = is_sqlite d.
Proof. destruct d; reflexivity. Qed.
Lemma gen_modulo_repr_char d s1 s2 :
  gen_modulo_repr d [TOp BMod] s1 s2 =
  if is_sqlite d then sqlop_repr [TOp BMod] s1 s2 else [TFn FMod; TLP] ++ s1 ++ [TComma] ++ s2 ++ [TRP].
Proof.
  unfold gen_modulo_repr. rewrite dialect_eqb_sqlite, gen_sqlop_repr_char.
  destruct (is_sqlite d); [reflexivity|]. cbn [app]. rewrite <- ?app_assoc. reflexivity.
Qed.
Lemma gen_prefix_repr_char d p s : gen_prefix_repr d p s = p ++ s.
Proof. reflexivity. Qed.
Lemma gen_seq_repr_char d items : gen_seq_repr d items = seq_repr items.
Proof. unfold gen_seq_repr, seq_repr. cbn [app]. reflexivity. Qed.
Lemma gen_call_repr_char d f a b :
  gen_call_repr d [TFn f] (gen_seq_repr d [a; b]) = TFn f :: seq_repr [a; b].
Proof. unfold gen_call_repr. rewrite gen_seq_repr_char. reflexivity. Qed.
Lemma gen_insub_repr_char d neg a s :
  gen_insub_repr d (gen_insub_op neg) a s = insub_repr (insub_op neg) a s.
Proof.
  unfold gen_insub_repr, gen_insub_op, insub_repr, insub_op. rewrite head_is_lp.
  destruct neg, (is_lp_headed a); cbn [app]; rewrite <- ?app_assoc; reflexivity.
Qed.
Lemma g_atom_toks_char d a : g_atom_toks d a = atom_toks a.
Proof. destruct a; reflexivity. Qed.

Theorem g_render_char d n : g_render d n = render d n.
Proof.
  induction n as [c|a|l IHl|k|op a b IHa IHb _|a b IHa IHb|f a b IHa IHb|p a IHa|neg a s IHa IHs|] using node_ind2;
    cbn [g_render render].
  - reflexivity.
  - apply g_atom_toks_char.
  - rewrite gen_seq_repr_char. f_equal. apply map_ext_Forall. exact IHl.
  - reflexivity.
  - rewrite IHa, IHb. apply gen_sqlop_repr_char.
  - rewrite IHa, IHb. apply gen_modulo_repr_char.
  - rewrite IHa, IHb. apply gen_call_repr_char.
  - rewrite IHa. apply gen_prefix_repr_char.
  - rewrite IHa, IHs. apply gen_insub_repr_char.
  - reflexivity.
Qed.
