(* The network location "userinfo@host:port": what the userinfo / hostinfo /
   hostname / port properties of urlparse's result make of the text that the
   builder writes; decimal numerals. *)
From Coq Require Import List NArith ZArith Bool Lia ZifyBool DecimalN.
From Lib Require Import UriPy.
From Gen Require Import Uri.
From Model Require Import Uri.
From Proofs Require Import UriLists UriQuote UriSplit.
Import ListNotations.
Open Scope N_scope.

(* ------------------------------------------------------------------ decimal numerals *)
Lemma digits_uint_digits u : digits_uint (uint_digits u) = Some u.
Proof. induction u; cbn [uint_digits digits_uint]; [reflexivity| rewrite IHu; reflexivity ..]. Qed.

Lemma uint_digits_chars u : forallb is_digit (uint_digits u) = true.
Proof. induction u; cbn [uint_digits forallb]; [reflexivity| rewrite IHu; reflexivity ..]. Qed.

Lemma digits_uint_minus r : digits_uint (45 :: r) = None.
Proof. cbn [digits_uint]. destruct (digits_uint r); reflexivity. Qed.

Lemma port_value_dec n : port_value (dec_of_N n) = Some n.
Proof. unfold port_value, dec_of_N. rewrite digits_uint_digits, Unsigned.of_to. reflexivity. Qed.

Lemma dec_of_N_nonempty p : dec_of_N (Npos p) <> [].
Proof.
  intros H. pose proof (port_value_dec (Npos p)) as E. rewrite H in E. discriminate.
Qed.

Lemma dec_of_Z_chars z : forallb (fun c => is_digit c || (c =? 45)) (dec_of_Z z) = true.
Proof.
  assert (H : forall n, forallb (fun c => is_digit c || (c =? 45)) (dec_of_N n) = true).
  { intros n. unfold dec_of_N. eapply forallb_imp; [|apply uint_digits_chars]. intros c Hc. rewrite Hc. reflexivity. }
  destruct z; cbn [dec_of_Z forallb]; [reflexivity|apply H|]. rewrite H. reflexivity.
Qed.

(* ------------------------------------------------------------------ userinfo / hostinfo *)
Lemma hostinfo_after_at a hp : nochar 64 hp = true -> hostinfo (a ++ 64 :: hp) = hostinfo hp.
Proof.
  intros H. unfold hostinfo. rewrite (rpartition_at_app _ _ _ H), (rpartition_at_none _ _ H). reflexivity.
Qed.

Lemma userinfo_after_at a hp :
  nochar 64 hp = true ->
  userinfo (a ++ 64 :: hp)
  = match partition_at 58 a with Some (u, p) => (Some u, Some p) | None => (Some a, None) end.
Proof. intros H. unfold userinfo. rewrite (rpartition_at_app _ _ _ H). reflexivity. Qed.

Lemma userinfo_none hp : nochar 64 hp = true -> userinfo hp = (None, None).
Proof. intros H. unfold userinfo. rewrite (rpartition_at_none _ _ H). reflexivity. Qed.

Lemma hostname_after_at a hp : nochar 64 hp = true -> hostname (a ++ 64 :: hp) = hostname hp.
Proof. intros H. unfold hostname. rewrite (hostinfo_after_at _ _ H). reflexivity. Qed.

Lemma port_of_after_at a hp : nochar 64 hp = true -> port_of (a ++ 64 :: hp) = port_of hp.
Proof. intros H. unfold port_of. rewrite (hostinfo_after_at _ _ H). reflexivity. Qed.

Lemma hostinfo_plain host :
  nochar 64 host = true -> nochar 58 host = true -> nochar 91 host = true -> hostinfo host = (host, None).
Proof.
  intros H1 H2 H3. unfold hostinfo.
  rewrite (rpartition_at_none _ _ H1), (partition_at_none _ _ H3), (partition_at_none _ _ H2). reflexivity.
Qed.

Lemma hostinfo_port host ptxt :
  nochar 64 host = true -> nochar 58 host = true -> nochar 64 ptxt = true ->
  nochar 91 host = true -> nochar 91 ptxt = true ->
  hostinfo (host ++ 58 :: ptxt) = (host, if is_nil ptxt then None else Some ptxt).
Proof.
  intros H1 H2 H3 H4 H5. unfold hostinfo. rewrite rpartition_at_none.
  - rewrite partition_at_none.
    + rewrite (partition_at_app _ _ _ H2). reflexivity.
    + rewrite nochar_app, H4, nochar_cons, H5. reflexivity.
  - rewrite nochar_app, H1, nochar_cons, H3. reflexivity.
Qed.

Lemma partition_at_head d post : partition_at d (d :: post) = Some ([], post).
Proof. cbn [partition_at]. rewrite N.eqb_refl. reflexivity. Qed.

(* "[h]" and "[h]:port" *)
Lemma hostinfo_bracket h :
  nochar 64 h = true -> nochar 93 h = true -> hostinfo (91 :: h ++ [93]) = (h, None).
Proof.
  intros H1 H2. unfold hostinfo. rewrite rpartition_at_none.
  - rewrite partition_at_head, (partition_at_app _ _ _ H2). reflexivity.
  - rewrite nochar_cons, nochar_app, H1. reflexivity.
Qed.

Lemma hostinfo_bracket_port h ptxt :
  nochar 64 h = true -> nochar 93 h = true -> nochar 64 ptxt = true ->
  hostinfo (91 :: h ++ 93 :: 58 :: ptxt) = (h, if is_nil ptxt then None else Some ptxt).
Proof.
  intros H1 H2 H3. unfold hostinfo. rewrite rpartition_at_none.
  - rewrite partition_at_head, (partition_at_app _ _ _ H2), partition_at_head. reflexivity.
  - rewrite nochar_cons, nochar_app, H1, nochar_cons, nochar_cons, H3. reflexivity.
Qed.

Lemma norm_host_nonempty c h : norm_host (c :: h) <> [].
Proof.
  unfold norm_host. destruct (partition_at 37 (c :: h)) as [[a z]|].
  - intros H. apply app_eq_nil in H. destruct H as [_ H]. discriminate.
  - discriminate.
Qed.

Lemma hostname_of host netloc p :
  hostinfo netloc = (host, p) -> hostname netloc = opt_ne (norm_host host).
Proof.
  intros H. unfold hostname. rewrite H. cbn [fst]. destruct host as [|c h]; [reflexivity|].
  cbn [is_nil]. unfold norm_host.
  destruct (partition_at 37 (c :: h)) as [[a z]|] eqn:E.
  - destruct (lower_ascii a ++ 37 :: z) eqn:E2; [|reflexivity].
    apply app_eq_nil in E2. destruct E2 as [_ E2]. discriminate.
  - reflexivity.
Qed.

(* ------------------------------------------------------------------ character classes of the pieces *)
Lemma host_char_netloc c : host_char c = true -> netloc_char c = true.
Proof. chars2. lia. Qed.
Lemma host_char_not_open c : host_char c = true -> negb (c =? 91) = true.
Proof. chars2. lia. Qed.
Lemma netloc_char_not_open c : netloc_char c = true -> negb (c =? 91) = true.
Proof. chars2. lia. Qed.
Lemma netloc_char_not_close c : netloc_char c = true -> negb (c =? 93) = true.
Proof. chars2. lia. Qed.
Lemma ip6_char_netloc0 c : ip6_char c = true -> netloc_char0 c = true.
Proof. chars2. lia. Qed.
Lemma ip6_char_not_at c : ip6_char c = true -> negb (c =? 64) = true.
Proof. chars2. lia. Qed.
Lemma ip6_char_not_open c : ip6_char c = true -> negb (c =? 91) = true.
Proof. chars2. lia. Qed.
Lemma ip6_char_not_close c : ip6_char c = true -> negb (c =? 93) = true.
Proof. chars2. lia. Qed.
Lemma ip6_char_not_v c : ip6_char c = true -> (c =? 118) = false.
Proof. chars2. lia. Qed.
Lemma ip6_char_not_slash c : ip6_char c = true -> negb (c =? 47) = true.
Proof. chars2. lia. Qed.
Lemma ip6_char_not_pct c : ip6_char c = true -> negb (c =? 37) = true.
Proof. chars2. lia. Qed.
Lemma digitm_not_open c : is_digit c || (c =? 45) = true -> negb (c =? 91) = true.
Proof. chars2. lia. Qed.
Lemma host_char_not_at c : host_char c = true -> negb (c =? 64) = true.
Proof. chars2. lia. Qed.
Lemma host_char_not_colon c : host_char c = true -> negb (c =? 58) = true.
Proof. chars2. lia. Qed.
Lemma unreserved_netloc c : unreserved_or_pct c = true -> netloc_char c = true.
Proof. chars2. lia. Qed.
Lemma unreserved_not_colon c : unreserved_or_pct c = true -> negb (c =? 58) = true.
Proof. chars2. lia. Qed.
Lemma digitm_netloc c : is_digit c || (c =? 45) = true -> netloc_char c = true.
Proof. chars2. lia. Qed.
Lemma digitm_not_at c : is_digit c || (c =? 45) = true -> negb (c =? 64) = true.
Proof. chars2. lia. Qed.
Lemma path_char_ok c : path_char c = true -> pathq_ok c = true.
Proof. unfold pathq_ok. chars2. lia. Qed.
Lemma port_char_netloc c : port_char c = true -> netloc_char c = true.
Proof. unfold port_char. rewrite andb_true_iff. tauto. Qed.
Lemma port_char_not_at c : port_char c = true -> negb (c =? 64) = true.
Proof. unfold port_char. rewrite andb_true_iff. tauto. Qed.

(* ------------------------------------------------------------------ the authority the builder writes *)
Lemma auth_chars user pw a : clean_auth user pw = ROk a -> forallb netloc_char a = true.
Proof.
  unfold clean_auth. destruct user as [|cu user].
  - destruct (is_nil pw); [|discriminate]. intros E. injection E as <-. reflexivity.
  - destruct (valid_text (cu :: user)) eqn:Hu; [|discriminate].
    assert (Qu : forallb netloc_char (quote [] (cu :: user)) = true).
    { eapply forallb_imp; [apply unreserved_netloc|apply no_reserved_leak, Hu]. }
    destruct pw as [|cp pw].
    + intros E. injection E as <-. rewrite forallb_app, Qu. reflexivity.
    + destruct (valid_text (cp :: pw)) eqn:Hp; [|discriminate]. intros E. injection E as <-.
      rewrite forallb_app, Qu. cbn [forallb]. rewrite forallb_app.
      replace (forallb netloc_char (quote [] (cp :: pw))) with true; [reflexivity|].
      symmetry. eapply forallb_imp; [apply unreserved_netloc|apply no_reserved_leak, Hp].
Qed.

Lemma auth_hostinfo user pw a hp :
  clean_auth user pw = ROk a -> nochar 64 hp = true -> hostinfo (a ++ hp) = hostinfo hp.
Proof.
  unfold clean_auth. intros E H. destruct user as [|cu user].
  - destruct (is_nil pw); [|discriminate]. injection E as <-. reflexivity.
  - destruct (valid_text (cu :: user)); [|discriminate]. destruct pw as [|cp pw].
    + injection E as <-. rewrite <- app_assoc. cbn [app]. apply hostinfo_after_at, H.
    + destruct (valid_text (cp :: pw)); [|discriminate]. injection E as <-.
      replace ((quote [] (cu :: user) ++ 58 :: quote [] (cp :: pw) ++ [64]) ++ hp)
        with ((quote [] (cu :: user) ++ 58 :: quote [] (cp :: pw)) ++ 64 :: hp).
      * apply hostinfo_after_at, H.
      * repeat (rewrite <- app_assoc; cbn [app]). reflexivity.
Qed.

Lemma unquote_if_truthy_quote c s :
  valid_text (c :: s) = true -> unquote_if_truthy (Some (quote [] (c :: s))) = Some (c :: s).
Proof.
  intros Hv. unfold unquote_if_truthy. destruct (quote [] (c :: s)) as [|q qs] eqn:E.
  - exfalso. exact (quote_nonempty [] c s E).
  - rewrite <- E, quote_unquote; [reflexivity|reflexivity|exact Hv].
Qed.

Lemma auth_userinfo user pw a hp :
  clean_auth user pw = ROk a -> nochar 64 hp = true ->
  unquote_if_truthy (fst (userinfo (a ++ hp))) = opt_ne user /\
  unquote_if_truthy (snd (userinfo (a ++ hp))) = opt_ne pw.
Proof.
  unfold clean_auth. intros E H. destruct user as [|cu user].
  - destruct pw as [|cp pw]; [|discriminate]. injection E as <-. cbn [app].
    rewrite (userinfo_none _ H). split; reflexivity.
  - destruct (valid_text (cu :: user)) eqn:Hu; [|discriminate].
    assert (Nu : nochar 58 (quote [] (cu :: user)) = true).
    { eapply forallb_imp; [apply unreserved_not_colon|apply no_reserved_leak, Hu]. }
    destruct pw as [|cp pw].
    + injection E as <-. rewrite <- app_assoc. cbn [app]. rewrite (userinfo_after_at _ _ H).
      rewrite (partition_at_none _ _ Nu). cbn [fst snd]. split; [apply unquote_if_truthy_quote, Hu|reflexivity].
    + destruct (valid_text (cp :: pw)) eqn:Hp; [|discriminate]. injection E as <-.
      replace ((quote [] (cu :: user) ++ 58 :: quote [] (cp :: pw) ++ [64]) ++ hp)
        with ((quote [] (cu :: user) ++ 58 :: quote [] (cp :: pw)) ++ 64 :: hp)
        by (repeat (rewrite <- app_assoc; cbn [app]); reflexivity).
      rewrite (userinfo_after_at _ _ H), (partition_at_app _ _ _ Nu). cbn [fst snd].
      split; apply unquote_if_truthy_quote; assumption.
Qed.
