(* C01: per column type, the shape of what the validator hands to the
   statement, and exactness of the engine step for it. *)
From Coq Require Import List NArith ZArith Bool Lia ZifyBool.
From Lib Require Import Str Lex ColumnsTpl.
From Gen Require Import Columns.
From Model Require Import Columns.
From Proofs Require Import ColumnsStr ColumnsNum ColumnsDate ColumnsAff ColumnsExact.
Import ListNotations.
Open Scope N_scope.

Lemma exact_no_literal C T dbv e : literal C dbv = Raise e -> exact C T dbv.
Proof. intros H lit s Hl. rewrite H in Hl. discriminate. Qed.

Ltac inv H := inversion H; subst; clear H.

(* ---------------------------------------------------------------- integers *)
Definition int_family (T : coltype) : bool :=
  match T with TInt | TTinyInt | TSmallInt | TMediumInt | TBigInt => true | _ => false end.

Lemma v_int_shape v dbv :
  v <> PNone -> v_int v = Ok dbv -> (exists z, dbv = PInt z) \/ (exists b, dbv = PBool b).
Proof.
  intros Hv H. destruct v; cbn in H; try discriminate; try congruence.
  - inv H. right. eauto.
  - inv H. left. eauto.
  - destruct (f_trunc f); inv H. left. eauto.
  - inv H. left. eauto.
  - inv H. left. eauto.
Qed.

Lemma bool_literal C b : literal C (PBool b) = Ok (dec_Z (if b then 1 else 0)%Z).
Proof. destruct b; reflexivity. Qed.

Lemma same_bool_int b : same (PBool b) (PInt (if b then 1 else 0)%Z).
Proof. right. destruct b; reflexivity. Qed.

Lemma exact_intcol_int C T z :
  int_family T = true -> int64_ok z = true -> exact C T (PInt z).
Proof.
  intros HT H64. apply (exact_int C T z).
  - left. rewrite affinity_char. destruct T; try discriminate; reflexivity.
  - reflexivity.
  - assumption.
  - intros c Hc. exists c. split; [exact Hc|now left].
Qed.
Lemma exact_intcol_bool C T b : int_family T = true -> exact C T (PBool b).
Proof.
  intros HT. apply (exact_int C T (if b then 1 else 0)%Z).
  - left. rewrite affinity_char. destruct T; try discriminate; reflexivity.
  - apply bool_literal.
  - destruct b; reflexivity.
  - intros c Hc. exists (PInt (if b then 1 else 0)%Z). split.
    + destruct T; try discriminate; reflexivity.
    + assert (c = PBool b) by (destruct T; try discriminate; cbn in Hc; congruence). subst c. apply same_bool_int.
Qed.

(* BoolCol *)
Lemma v_bool_shape v dbv : v <> PNone -> v_bool v = Ok dbv -> exists b, dbv = PBool b.
Proof. intros Hv H. destruct v; cbn in H; try discriminate; try congruence; inv H; eauto. Qed.
Lemma exact_boolcol C b : exact C TBool (PBool b).
Proof.
  apply (exact_int C TBool (if b then 1 else 0)%Z).
  - right. reflexivity.
  - apply bool_literal.
  - destruct b; reflexivity.
  - intros c Hc. cbn in Hc. inv Hc. exists (PBool b). split; [destruct b; reflexivity|now left].
Qed.

(* ForeignKey *)
Lemma v_fk_shape v dbv :
  v <> PNone -> v_fk_from (fk_unwrap TForeignKey v) = Ok dbv -> exists z, dbv = PInt z.
Proof.
  intros Hv H. destruct v; cbn in H; try discriminate; try congruence;
    repeat match type of H with
           | context [match ?x with _ => _ end] => destruct x; try discriminate
           end; inv H; eauto.
Qed.
Lemma exact_fk C z : int64_ok z = true -> exact C TForeignKey (PInt z).
Proof.
  intros H64. apply (exact_int C TForeignKey z); [left; reflexivity|reflexivity|assumption|].
  intros c Hc. exists c. split; [exact Hc|now left].
Qed.

Lemma v_fks_shape C v dbv :
  v <> PNone -> v_fks_from C (fk_unwrap TForeignKeyStr v) = Ok dbv -> exists s, dbv = PStr s.
Proof. intros Hv H. destruct v; cbn in H; try congruence; inv H; eauto. Qed.

(* ---------------------------------------------------------------- text columns *)
Lemma v_string_shape v dbv :
  v <> PNone -> v_string false v = Ok dbv -> (exists s, dbv = PStr s) \/ (exists b, dbv = PBytes b).
Proof. intros Hv H. destruct v; cbn in H; try discriminate; try congruence; inv H; eauto. Qed.
Lemma v_unicode_shape v dbv : v <> PNone -> v_unicode v = Ok dbv -> exists s, dbv = PStr s.
Proof. intros Hv H. destruct v; cbn in H; try discriminate; try congruence; inv H; eauto. Qed.
Lemma v_enum_shape vals v dbv : v <> PNone -> v_enum vals v = Ok dbv -> exists s, dbv = PStr s.
Proof.
  intros Hv H. destruct v; cbn in H; try discriminate; try congruence.
  destruct (existsb (str_eqb s) vals); inv H. eauto.
Qed.
Lemma blob_shape C v dbv : v <> PNone -> from_python C TBlob v = Ok dbv -> exists s, dbv = PStr s.
Proof. intros Hv H. destruct v; cbn in H; try discriminate; try congruence. inv H. eauto. Qed.
Lemma pickle_shape C v dbv : v <> PNone -> from_python C TPickle v = Ok dbv -> exists s, dbv = PStr s.
Proof. intros Hv H. destruct v; cbn in H; try congruence; inv H; eauto. Qed.
Lemma uuid_shape C v dbv : v <> PNone -> from_python C TUuid v = Ok dbv -> exists s, dbv = PStr s.
Proof. intros Hv H. destruct v; cbn in H; try discriminate; try congruence. inv H. eauto. Qed.
Lemma json_shape C v dbv : v <> PNone -> from_python C TJson v = Ok dbv -> exists s, dbv = PStr s.
Proof.
  intros Hv H. destruct v; cbn in H; try discriminate; try congruence;
    match type of H with context [jdumps C ?x] => destruct (jdumps C x) end; cbn in H; inv H; eauto.
Qed.

Lemma dec_of_text_shape s d : dec_of_text s = Some d -> (exists n c e, d = PDec n c e) \/ (exists n k, d = PDecSpecial n k).
Proof.
  unfold dec_of_text. intros H.
  repeat match type of H with
         | context [match ?x with _ => _ end] => destruct x; try discriminate
         end;
    inv H; first [solve [left; eauto 6] | solve [right; eauto 6]].
Qed.

Lemma decstr_tail_shape size prec q d dbv :
  ((exists n c e, d = PDec n c e) \/ (exists n k, d = PDecSpecial n k)) ->
  (v2 <- decstr_render size prec q d ;; v_string true v2) = Ok dbv ->
  exists s, dbv = PStr s.
Proof.
  intros [(n & c & e & ->)|(n & k & ->)] H.
  - destruct q; cbn in H.
    + destruct (dec_lt_pow10 n c e _); [|discriminate]. destruct (dec_quantize c e prec) as [[c' e']|]; cbn in H; inv H. eauto.
    + inv H. eauto.
  - destruct q; cbn in H.
    + destruct k; [discriminate|]. destruct n; discriminate.
    + inv H. eauto.
Qed.

Lemma decstr_shape C size prec q v dbv :
  v <> PNone -> v_decstr_from C size prec q v = Ok dbv -> exists s, dbv = PStr s.
Proof.
  intros Hv H. unfold v_decstr_from in H.
  destruct v; try congruence; cbn [v_decimal_from rbind] in H; try discriminate.
  - cbn in H. inv H. eauto.
  - cbn in H. inv H. eauto.
  - unfold decimal_of_str in H. destruct (dec_of_text (frepr C f)) as [d|] eqn:E; [|discriminate].
    cbn [rbind] in H. exact (decstr_tail_shape size prec q d dbv (dec_of_text_shape _ _ E) H).
  - unfold decimal_of_str in H. destruct (dec_of_text s) as [d|] eqn:E; [|discriminate].
    cbn [rbind] in H. exact (decstr_tail_shape size prec q d dbv (dec_of_text_shape _ _ E) H).
  - apply (decstr_tail_shape size prec q (PDec neg coeff exp) dbv); [left; eauto|exact H].
  - apply (decstr_tail_shape size prec q (PDecSpecial neg nan) dbv); [right; eauto|exact H].
Qed.

(* ---------------------------------------------------------------- dates and times *)
Lemma strptime_valid fmt s t :
  strptime fmt s = Some t ->
  valid_date (st_y t) (st_m t) (st_d t) = true /\ valid_time (st_h t) (st_mi t) (st_s t) (st_us t) = true.
Proof.
  unfold strptime. destruct (parse_format fmt); [|discriminate]. destruct (strptime_run _ _ _) as [t'|]; [|discriminate].
  destruct (valid_date _ _ _ && valid_time _ _ _ _) eqn:E; [|discriminate]. intros H. inv H. now apply andb_true_iff in E.
Qed.

Lemma datetime_to_str fmt s r :
  v_datetime_to fmt (PStr s) = Ok r ->
  exists y m d h mi se us, r = PDateTime y m d h mi se us false /\ valid_date y m d = true /\ valid_time h mi se us = true.
Proof.
  unfold v_datetime_to. intros H.
  destruct (strptime fmt _) as [t|] eqn:E; inv H. destruct (strptime_valid _ _ _ E) as [Hd Ht].
  exists (st_y t), (st_m t), (st_d t), (st_h t), (st_mi t), (st_s t), (st_us t). auto.
Qed.

Lemma v_date_shape v dbv :
  v <> PNone -> wf v = true -> v_date v = Ok dbv ->
  exists y m d, dbv = PDate y m d /\ valid_date y m d = true.
Proof.
  intros Hv Hwf H. destruct v; try congruence; try (cbn in H; discriminate).
  - (* str *) unfold v_date in H. destruct (v_datetime_to gen_format_date (PStr s)) as [r|] eqn:E; [|discriminate].
    destruct (datetime_to_str _ _ _ E) as (y & m & d & h & mi & se & us & -> & Hd & Ht). cbn in H. inv H. eauto.
  - (* date *) cbn in H. inv H. cbn in Hwf. eauto.
  - (* datetime *) cbn in H. inv H. cbn in Hwf. apply andb_true_iff in Hwf. destruct Hwf. eauto.
Qed.

Lemma delta_time_valid secs us :
  secs <? 86400 = true -> us <? 1000000 = true ->
  valid_time (secs / 3600) ((secs / 60) mod 60) (secs mod 60) us = true.
Proof.
  intros Hs Hu. unfold valid_time.
  assert (secs / 3600 < 24) by (apply N.div_lt_upper_bound; lia).
  pose proof (N.mod_lt (secs / 60) 60 ltac:(lia)). pose proof (N.mod_lt secs 60 ltac:(lia)).
  set (a := secs / 3600) in *. set (b := (secs / 60) mod 60) in *. set (c := secs mod 60) in *. clearbody a b c. lia.
Qed.

Lemma v_time_shape v dbv :
  v <> PNone -> wf v = true -> v_time v = Ok dbv ->
  exists h mi s us tz, dbv = PTime h mi s us tz /\ valid_time h mi s us = true /\ (kind_ok TTime v = true -> tz = false).
Proof.
  intros Hv Hwf H. destruct v; try congruence; try (cbn in H; discriminate).
  - (* str *) unfold v_time in H. destruct (v_datetime_to gen_format_time (PStr s)) as [r|] eqn:E; [|discriminate].
    destruct (datetime_to_str _ _ _ E) as (y & m & d & h & mi & se & us & -> & Hd & Ht). cbn in H. inv H.
    exists h, mi, se, us, false. auto.
  - (* time *) cbn in H. inv H. cbn in Hwf. exists h, mi, s, us, tz. repeat split; auto.
    cbn. now destruct tz.
  - (* datetime *) cbn in H. inv H. cbn in Hwf. apply andb_true_iff in Hwf. destruct Hwf.
    exists h, mi, s, us, false. auto.
  - (* timedelta *) cbn in H. destruct (Z.eqb days 0); inv H. cbn in Hwf. apply andb_true_iff in Hwf. destruct Hwf.
    do 4 eexists. exists false. split; [reflexivity|]. split; [now apply delta_time_valid|auto].
Qed.

(* a datetime, aware or not: the naive text is stored; R relates the cached value to the naive one read back *)
Lemma exact_gen_datetime (R : pyval -> pyval -> Prop) C T y m d h mi s us tz :
  (T = TDateTime \/ T = TTimestamp) -> valid_date y m d = true -> valid_time h mi s us = true ->
  R (PDateTime y m d h mi s us tz) (PDateTime y m d h mi s us false) ->
  exact_gen R C T (PDateTime y m d h mi s us tz).
Proof.
  intros HT Hd Ht HR.
  apply (exact_gen_numeric_text R C T (dt_text (stamp_of_dt y m d h mi s us)) _
           (PDateTime y m d h mi s us tz) (PDateTime y m d h mi s us false)).
  - destruct HT; subst; reflexivity.
  - cbn [literal]. now rewrite conv_datetime_char.
  - apply dt_text_chars.
  - apply dt_text_not_numeric.
  - destruct HT; subst; reflexivity.
  - destruct HT; subst; cbn [to_python]; now apply read_datetime_text.
  - exact HR.
Qed.
Lemma exact_datetime C T y m d h mi s us :
  (T = TDateTime \/ T = TTimestamp) -> valid_date y m d = true -> valid_time h mi s us = true ->
  exact C T (PDateTime y m d h mi s us false).
Proof. intros. apply exact_gen_datetime; try assumption. now left. Qed.
Lemma exact_date C y m d : valid_date y m d = true -> exact C TDate (PDate y m d).
Proof.
  intros Hd. apply (exact_numeric_text C TDate (date_text (stamp_of_dt y m d 0 0 0 0)) _ (PDate y m d)).
  - reflexivity.
  - cbn [literal]. now rewrite conv_date_char.
  - apply date_text_chars.
  - apply date_text_not_numeric'.
  - reflexivity.
  - cbn [to_python]. now apply read_date_text.
Qed.
Lemma exact_gen_time (R : pyval -> pyval -> Prop) C h mi s us tz :
  valid_time h mi s us = true -> R (PTime h mi s us tz) (PTime h mi s us false) ->
  exact_gen R C TTime (PTime h mi s us tz).
Proof.
  intros Ht HR.
  apply (exact_gen_numeric_text R C TTime (time_text (stamp_of_dt 0 0 0 h mi s us)) _
           (PTime h mi s us tz) (PTime h mi s us false)).
  - reflexivity.
  - cbn [literal]. now rewrite conv_time_char.
  - apply time_text_chars.
  - apply time_text_not_numeric.
  - reflexivity.
  - cbn [to_python]. now apply read_time_text.
  - exact HR.
Qed.
Lemma exact_time C h mi s us : valid_time h mi s us = true -> exact C TTime (PTime h mi s us false).
Proof. intros. apply exact_gen_time; [assumption|now left]. Qed.
