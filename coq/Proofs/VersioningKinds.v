(* C20: list / table facts for the destroy and nextVersion extension, and the
   classification of a step of the versioning model into its kinds (every
   invariant and every theorem is proved from the field equations of a kind,
   never from the record literals of Model/Versioning.v). *)
From Coq Require Import List ZArith NArith Bool Lia Sorting.Sorted.
From Model Require Import Events Versioning.
From Proofs Require Import EventsBase VersioningBase.
Import ListNotations.
Open Scope Z_scope.

(* ------------------------------------------------------------------ lists *)
Lemma filter_filter {A} (f g : A -> bool) l :
  filter f (filter g l) = filter (fun x => g x && f x) l.
Proof.
  induction l as [|a r IH]; simpl; [reflexivity|].
  destruct (g a); simpl; [destruct (f a); rewrite IH; reflexivity|exact IH].
Qed.
Lemma filter_ext_in' {A} (f g : A -> bool) l : (forall x, In x l -> f x = g x) -> filter f l = filter g l.
Proof.
  induction l as [|a r IH]; intros H; simpl; [reflexivity|].
  rewrite (H a (or_introl eq_refl)), IH; [reflexivity|]. intros x Hx. apply H. right. exact Hx.
Qed.
Lemma filter_none {A} (f : A -> bool) l : (forall x, In x l -> f x = false) -> filter f l = [].
Proof.
  induction l as [|a r IH]; intros H; simpl; [reflexivity|].
  rewrite (H a (or_introl eq_refl)). apply IH. intros x Hx. apply H. right. exact Hx.
Qed.
Lemma filter_all {A} (f : A -> bool) l : (forall x, In x l -> f x = true) -> filter f l = l.
Proof.
  induction l as [|a r IH]; intros H; simpl; [reflexivity|].
  rewrite (H a (or_introl eq_refl)). f_equal. apply IH. intros x Hx. apply H. right. exact Hx.
Qed.

Lemma ssorted_app_end {A} (R : A -> A -> Prop) l y :
  StronglySorted R l -> (forall x, In x l -> R x y) -> StronglySorted R (l ++ [y]).
Proof.
  induction l as [|a r IH]; intros Hs Hy; simpl.
  - constructor; constructor.
  - inversion Hs; subst. constructor.
    + apply IH; [assumption|]. intros x Hx. apply Hy. right. exact Hx.
    + apply Forall_app. split; [assumption|]. constructor; [|constructor]. apply Hy. left. reflexivity.
Qed.
Lemma ssorted_filter {A} (R : A -> A -> Prop) f l : StronglySorted R l -> StronglySorted R (filter f l).
Proof.
  induction l as [|a r IH]; intros Hs; simpl; [constructor|].
  inversion Hs; subst. destruct (f a); [|auto].
  constructor; [auto|]. rewrite Forall_forall in *. intros x Hx. apply filter_In in Hx. destruct Hx. auto.
Qed.
Lemma ssorted_split {A} (R : A -> A -> Prop) l1 x l2 :
  StronglySorted R (l1 ++ x :: l2) -> (forall y, In y l1 -> R y x) /\ (forall y, In y l2 -> R x y).
Proof.
  induction l1 as [|a r IH]; simpl; intros Hs; inversion Hs; subst.
  - split; [intros y []|]. rewrite Forall_forall in H2. exact H2.
  - destruct (IH H1) as [Ha Hb]. split; [|exact Hb].
    intros y [<-|Hy]; [|auto]. rewrite Forall_forall in H2. apply H2. apply in_or_app. right. left. reflexivity.
Qed.

(* ------------------------------------------------------------------ tables *)
Lemma row_of_tbl_delete m' m t :
  row_of m' (tbl_delete m t) = if Z.eqb m' m then None else row_of m' t.
Proof.
  unfold tbl_delete. induction t as [|[i r] rest IH]; simpl; [destruct (Z.eqb m' m); reflexivity|].
  destruct (Z.eqb i m) eqn:E; simpl.
  - rewrite IH. apply Z.eqb_eq in E. subst i. destruct (Z.eqb m' m); reflexivity.
  - rewrite IH. destruct (Z.eqb m' i) eqn:E2; [|reflexivity].
    apply Z.eqb_eq in E2. subst i. rewrite E. reflexivity.
Qed.

Lemma alive_nil x : alive [] x = true.
Proof. reflexivity. Qed.
Lemma alive_cons g vid x : alive (vid :: g) x = alive g x && negb (Z.eqb (v_id x) vid).
Proof. unfold alive. simpl. destruct (Z.eqb (v_id x) vid); simpl; [rewrite andb_false_r|rewrite andb_true_r]; reflexivity. Qed.

(* ------------------------------------------------------------------ kinds of steps *)
Definition id_lt (x y : vrow) : Prop := v_id x < v_id y.

(* a version holding r was archived for master m *)
Definition archived (st st' : vstate) (m : Z) (r : kwargs) : Prop :=
  v_tbl st' = v_tbl st ++ [{| v_id := v_next st; v_master := m; v_vals := r |}]
  /\ arch st' = arch st ++ [{| v_id := v_next st; v_master := m; v_vals := r |}]
  /\ v_next st' = v_next st + 1 /\ m_next st' = m_next st /\ gone st' = gone st.
Definition same_versions (st st' : vstate) : Prop :=
  v_tbl st' = v_tbl st /\ v_next st' = v_next st /\ arch st' = arch st /\ gone st' = gone st.
Definition same_masters (st st' : vstate) : Prop :=
  m_tbl st' = m_tbl st /\ m_next st' = m_next st /\ hist st' = hist st.

Inductive vkind (st : vstate) (o : vop) (st' : vstate) (out : voutcome) : Prop :=
| KSame : st' = st -> out <> VDone ->
          db_refused {| w_pre := st; w_op := o; w_out := out; w_post := st' |} = false -> vkind st o st' out
| KCreate : forall kw0 r, o = VCreate kw0 -> out = VDone -> validate r = true -> full r ->
    m_tbl st' = m_tbl st ++ [(m_next st, r)] -> m_next st' = m_next st + 1 ->
    hist st' = hist_push (m_next st) r (hist st) -> same_versions st st' -> vkind st o st' out
| KRefused : forall m r, vtarget st o = Some m -> row_of m (m_tbl st) = Some r -> archived st st' m r ->
    m_tbl st' = m_tbl st -> hist st' = hist st ->
    db_refused {| w_pre := st; w_op := o; w_out := out; w_post := st' |} = true ->
    (out = VExn XDuplicate \/ out = VExn XTypeError) -> vkind st o st' out
| KUpdate : forall m r w, vtarget st o = Some m -> row_of m (m_tbl st) = Some r -> validate w = true ->
    archived st st' m r -> out = VDone ->
    m_tbl st' = tbl_update m (sort_cols w) (m_tbl st) ->
    hist st' = hist_push m (row_update (sort_cols w) r) (hist st) ->
    (forall vid ver, o = VRestore vid -> find_version vid (v_tbl st) = Some ver -> w = v_vals ver) ->
    vkind st o st' out
| KDestroy : forall m r, o = VDestroy m -> out = VDone -> row_of m (m_tbl st) = Some r ->
    m_tbl st' = tbl_delete m (m_tbl st) -> m_next st' = m_next st -> hist st' = hist st ->
    same_versions st st' -> vkind st o st' out
| KDestroyVer : forall vid ver, o = VDestroyVer vid -> out = VDone -> find_version vid (v_tbl st) = Some ver ->
    v_tbl st' = filter (fun x => negb (Z.eqb (v_id x) vid)) (v_tbl st) -> gone st' = vid :: gone st ->
    v_next st' = v_next st -> arch st' = arch st -> same_masters st st' -> vkind st o st' out.

Ltac same_tac := apply KSame; [reflexivity|discriminate|reflexivity].

(* the update path: target m, dict kw; `o` is any operation that addresses m and is not a creation *)
Lemma vupdate_kind st o m kw st' out :
  vtarget st o = Some m ->
  (forall e, db_refused {| w_pre := st; w_op := o; w_out := VExn e; w_post := st' |}
             = match e with XDuplicate => true | _ => false end) ->
  (forall vid ver, o = VRestore vid -> find_version vid (v_tbl st) = Some ver -> kw = v_vals ver) ->
  vupdate st m kw = (st', out) -> vkind st o st' out.
Proof.
  intros Ht Hd Hres. unfold vupdate. destruct (row_of m (m_tbl st)) as [r|] eqn:Er.
  2:{ intros H. inversion H; subst. apply KSame; [reflexivity|discriminate|]. destruct o; try reflexivity; discriminate. }
  destruct (validate kw) eqn:Ek; simpl.
  2:{ intros H. inversion H; subst. apply KSame; [reflexivity|discriminate|]. rewrite Hd. reflexivity. }
  destruct (a_conflict (Some m) (sort_cols kw) (m_tbl st)); intros H; inversion H; subst; clear H.
  - apply (KRefused _ _ _ _ m r); try assumption; try reflexivity.
    + repeat split.
    + rewrite Hd. reflexivity.
    + left. reflexivity.
  - apply (KUpdate _ _ _ _ m r kw); try assumption; try reflexivity. repeat split.
Qed.

Lemma vstep_kind st o st' out : vstep st o = (st', out) -> vkind st o st' out.
Proof.
  destruct o as [kw0|m c v|m kw0|m kw0|vid|m|vid|vid|vid]; unfold vstep.
  - destruct (fill_defaults all_cols (mk_kw kw0)) as [kw2|] eqn:Ef.
    2:{ intros H. inversion H; subst. same_tac. }
    destruct (validate kw2) eqn:Ev; simpl.
    2:{ intros H. inversion H; subst. same_tac. }
    destruct (a_conflict None kw2 (m_tbl st)).
    { intros H. inversion H; subst. same_tac. }
    intros H. inversion H; subst; clear H.
    apply (KCreate _ _ _ _ kw0 (sort_cols kw2)); try reflexivity.
    + apply validate_sort_cols. exact Ev.
    + destruct (fill_defaults_has _ _ Ef) as [Ha [Hb Hc]]. apply sort_cols_full_of; assumption.
    + repeat split.
  - apply vupdate_kind; [reflexivity| |discriminate]. intros e. destruct e; reflexivity.
  - apply vupdate_kind; [reflexivity| |discriminate]. intros e. destruct e; reflexivity.
  - unfold vrefuse. destruct (row_of m (m_tbl st)) as [r|] eqn:Er.
    2:{ intros H. inversion H; subst. same_tac. }
    destruct (validate (mk_kw kw0)); simpl; intros H; inversion H; subst; clear H.
    + apply (KRefused _ _ _ _ m r); try assumption; try reflexivity; [repeat split|right; reflexivity].
    + same_tac.
  - destruct (find_version vid (v_tbl st)) as [ver|] eqn:Ef.
    2:{ intros H. inversion H; subst. same_tac. }
    destruct (row_of (v_master ver) (m_tbl st)) as [r0|] eqn:Er.
    2:{ intros H. inversion H; subst. same_tac. }
    apply vupdate_kind.
    + simpl. rewrite Ef. reflexivity.
    + intros e. destruct e; reflexivity.
    + intros vid' ver' H1 H2. inversion H1; subst. rewrite Ef in H2. inversion H2. reflexivity.
  - destruct (row_of m (m_tbl st)) as [r|] eqn:Er; intros H; inversion H; subst; clear H.
    + apply (KDestroy _ _ _ _ m r); try reflexivity; [assumption|repeat split].
    + same_tac.
  - destruct (find_version vid (v_tbl st)) as [ver|] eqn:Ef; intros H; inversion H; subst; clear H.
    + apply (KDestroyVer _ _ _ _ vid ver); try reflexivity; [assumption|repeat split].
    + same_tac.
  - simpl. destruct (find_version vid (v_tbl st)) as [ver|]; [|intros H; inversion H; subst; same_tac].
    destruct (next_in (v_tbl st) (m_tbl st) ver); simpl; intros H; inversion H; subst;
      (apply KSame; [reflexivity|discriminate|reflexivity]).
  - simpl. destruct (find_version vid (v_tbl st)) as [ver|]; [|intros H; inversion H; subst; same_tac].
    destruct (next_in (v_tbl st) (m_tbl st) ver); simpl; intros H; inversion H; subst;
      (apply KSame; [reflexivity|discriminate|reflexivity]).
Qed.
