(* C01, affinity: the type name each column class declares (REGENERATED from
   col.py where it is a constant) and the affinity sqlite derives from it. *)
From Coq Require Import List NArith ZArith Bool Lia ZifyBool.
From Lib Require Import Str Lex ColumnsTpl.
From Gen Require Import Columns.
From Model Require Import Columns.
From Proofs Require Import ColumnsStr ColumnsNum.
Import ListNotations.
Open Scope N_scope.

(* digits and the punctuation of "(10, 3)" *)
Definition plain (c : ch) : bool := is_digit c || (c =? 44) || (c =? 32) || (c =? 40) || (c =? 41).

Lemma upper_plain s : forallb plain s = true -> upper s = s.
Proof.
  induction s as [|c s IH]; [reflexivity|]. cbn [forallb]. intros H. apply andb_true_iff in H. destruct H as [Hc Hs].
  unfold upper in *. cbn [map]. rewrite (IH Hs). f_equal.
  unfold upper_ascii. assert (E : (97 <=? c) && (c <=? 122) = false) by (unfold plain, is_digit in Hc; lia). now rewrite E.
Qed.

Lemma has_sub_absent p0 p s : contains p0 s = false -> has_sub (p0 :: p) s = false.
Proof.
  induction s as [|c s IH]; [reflexivity|].
  unfold contains. cbn [existsb]. intros H. apply orb_false_iff in H. destruct H as [Hc Hs].
  cbn [has_sub starts_with]. rewrite Hc. cbn [andb orb]. now apply IH.
Qed.

Lemma plain_no_letter s l : forallb plain s = true -> (65 <=? l) = true -> contains l s = false.
Proof.
  intros H Hl. unfold contains. apply (forallb_existsb_false plain); [assumption|].
  intros x Hx. unfold plain, is_digit in Hx. lia.
Qed.

Lemma plain_digits ds : forallb is_digit ds = true -> forallb plain ds = true.
Proof. intros H. apply (forallb_impl is_digit); [assumption|]. intros x Hx. unfold plain. now rewrite Hx. Qed.

(* DECIMAL(<size>, <prec>) *)
Lemma decimal_decl_affinity tail :
  forallb plain tail = true ->
  affinity_of_decl ([68; 69; 67; 73; 77; 65; 76; 40] ++ tail) = ANUMERIC.
Proof.
  intros Ht. unfold affinity_of_decl. cbv zeta.
  assert (Hu : upper ([68; 69; 67; 73; 77; 65; 76; 40] ++ tail) = [68; 69; 67; 73; 77; 65; 76; 40] ++ tail).
  { unfold upper. rewrite map_app. f_equal. apply (upper_plain tail Ht). }
  rewrite Hu. clear Hu.
  assert (H1 : has_sub [73; 78; 84] tail = false) by (apply has_sub_absent, plain_no_letter; [assumption|reflexivity]).
  assert (H2 : has_sub [67; 72; 65; 82] tail = false) by (apply has_sub_absent, plain_no_letter; [assumption|reflexivity]).
  assert (H3 : has_sub [67; 76; 79; 66] tail = false) by (apply has_sub_absent, plain_no_letter; [assumption|reflexivity]).
  assert (H4 : has_sub s_TEXT tail = false) by (apply has_sub_absent, plain_no_letter; [assumption|reflexivity]).
  assert (H5 : has_sub [66; 76; 79; 66] tail = false) by (apply has_sub_absent, plain_no_letter; [assumption|reflexivity]).
  assert (H6 : has_sub [82; 69; 65; 76] tail = false) by (apply has_sub_absent, plain_no_letter; [assumption|reflexivity]).
  assert (H7 : has_sub [70; 76; 79; 65] tail = false) by (apply has_sub_absent, plain_no_letter; [assumption|reflexivity]).
  assert (H8 : has_sub [68; 79; 85; 66] tail = false) by (apply has_sub_absent, plain_no_letter; [assumption|reflexivity]).
  revert H1 H2 H3 H4 H5 H6 H7 H8. clear Ht. generalize tail as u. intros u H1 H2 H3 H4 H5 H6 H7 H8.
  cbn. unfold s_TEXT in *. now rewrite H1, H2, H3, H4, H5, H6, H7, H8.
Qed.

(* VARCHAR(<n>) *)
Lemma varchar_decl_affinity tail :
  forallb plain tail = true ->
  affinity_of_decl ([86; 65; 82; 67; 72; 65; 82; 40] ++ tail) = ATEXT.
Proof.
  intros Ht. unfold affinity_of_decl. cbv zeta.
  assert (Hu : upper ([86; 65; 82; 67; 72; 65; 82; 40] ++ tail) = [86; 65; 82; 67; 72; 65; 82; 40] ++ tail).
  { unfold upper. rewrite map_app. f_equal. apply (upper_plain tail Ht). }
  rewrite Hu. clear Hu.
  assert (H1 : has_sub [73; 78; 84] tail = false) by (apply has_sub_absent, plain_no_letter; [assumption|reflexivity]).
  revert H1. clear Ht. generalize tail as u. intros u H1.
  cbn. now rewrite H1.
Qed.

Lemma varchar_affinity n : affinity_of_decl (varchar_of n) = ATEXT.
Proof.
  unfold varchar_of. apply varchar_decl_affinity. rewrite forallb_app, (plain_digits _ (dec_N_digits n)). reflexivity.
Qed.

Lemma decimal_affinity size prec : col_affinity (TDecimal size prec) = ANUMERIC.
Proof.
  unfold col_affinity, sqlite_type, gen_type_Decimal. cbn [render_type].
  apply decimal_decl_affinity.
  repeat (rewrite forallb_app). rewrite !(plain_digits _ (dec_N_digits _)). reflexivity.
Qed.

(* the affinity of every column type *)
Definition affinity_spec (T : coltype) : affinity :=
  match T with
  | TString _ | TUnicode _ | TDecStr _ _ _ | TEnum _ | TBlob | TPickle | TUuid | TJson | TForeignKeyStr => ATEXT
  | TInt | TTinyInt | TSmallInt | TMediumInt | TBigInt | TForeignKey => AINTEGER
  | TFloat => AREAL
  | TBool | TDateTime | TDate | TTime | TTimestamp | TDecimal _ _ | TCurrency => ANUMERIC
  end.
Lemma affinity_char T : col_affinity T = affinity_spec T.
Proof.
  destruct T as [[n|]|[n|]| | | | | | | | | | | |size prec| |size prec q|vals| | | | | | ].
  - apply varchar_affinity.
  - reflexivity.
  - apply varchar_affinity.
  - reflexivity.
  - reflexivity.
  - reflexivity.
  - reflexivity.
  - reflexivity.
  - reflexivity.
  - reflexivity.
  - reflexivity.
  - reflexivity.
  - reflexivity.
  - reflexivity.
  - reflexivity.
  - apply decimal_affinity.
  - vm_compute. reflexivity.
  - apply varchar_affinity.
  - apply varchar_affinity.
  - reflexivity.
  - reflexivity.
  - reflexivity.
  - reflexivity.
  - reflexivity.
  - reflexivity.
Qed.
