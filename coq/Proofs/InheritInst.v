(* C15, instance layer (Model/InheritInst.v): the extended histories keep the
   nesting invariant; what sync() / expire() refresh and what they do not. *)
From Coq Require Import List ZArith Bool Lia.
From Model Require Import Inherit InheritInst.
From Proofs Require Import InheritBase InheritOps InheritInv InheritTop.
Import ListNotations.
Open Scope Z_scope.

(* ------------------------------------------------------------------ the tables under the extended steps *)
Lemma on_inst_db : forall S e id l f, db (fst (on_inst S e id l f)) = db S.
Proof.
  intros. unfold on_inst. destruct (get_obj (db S) e id) as [x|ob]; [reflexivity|].
  destruct (memc l (chain (ocls ob))); reflexivity.
Qed.

Lemma istep_old_db : forall auto S o, db (fst (istep auto S (Old o))) = fst (step auto (db S) o).
Proof.
  intros auto S o. destruct o as [k a unk|k a unk i|e id|e id col v|e id kvs|k f|k col v|k v|e id|id|id];
    try (cbn [istep]; destruct (step auto (db S) _) as [s' r]; reflexivity).
  - cbn [istep]. destruct (step auto (db S) (Create k a unk)) as [s' r]. destruct r; reflexivity.
  - cbn [istep step]. destruct (get_obj (db S) e id) as [x|ob]; [reflexivity|].
    destruct (iview (db S) e (ocls ob) id (im S)). reflexivity.
  - cbn [istep step]. destruct (get_obj (db S) e id) as [x|ob]; [reflexivity|].
    destruct (memc col (chain (ocls ob))); [|reflexivity].
    unfold write1. destruct (validate v) as [x|ov]; [reflexivity|].
    destruct (sql_update col id ov (db S)) as [x|s']; [reflexivity|].
    destruct (iseen s' (chain (ocls ob)) (ocls ob) id _). reflexivity.
Qed.

Lemma irun_old : forall auto ops S, db (irun auto S (map Old ops)) = run auto (db S) ops.
Proof.
  induction ops as [|o ops IH]; intro S; cbn [map irun run]; [reflexivity|].
  rewrite IH, istep_old_db. reflexivity.
Qed.

Lemma iclean_old : forall auto ops S, iclean auto S (map Old ops) = clean auto (db S) ops.
Proof.
  induction ops as [|o ops IH]; intro S; cbn [map iclean clean itrigger]; [reflexivity|].
  rewrite IH, istep_old_db. reflexivity.
Qed.

(* the old histories are the extended ones without the new operations *)
Theorem old_reachable_ireachable : forall auto s, reachable auto s -> exists S, ireachable auto S /\ db S = s.
Proof.
  intros auto s [ops [Hc ->]]. exists (irun auto iinit (map Old ops)). split.
  - exists (map Old ops). split; [|reflexivity]. rewrite iclean_old. exact Hc.
  - rewrite irun_old. reflexivity.
Qed.

Lemma istep_repr : forall auto S os o, repr (db S) os -> itrigger auto S o = false ->
  exists os', repr (db (fst (istep auto S o))) os'.
Proof.
  intros auto S os o Hr G. destruct o as [o|l id v|e id l|e id l|e id l|id l a|id a v|id l|id l].
  - rewrite istep_old_db. eapply step_repr; eassumption.
  - cbn [istep]. destruct (sql_update l id v (db S)) as [x|s'] eqn:H; cbn [fst db].
    + exists os. exact Hr.
    + destruct (sql_update_repr _ _ _ _ _ _ Hr H) as [Hr' _]. eexists. exact Hr'.
  - cbn [istep]. rewrite on_inst_db. exists os. exact Hr.
  - cbn [istep]. rewrite on_inst_db. exists os. exact Hr.
  - cbn [istep]. rewrite on_inst_db. exists os. exact Hr.
  - cbn [istep]. destruct (born_as (db S) id); [|exists os; exact Hr].
    destruct (memc l (chain c) && memc a (chain l)); exists os; exact Hr.
  - cbn [istep]. destruct (born_as (db S) id); [|exists os; exact Hr].
    destruct (memc a (chain c)); [|exists os; exact Hr].
    destruct (validate v) as [x|ov]; [exists os; exact Hr|].
    destruct (sql_update a id ov (db S)) as [x|s'] eqn:H; cbn [fst db]; [exists os; exact Hr|].
    destruct (sql_update_repr _ _ _ _ _ _ Hr H) as [Hr' _]. eexists. exact Hr'.
  - cbn [istep]. destruct (born_as (db S) id); [|exists os; exact Hr].
    destruct (memc l (chain c)); exists os; exact Hr.
  - cbn [istep]. destruct (born_as (db S) id); [|exists os; exact Hr].
    destruct (memc l (chain c)); exists os; exact Hr.
Qed.

Lemma irun_repr : forall auto ops S os, repr (db S) os -> iclean auto S ops = true ->
  exists os', repr (db (irun auto S ops)) os'.
Proof.
  induction ops as [|o ops IH]; intros S os Hr Hc; cbn in *.
  - exists os. exact Hr.
  - apply andb_true_iff in Hc. destruct Hc as [Hg Hc]. apply negb_true_iff in Hg.
    destruct (istep_repr auto S os o Hr Hg) as [os' Hr']. eapply IH; eassumption.
Qed.

Lemma ireach_repr : forall auto S, ireachable auto S -> exists os, repr (db S) os.
Proof. intros auto S [ops [Hc ->]]. eapply irun_repr; [apply repr_init|exact Hc]. Qed.

Theorem inst_nesting : forall auto S, ireachable auto S -> nesting (db S).
Proof. intros auto S H. destruct (ireach_repr auto S H) as [os Hr]. eapply repr_nesting. exact Hr. Qed.

Lemma ireach_get : forall auto S id k e, ireachable auto S -> In (id, k) (born (db S)) -> In e (chain k) ->
  exists ob, get_obj (db S) e id = inr ob /\ ocls ob = k.
Proof.
  intros auto S id k e Hre Hb He. destruct (ireach_repr auto S Hre) as [os Hr].
  destruct (born_in _ os id k Hr Hb) as [o [Ho [Hid [Hk Hf]]]]. subst id k.
  exists (obj_of o). split; [|reflexivity]. apply (get_obj_repr _ os e (aid o) o Hr Hf). apply memc_In. exact He.
Qed.

(* ------------------------------------------------------------------ slots *)
Lemma iupd_same : forall m l id x l', iupd m l id x l' id = if cls_eqb l' l then x else m l' id.
Proof. intros. unfold iupd. rewrite Z.eqb_refl, andb_true_r. reflexivity. Qed.

Lemma loadv_idem : forall s l id c, loadv s l id (loadv s l id c) = loadv s l id c.
Proof. intros. destruct c; reflexivity. Qed.
Lemma touch_idem : forall s l id x, touch s l id (touch s l id x) = touch s l id x.
Proof. intros s l id [c e]. destruct e; cbn; [rewrite loadv_idem|..]; reflexivity. Qed.

Lemma touch_all_spec : forall s ls id m l,
  touch_all s ls id m l id = if memc l ls then touch s l id (m l id) else m l id.
Proof.
  induction ls as [|a ls IH]; intros id m l; cbn [touch_all]; [reflexivity|].
  rewrite IH. rewrite iupd_same. unfold memc. cbn [existsb]. fold (memc l ls).
  destruct (cls_eqb l a) eqn:E.
  - apply cls_eqb_eq in E. subst a. cbn [orb]. destruct (memc l ls); [apply touch_idem|reflexivity].
  - cbn [orb]. reflexivity.
Qed.

Lemma load_all_spec : forall s ls id m l,
  load_all s ls id m l id =
  if memc l ls then mkslot (loadv s l id (ci (m l id))) (en (m l id)) else m l id.
Proof.
  induction ls as [|a ls IH]; intros id m l; cbn [load_all]; [reflexivity|].
  rewrite IH. rewrite iupd_same. unfold memc. cbn [existsb]. fold (memc l ls).
  destruct (cls_eqb l a) eqn:E.
  - apply cls_eqb_eq in E. subst a. cbn [orb ci en]. destruct (memc l ls); [rewrite loadv_idem|]; reflexivity.
  - cbn [orb]. reflexivity.
Qed.

Lemma adopt_other : forall s ls id m l, memc l ls = false -> adopt s ls id m l id = m l id.
Proof.
  induction ls as [|a ls IH]; intros id m l H; cbn [adopt]; [reflexivity|].
  unfold memc in H. cbn [existsb] in H. apply orb_false_iff in H. destruct H as [Ha Hl].
  destruct (en (m a id)); [reflexivity|..]; rewrite IH by exact Hl; rewrite iupd_same, Ha; reflexivity.
Qed.

(* coherence of one slot with the stored row: the chain instance is unloaded
   or holds the stored value (cfresh); another instance in the identity map
   holds the stored value (efresh) *)
Definition cfresh (s : st) (l : cls) (id : Z) (x : slot) : Prop := ci x = None \/ ci x = Some (val_of s l id).
Definition efresh (s : st) (l : cls) (id : Z) (x : slot) : Prop := forall v, en x = NOther v -> v = val_of s l id.

Lemma touch_efresh : forall s l id x, efresh s l id x -> efresh s l id (touch s l id x).
Proof.
  intros s l id [c e] H v. destruct e; cbn; intro E; try discriminate.
  - inversion E. reflexivity.
  - apply H. exact E.
Qed.
Lemma touch_cfresh : forall s l id x, cfresh s l id x -> cfresh s l id (touch s l id x).
Proof.
  intros s l id [c e] H. destruct e; cbn; try exact H.
  destruct H as [H|H]; cbn in H; subst c; right; reflexivity.
Qed.

Lemma adopt_efresh : forall s ls id m l, efresh s l id (m l id) -> efresh s l id (adopt s ls id m l id).
Proof.
  induction ls as [|a ls IH]; intros id m l H; cbn [adopt]; [exact H|].
  destruct (en (m a id)) eqn:E; [exact H|..]; apply IH; rewrite iupd_same;
    (destruct (cls_eqb l a); [intros v' E'; discriminate E'|exact H]).
Qed.
Lemma adopt_cfresh : forall s ls id m l, efresh s l id (m l id) -> cfresh s l id (m l id) ->
  cfresh s l id (adopt s ls id m l id) /\ efresh s l id (adopt s ls id m l id).
Proof.
  induction ls as [|a ls IH]; intros id m l He Hc; cbn [adopt]; [split; assumption|].
  destruct (en (m a id)) as [| |v] eqn:E; [split; assumption|..].
  - apply IH; rewrite iupd_same; destruct (cls_eqb l a) eqn:Ea; try assumption.
    + intros v' E'. discriminate E'.
    + right. apply cls_eqb_eq in Ea. subst a. reflexivity.
  - apply IH; rewrite iupd_same; destruct (cls_eqb l a) eqn:Ea; try assumption.
    + intros v' E'. discriminate E'.
    + apply cls_eqb_eq in Ea. subst a. right. cbn. rewrite (He v E). reflexivity.
Qed.

Lemma iget_fresh : forall s e k id m l, efresh s l id (m l id) ->
  efresh s l id (iget s e k id m l id) /\ (cfresh s l id (m l id) -> cfresh s l id (iget s e k id m l id)).
Proof.
  intros s e k id m l He. unfold iget.
  set (m1 := touch_all s (seg e k) id m).
  assert (E1 : efresh s l id (m1 l id)).
  { unfold m1. rewrite touch_all_spec. destruct (memc l (seg e k)); [apply touch_efresh|]; exact He. }
  assert (C1 : cfresh s l id (m l id) -> cfresh s l id (m1 l id)).
  { intro Hc. unfold m1. rewrite touch_all_spec. destruct (memc l (seg e k)); [apply touch_cfresh|]; exact Hc. }
  destruct (en (m1 k id)) eqn:Ek; try (split; assumption).
  set (m2 := iupd m1 k id (mkslot (Some v) NSame)).
  assert (E2 : efresh s l id (m2 l id)).
  { unfold m2. rewrite iupd_same. destruct (cls_eqb l k); [intros v' E'; discriminate E'|exact E1]. }
  split.
  - apply adopt_efresh. exact E2.
  - intro Hc. apply adopt_cfresh; [exact E2|].
    unfold m2. rewrite iupd_same. destruct (cls_eqb l k) eqn:Elk; [|apply C1; exact Hc].
    apply cls_eqb_eq in Elk. subst l. right. cbn. rewrite (E1 v Ek). reflexivity.
Qed.

(* what a full read shows at a level whose chain instance is coherent *)
Lemma view_shows : forall s e k id m l, In l (chain k) -> efresh s l id (m l id) -> cfresh s l id (m l id) ->
  shown (fst (iview s e k id m)) l id = val_of s l id.
Proof.
  intros s e k id m l Hl He Hc. unfold iview. cbn [fst]. unfold shown. rewrite load_all_spec.
  apply memc_In in Hl. rewrite Hl. cbn [ci].
  destruct (iget_fresh s e k id m l He) as [_ C]. destruct (C Hc) as [H|H]; rewrite H; reflexivity.
Qed.

Lemma oat_ivals : forall m k id l, In l (chain k) -> oat (mkobj id k (ivals m k id)) l = shown m l id.
Proof.
  intros m k id l H. unfold oat, ivals. cbn [ovals].
  destruct k; cbn in H; repeat (destruct H as [<-|H]; [reflexivity|]); destruct H.
Qed.

Lemma iget_other_id : forall s e k id m l i, i <> id -> iget s e k id m l i = m l i.
Proof.
  intros s e k id m l i Hne.
  assert (U : forall m l0 x, iupd m l0 id x l i = m l i).
  { intros. unfold iupd. apply Z.eqb_neq in Hne. rewrite Hne, andb_false_r. reflexivity. }
  assert (T : forall ls m, touch_all s ls id m l i = m l i).
  { induction ls as [|a ls IH]; intro m0; cbn [touch_all]; [reflexivity|]. rewrite IH. apply U. }
  assert (A : forall ls m, adopt s ls id m l i = m l i).
  { induction ls as [|a ls IH]; intro m0; cbn [adopt]; [reflexivity|].
    destruct (en (m0 a id)); [reflexivity|..]; rewrite IH; apply U. }
  unfold iget. destruct (en (touch_all s (seg e k) id m k id)); rewrite ?A, ?U; apply T.
Qed.

(* ------------------------------------------------------------------ get after sync / expire *)
Lemma leaf_in_seg : forall e k, In e (chain k) -> memc k (seg e k) = true.
Proof. intros e k H. destruct k; cbn in H; repeat (destruct H as [<-|H]; [reflexivity|]); destruct H. Qed.
Lemma leaf_not_above : forall k, memc k (tl (rev (chain k))) = false.
Proof. destruct k; reflexivity. Qed.

(* after get through a class of the chain the leaf is in the identity map, loaded *)
Lemma iget_leaf : forall s e k id m, In e (chain k) ->
  en (iget s e k id m k id) = NSame /\ exists v, ci (iget s e k id m k id) = Some v.
Proof.
  intros s e k id m He. unfold iget. set (m1 := touch_all s (seg e k) id m).
  assert (H1 : m1 k id = touch s k id (m k id)).
  { unfold m1. rewrite touch_all_spec, (leaf_in_seg e k He). reflexivity. }
  destruct (en (m1 k id)) eqn:Ek.
  - split; [exact Ek|]. rewrite H1 in *. destruct (m k id) as [c en0]. destruct en0; cbn in *; try discriminate.
    destruct c; cbn; eexists; reflexivity.
  - exfalso. rewrite H1 in Ek. destruct (m k id) as [c en0]. destruct en0; cbn in Ek; discriminate.
  - rewrite adopt_other by apply leaf_not_above. rewrite iupd_same, cls_eqb_refl. cbn. split; [reflexivity|eexists; reflexivity].
Qed.

(* with the leaf in the identity map get only reads childName on the way down *)
Lemma iget_leaf_same : forall s e k id m, en (m k id) = NSame -> iget s e k id m = touch_all s (seg e k) id m.
Proof.
  intros s e k id m H. unfold iget.
  assert (E : en (touch_all s (seg e k) id m k id) = NSame).
  { rewrite touch_all_spec. destruct (memc k (seg e k)); [|exact H]. destruct (m k id) as [c en0]. cbn in H. subst en0. reflexivity. }
  rewrite E. reflexivity.
Qed.

Lemma touch_all_cfresh : forall s ls id m l, cfresh s l id (m l id) -> cfresh s l id (touch_all s ls id m l id).
Proof. intros. rewrite touch_all_spec. destruct (memc l ls); [apply touch_cfresh|]; assumption. Qed.

(* reading level l after get, when the leaf is in the identity map and l's chain instance is coherent *)
Lemma view_shows_leaf_same : forall s e k id m l, In l (chain k) -> en (m k id) = NSame -> cfresh s l id (m l id) ->
  shown (fst (iview s e k id m)) l id = val_of s l id.
Proof.
  intros s e k id m l Hl Hk Hc. unfold iview. cbn [fst]. unfold shown. rewrite load_all_spec.
  apply memc_In in Hl. rewrite Hl. cbn [ci]. rewrite (iget_leaf_same s e k id m Hk).
  destruct (touch_all_cfresh s (seg e k) id m l Hc) as [H|H]; rewrite H; reflexivity.
Qed.

Definition refresh_at (sync : bool) (s : st) (m : imap) (l : cls) (id : Z) : imap :=
  if sync then sync_up s m l id else expire_up m l id.

Lemma sync_list_spec : forall s ls id m a,
  sync_list s m ls id a id = if memc a ls then mkslot (Some (val_of s a id)) (en (m a id)) else m a id.
Proof.
  induction ls as [|b ls IH]; intros id m a; cbn [sync_list]; [reflexivity|].
  rewrite IH. unfold sync_at. rewrite iupd_same. unfold memc. cbn [existsb]. fold (memc a ls).
  destruct (cls_eqb a b) eqn:E; cbn [orb]; [|reflexivity].
  apply cls_eqb_eq in E. subst b. cbn [en]. destruct (memc a ls); reflexivity.
Qed.

Lemma expire_list_spec : forall ls id m a,
  expire_list m ls id a id =
  if memc a ls then match ci (m a id) with None => m a id | Some _ => mkslot None NAbsent end else m a id.
Proof.
  induction ls as [|b ls IH]; intros id m a; cbn [expire_list]; [reflexivity|].
  rewrite IH. unfold memc. cbn [existsb]. fold (memc a ls). unfold expire_at.
  destruct (cls_eqb a b) eqn:E; cbn [orb].
  - apply cls_eqb_eq in E. subst b. destruct (ci (m a id)) eqn:C.
    + rewrite iupd_same, cls_eqb_refl. cbn [ci]. destruct (memc a ls); reflexivity.
    + rewrite C. destruct (memc a ls); reflexivity.
  - destruct (ci (m b id)); [rewrite iupd_same, E|]; reflexivity.
Qed.

(* after the call every level of chain l is coherent, provided its identity-map entry was *)
Lemma refresh_at_fresh : forall sync s m l id a, In a (chain l) -> efresh s a id (m a id) ->
  cfresh s a id (refresh_at sync s m l id a id) /\ efresh s a id (refresh_at sync s m l id a id).
Proof.
  intros sync s m l id a Ha He. apply memc_In in Ha. destruct sync; cbn [refresh_at].
  - unfold sync_up. rewrite sync_list_spec, Ha. split; [right; reflexivity|exact He].
  - unfold expire_up. rewrite expire_list_spec, Ha. destruct (ci (m a id)) eqn:C.
    + split; [left; reflexivity|intros v E; discriminate E].
    + split; [left; exact C|exact He].
Qed.
Lemma refresh_at_other : forall sync s m l id a, memc a (chain l) = false -> refresh_at sync s m l id a id = m a id.
Proof.
  intros sync s m l id a Ha. destruct sync; cbn [refresh_at].
  - unfold sync_up. rewrite sync_list_spec, Ha. reflexivity.
  - unfold expire_up. rewrite expire_list_spec, Ha. reflexivity.
Qed.

Definition refresh_op' := refresh_op.

Lemma istep_refresh : forall auto sync S e id l ob, get_obj (db S) e id = inr ob -> In l (chain (ocls ob)) ->
  istep auto S (refresh_op sync e id l) =
  (mkist (db S) (refresh_at sync (db S) (iget (db S) e (ocls ob) id (im S)) l id), ROk).
Proof.
  intros auto sync S e id l ob Hg Hl. apply memc_In in Hl.
  destruct sync; cbn [refresh_op istep]; unfold on_inst; rewrite Hg, Hl; reflexivity.
Qed.

Lemma istep_get : forall auto S e id ob, get_obj (db S) e id = inr ob ->
  istep auto S (Old (Get e id)) =
  (mkist (db S) (fst (iview (db S) e (ocls ob) id (im S))), RObj (snd (iview (db S) e (ocls ob) id (im S)))).
Proof. intros. cbn [istep]. rewrite H. destruct (iview _ _ _ _ _). reflexivity. Qed.

Lemma chain_sub : forall k l a, In l (chain k) -> In a (chain l) -> In a (chain k).
Proof.
  intros k l a Hl Ha. destruct k; cbn in Hl; repeat (destruct Hl as [<-|Hl]; [cbn in Ha |- *; tauto|]); destruct Hl.
Qed.
Lemma leaf_not_in_ancestor : forall k l, In l (chain k) -> l <> k -> memc k (chain l) = false.
Proof.
  intros k l Hl Hne. destruct k; cbn in Hl; repeat (destruct Hl as [<-|Hl]; [try reflexivity; contradiction|]); destruct Hl.
Qed.

(* the level the call was made on is refreshed, through every entry class -- whatever the identity map holds *)
Theorem refresh_own_level : forall auto sync S id k e l e', ireachable auto S -> In (id, k) (born (db S)) ->
  In e (chain k) -> In l (chain k) -> In e' (chain k) ->
  let S' := fst (istep auto S (refresh_op sync e id l)) in
  db S' = db S /\
  exists ob, snd (istep auto S' (Old (Get e' id))) = RObj ob /\ oid ob = id /\ ocls ob = k /\
             oat ob l = val_of (db S) l id.
Proof.
  intros auto sync S id k e l e' Hre Hb He Hl He' S'.
  destruct (ireach_get auto S id k e Hre Hb He) as [ob [Hg Hk]].
  destruct (ireach_get auto S id k e' Hre Hb He') as [ob' [Hg' Hk']].
  assert (HS : S' = mkist (db S) (refresh_at sync (db S) (iget (db S) e k id (im S)) l id)).
  { unfold S'. rewrite (istep_refresh auto sync S e id l ob Hg); rewrite Hk; [reflexivity|exact Hl]. }
  split; [rewrite HS; reflexivity|].
  assert (Hg2 : get_obj (db S') e' id = inr ob') by (rewrite HS; exact Hg').
  rewrite (istep_get auto S' e' id ob' Hg2). cbn [snd]. rewrite Hk'.
  eexists. split; [reflexivity|]. unfold iview. cbn [snd oid ocls]. repeat split.
  rewrite oat_ivals by exact Hl.
  change (load_all (db S') (chain k) id (iget (db S') e' k id (im S'))) with (fst (iview (db S') e' k id (im S'))).
  rewrite HS. cbn [db im].
  set (m1 := iget (db S) e k id (im S)).
  destruct (iget_leaf (db S) e k id (im S) He) as [Lk [vk Lv]]. fold m1 in Lk, Lv.
  assert (Ll : memc l (chain l) = true) by apply memc_self.
  destruct sync; cbn [refresh_at].
  - (* sync: the entries stay, the leaf is still in the identity map *)
    apply view_shows_leaf_same; [exact Hl| |].
    + unfold sync_up. rewrite sync_list_spec. destruct (memc k (chain l)); exact Lk.
    + unfold sync_up. rewrite sync_list_spec, Ll. right. reflexivity.
  - (* expire *)
    destruct (cls_dec l k) as [->|Hne].
    + (* through the leaf: the next get makes a new leaf, which loads its row *)
      apply view_shows; [exact Hl| |]; unfold expire_up; rewrite expire_list_spec, Ll, Lv.
      * intros v E. discriminate E.
      * left. reflexivity.
    + apply view_shows_leaf_same; [exact Hl| |]; unfold expire_up; rewrite expire_list_spec.
      * rewrite (leaf_not_in_ancestor k l Hl Hne). exact Lk.
      * rewrite Ll. destruct (ci (m1 l id)) eqn:C; left; [reflexivity|exact C].
Qed.

(* the level and every level above it are refreshed, provided no other instance of one of those levels sits in
   the identity map with an outdated value *)
Theorem refresh_upto : forall auto sync S id k e l e', ireachable auto S -> In (id, k) (born (db S)) ->
  In e (chain k) -> In l (chain k) -> In e' (chain k) -> entries_fresh S k id ->
  let S' := fst (istep auto S (refresh_op sync e id l)) in
  exists ob, snd (istep auto S' (Old (Get e' id))) = RObj ob /\ oid ob = id /\ ocls ob = k /\
             forall a, In a (chain l) -> oat ob a = val_of (db S) a id.
Proof.
  intros auto sync S id k e l e' Hre Hb He Hl He' Hfr S'.
  destruct (ireach_get auto S id k e Hre Hb He) as [ob [Hg Hk]].
  destruct (ireach_get auto S id k e' Hre Hb He') as [ob' [Hg' Hk']].
  assert (HS : S' = mkist (db S) (refresh_at sync (db S) (iget (db S) e k id (im S)) l id)).
  { unfold S'. rewrite (istep_refresh auto sync S e id l ob Hg); rewrite Hk; [reflexivity|exact Hl]. }
  assert (Hg2 : get_obj (db S') e' id = inr ob') by (rewrite HS; exact Hg').
  rewrite (istep_get auto S' e' id ob' Hg2). cbn [snd]. rewrite Hk'.
  eexists. split; [reflexivity|]. unfold iview. cbn [snd oid ocls]. split; [reflexivity|]. split; [reflexivity|].
  intros a Ha. assert (Hak : In a (chain k)) by (apply (chain_sub k l a Hl Ha)).
  rewrite oat_ivals by exact Hak.
  change (load_all (db S') (chain k) id (iget (db S') e' k id (im S'))) with (fst (iview (db S') e' k id (im S'))).
  rewrite HS. cbn [db im].
  assert (E1 : efresh (db S) a id (iget (db S) e k id (im S) a id)).
  { apply iget_fresh. intros v E. apply (Hfr a v Hak E). }
  destruct (refresh_at_fresh sync (db S) (iget (db S) e k id (im S)) l id a Ha E1) as [C2 E2].
  apply view_shows; assumption.
Qed.

(* on the object get handed out (the leaf): everything *)
Theorem refresh_leaf : forall auto sync S id k e e', ireachable auto S -> In (id, k) (born (db S)) ->
  In e (chain k) -> In e' (chain k) -> entries_fresh S k id ->
  snd (istep auto (fst (istep auto S (refresh_op sync e id k))) (Old (Get e' id))) = RObj (mkobj id k (stored (db S) k id)).
Proof.
  intros auto sync S id k e e' Hre Hb He He' Hfr.
  assert (Hkk : In k (chain k)) by (apply memc_In; apply memc_self).
  destruct (ireach_get auto S id k e Hre Hb He) as [ob [Hg Hk]].
  destruct (ireach_get auto S id k e' Hre Hb He') as [ob' [Hg' Hk']].
  set (S' := fst (istep auto S (refresh_op sync e id k))).
  assert (HS : S' = mkist (db S) (refresh_at sync (db S) (iget (db S) e k id (im S)) k id)).
  { unfold S'. rewrite (istep_refresh auto sync S e id k ob Hg); rewrite Hk; [reflexivity|exact Hkk]. }
  assert (Hg2 : get_obj (db S') e' id = inr ob') by (rewrite HS; exact Hg').
  rewrite (istep_get auto S' e' id ob' Hg2). cbn [snd]. rewrite Hk'. unfold iview. cbn [snd].
  unfold ivals, stored. do 2 f_equal. apply map_ext_in. intros a Ha.
  change (load_all (db S') (chain k) id (iget (db S') e' k id (im S'))) with (fst (iview (db S') e' k id (im S'))).
  rewrite HS. cbn [db im].
  assert (E1 : efresh (db S) a id (iget (db S) e k id (im S) a id)).
  { apply iget_fresh. intros v E. apply (Hfr a v Ha E). }
  destruct (refresh_at_fresh sync (db S) (iget (db S) e k id (im S)) k id a Ha E1) as [C2 E2].
  apply view_shows; assumption.
Qed.

(* ------------------------------------------------------------------ through the held object, nothing fetched *)
(* sync() / expire() on the held object's instance of level l, then a read of ONE attribute of level a (own or inherited
   by l) through the instance of any level l' that has it: the stored value -- whatever part of the chain was loaded,
   expired or reloaded before (no guard: nothing is fetched, so no twin can be adopted) *)
Theorem held_refresh : forall auto sync S id k l a l', born_as (db S) id = Some k ->
  In l (chain k) -> In a (chain l) -> In l' (chain k) -> In a (chain l') ->
  let S' := fst (istep auto S (hrefresh_op sync id l)) in
  db S' = db S /\ snd (istep auto S' (HRead id l' a)) = RObj (mkobj id a [val_of (db S) a id]).
Proof.
  intros auto sync S id k l a l' Hb Hl Ha Hl' Ha' S'.
  apply memc_In in Hl. apply memc_In in Hl'. apply memc_In in Ha'.
  assert (HS : S' = mkist (db S) (refresh_at sync (db S) (im S) l id)).
  { unfold S'. destruct sync; cbn [hrefresh_op istep refresh_at]; rewrite Hb, Hl; reflexivity. }
  split; [rewrite HS; reflexivity|].
  rewrite HS. cbn [istep db im]. rewrite Hb, Hl', Ha'. cbn [andb snd]. do 3 f_equal.
  unfold shown. rewrite iupd_same, cls_eqb_refl. cbn [ci].
  apply memc_In in Ha. destruct sync; cbn [refresh_at].
  - unfold sync_up. rewrite sync_list_spec, Ha. reflexivity.
  - unfold expire_up. rewrite expire_list_spec, Ha. destruct (ci (im S a id)) eqn:C; [reflexivity|rewrite C; reflexivity].
Qed.

(* the scenario of a partially reloaded chain: expire the held leaf, read only the root's attribute (the root's instance
   reloads, the leaf stays expired), UPDATE behind the ORM, expire again, read *)
Definition w_partial : list iop :=
  [Old (Create KC (mkargs (Int 1) (Int 1) (Int 1) Omit) false); HExpire 1 KC; HRead 1 KC KA; RawSet KA 1 (Some 5)].
Lemma w_partial_ok :
  snd (istep true (irun true iinit w_partial) (HRead 1 KC KA)) = RObj (mkobj 1 KA [Some 1]) /\
  snd (istep true (fst (istep true (irun true iinit w_partial) (HExpire 1 KC))) (HRead 1 KB KA)) = RObj (mkobj 1 KA [Some 5]) /\
  born_as (db (irun true iinit w_partial)) 1 = Some KC.
Proof. vm_compute. repeat split. Qed.

Theorem inst_extends_old : forall auto ops,
  db (irun auto iinit (map Old ops)) = run auto init ops /\ iclean auto iinit (map Old ops) = clean auto init ops.
Proof. intros. split; [apply irun_old|apply iclean_old]. Qed.

(* ------------------------------------------------------------------ witnesses *)
Definition c111 : iop := Old (Create KC (mkargs (Int 1) (Int 1) (Int 1) Omit) false).

(* the former witness of the finding fixed by 47d20cb: sync() / expire() of the child after an UPDATE of the root's
   table behind the ORM now shows the stored value *)
Definition w_skip : list iop := [c111; RawSet KA 1 (Some 5)].
Lemma w_skip_now : forall sync,
  snd (istep true (fst (istep true (irun true iinit w_skip) (refresh_op sync KC 1 KC))) (Old (Get KC 1))) = RObj (mkobj 1 KC [Some 5; Some 1; Some 1]).
Proof. intro sync. destruct sync; vm_compute; reflexivity. Qed.

(* no write behind the ORM at all: b = c._parent; b.expire(); HB.get(1) (a twin of b enters the identity map, b stays
   expired); c.y = 17, not read back; c.expire() -- b is expired already, the twin stays; the new leaf adopts it *)
Definition w_twin : list iop :=
  [c111; HExpire 1 KB; SyncUpdate KB 1 KC; HSet 1 KB (Int 17); HExpire 1 KC].
Theorem twin_refuted : exists ops,
  forallb no_raw ops = true /\ iclean true iinit ops = true /\
  let S := irun true iinit ops in
  In (1, KC) (born (db S)) /\
  snd (istep true S (Old (Get KC 1))) = RObj (mkobj 1 KC [Some 1; Some 1; Some 1]) /\
  stored (db S) KC 1 = [Some 1; Some 17; Some 1].
Proof. exists w_twin. vm_compute. repeat split. left. reflexivity. Qed.

(* expire() of the leaf (hence of every level) does not refresh when a twin sits in the identity map: the expire() of an
   instance that is expired already leaves the identity map alone *)
(* expire() of the root's instance; a get through the root that reads nothing (a twin of the root's instance enters the
   identity map, the chain instance stays expired); UPDATE behind the ORM *)
Definition w_twin2 : list iop := [c111; Expire KC 1 KA; SyncUpdate KA 1 KC; RawSet KA 1 (Some 5)].
Theorem refresh_unguarded_refuted : exists S,
  ireachable true S /\ In (1, KC) (born (db S)) /\
  snd (istep true (fst (istep true S (refresh_op false KC 1 KC))) (Old (Get KC 1))) = RObj (mkobj 1 KC [Some 1; Some 1; Some 1]) /\
  stored (db S) KC 1 = [Some 5; Some 1; Some 1].
Proof.
  exists (irun true iinit w_twin2). split; [exists w_twin2; split; [vm_compute|]; reflexivity|].
  split; [left; reflexivity|]. vm_compute. split; reflexivity.
Qed.
(* sync()/expire() of an ancestor's instance leaves the levels below it alone *)
Theorem refresh_below_refuted : forall sync, exists S,
  ireachable true S /\ In (1, KC) (born (db S)) /\ entries_fresh S KC 1 /\
  snd (istep true (fst (istep true S (refresh_op sync KC 1 KB))) (Old (Get KC 1))) = RObj (mkobj 1 KC [Some 5; Some 6; Some 1]) /\
  stored (db S) KC 1 = [Some 5; Some 6; Some 7].
Proof.
  intro sync. set (w := [c111; RawSet KA 1 (Some 5); RawSet KB 1 (Some 6); RawSet KC 1 (Some 7)]).
  exists (irun true iinit w). split; [exists w; split; [vm_compute|]; reflexivity|].
  split; [left; reflexivity|]. split.
  - intros l v Hl E. cbn in Hl. destruct Hl as [<-|[<-|[<-|[]]]]; vm_compute in E; discriminate E.
  - destruct sync; vm_compute; split; reflexivity.
Qed.

(* a state meeting every hypothesis of refresh_leaf, with all three stored values changed behind the ORM *)
Definition w_raw3 : list iop := [c111; RawSet KA 1 (Some 5); RawSet KB 1 (Some 6); RawSet KC 1 (Some 7)].
Lemma w_raw3_ok : ireachable true (irun true iinit w_raw3) /\ In (1, KC) (born (db (irun true iinit w_raw3))) /\
  entries_fresh (irun true iinit w_raw3) KC 1.
Proof.
  split; [exists w_raw3; split; [vm_compute|]; reflexivity|]. split; [left; reflexivity|].
  intros l v Hl E. cbn in Hl. destruct Hl as [<-|[<-|[<-|[]]]]; vm_compute in E; discriminate E.
Qed.
