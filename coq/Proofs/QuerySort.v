(* The executable acceptance checks of Model/Query.v are sound, DISTINCT is
   the identity on tables with unique ids, and basic facts about the ordering. *)
From Coq Require Import List ZArith NArith Bool Lia Permutation Sorted.
From Lib Require Import PyLite QueryPy.
From Gen Require Import Query.
From Model Require Import Query.
Import ListNotations.
Open Scope Z_scope.

Lemma oz_eqb_eq a b : oz_eqb a b = true <-> a = b.
Proof.
  destruct a as [x|], b as [y|]; cbn; split; intros H; try discriminate; try reflexivity.
  - apply Z.eqb_eq in H. subst. reflexivity.
  - inversion H. apply Z.eqb_refl.
Qed.
Lemma oz_eqb_refl a : oz_eqb a a = true.
Proof. apply oz_eqb_eq. reflexivity. Qed.

Lemma row_eqb_eq x y : row_eqb x y = true <-> x = y.
Proof.
  split.
  - destruct x, y. unfold row_eqb. cbn. intros H.
    repeat (apply andb_prop in H; destruct H as [H ?]).
    apply Z.eqb_eq in H.
    repeat match goal with H : oz_eqb _ _ = true |- _ => apply oz_eqb_eq in H end.
    subst. reflexivity.
  - intros ->. unfold row_eqb. rewrite Z.eqb_refl, !oz_eqb_refl. reflexivity.
Qed.
Lemma row_eqb_refl x : row_eqb x x = true.
Proof. apply row_eqb_eq. reflexivity. Qed.

Lemma remove_one_perm x l l' : remove_one x l = Some l' -> Permutation l (x :: l').
Proof.
  revert l'. induction l as [|y l IH]; intros l' H; cbn [remove_one] in H; [discriminate|].
  destruct (row_eqb x y) eqn:E.
  - apply row_eqb_eq in E. subst. inversion H. subst. apply Permutation_refl.
  - destruct (remove_one x l) as [r|]; [|discriminate]. inversion H; subst.
    eapply perm_trans; [apply perm_skip; exact (IH r eq_refl)|]. apply perm_swap.
Qed.

Lemma perm_b_sound a b : perm_b a b = true -> Permutation a b.
Proof.
  revert b. induction a as [|x a IH]; intros b H; cbn [perm_b] in H.
  - destruct b; [apply perm_nil|discriminate].
  - destruct (remove_one x b) as [b'|] eqn:E; [|discriminate].
    apply remove_one_perm in E. apply IH in H.
    eapply perm_trans; [apply perm_skip; exact H|]. apply Permutation_sym. exact E.
Qed.

Lemma ordered_b_sound ks l : ordered_b ks l = true -> ordered ks l.
Proof.
  unfold ordered. induction l as [|x l IH]; intros H; [constructor|].
  cbn [ordered_b] in H. destruct l as [|y l'].
  - constructor; constructor.
  - apply andb_prop in H. destruct H as [H1 H2]. constructor; [exact (IH H2)|]. constructor. exact H1.
Qed.

Theorem select_check_sound q rows out :
  select_check q rows out = true -> select_accepts q rows out.
Proof.
  unfold select_check, select_accepts. destruct (resolve_order (q_order q)) as [ks| |]; try discriminate.
  intros H. apply andb_prop in H. destruct H as [H1 H2].
  exists ks. split; [reflexivity|]. split; [exact (perm_b_sound _ _ H1)|exact (ordered_b_sound _ _ H2)].
Qed.

(* ---------------------------------------------------------------- DISTINCT *)
Lemma filter_true_id {A} (f : A -> bool) l : (forall x, In x l -> f x = true) -> filter f l = l.
Proof.
  induction l as [|x l IH]; intros H; [reflexivity|]. cbn [filter].
  rewrite (H x (or_introl eq_refl)). f_equal. apply IH. intros y Hy. apply H. right. exact Hy.
Qed.

Lemma dedup_unique l : NoDup (map rid l) -> dedup l = l.
Proof.
  induction l as [|x l IH]; intros H; [reflexivity|]. cbn [dedup map] in *.
  inversion H as [|? ? Hn Hd]; subst. rewrite (IH Hd). f_equal.
  apply filter_true_id. intros y Hy. apply negb_true_iff.
  destruct (row_eqb x y) eqn:E; [|reflexivity].
  apply row_eqb_eq in E. subst. exfalso. apply Hn. apply in_map. exact Hy.
Qed.

Lemma NoDup_map_filter {A B} (g : A -> B) (f : A -> bool) l : NoDup (map g l) -> NoDup (map g (filter f l)).
Proof.
  induction l as [|x l IH]; intros H; [constructor|]. cbn [map filter] in *.
  inversion H as [|? ? Hn Hd]; subst. destruct (f x); [|exact (IH Hd)].
  cbn [map]. constructor; [|exact (IH Hd)].
  intros Hin. apply Hn. apply in_map_iff in Hin. destruct Hin as [y [Hy Hin]].
  apply filter_In in Hin. rewrite <- Hy. apply in_map. exact (proj1 Hin).
Qed.

Theorem distinct_is_identity d w o rows :
  ids_unique rows -> candidates (mkq d w o) rows = matching w rows.
Proof.
  intros H. unfold candidates. cbn [q_distinct q_where]. destruct d; [|reflexivity].
  apply dedup_unique. unfold matching. apply NoDup_map_filter. exact H.
Qed.

Lemma ids_unique_rows rows : ids_unique rows -> NoDup rows.
Proof. unfold ids_unique. apply NoDup_map_inv. Qed.

(* ---------------------------------------------------------------- what the keys mean *)
Lemma resolve_py c d :
  resolve_term (RField (match c with CA => n_a | CB => n_b | CS => n_s | CFk => n_fkID | CU => n_u | CId => n_a end), b2n d)
  = TKey (SKCol (match c with CId => CA | _ => c end) d).
Proof. destruct c, d; reflexivity. Qed.
Lemma resolve_db c d :
  resolve_term (RRaw (match c with CId => n_id | CA => n_a | CB => n_b | CS => n_s | CFk => n_fk_id | CU => n_u end), b2n d)
  = TKey (SKCol c d).
Proof. destruct c, d; reflexivity. Qed.
Lemma resolve_id d : resolve_term (RId, b2n d) = TKey (SKCol CId d).
Proof. destruct d; reflexivity. Qed.

(* descending is the converse of ascending, NULL lowest ascending (so last descending) *)
Lemma cmp_val_null_lowest z : cmp_val None (Some z) = Lt.
Proof. reflexivity. Qed.
Lemma cmp_key_desc c r1 r2 : cmp_key (SKCol c true) r1 r2 = CompOpp (cmp_key (SKCol c false) r1 r2).
Proof. reflexivity. Qed.
Lemma cmp_val_antisym x y : cmp_val y x = CompOpp (cmp_val x y).
Proof. destruct x, y; cbn; try reflexivity. apply Z.compare_antisym. Qed.
Lemma cmp_key_desc_swap c r1 r2 : cmp_key (SKCol c true) r1 r2 = cmp_key (SKCol c false) r2 r1.
Proof. cbn. symmetry. apply cmp_val_antisym. Qed.
