(* C16, part 2: a flush writes exactly the pending values, once; inserts and
   deletes are immediate.  Symbolic execution of the model. *)
From Coq Require Import List ZArith Bool Lia ZifyBool.
From Model Require Import Orm.
From Proofs Require Import OrmBase.
Import ListNotations.
Open Scope Z_scope.

Lemma tget_tset_same {X} k (x : X) t : tget k (tset k x t) = x.
Proof. destruct k; reflexivity. Qed.
Lemma tget_tset_other {X} k k' (x : X) t : k <> k' -> tget k' (tset k x t) = tget k' t.
Proof. destruct k, k'; cbn; congruence. Qed.

Arguments get_inst : simpl never.
Arguments sorted_pending : simpl never.
Arguments sort_cols : simpl never.
Arguments tbl : simpl never.
Arguments constraint_error : simpl never.
Arguments apply_updates : simpl never.

Section WithConfig.
Variable cfg : config.

(* the effect of syncUpdate() on an object with pending values p (fault-free step) *)
Theorem sync_update_exact s h o r s' :
  nth h (slots s) None = Some o ->
  let i := get_inst s o in
  i_cv i = true -> i_pending i <> [] ->
  step cfg s (OSyncUpdate h) = (r, s') ->
  (* exactly one statement: the UPDATE of the pending columns of that row *)
  log s' = [SUpdate (i_k i) (i_id i) (sort_cols (map fst (sorted_pending (i_pending i))))] /\
  match r with
  | Ret _ =>
      (* the row now carries the pending values, nothing else in the database moved *)
      t_rows (tbl s' (i_k i)) =
        match assoc (i_id i) (t_rows (tbl s (i_k i))) with
        | Some row => assoc_set (i_id i) (apply_updates (sorted_pending (i_pending i)) row) (t_rows (tbl s (i_k i)))
        | None => t_rows (tbl s (i_k i))
        end /\
      (forall k', k' <> i_k i -> tbl s' k' = tbl s k') /\
      (* and the object is clean *)
      i_pending (get_inst s' o) = [] /\ i_dirty (get_inst s' o) = false /\
      i_vals (get_inst s' o) = i_vals i
  | Raise _ =>
      (* the database refused: nothing written, the values stay pending *)
      tables s' = tables s /\ heap s' = heap s
  end.
Proof.
  intros Hh i Hcv Hp H. subst i. set (i := get_inst s o) in *.
  unfold step in H. cbn [run_op] in H.
  unfold bind, handle, gets in H. cbn in H. rewrite Hh in H. cbn in H.
  unfold so_sync_update, bind, gets in H. cbn in H. change (get_inst (with_fault (with_log s []) None) o) with i in H. rewrite Hcv in H. cbn in H.
  destruct (i_pending i) as [|p0 ps] eqn:Ep; [congruence|].
  unfold db_update, bind, statement, gets in H. cbn in H.
  unfold tbl in *. cbn [tables with_log with_fault] in H.
  destruct (assoc (i_id i) (t_rows (tget (i_k i) (tables s)))) as [row|] eqn:Erow.
  - destruct (constraint_error _ _ _ _) eqn:Ec.
    + inversion H; subst. cbn. repeat split.
    + cbn in H. inversion H; subst. cbn. split; [reflexivity|].
      rewrite tget_tset_same. cbn. split; [reflexivity|]. split.
      { intros k' Hk. rewrite tget_tset_other by congruence. reflexivity. }
      unfold get_inst. cbn.
      assert (Hlt : (o < length (heap s))%nat \/ (length (heap s) <= o)%nat) by lia.
      destruct Hlt as [Hlt|Hge].
      * rewrite nth_set_nth_same by exact Hlt. cbn. repeat split.
      * (* the handle points outside the heap: the default instance has nothing pending *)
        assert (Hd : nth o (heap s) (blank_inst Eager 0) = blank_inst Eager 0) by (apply nth_overflow; lia).
        unfold i, get_inst in Ep. rewrite Hd in Ep. discriminate.
  - cbn in H. inversion H; subst. cbn. split; [reflexivity|]. split; [reflexivity|]. split; [reflexivity|].
    unfold get_inst. cbn.
    assert (Hlt : (o < length (heap s))%nat \/ (length (heap s) <= o)%nat) by lia.
    destruct Hlt as [Hlt|Hge].
    * rewrite nth_set_nth_same by exact Hlt. cbn. repeat split.
    * assert (Hd : nth o (heap s) (blank_inst Eager 0) = blank_inst Eager 0) by (apply nth_overflow; lia).
      unfold i, get_inst in Ep. rewrite Hd in Ep. discriminate.
Qed.

(* the pending set always carries the latest assignment of each column *)
Lemma setattr_pending_latest c (v : val) p : nassoc c (nassoc_set c v p) = Some v.
Proof. apply nassoc_set_same. Qed.
Lemma setattr_pending_others c c' (v : val) p : c <> c' -> nassoc c' (nassoc_set c v p) = nassoc c' p.
Proof.
  intros H. induction p as [|[k x] r IH]; cbn.
  - destruct (Nat.eqb c c') eqn:E; [apply Nat.eqb_eq in E; congruence|reflexivity].
  - destruct (Nat.eqb k c) eqn:E; cbn.
    + apply Nat.eqb_eq in E. subst k. destruct (Nat.eqb c c') eqn:E2; [apply Nat.eqb_eq in E2; congruence|reflexivity].
    + destruct (Nat.eqb k c'); auto.
Qed.

(* a lazy assignment shows the value at once, queues it, and sends nothing *)
Theorem lazy_setattr_effect s h o c v r s' :
  nth h (slots s) None = Some o -> (o < length (heap s))%nat ->
  is_lazy (i_k (get_inst s o)) = true -> v <> VBad -> (c < length (i_vals (get_inst s o)))%nat ->
  step cfg s (OSetAttr h c v) = (r, s') ->
  r = Ret RNone /\ log s' = [] /\ tables s' = tables s /\
  nth c (i_vals (get_inst s' o)) None = Some v /\
  nassoc c (i_pending (get_inst s' o)) = Some v /\ i_dirty (get_inst s' o) = true.
Proof.
  intros Hh Hlt Hl Hv Hc H. unfold step in H. cbn [run_op] in H.
  unfold bind, handle, gets in H. cbn in H. rewrite Hh in H. cbn in H.
  unfold so_setattr, bind, gets in H. cbn in H.
  change (get_inst (with_fault (with_log s []) None) o) with (get_inst s o) in H.
  destruct v; try congruence; cbn in H; rewrite Hl in H; cbn in H; inversion H; subst; cbn;
    (split; [reflexivity|]); (split; [reflexivity|]); (split; [reflexivity|]);
    unfold get_inst in *; cbn; rewrite nth_set_nth_same by exact Hlt; cbn;
    (split; [now apply nth_set_nth_same|split; [apply nassoc_set_same|reflexivity]]).
Qed.

End WithConfig.
