(* C02, string literals: characterisation of the GENERATED string converter
   (Gen/Lit.v) by a clean one-pass escaper, and the round-trip lemmas against
   the reference lexers of Lib/Lex.v. *)
From Coq Require Import List NArith Bool Lia.
From Lib Require Import Str Lex.
From Gen Require Import Lit.
From Model Require Import Lit.
Import ListNotations.
Open Scope N_scope.

Ltac case_ch c n := destruct (N.eqb_spec c n) as [->|?].
Ltac rw_ne := repeat match goal with H : (_ =? _) = false |- _ => rewrite H end.
Ltac neqb :=
  repeat match goal with
         | H : ?a <> ?b |- _ => apply N.eqb_neq in H
         end.

(* ---------------------------------------------------------------- clean escapers *)
Definition esc_bs_char (c : ch) : str :=
  if c =? 39 then [39; 39]
  else if c =? 92 then [92; 92]
  else if c =? 0 then [92; 48]
  else if c =? 8 then [92; 98]
  else if c =? 10 then [92; 110]
  else if c =? 13 then [92; 114]
  else if c =? 9 then [92; 116]
  else [c].
Definition esc_bs (s : str) : str := flat_map esc_bs_char s.
Definition esc_ansi_char (c : ch) : str := if c =? 39 then [39; 39] else [c].
Definition esc_ansi (s : str) : str := flat_map esc_ansi_char s.

Definition bs_dialect (d : dialect) : bool := match d with Mysql | Postgres => true | _ => false end.
Definition clean_body (d : dialect) (s : str) : str := if bs_dialect d then esc_bs s else esc_ansi s.
Definition quoted (d : dialect) (b : str) : str :=
  if dialect_eqb d Postgres && contains 92 b then [69; 39] ++ b ++ [39] else [39] ++ b ++ [39].
Definition clean_string (d : dialect) (s : str) : str := quoted d (clean_body d s).

(* ---------------------------------------------------------------- sequential replaces = one pass *)
Lemma replace1_flat_map c r (g : ch -> str) s :
  replace1 c r (flat_map g s) = flat_map (fun x => replace1 c r (g x)) s.
Proof.
  unfold replace1. induction s as [|x s IH]; [reflexivity|].
  cbn [flat_map]. rewrite flat_map_app. f_equal. exact IH.
Qed.

Lemma apply_table_flat_map tbl : forall (g : ch -> str) s,
  apply_table tbl (flat_map g s) = flat_map (fun x => apply_table tbl (g x)) s.
Proof.
  unfold apply_table. induction tbl as [|[c r] tbl IH]; intros g s; cbn [fold_left fst snd].
  - reflexivity.
  - rewrite replace1_flat_map. now rewrite IH.
Qed.

Lemma flat_map_single (s : str) : flat_map (fun x => [x]) s = s.
Proof. induction s as [|x s IH]; [reflexivity|]. cbn. now rewrite IH. Qed.

Lemma apply_table_pointwise tbl s :
  apply_table tbl s = flat_map (fun x => apply_table tbl [x]) s.
Proof. rewrite <- (flat_map_single s) at 1. apply apply_table_flat_map. Qed.

(* THE obligation that ties the proofs to converters.sqlStringReplace: entry
   order and contents matter (e.g. the backslash entry must come before the
   entries that introduce backslashes). *)
Lemma table_char x : apply_table sqlStringReplace [x] = esc_bs_char x.
Proof.
  unfold esc_bs_char.
  case_ch x 39; [vm_compute; reflexivity|].
  case_ch x 92; [vm_compute; reflexivity|].
  case_ch x 0; [vm_compute; reflexivity|].
  case_ch x 8; [vm_compute; reflexivity|].
  case_ch x 10; [vm_compute; reflexivity|].
  case_ch x 13; [vm_compute; reflexivity|].
  case_ch x 9; [vm_compute; reflexivity|].
  neqb.
  unfold apply_table, sqlStringReplace, replace1. cbn [fold_left fst snd flat_map app].
  repeat match goal with
         | H : (x =? _) = false |- _ => rewrite H; clear H; cbn [flat_map app]
         end.
  reflexivity.
Qed.

Lemma table_is_esc_bs s : apply_table sqlStringReplace s = esc_bs s.
Proof.
  rewrite apply_table_pointwise. unfold esc_bs.
  induction s as [|x s IH]; [reflexivity|]. cbn [flat_map]. now rewrite table_char, IH.
Qed.

Lemma gen_string_char d s : gen_StringLikeConverter d s = Some (clean_string d s).
Proof.
  unfold gen_StringLikeConverter, clean_string, quoted, clean_body.
  destruct d; cbn [dialect_in existsb dialect_eqb orb andb bs_dialect];
    rewrite ?table_is_esc_bs; fold (esc_ansi s);
    try reflexivity;
    unfold replace1; fold esc_ansi_char; fold (esc_ansi s); try reflexivity;
    destruct (contains 92 (esc_bs s)); reflexivity.
Qed.

Lemma gen_quote_char d b : gen_quote_str d b = Some (quoted d b).
Proof. unfold gen_quote_str, quoted. destruct (dialect_eqb d Postgres && contains 92 b); reflexivity. Qed.

(* ---------------------------------------------------------------- facts about the escapers *)
Definition no_quote_start (rest : str) : Prop :=
  match rest with c :: _ => (c =? 39) = false | [] => True end.

Lemma consr_some c o s rest : o = Some (s, rest) -> consr c o = Some (c :: s, rest).
Proof. intros ->. reflexivity. Qed.

(* ANSI *)
Lemma nqs_eq c r : no_quote_start (c :: r) -> (c =? 39) = false.
Proof. intros H. exact H. Qed.

Lemma ansi_qq t : ansi_body (39 :: 39 :: t) = consr 39 (ansi_body t).
Proof. reflexivity. Qed.
Lemma ansi_other c t : (c =? 39) = false -> ansi_body (c :: t) = consr c (ansi_body t).
Proof. intros H. cbn [ansi_body]. change c_q with 39. now rewrite H. Qed.
Lemma ansi_end rest : no_quote_start rest -> ansi_body (39 :: rest) = Some ([], rest).
Proof.
  intros H. cbn [ansi_body]. change (39 =? c_q) with true. cbv iota.
  destruct rest as [|c r]; [reflexivity|]. change c_q with 39. now rewrite (nqs_eq c r H).
Qed.

Lemma ansi_body_ok : forall s rest,
  no_quote_start rest -> ansi_body (esc_ansi s ++ 39 :: rest) = Some (s, rest).
Proof.
  induction s as [|c s IH]; intros rest Hr.
  - now apply ansi_end.
  - unfold esc_ansi. cbn [flat_map]. fold (esc_ansi s). unfold esc_ansi_char.
    case_ch c 39.
    + change (39 =? 39) with true. cbv iota. cbn [app]. rewrite ansi_qq. now rewrite (IH rest Hr).
    + neqb. rw_ne. cbn [app]. rewrite ansi_other by assumption. now rewrite (IH rest Hr).
Qed.

Lemma esc_ansi_dialect d s : bs_dialect d = false -> clean_string d s = 39 :: esc_ansi s ++ [39].
Proof.
  intros H. unfold clean_string, clean_body, quoted. rewrite H.
  destruct d; try discriminate H; reflexivity.
Qed.

Lemma lex_ansi_roundtrip d s rest :
  bs_dialect d = false -> no_quote_start rest ->
  lex_ansi (clean_string d s ++ rest) = Some (s, rest).
Proof.
  intros Hd Hr. rewrite (esc_ansi_dialect d s Hd).
  cbn [app lex_ansi]. change (39 =? c_q) with true. cbv iota.
  rewrite <- app_assoc. cbn [app]. now apply ansi_body_ok.
Qed.

(* MySQL *)
Lemma mysql_qq t : mysql_body 39 (39 :: 39 :: t) = consr 39 (mysql_body 39 t).
Proof. reflexivity. Qed.
Lemma mysql_bs c2 t : mysql_body 39 (92 :: c2 :: t) = appr (mysql_unescape c2) (mysql_body 39 t).
Proof. reflexivity. Qed.
Lemma mysql_other c t : (c =? 39) = false -> (c =? 92) = false ->
  mysql_body 39 (c :: t) = consr c (mysql_body 39 t).
Proof. intros H1 H2. cbn [mysql_body]. change c_bsl with 92. now rewrite H1, H2. Qed.
Lemma mysql_end rest : no_quote_start rest -> mysql_body 39 (39 :: rest) = Some ([], rest).
Proof.
  intros H. cbn [mysql_body]. change (39 =? 39) with true. cbv iota.
  destruct rest as [|c r]; [reflexivity|]. now rewrite (nqs_eq c r H).
Qed.

Lemma mysql_body_ok : forall s rest,
  no_quote_start rest -> mysql_body 39 (esc_bs s ++ 39 :: rest) = Some (s, rest).
Proof.
  induction s as [|c s IH]; intros rest Hr.
  - now apply mysql_end.
  - unfold esc_bs. cbn [flat_map]. fold (esc_bs s). unfold esc_bs_char.
    case_ch c 39; [change (esc_bs s) with (esc_bs s); cbv [N.eqb Pos.eqb]; cbn [app]; rewrite mysql_qq; now rewrite (IH rest Hr)|].
    case_ch c 92; [cbv [N.eqb Pos.eqb]; cbn [app]; rewrite mysql_bs; now rewrite (IH rest Hr)|].
    case_ch c 0; [cbv [N.eqb Pos.eqb]; cbn [app]; rewrite mysql_bs; now rewrite (IH rest Hr)|].
    case_ch c 8; [cbv [N.eqb Pos.eqb]; cbn [app]; rewrite mysql_bs; now rewrite (IH rest Hr)|].
    case_ch c 10; [cbv [N.eqb Pos.eqb]; cbn [app]; rewrite mysql_bs; now rewrite (IH rest Hr)|].
    case_ch c 13; [cbv [N.eqb Pos.eqb]; cbn [app]; rewrite mysql_bs; now rewrite (IH rest Hr)|].
    case_ch c 9; [cbv [N.eqb Pos.eqb]; cbn [app]; rewrite mysql_bs; now rewrite (IH rest Hr)|].
    neqb.
    repeat match goal with H : (c =? _) = false |- _ => rewrite H end.
    cbn [app]. rewrite mysql_other by assumption.
    now rewrite (IH rest Hr).
Qed.

Lemma lex_mysql_roundtrip s rest :
  no_quote_start rest -> lex_mysql (clean_string Mysql s ++ rest) = Some (s, rest).
Proof.
  intros Hr. unfold clean_string, clean_body, quoted. cbn [bs_dialect dialect_eqb andb].
  cbn [app lex_mysql]. change (39 =? c_q) with true. cbv iota.
  rewrite <- app_assoc. cbn [app]. now apply mysql_body_ok.
Qed.

(* PostgreSQL *)
Lemma contains_app c a b : contains c (a ++ b) = contains c a || contains c b.
Proof. unfold contains. apply existsb_app. Qed.

Lemma contains_cons c x s : contains c (x :: s) = (c =? x) || contains c s.
Proof. reflexivity. Qed.

Lemma pg_qq t : pg_ebody (39 :: 39 :: t) = consr 39 (pg_ebody t).
Proof. reflexivity. Qed.
Lemma pg_bsbs t : pg_ebody (92 :: 92 :: t) = consr 92 (pg_ebody t).
Proof. reflexivity. Qed.
Lemma pg_b t : pg_ebody (92 :: 98 :: t) = consr 8 (pg_ebody t).
Proof. reflexivity. Qed.
Lemma pg_n t : pg_ebody (92 :: 110 :: t) = consr 10 (pg_ebody t).
Proof. reflexivity. Qed.
Lemma pg_r t : pg_ebody (92 :: 114 :: t) = consr 13 (pg_ebody t).
Proof. reflexivity. Qed.
Lemma pg_t t : pg_ebody (92 :: 116 :: t) = consr 9 (pg_ebody t).
Proof. reflexivity. Qed.
Lemma pg_other c t : (c =? 39) = false -> (c =? 92) = false ->
  pg_ebody (c :: t) = consr c (pg_ebody t).
Proof. intros H1 H2. cbn [pg_ebody]. change c_bsl with 92. change c_q with 39. now rewrite H1, H2. Qed.
Lemma pg_end rest : no_quote_start rest -> pg_ebody (39 :: rest) = Some ([], rest).
Proof.
  intros H. cbn [pg_ebody]. change (39 =? c_q) with true. cbv iota.
  destruct rest as [|c r]; [reflexivity|]. change c_q with 39. now rewrite (nqs_eq c r H).
Qed.

Lemma pg_ebody_ok : forall s rest,
  contains 0 s = false -> no_quote_start rest ->
  pg_ebody (esc_bs s ++ 39 :: rest) = Some (s, rest).
Proof.
  induction s as [|c s IH]; intros rest Hn Hr.
  - now apply pg_end.
  - rewrite contains_cons in Hn. apply orb_false_iff in Hn. destruct Hn as [Hc Hn].
    unfold esc_bs. cbn [flat_map]. fold (esc_bs s). unfold esc_bs_char.
    case_ch c 39; [cbv [N.eqb Pos.eqb]; cbn [app]; rewrite pg_qq; now rewrite (IH rest Hn Hr)|].
    case_ch c 92; [cbv [N.eqb Pos.eqb]; cbn [app]; rewrite pg_bsbs; now rewrite (IH rest Hn Hr)|].
    case_ch c 0; [discriminate Hc|].
    case_ch c 8; [cbv [N.eqb Pos.eqb]; cbn [app]; rewrite pg_b; now rewrite (IH rest Hn Hr)|].
    case_ch c 10; [cbv [N.eqb Pos.eqb]; cbn [app]; rewrite pg_n; now rewrite (IH rest Hn Hr)|].
    case_ch c 13; [cbv [N.eqb Pos.eqb]; cbn [app]; rewrite pg_r; now rewrite (IH rest Hn Hr)|].
    case_ch c 9; [cbv [N.eqb Pos.eqb]; cbn [app]; rewrite pg_t; now rewrite (IH rest Hn Hr)|].
    neqb.
    repeat match goal with H : (c =? _) = false |- _ => rewrite H end.
    cbn [app]. rewrite pg_other by assumption.
    now rewrite (IH rest Hn Hr).
Qed.

(* without any backslash in the escaped body the body is ANSI-escaped *)
Lemma esc_bs_no_backslash : forall s, contains 92 (esc_bs s) = false -> esc_bs s = esc_ansi s.
Proof.
  induction s as [|c s IH]; [reflexivity|].
  unfold esc_bs, esc_ansi. cbn [flat_map]. fold (esc_bs s). fold (esc_ansi s).
  rewrite contains_app. intros H. apply orb_false_iff in H. destruct H as [H1 H2].
  rewrite (IH H2). f_equal.
  unfold esc_bs_char, esc_ansi_char in *.
  case_ch c 39; [reflexivity|].
  case_ch c 92; [discriminate H1|].
  case_ch c 0; [discriminate H1|].
  case_ch c 8; [discriminate H1|].
  case_ch c 10; [discriminate H1|].
  case_ch c 13; [discriminate H1|].
  case_ch c 9; [discriminate H1|].
  neqb. repeat match goal with H : (c =? _) = false |- _ => rewrite H end. reflexivity.
Qed.

Lemma lex_pg_roundtrip s rest :
  contains 0 s = false -> no_quote_start rest ->
  lex_pg (clean_string Postgres s ++ rest) = Some (s, rest).
Proof.
  intros Hn Hr. unfold clean_string, clean_body, quoted. cbn [bs_dialect dialect_eqb andb].
  destruct (contains 92 (esc_bs s)) eqn:E.
  - cbn [app lex_pg]. change (69 =? c_q) with false. change (69 =? c_E) with true. cbn [orb].
    cbv iota. change (39 =? c_q) with true. cbv iota.
    rewrite <- app_assoc. cbn [app].
    match goal with |- reject_nul ?x = _ => replace x with (Some (s, rest)) by (symmetry; now apply pg_ebody_ok) end.
    unfold reject_nul. change c_nul with 0. now rewrite Hn.
  - cbn [app lex_pg]. change (39 =? c_q) with true. cbv iota.
    rewrite <- app_assoc. cbn [app]. rewrite (esc_bs_no_backslash s E).
    match goal with |- reject_nul ?x = _ => replace x with (Some (s, rest)) by (symmetry; now apply ansi_body_ok) end. unfold reject_nul. change c_nul with 0. now rewrite Hn.
Qed.

(* Transact-SQL: ANSI plus line continuation *)
Lemma tsql_qq t : tsql_body (39 :: 39 :: t) = consr 39 (tsql_body t).
Proof. reflexivity. Qed.
Lemma tsql_other c t : (c =? 39) = false -> (c =? 92) = false ->
  tsql_body (c :: t) = consr c (tsql_body t).
Proof. intros H1 H2. cbn [tsql_body]. change c_bsl with 92. change c_q with 39. now rewrite H1, H2. Qed.
Lemma tsql_end rest : no_quote_start rest -> tsql_body (39 :: rest) = Some ([], rest).
Proof.
  intros H. cbn [tsql_body]. change (39 =? c_q) with true. cbv iota.
  destruct rest as [|c r]; [reflexivity|]. change c_q with 39. now rewrite (nqs_eq c r H).
Qed.
(* a backslash that does not start a continuation is an ordinary character *)
Definition cont_start (t : str) : bool :=
  match t with
  | c2 :: r2 => (c2 =? c_lf) || ((c2 =? c_cr) && match r2 with c3 :: _ => c3 =? c_lf | [] => false end)
  | [] => false
  end.
Lemma tsql_bs t : t <> [] -> cont_start t = false -> tsql_body (92 :: t) = consr 92 (tsql_body t).
Proof.
  intros Hne H. destruct t as [|c2 r2]; [congruence|].
  cbn [tsql_body]. change (92 =? c_q) with false. change (92 =? c_bsl) with true. cbv iota.
  cbn [cont_start] in H. apply orb_false_iff in H. destruct H as [H1 H2]. rewrite H1.
  destruct (c2 =? c_cr); [|reflexivity].
  cbn [andb] in H2. destruct r2 as [|c3 r3]; [reflexivity|]. now rewrite H2.
Qed.

(* the first characters of an escaped string followed by the closing quote
   start a continuation only if the string's own first characters do *)
Lemma cont_start_esc s rest :
  cont_start (esc_ansi s ++ 39 :: rest) = cont_start s.
Proof.
  destruct s as [|c2 s2]; [reflexivity|].
  unfold esc_ansi. cbn [flat_map]. fold (esc_ansi s2). unfold esc_ansi_char.
  case_ch c2 39; [reflexivity|]. neqb. rw_ne. cbn [app cont_start].
  f_equal. f_equal.
  destruct s2 as [|c3 s3]; [reflexivity|].
  unfold esc_ansi. cbn [flat_map]. unfold esc_ansi_char.
  case_ch c3 39; [reflexivity|]. neqb. rw_ne. reflexivity.
Qed.

Lemma has_continuation_cons c s :
  has_continuation (c :: s) = ((c =? c_bsl) && cont_start s) || has_continuation s.
Proof. reflexivity. Qed.

Lemma tsql_body_ok : forall s rest,
  has_continuation s = false -> no_quote_start rest ->
  tsql_body (esc_ansi s ++ 39 :: rest) = Some (s, rest).
Proof.
  induction s as [|c s IH]; intros rest Hc Hr.
  - now apply tsql_end.
  - rewrite has_continuation_cons in Hc. apply orb_false_iff in Hc. destruct Hc as [Hc1 Hc].
    specialize (IH rest Hc Hr).
    unfold esc_ansi. cbn [flat_map]. fold (esc_ansi s). unfold esc_ansi_char.
    case_ch c 39; [change (39 =? 39) with true; cbv iota; cbn [app]; rewrite tsql_qq; now rewrite IH|].
    neqb. rw_ne. cbn [app].
    case_ch c 92.
    + change (92 =? c_bsl) with true in Hc1. cbn [andb] in Hc1.
      rewrite tsql_bs; [now rewrite IH| |now rewrite cont_start_esc].
      destruct (esc_ansi s); discriminate.
    + neqb. rewrite tsql_other by assumption. now rewrite IH.
Qed.

Lemma lex_tsql_roundtrip d s rest :
  bs_dialect d = false -> has_continuation s = false -> no_quote_start rest ->
  lex_tsql (clean_string d s ++ rest) = Some (s, rest).
Proof.
  intros Hd Hc Hr. rewrite (esc_ansi_dialect d s Hd).
  cbn [app lex_tsql]. change (39 =? c_q) with true. cbv iota.
  rewrite <- app_assoc. cbn [app]. now apply tsql_body_ok.
Qed.

(* ---------------------------------------------------------------- the per-dialect statement *)
Lemma str_ok_pg s : str_ok Postgres s = true -> contains 0 s = false.
Proof. unfold str_ok. change c_nul with 0. now destruct (contains 0 s). Qed.

Lemma lex_lit_roundtrip d s rest :
  str_ok d s = true -> no_quote_start rest ->
  lex_lit d (clean_string d s ++ rest) = Some (s, rest).
Proof.
  intros Hok Hr. destruct d; cbn [lex_lit].
  - now apply lex_ansi_roundtrip.
  - now apply lex_mysql_roundtrip.
  - apply lex_pg_roundtrip; [now apply str_ok_pg|assumption].
  - now apply lex_ansi_roundtrip.
  - apply lex_tsql_roundtrip; try reflexivity; try assumption.
    unfold str_ok in Hok. now destruct (has_continuation s).
  - now apply lex_ansi_roundtrip.
  - apply lex_tsql_roundtrip; try reflexivity; try assumption.
    unfold str_ok in Hok. now destruct (has_continuation s).
Qed.

(* the sqlite driver sees a NUL in the statement exactly when the string has one *)
Lemma contains_esc_ansi c s : c <> 39 -> contains c (esc_ansi s) = contains c s.
Proof.
  intros Hc. induction s as [|x s IH]; [reflexivity|].
  unfold esc_ansi. cbn [flat_map]. fold (esc_ansi s). rewrite contains_app, contains_cons, IH.
  f_equal. unfold esc_ansi_char. case_ch x 39.
  - apply N.eqb_neq in Hc. cbn. rewrite Hc. reflexivity.
  - cbn. now rewrite orb_false_r.
Qed.

Lemma sqlite_accepts_string s :
  sqlite_accepts (clean_string Sqlite s) = negb (contains 0 s).
Proof.
  unfold sqlite_accepts, clean_string, clean_body, quoted. cbn [bs_dialect dialect_eqb andb app].
  change c_nul with 0. rewrite contains_cons, contains_app, contains_esc_ansi by discriminate.
  cbn. now rewrite orb_false_r.
Qed.
