(* Statements (as Props) of the C04 theorems about the access paths of
   Model/OrmPaths.v: a foreign-key attribute and a MultipleJoin accessor reach
   rows through SQLObject.get, so they hand back the very objects the
   application holds.  Proofs live in Proofs/OrmPaths*.v. *)
From Coq Require Import List ZArith Bool.
From Model Require Import Orm OrmPaths.
From Proofs Require Import OrmSpec.
Import ListNotations.
Open Scope Z_scope.

(* histories of C04 with access paths: the base guard, any foreign-key traversal and join accessor; no injected faults *)
Definition pguard04 (o : pop) : bool :=
  match o with
  | PBase o => guard04 o
  | PPath _ => true
  | PFaultPath _ _ => false
  end.

Definition pno_unpickle (o : pop) : bool :=
  match o with PBase (OUnpickle _) => false | _ => true end.

(* one live instance per row, in every state a history with access paths reaches *)
Definition C04_paths_unique_stmt : Prop :=
  forall cfg pops o1 o2 k id,
    forallb pguard04 pops = true ->
    let s := prun cfg pops in
    held s o1 -> held s o2 -> current s o1 -> current s o2 ->
    is_row s o1 k id -> is_row s o2 k id ->
    assoc id (t_rows (tbl s k)) <> None ->
    o1 = o2.

(* get by id still hands back the held object when the history used access paths *)
Definition C04_paths_get_returns_held_stmt : Prop :=
  forall cfg pops o k id id' tok s',
    forallb pguard04 pops = true ->
    let s := prun cfg pops in
    held s o -> current s o -> is_row s o k id ->
    assoc id (t_rows (tbl s k)) <> None ->
    pstep cfg s (PBase (OGet k id)) = (Ret (RObj id' tok), s') ->
    id' = id /\ tok = slot_of s o /\ tok <> None.

(* following a foreign key hands back the very object the application holds for the referenced row *)
Definition C04_fk_returns_held_stmt : Prop :=
  forall cfg pops h k' o id' tok s',
    forallb pguard04 pops = true ->
    let s := prun cfg pops in
    held s o -> current s o -> is_row s o k' id' ->
    assoc id' (t_rows (tbl s k')) <> None ->
    pstep cfg s (PPath (PFk h k')) = (Ret (RObj id' tok), s') ->
    tok = slot_of s o /\ tok <> None.

(* a join accessor hands back the held object for every row it yields, however often the cache culled itself meanwhile *)
Definition C04_join_returns_held_stmt : Prop :=
  forall cfg pops h k' keep o id res tok s',
    forallb pguard04 pops = true ->
    let s := prun cfg pops in
    held s o -> current s o -> is_row s o k' id ->
    pstep cfg s (PPath (PJoin h k' keep)) = (Ret (RObjs res), s') ->
    In (id, tok) res -> tok = slot_of s o /\ tok <> None.

(* a unique-index lookup (Cls.<index>.get(value) = selectBy(...).getOne()) hands back the very object the application
   holds for the row it finds *)
Definition C04_index_returns_held_stmt : Prop :=
  forall cfg pops k u o id' tok s',
    forallb pguard04 pops = true ->
    let s := prun cfg pops in
    held s o -> current s o -> is_row s o k id' ->
    pstep cfg s (PPath (PIndex k u)) = (Ret (RObj id' tok), s') ->
    tok = slot_of s o /\ tok <> None.

(* ... it finds THE row whose indexed column holds the key: exactly one row matches, it is the row returned, and it exists
   afterwards (a deleted row is never handed out, unpickling in the history or not) *)
Definition C04_index_yields_row_stmt : Prop :=
  forall cfg pops k u id' tok s',
    forallb pguard04 pops = true ->
    let s := prun cfg pops in
    pstep cfg s (PPath (PIndex k u)) = (Ret (RObj id' tok), s') ->
    (exists r, index_rows s k u = [(id', r)] /\ assoc id' (t_rows (tbl s' k)) = Some r) /\ tables s' = tables s.

(* ... and when no row holds the key it raises not-found and builds nothing *)
Definition C04_index_absent_stmt : Prop :=
  forall cfg pops k u,
    forallb pguard04 pops = true ->
    let s := prun cfg pops in
    index_rows s k u = [] ->
    fst (pstep cfg s (PPath (PIndex k u))) = Raise ENotFound /\
    heap (snd (pstep cfg s (PPath (PIndex k u)))) = heap s /\ caches (snd (pstep cfg s (PPath (PIndex k u)))) = caches s.

(* with no unpickling in the history, a foreign key never leads to an instance of a deleted row (it raises not-found) *)
Definition C04_fk_deleted_not_returned_stmt : Prop :=
  forall cfg pops h k' id' tok s',
    forallb pguard04 pops = true -> forallb pno_unpickle pops = true ->
    let s := prun cfg pops in
    pstep cfg s (PPath (PFk h k')) = (Ret (RObj id' tok), s') ->
    assoc id' (t_rows (tbl s' k')) <> None.

(* a join accessor yields exactly the referencing rows, in id order (what the accessor is FOR; the content of joins is C13's) *)
Definition C04_join_yields_referencing_rows_stmt : Prop :=
  forall cfg pops h k' keep o res s',
    forallb pguard04 pops = true ->
    let s := prun cfg pops in
    nth h (slots s) None = Some o ->
    pstep cfg s (PPath (PJoin h k' keep)) = (Ret (RObjs res), s') ->
    map fst res = join_ids s k' (i_id (get_inst s o)).

(* whatever the history, a destroyed instance is never registered in the cache *)
Definition C04_paths_cached_is_current_stmt : Prop :=
  forall cfg pops k id o,
    forallb pguard04 pops = true ->
    let s := prun cfg pops in
    (In (id, o) (c_strong (cch s k)) \/ In (id, o) (c_weak (cch s k))) ->
    i_obsolete (get_inst s o) = false.

(* ---------------------------------------------------------------- histories with injected database errors *)
(* pguard04, also allowing a fault injected into any allowed base operation and into any access path *)
Definition pguard04f (o : pop) : bool :=
  match o with
  | PBase o => guard04f o
  | PPath _ => true
  | PFaultPath _ _ => true
  end.
Definition pno_unpickle_f (o : pop) : bool :=
  match o with PBase o => no_unpickle_f o | _ => true end.

Definition C04_paths_unique_faults_stmt : Prop :=
  forall cfg pops o1 o2 k id,
    forallb pguard04f pops = true ->
    let s := prun cfg pops in
    held s o1 -> held s o2 -> current s o1 -> current s o2 ->
    is_row s o1 k id -> is_row s o2 k id ->
    assoc id (t_rows (tbl s k)) <> None ->
    o1 = o2.

Definition C04_paths_get_returns_held_faults_stmt : Prop :=
  forall cfg pops o k id id' tok s',
    forallb pguard04f pops = true ->
    let s := prun cfg pops in
    held s o -> current s o -> is_row s o k id ->
    assoc id (t_rows (tbl s k)) <> None ->
    pstep cfg s (PBase (OGet k id)) = (Ret (RObj id' tok), s') ->
    id' = id /\ tok = slot_of s o /\ tok <> None.

Definition C04_fk_returns_held_faults_stmt : Prop :=
  forall cfg pops h k' o id' tok s',
    forallb pguard04f pops = true ->
    let s := prun cfg pops in
    held s o -> current s o -> is_row s o k' id' ->
    assoc id' (t_rows (tbl s k')) <> None ->
    pstep cfg s (PPath (PFk h k')) = (Ret (RObj id' tok), s') ->
    tok = slot_of s o /\ tok <> None.

Definition C04_join_returns_held_faults_stmt : Prop :=
  forall cfg pops h k' keep o id res tok s',
    forallb pguard04f pops = true ->
    let s := prun cfg pops in
    held s o -> current s o -> is_row s o k' id ->
    pstep cfg s (PPath (PJoin h k' keep)) = (Ret (RObjs res), s') ->
    In (id, tok) res -> tok = slot_of s o /\ tok <> None.

Definition C04_index_returns_held_faults_stmt : Prop :=
  forall cfg pops k u o id' tok s',
    forallb pguard04f pops = true ->
    let s := prun cfg pops in
    held s o -> current s o -> is_row s o k id' ->
    pstep cfg s (PPath (PIndex k u)) = (Ret (RObj id' tok), s') ->
    tok = slot_of s o /\ tok <> None.

Definition C04_fk_deleted_not_returned_faults_stmt : Prop :=
  forall cfg pops h k' id' tok s',
    forallb pguard04f pops = true -> forallb pno_unpickle_f pops = true ->
    let s := prun cfg pops in
    pstep cfg s (PPath (PFk h k')) = (Ret (RObj id' tok), s') ->
    assoc id' (t_rows (tbl s' k')) <> None.

Definition C04_paths_cached_is_current_faults_stmt : Prop :=
  forall cfg pops k id o,
    forallb pguard04f pops = true ->
    let s := prun cfg pops in
    (In (id, o) (c_strong (cch s k)) \/ In (id, o) (c_weak (cch s k))) ->
    i_obsolete (get_inst s o) = false.

Definition C06_paths_no_unregistered_rows_stmt : Prop :=
  forall cfg pops k id o,
    forallb pguard04f pops = true -> forallb pno_unpickle_f pops = true ->
    let s := prun cfg pops in
    (In (id, o) (c_strong (cch s k)) \/ In (id, o) (c_weak (cch s k))) ->
    i_obsolete (get_inst s o) = false /\ assoc id (t_rows (tbl s k)) <> None.
