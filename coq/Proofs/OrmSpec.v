(* Statements (as Props) of the invariant theorems about Model/Orm.v that serve
   C04, C05, C06 and C16.  Proofs live in Proofs/OrmInv*.v. *)
From Coq Require Import List ZArith Bool.
From Model Require Import Orm.
Import ListNotations.
Open Scope Z_scope.

Definition run (cfg : config) (ops : list op) : st := fold_left (fun s o => snd (step cfg s o)) ops init.

Definition held (s : st) (o : nat) : Prop := In (Some o) (slots s).
Definition current (s : st) (o : nat) : Prop := i_obsolete (get_inst s o) = false.
Definition is_row (s : st) (o : nat) (k : kind) (id : Z) : Prop :=
  i_k (get_inst s o) = k /\ i_id (get_inst s o) = id.

(* histories of C04: everything except the operations behind the open findings
   (expire purges the identity map), cache.clear() (documented to allow duplicates),
   out-of-band SQL and injected faults *)
Definition guard04 (o : op) : bool :=
  match o with
  | OExpire _ | OExpireAll _ | OClear | ORawUpdate _ _ _ _ | ORawDelete _ _ | OFault _ _ => false
  | _ => true
  end.

(* histories of C05: additionally no pickling (an unpickled object carries the values it was pickled with) *)
Definition guard05 (o : op) : bool :=
  match o with
  | OPickle _ | OUnpickle _ => false
  | _ => guard04 o
  end.

(* ---------------------------------------------------------------- C04 *)
(* one live instance per row: two objects the application holds for the same row are the same object *)
Definition C04_unique_stmt : Prop :=
  forall cfg ops o1 o2 k id,
    forallb guard04 ops = true ->
    let s := run cfg ops in
    held s o1 -> held s o2 -> current s o1 -> current s o2 ->
    is_row s o1 k id -> is_row s o2 k id -> o1 = o2.

(* get by id hands back the held object *)
Definition C04_get_returns_held_stmt : Prop :=
  forall cfg ops o k id id' tok s',
    forallb guard04 ops = true ->
    let s := run cfg ops in
    held s o -> current s o -> is_row s o k id ->
    step cfg s (OGet k id) = (Ret (RObj id' tok), s') ->
    id' = id /\ tok = slot_of s o /\ tok <> None.

(* alternate-id lookup hands back the held object *)
Definition C04_byalt_returns_held_stmt : Prop :=
  forall cfg ops o k u id' tok s',
    forallb guard04 ops = true ->
    let s := run cfg ops in
    held s o -> current s o -> i_k (get_inst s o) = k -> i_id (get_inst s o) = id' ->
    step cfg s (OByAlt k u) = (Ret (RObj id' tok), s') ->
    tok = slot_of s o /\ tok <> None.

(* iteration over a select hands back the held object for every row it yields *)
Definition C04_select_returns_held_stmt : Prop :=
  forall cfg ops o k flt keep res id tok s',
    forallb guard04 ops = true ->
    let s := run cfg ops in
    held s o -> current s o -> is_row s o k id ->
    step cfg s (OSelect k flt keep) = (Ret (RObjs res), s') ->
    In (id, tok) res -> tok = slot_of s o /\ tok <> None.

(* unpickling never creates a second live instance *)
Definition C04_unpickle_no_duplicate_stmt : Prop :=
  forall cfg ops o p pk,
    forallb guard04 ops = true ->
    let s := run cfg ops in
    held s o -> current s o -> nth_error (pickles s) p = Some pk -> is_row s o (p_k pk) (p_id pk) ->
    exists s', step cfg s (OUnpickle p) = (Raise EValue, s').

(* with strong caching on, get/lookup/select never hand out an instance of a deleted row *)
Definition C04_deleted_not_returned_stmt : Prop :=
  forall cfg ops k id id' tok s',
    forallb guard04 ops = true -> doCache cfg = true ->
    let s := run cfg ops in
    step cfg s (OGet k id) = (Ret (RObj id' tok), s') ->
    assoc id (t_rows (tbl s' k)) <> None.

(* ---------------------------------------------------------------- C05 *)
(* what column c of instance i must show: the pending value of a lazy object, else the stored row's *)
Definition shows_row (s : st) (o : nat) : Prop :=
  let i := get_inst s o in
  forall c v, nth c (i_vals i) None = Some v ->
    match nassoc c (i_pending i) with
    | Some p => v = p
    | None => exists r, assoc (i_id i) (t_rows (tbl s (i_k i))) = Some r /\ nth c r VNull = v
    end.

Definition C05_coherent_stmt : Prop :=
  forall cfg ops o,
    forallb guard05 ops = true ->
    let s := run cfg ops in
    held s o -> current s o -> shows_row s o.

(* an explicit read returns the stored value (or the pending one) *)
Definition C05_read_stmt : Prop :=
  forall cfg ops h o c r s',
    forallb guard05 ops = true -> (c < 3)%nat ->
    let s := run cfg ops in
    nth h (slots s) None = Some o -> current s o ->
    step cfg s (ORead h c) = (r, s') ->
    let i := get_inst s o in
    r = Ret (RVal (match nassoc c (i_pending i) with
                   | Some p => p
                   | None => match assoc (i_id i) (t_rows (tbl s (i_k i))) with
                             | Some row => nth c row VNull
                             | None => VNull
                             end
                   end)).

(* after any (also out-of-band) change, sync() shows the stored row or raises not-found -- on ANY state *)
Definition C05_sync_refreshes_stmt : Prop :=
  forall cfg s h o r s',
    nth h (slots s) None = Some o -> (o < length (heap s))%nat ->
    i_pending (get_inst s o) = [] ->
    step cfg s (OSync h) = (r, s') ->
    match assoc (i_id (get_inst s o)) (t_rows (tbl s (i_k (get_inst s o)))) with
    | Some row => r = Ret RNone /\ i_vals (get_inst s' o) = map Some row
    | None => r = Raise ENotFound
    end.

(* ... and after expire() a read shows the stored row or raises not-found (cacheValues classes) -- on ANY state *)
Definition C05_expire_then_read_stmt : Prop :=
  forall cfg s h o c r1 s1 r2 s2,
    nth h (slots s) None = Some o -> (o < length (heap s))%nat -> (c < 3)%nat ->
    cache_values (i_k (get_inst s o)) = true ->
    (exists a b d, i_vals (get_inst s o) = [Some a; Some b; Some d]) ->
    i_expired (get_inst s o) = false ->
    step cfg s (OExpire h) = (r1, s1) -> step cfg s1 (ORead h c) = (r2, s2) ->
    r1 = Ret RNone /\
    match assoc (i_id (get_inst s o)) (t_rows (tbl s (i_k (get_inst s o)))) with
    | Some row => r2 = Ret (RVal (nth c row VNull))
    | None => r2 = Raise ENotFound
    end.

(* ---------------------------------------------------------------- C06 (create) *)
(* a create that raises leaves heap, tables, caches and pickles alone (and its slot empty) ... *)
Definition C06_create_atomic_stmt : Prop :=
  forall cfg ops k kvs e s',
    forallb guard04 ops = true ->
    let s := run cfg ops in
    step cfg s (OCreate k kvs) = (Raise e, s') ->
    heap s' = heap s /\ tables s' = tables s /\ caches s' = caches s /\ pickles s' = pickles s /\
    slots s' = slots s ++ [None].

(* ... also when a database error is injected at the INSERT (statement 0) or past the end (n >= 2) *)
Definition C06_create_fault_atomic_stmt : Prop :=
  forall cfg ops k kvs n e s',
    forallb guard04 ops = true -> n <> 1%nat ->
    let s := run cfg ops in
    step cfg s (OFault n (OCreate k kvs)) = (Raise e, s') ->
    heap s' = heap s /\ tables s' = tables s /\ caches s' = caches s /\ pickles s' = pickles s /\
    slots s' = slots s ++ [None].

(* ---------------------------------------------------------------- C16 (immediate insert / delete) *)
Definition C16_insert_immediate_stmt : Prop :=
  forall cfg s kvs id tok s',
    step cfg s (OCreate Lazy kvs) = (Ret (RObj id tok), s') ->
    In (SInsert Lazy (sort_cols (map fst (sorted_pending
         match fill_defaults all_cols (as_dict kvs) with Some kw => kw | None => [] end)))) (log s') /\
    t_rows (tbl s' Lazy) <> t_rows (tbl s Lazy) /\
    exists r, In (id, r) (t_rows (tbl s' Lazy)).

Definition C16_delete_immediate_stmt : Prop :=
  forall cfg s h o s',
    nth h (slots s) None = Some o -> i_k (get_inst s o) = Lazy ->
    step cfg s (ODestroy h) = (Ret RNone, s') ->
    log s' = [SDelete Lazy (i_id (get_inst s o))] /\
    assoc (i_id (get_inst s o)) (t_rows (tbl s' Lazy)) = None.

(* ---------------------------------------------------------------- C16 (a lazy object keeps showing its unwritten assignments) *)
(* every pending value is what the attribute shows, unless the attribute is absent (expired, to be reloaded) *)
Definition pending_shown (i : inst) : Prop :=
  forall c v, nassoc c (i_pending i) = Some v -> nth c (i_vals i) None = Some v \/ nth c (i_vals i) None = None.

(* the histories of C16_pending_shown: EVERY operation of the harness (expire, expireAll, clear, pickling,
   out-of-band SQL and injected faults included) *)
Definition guard16 (o : op) : bool := true.

Definition C16_pending_shown_stmt : Prop :=
  forall cfg ops o,
    forallb guard16 ops = true ->
    let s := run cfg ops in
    held s o -> cache_values (i_k (get_inst s o)) = true -> pending_shown (get_inst s o).

(* one step, from ANY state: reading a column with a pending value returns that value (or raises), keeps
   the pending set and writes nothing.  The pending set is a dict (unique columns) and the stored row, if
   any, has the three columns -- both hold on every reachable state. *)
Definition C16_read_returns_pending_stmt : Prop :=
  forall cfg s h o c v r s',
    nth h (slots s) None = Some o -> (o < length (heap s))%nat ->
    is_lazy (i_k (get_inst s o)) = true -> pending_shown (get_inst s o) ->
    NoDup (map fst (i_pending (get_inst s o))) ->
    (forall row, assoc (i_id (get_inst s o)) (t_rows (tbl s (i_k (get_inst s o)))) = Some row -> length row = 3%nat) ->
    nassoc c (i_pending (get_inst s o)) = Some v -> (c < 3)%nat ->
    step cfg s (ORead h c) = (r, s') ->
    (r = Ret (RVal v) \/ exists e, r = Raise e) /\
    pending_shown (get_inst s' o) /\ i_pending (get_inst s' o) = i_pending (get_inst s o) /\ tables s' = tables s.

(* ... and it does return the value when the row is there (a step injects no fault) *)
Definition C16_read_returns_pending_present_stmt : Prop :=
  forall cfg s h o c v r s',
    nth h (slots s) None = Some o -> (o < length (heap s))%nat ->
    is_lazy (i_k (get_inst s o)) = true -> pending_shown (get_inst s o) ->
    NoDup (map fst (i_pending (get_inst s o))) ->
    (forall row, assoc (i_id (get_inst s o)) (t_rows (tbl s (i_k (get_inst s o)))) = Some row -> length row = 3%nat) ->
    nassoc c (i_pending (get_inst s o)) = Some v -> (c < 3)%nat ->
    assoc (i_id (get_inst s o)) (t_rows (tbl s (i_k (get_inst s o)))) <> None ->
    step cfg s (ORead h c) = (r, s') ->
    r = Ret (RVal v).

(* the same on every reachable state, where the two side conditions come for free *)
Definition C16_read_returns_pending_reachable_stmt : Prop :=
  forall cfg ops h o c v r s',
    let s := run cfg ops in
    nth h (slots s) None = Some o ->
    is_lazy (i_k (get_inst s o)) = true ->
    nassoc c (i_pending (get_inst s o)) = Some v -> (c < 3)%nat ->
    step cfg s (ORead h c) = (r, s') ->
    (r = Ret (RVal v) \/ r = Raise ENotFound) /\
    (assoc (i_id (get_inst s o)) (t_rows (tbl s (i_k (get_inst s o)))) <> None -> r = Ret (RVal v)) /\
    pending_shown (get_inst s' o) /\ i_pending (get_inst s' o) = i_pending (get_inst s o) /\ tables s' = tables s.

(* ---------------------------------------------------------------- C05 (expire always drops what was cached) *)
(* expire() then a read shows the stored row or raises not-found, whatever the instance had cached and
   whether or not it was already expired (cacheValues classes) -- on ANY state *)
Definition C05_expire_always_refreshes_stmt : Prop :=
  forall cfg s h o c r1 s1 r2 s2,
    nth h (slots s) None = Some o -> (o < length (heap s))%nat ->
    cache_values (i_k (get_inst s o)) = true ->
    step cfg s (OExpire h) = (r1, s1) -> step cfg s1 (ORead h c) = (r2, s2) ->
    r1 = Ret RNone /\
    match assoc (i_id (get_inst s o)) (t_rows (tbl s (i_k (get_inst s o)))) with
    | Some row => r2 = Ret (RVal (nth c row VNull))
    | None => r2 = Raise ENotFound
    end.

(* ---------------------------------------------------------------- histories with injected database errors *)
(* the operation a history entry runs, with or without an injected fault *)
Definition unfault (o : op) : op := match o with OFault _ o' => o' | _ => o end.

(* guard04 / guard05, ALSO allowing `OFault n o` for every n and every o the base guard allows
   (nothing is excluded: `OFault 1 (OCreate ..)`, the failing re-read after the INSERT, is allowed too) *)
Definition guard04f (o : op) : bool := guard04 (unfault o).
Definition guard05f (o : op) : bool := guard05 (unfault o).
Definition no_unpickle_f (o : op) : bool := match unfault o with OUnpickle _ => false | _ => true end.
Definition read_ok_f (o : op) : bool := match unfault o with ORead _ c => Nat.ltb c 3 | _ => true end.

Definition C04_unique_faults_stmt : Prop :=
  forall cfg ops o1 o2 k id,
    forallb guard04f ops = true ->
    let s := run cfg ops in
    held s o1 -> held s o2 -> current s o1 -> current s o2 ->
    is_row s o1 k id -> is_row s o2 k id ->
    assoc id (t_rows (tbl s k)) <> None ->
    o1 = o2.

Definition C04_get_returns_held_faults_stmt : Prop :=
  forall cfg ops o k id id' tok s',
    forallb guard04f ops = true ->
    let s := run cfg ops in
    held s o -> current s o -> is_row s o k id ->
    assoc id (t_rows (tbl s k)) <> None ->
    step cfg s (OGet k id) = (Ret (RObj id' tok), s') ->
    id' = id /\ tok = slot_of s o /\ tok <> None.

Definition C04_select_returns_held_faults_stmt : Prop :=
  forall cfg ops o k flt keep res id tok s',
    forallb guard04f ops = true ->
    let s := run cfg ops in
    held s o -> current s o -> is_row s o k id ->
    step cfg s (OSelect k flt keep) = (Ret (RObjs res), s') ->
    In (id, tok) res -> tok = slot_of s o /\ tok <> None.

Definition C04_cached_is_current_faults_stmt : Prop :=
  forall cfg ops k id o,
    forallb guard04f ops = true ->
    let s := run cfg ops in
    (In (id, o) (c_strong (cch s k)) \/ In (id, o) (c_weak (cch s k))) -> i_obsolete (get_inst s o) = false.

Definition C05_coherent_faults_stmt : Prop :=
  forall cfg ops o,
    forallb guard05f ops = true -> forallb read_ok_f ops = true ->
    let s := run cfg ops in
    held s o -> current s o -> cache_values (i_k (get_inst s o)) = true -> shows_row s o.

(* C06: whatever made a call raise, no instance is registered for a row that was not inserted
   (histories without unpickling: a pickle outlives its row) *)
Definition C06_no_unregistered_rows_stmt : Prop :=
  forall cfg ops k id o,
    forallb guard04f ops = true -> forallb no_unpickle_f ops = true ->
    let s := run cfg ops in
    (In (id, o) (c_strong (cch s k)) \/ In (id, o) (c_weak (cch s k))) ->
    i_obsolete (get_inst s o) = false /\ assoc id (t_rows (tbl s k)) <> None.

(* ... and every held instance still shows its stored row after a call that raised, fault or not
   (the one-step form of C05_coherent_faults for the failing call itself) *)
Definition C06_coherent_after_failure_stmt : Prop :=
  forall cfg ops op e s' o,
    forallb guard05f ops = true -> forallb read_ok_f ops = true ->
    guard05f op = true -> read_ok_f op = true ->
    step cfg (run cfg ops) op = (Raise e, s') ->
    held s' o -> current s' o -> cache_values (i_k (get_inst s' o)) = true -> shows_row s' o.
