(* List lemmas for C10: Z-counted take/drop and Python slicing. *)
From Coq Require Import List ZArith Bool Lia ZifyBool.
From Lib Require Import PyLite.
From Gen Require Import Slice.
From Model Require Import Slice.
Import ListNotations.
Open Scope Z_scope.

Section P.
Context {A : Type}.
Implicit Types l : list A.

Lemma zlen_nonneg l : 0 <= zlen l.
Proof. unfold zlen; lia. Qed.

Lemma zlen_cons x l : zlen (x :: l) = zlen l + 1.
Proof. unfold zlen; cbn [length]; lia. Qed.

Lemma take_nonpos n l : n <= 0 -> take n l = [].
Proof. destruct l as [|x l]; cbn [take]; intros H; [reflexivity|]. destruct (n <=? 0) eqn:E; [reflexivity|lia]. Qed.

Lemma drop_nonpos n l : n <= 0 -> drop n l = l.
Proof. destruct l as [|x l]; cbn [drop]; intros H; [reflexivity|]. destruct (n <=? 0) eqn:E; [reflexivity|lia]. Qed.

Lemma take_all l : forall n, zlen l <= n -> take n l = l.
Proof.
  induction l as [|x l IH]; intros n H; cbn [take]; [reflexivity|].
  rewrite zlen_cons in H. pose proof (zlen_nonneg l).
  destruct (n <=? 0) eqn:E; [lia|]. f_equal. apply IH. lia.
Qed.

Lemma drop_all l : forall n, zlen l <= n -> drop n l = [].
Proof.
  induction l as [|x l IH]; intros n H; cbn [drop]; [reflexivity|].
  rewrite zlen_cons in H. pose proof (zlen_nonneg l).
  destruct (n <=? 0) eqn:E; [lia|]. apply IH. lia.
Qed.

Lemma zlen_drop l : forall n, zlen (drop n l) = Z.max 0 (zlen l - Z.max n 0).
Proof.
  induction l as [|x l IH]; intros n; cbn [drop].
  - unfold zlen; cbn; lia.
  - destruct (n <=? 0) eqn:E.
    + rewrite zlen_cons. pose proof (zlen_nonneg l). lia.
    + rewrite IH, zlen_cons. pose proof (zlen_nonneg l). lia.
Qed.

Lemma zlen_take l : forall n, zlen (take n l) = Z.max 0 (Z.min n (zlen l)).
Proof.
  induction l as [|x l IH]; intros n; cbn [take].
  - unfold zlen; cbn; lia.
  - destruct (n <=? 0) eqn:E.
    + rewrite zlen_cons. pose proof (zlen_nonneg l). unfold zlen at 1; cbn; lia.
    + rewrite !zlen_cons, IH. pose proof (zlen_nonneg l). lia.
Qed.

Lemma drop_drop l : forall a b, 0 <= a -> 0 <= b -> drop a (drop b l) = drop (a + b) l.
Proof.
  induction l as [|x l IH]; intros a b Ha Hb; cbn [drop]; [reflexivity|].
  destruct (b <=? 0) eqn:Eb.
  - assert (b = 0) by lia. subst b. rewrite Z.add_0_r. cbn [drop]. reflexivity.
  - destruct (a + b <=? 0) eqn:Eab; [lia|].
    replace (a + b - 1) with (a + (b - 1)) by lia. apply IH; lia.
Qed.

Lemma take_take l : forall a b, take a (take b l) = take (Z.min a b) l.
Proof.
  induction l as [|x l IH]; intros a b; cbn [take]; [reflexivity|].
  destruct (b <=? 0) eqn:Eb.
  - cbn [take]. destruct (Z.min a b <=? 0) eqn:E; [reflexivity|lia].
  - cbn [take]. destruct (a <=? 0) eqn:Ea.
    + destruct (Z.min a b <=? 0) eqn:E; [reflexivity|lia].
    + destruct (Z.min a b <=? 0) eqn:E; [lia|]. f_equal.
      rewrite IH. f_equal. lia.
Qed.

Lemma drop_take l : forall a n, 0 <= a -> drop a (take n l) = take (n - a) (drop a l).
Proof.
  induction l as [|x l IH]; intros a n Ha; cbn [take drop]; [reflexivity|].
  destruct (n <=? 0) eqn:En.
  - cbn [drop]. destruct (a <=? 0) eqn:Ea.
    + cbn [take]. destruct (n - a <=? 0) eqn:E; [reflexivity|lia].
    + symmetry. apply take_nonpos. lia.
  - cbn [drop]. destruct (a <=? 0) eqn:Ea.
    + assert (a = 0) by lia. subst a. rewrite Z.sub_0_r. cbn [take]. rewrite En. reflexivity.
    + rewrite IH by lia. f_equal. lia.
Qed.

(* two counts give the same prefix when equal, both non-positive, or both past the end *)
Lemma take_ext l n m :
  n = m \/ (n <= 0 /\ m <= 0) \/ (zlen l <= n /\ zlen l <= m) -> take n l = take m l.
Proof.
  intros [H|[[H1 H2]|[H1 H2]]].
  - now subst.
  - now rewrite !take_nonpos.
  - now rewrite !take_all.
Qed.

(* ---- Python slicing with non-negative (or omitted) bounds ---- *)
Lemma pyslice_nn a b l : 0 <= a -> 0 <= b ->
  pyslice (Some a) (Some b) l = take (b - a) (drop a l).
Proof.
  intros Ha Hb. unfold pyslice, norm_bound.
  destruct (a <? 0) eqn:Ea; [lia|]. destruct (b <? 0) eqn:Eb; [lia|].
  pose proof (zlen_nonneg l) as Hl.
  destruct (Z.le_gt_cases (zlen l) a) as [H|H].
  - rewrite (drop_all l a) by lia. rewrite (Z.min_r a (zlen l)) by lia.
    rewrite (drop_all l (zlen l)) by lia. destruct (Z.min b (zlen l) - zlen l); reflexivity.
  - rewrite (Z.min_l a) by lia. apply take_ext. rewrite zlen_drop.
    destruct (Z.le_gt_cases b (zlen l)).
    + left. lia.
    + right. right. lia.
Qed.

Lemma pyslice_n_none a l : 0 <= a -> pyslice (Some a) None l = drop a l.
Proof.
  intros Ha. unfold pyslice, norm_bound. destruct (a <? 0) eqn:Ea; [lia|].
  pose proof (zlen_nonneg l) as Hl.
  destruct (Z.le_gt_cases (zlen l) a) as [H|H].
  - rewrite (drop_all l a) by lia. rewrite Z.min_r by lia. rewrite drop_all by lia.
    destruct (zlen l - zlen l); reflexivity.
  - rewrite Z.min_l by lia. apply take_all. rewrite zlen_drop. lia.
Qed.

Lemma pyslice_none_n b l : 0 <= b -> pyslice None (Some b) l = take b l.
Proof.
  intros Hb. unfold pyslice, norm_bound. destruct (b <? 0) eqn:Eb; [lia|].
  rewrite drop_nonpos by lia. rewrite Z.sub_0_r.
  apply take_ext. pose proof (zlen_nonneg l).
  destruct (Z.le_gt_cases b (zlen l)); [left|right; right]; lia.
Qed.

Lemma pyslice_none_none l : pyslice None None l = l.
Proof.
  unfold pyslice, norm_bound. rewrite drop_nonpos by lia. apply take_all. lia.
Qed.

Lemma pyslice_0 b l : pyslice (Some 0) b l = pyslice None b l.
Proof. unfold pyslice, norm_bound. cbn. rewrite Z.min_l by apply zlen_nonneg. reflexivity. Qed.

End P.
