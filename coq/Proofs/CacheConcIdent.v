(* C09 -- the identity clauses (holders, registered objects, purge epochs) under a step. *)
From Coq Require Import List ZArith Bool Arith Lia.
From Model Require Import CacheConc CacheConcSpec.
From Proofs Require Import CacheConcBase CacheConcFields.
Import ListNotations.

Definition hold_th (h : thread) (i : Z) (o : nat) (e : nat) : Prop :=
  In (RObj o i e) (t_slots h) \/ inflight h = Some (i, o, e).

Lemma holder_iff : forall s i o e, holder s i o e <-> exists x, x < s_n s /\ hold_th (s_thr s x) i o e.
Proof. intros. unfold holder, hold_th. tauto. Qed.

(* a mover is the lock holder of get between lines 121 and 124, or of cull between lines 205 and 210 *)
Lemma mov_core : forall s x i o, Inv s -> x < s_n s -> mov_of (s_thr s x) = Some (i, o) ->
  holds (t_pc (s_thr s x)) = true /\ dget (s_strong s) i = None /\ dget (s_weak s) i = None /\
  absent_key (s_thr s x) = Some i.
Proof.
  intros s x i o Hinv Hx H.
  pose proof (inv_sabs s Hinv x Hx) as S. pose proof (inv_wabs s Hinv x Hx) as W.
  destruct (inv_cull s Hinv x Hx) as (K & _).
  unfold mov_of in H. unfold absent_key. destruct (t_pc (s_thr s x)) eqn:E; try discriminate; simpl in *.
  - destruct (t_val (s_thr s x)); [| discriminate]. inversion H; subst. auto.
  - destruct (t_val (s_thr s x)); [| discriminate]. inversion H; subst. auto.
  - destruct (t_cobj (s_thr s x)); [| discriminate]. inversion H; subst. destruct (K eq_refl). auto.
  - destruct (t_cobj (s_thr s x)); [| discriminate]. inversion H; subst. destruct (K eq_refl). auto.
Qed.

Lemma registered_fun : forall s i o o', Inv s -> registered s i o -> registered s i o' -> o = o'.
Proof.
  intros s i o o' Hinv [A | [A | (x & Hx & A)]] [B | [B | (y & Hy & B)]].
  - congruence.
  - destruct (inv_disj s Hinv i o A) as [X | (X & _)]; congruence.
  - destruct (mov_core s y i o' Hinv Hy B) as (_ & S & _). congruence.
  - destruct (inv_disj s Hinv i o' B) as [X | (X & _)]; congruence.
  - congruence.
  - destruct (mov_core s y i o' Hinv Hy B) as (_ & _ & W & _). congruence.
  - destruct (mov_core s x i o Hinv Hx A) as (_ & S & _). congruence.
  - destruct (mov_core s x i o Hinv Hx A) as (_ & _ & W & _). congruence.
  - destruct (mov_core s x i o Hinv Hx A) as (H1 & _).
    destruct (mov_core s y i o' Hinv Hy B) as (H2 & _).
    apply (inv_lock s Hinv x Hx) in H1. apply (inv_lock s Hinv y Hy) in H2.
    assert (x = y) by congruence. subst. congruence.
Qed.

Lemma deadw_holds : forall th k, deadw th = Some k -> holds (t_pc th) = true.
Proof. intros th k H. unfold deadw in H. destruct (t_pc th); try discriminate; reflexivity. Qed.

(* whoever holds a result keeps the object alive *)
Lemma any_thread_intro : forall f n x o, x < n -> thread_refs (f x) o = true -> any_thread f n o = true.
Proof.
  induction n as [| m IH]; intros x o Hx H; [lia |]. simpl.
  destruct (Nat.eq_dec x m) as [-> | Hne]; [now rewrite H |].
  rewrite (IH x o) by (assumption || lia). apply orb_true_r.
Qed.
Lemma omem_intro : forall o l, In (Some o) l -> omem o l = true.
Proof.
  intros o l H. unfold omem. apply existsb_exists. exists (Some o). split; [assumption | apply Nat.eqb_refl].
Qed.
Lemma holder_alive : forall s i o e, holder s i o e -> aliveb s o = true.
Proof.
  intros s i o e (x & Hx & H). unfold aliveb. apply orb_true_iff. right.
  apply (any_thread_intro _ _ x); [assumption |]. unfold thread_refs.
  destruct H as [H | H].
  - apply orb_true_iff. right. apply existsb_exists. exists (RObj o i e). split; [assumption | simpl; apply Nat.eqb_refl].
  - unfold inflight in H. destruct (tagged (t_pc (s_thr s x))); [| discriminate].
    destruct (t_exc (s_thr s x)); [discriminate |].
    destruct (t_val (s_thr s x)) eqn:V; [| discriminate]. inversion H; subst.
    apply orb_true_iff. left. apply orb_true_iff. left. simpl. now rewrite Nat.eqb_refl.
Qed.

Section Ident.
Variables (s s' : state) (t : nat) (th' : thread).
Hypothesis Hinv : Inv s.
Hypothesis Hn : s_n s' = s_n s.
Hypothesis Hthr : s_thr s' = upd (s_thr s) t th'.
Hypothesis Ht : t < s_n s.
Let th := s_thr s t.

(* the result the step adds to what the thread holds, if any *)
Variable new : option (Z * nat * nat).
Hypothesis Hep : forall i, s_epoch s i <= s_epoch s' i.
Hypothesis Hnew : forall i o e, hold_th th' i o e -> hold_th th i o e \/ new = Some (i, o, e).
Hypothesis Hnewc : forall i0 o0 e0, new = Some (i0, o0, e0) ->
  e0 = s_epoch s i0 /\ forall o', registered s i0 o' -> o' = o0.

Lemma holder_step : forall i o e, holder s' i o e -> holder s i o e \/ new = Some (i, o, e).
Proof.
  intros i o e H. apply holder_iff in H. destruct H as (x & Hx & H). rewrite Hn in Hx.
  destruct (Nat.eq_dec x t) as [-> | Hne].
  - rewrite (thr_same s s' t th' Hthr) in H. destruct (Hnew _ _ _ H) as [A | A]; [| now right].
    left. apply holder_iff. exists t. auto.
  - rewrite (thr_other s s' t th' Hthr) in H by assumption. left. apply holder_iff. exists x. auto.
Qed.

Lemma f_ep_le : forall i o e, holder s' i o e -> e <= s_epoch s' i.
Proof.
  intros i o e H. destruct (holder_step _ _ _ H) as [A | A].
  - pose proof (inv_ep_le s Hinv _ _ _ A). specialize (Hep i). lia.
  - destruct (Hnewc _ _ _ A) as (-> & _). apply Hep.
Qed.

Lemma f_ident : forall i o o' e, holder s' i o e -> holder s' i o' e -> o = o'.
Proof.
  intros i o o' e H1 H2. destruct (holder_step _ _ _ H1) as [A | A]; destruct (holder_step _ _ _ H2) as [B | B].
  - eapply inv_ident; eauto.
  - destruct (Hnewc _ _ _ B) as (-> & F). apply F. now apply (inv_reg s Hinv).
  - destruct (Hnewc _ _ _ A) as (-> & F). symmetry. apply F. now apply (inv_reg s Hinv).
  - congruence.
Qed.

Hypothesis R1 : forall i o, s_epoch s' i = s_epoch s i -> holder s i o (s_epoch s i) -> registered s i o -> registered s' i o.
Hypothesis R2 : forall i0 o0 e0, new = Some (i0, o0, e0) -> s_epoch s' i0 = e0 -> registered s' i0 o0.

Lemma f_reg : forall i o, holder s' i o (s_epoch s' i) -> registered s' i o.
Proof.
  intros i o H. destruct (holder_step _ _ _ H) as [A | A].
  - pose proof (inv_ep_le s Hinv _ _ _ A). specialize (Hep i).
    assert (E : s_epoch s' i = s_epoch s i) by lia.
    rewrite E in A. apply R1; [assumption | assumption | now apply (inv_reg s Hinv)].
  - eapply R2; eauto.
Qed.

(* a dead weak entry about to be deleted (get line 121, cull line 198) *)
Hypothesis Hweak : s_weak s' = s_weak s \/ holds (t_pc th) = true.
Hypothesis N1 : forall i0 o0 e0, new = Some (i0, o0, e0) ->
  forall x k, x < s_n s -> x <> t -> deadw (s_thr s x) = Some k -> k <> i0.
Hypothesis N2 : (forall i, s_epoch s' i = s_epoch s i) \/ holds (t_pc th) = true.
Hypothesis N3 : forall k, deadw th' = Some k ->
  dget (s_weak s') k <> None /\ forall o, ~ holder s' k o (s_epoch s' k).
Hypothesis N4 : forall o, t_pc th' = F121 -> t_val th' = Some o -> dget (s_weak s') (t_id th') = Some o.

Lemma other_not_holding : forall x, x < s_n s -> x <> t -> holds (t_pc (s_thr s x)) = true -> holds (t_pc th) = true -> False.
Proof.
  intros x Hx Hne A B. apply (inv_lock s Hinv x Hx) in A. apply (inv_lock s Hinv t Ht) in B. congruence.
Qed.

Lemma f_f121 : forall x o, x < s_n s' -> t_pc (s_thr s' x) = F121 -> t_val (s_thr s' x) = Some o ->
  dget (s_weak s') (t_id (s_thr s' x)) = Some o.
Proof.
  intros x o Hx. rewrite Hn in Hx. destruct (Nat.eq_dec x t) as [-> | Hne].
  - rewrite (thr_same s s' t th' Hthr). apply N4.
  - rewrite (thr_other s s' t th' Hthr) by assumption. intros P V.
    destruct Hweak as [E | E].
    + rewrite E. now apply (inv_f121 s Hinv).
    + exfalso. apply (other_not_holding x Hx Hne); [now rewrite P | exact E].
Qed.

Lemma f_deadw : forall x k, x < s_n s' -> deadw (s_thr s' x) = Some k ->
  dget (s_weak s') k <> None /\ forall o, ~ holder s' k o (s_epoch s' k).
Proof.
  intros x k Hx. rewrite Hn in Hx. destruct (Nat.eq_dec x t) as [-> | Hne].
  - rewrite (thr_same s s' t th' Hthr). apply N3.
  - rewrite (thr_other s s' t th' Hthr) by assumption. intros D.
    destruct (inv_deadw s Hinv x k Hx D) as (Q1 & Q2).
    assert (Hnot : holds (t_pc th) = true -> False).
    { intros Hh. apply (other_not_holding x Hx Hne); [eapply deadw_holds; eauto | exact Hh]. }
    split.
    + destruct Hweak as [E | E]; [now rewrite E | contradiction].
    + intros o H. destruct N2 as [E | E]; [| contradiction]. rewrite E in H.
      destruct (holder_step _ _ _ H) as [A | A].
      * exact (Q2 o A).
      * exact (N1 _ _ _ A x k Hx Hne D eq_refl).
Qed.

End Ident.
