(* C02, token level: decimal text, the tokenizer's piece lemmas, and "every
   value renders as exactly its literal token(s)". *)
From Coq Require Import List NArith ZArith Bool Lia ZifyBool.
From Lib Require Import Str Lex.
From Gen Require Import Lit.
From Model Require Import Lit.
From Proofs Require Import LitStr.
Import ListNotations.
Open Scope N_scope.

(* ---------------------------------------------------------------- decimal text *)
Definition dstep (a : N) (c : ch) : N := a * 10 + (c - 48).

Lemma digits_val_eq l : digits_val l = fold_left dstep l 0.
Proof. reflexivity. Qed.

Lemma size_nat_bound p : Npos p < 2 ^ N.of_nat (Pos.size_nat p).
Proof.
  induction p as [p IH|p IH|]; cbn [Pos.size_nat]; rewrite ?Nat2N.inj_succ, ?N.pow_succ_r'; try lia.
Qed.

Lemma dec_fuel_val : forall f n acc,
  n < 2 ^ N.of_nat f -> fold_left dstep (dec_fuel f n acc) 0 = fold_left dstep acc n.
Proof.
  induction f as [|f IH]; intros n acc Hn.
  - cbn in Hn. assert (n = 0) by lia. subst. reflexivity.
  - rewrite Nat2N.inj_succ, N.pow_succ_r' in Hn.
    cbn [dec_fuel]. pose proof (N.div_mod n 10 ltac:(lia)) as Hdm.
    pose proof (N.mod_lt n 10 ltac:(lia)) as Hm.
    destruct (n / 10 =? 0) eqn:E.
    + cbn [fold_left]. f_equal. unfold dstep.
      set (q := n / 10) in *. set (r := n mod 10) in *. clearbody q r. lia.
    + rewrite IH.
      * cbn [fold_left]. f_equal. unfold dstep.
        set (q := n / 10) in *. set (r := n mod 10) in *. clearbody q r. lia.
      * apply N.div_lt_upper_bound; [lia|]. set (P := 2 ^ N.of_nat f) in *. clearbody P. lia.
Qed.

Lemma dec_N_val n : digits_val (dec_N n) = n.
Proof.
  rewrite digits_val_eq. unfold dec_N. rewrite dec_fuel_val; [reflexivity|].
  destruct n as [|p]; [cbn; lia|].
  cbn [N.size_nat]. rewrite Nat2N.inj_succ, N.pow_succ_r'. pose proof (size_nat_bound p). lia.
Qed.

Lemma dec_fuel_digits : forall f n acc,
  forallb is_digit acc = true -> forallb is_digit (dec_fuel f n acc) = true.
Proof.
  induction f as [|f IH]; intros n acc Ha; [exact Ha|].
  cbn [dec_fuel]. pose proof (N.mod_lt n 10 ltac:(lia)) as Hm.
  assert (Hd : forallb is_digit ((48 + n mod 10) :: acc) = true).
  { cbn [forallb]. rewrite Ha. unfold is_digit. set (r := n mod 10) in *. clearbody r. lia. }
  destruct (n / 10 =? 0); [exact Hd|now apply IH].
Qed.

Lemma dec_fuel_nonempty : forall f n acc, acc <> [] -> dec_fuel f n acc <> [].
Proof.
  induction f as [|f IH]; intros n acc Ha; [exact Ha|].
  cbn [dec_fuel]. destruct (n / 10 =? 0); [discriminate|apply IH; discriminate].
Qed.

Lemma dec_N_digits n : forallb is_digit (dec_N n) = true.
Proof. unfold dec_N. now apply dec_fuel_digits. Qed.

Lemma dec_N_nonempty n : dec_N n <> [].
Proof.
  unfold dec_N. cbn [dec_fuel]. destruct (n / 10 =? 0); [discriminate|apply dec_fuel_nonempty; discriminate].
Qed.

Lemma fixed_digits w n : forallb is_digit (fixed w n) = true.
Proof.
  unfold fixed. rewrite forallb_app, dec_N_digits, andb_true_r.
  induction (w - length (dec_N n))%nat; [reflexivity|]. cbn [repeat forallb]. now rewrite IHn0.
Qed.

(* ---------------------------------------------------------------- span *)
Definition stops (p : ch -> bool) (rest : str) : Prop :=
  match rest with c :: _ => p c = false | [] => True end.

Lemma span_app p : forall w rest,
  forallb p w = true -> stops p rest -> span p (w ++ rest) = (w, rest).
Proof.
  induction w as [|c w IH]; intros rest Hw Hr.
  - cbn [app]. destruct rest as [|c r]; [reflexivity|]. cbn [span]. cbn in Hr. now rewrite Hr.
  - cbn [forallb] in Hw. apply andb_true_iff in Hw. destruct Hw as [Hc Hw].
    cbn [app span]. rewrite Hc. now rewrite (IH rest Hw Hr).
Qed.

(* ---------------------------------------------------------------- tokenizer pieces *)
Lemma tok_nil d : tokens_ok d [] [].
Proof. exists 1%nat. intros f Hf. destruct f; [lia|reflexivity]. Qed.

Lemma tok_step d text text' toks toks' :
  (forall f, tokens_fuel d (S f) text = match tokens_fuel d f text' with
                                        | TOk l => TOk (toks ++ l) | TErr => TErr | TOutOfFuel => TOutOfFuel end) ->
  tokens_ok d text' toks' -> tokens_ok d text (toks ++ toks').
Proof.
  intros Hs [f0 H0]. exists (S f0). intros f Hf. destruct f as [|f]; [lia|].
  rewrite Hs. rewrite H0 by lia. reflexivity.
Qed.

Lemma tok_space d c rest toks :
  is_space c = true -> tokens_ok d rest toks -> tokens_ok d (c :: rest) toks.
Proof.
  intros Hc H. apply (tok_step d (c :: rest) rest [] toks); [|exact H].
  intros f. cbn [tokens_fuel]. rewrite Hc. destruct (tokens_fuel d f rest); reflexivity.
Qed.

(* a plain punctuation character: ( ) , = *)
Definition plain_punct (c : ch) : bool := (c =? 40) || (c =? 41) || (c =? 44) || (c =? 61).

Lemma lit_start_false d c r :
  (c =? 39) = false -> (c =? 34) = false -> (c =? 69) = false -> (c =? 101) = false ->
  lit_start d (c :: r) = false.
Proof.
  intros H1 H2 H3 H4. unfold lit_start. change c_q with 39. change c_dq with 34. change c_E with 69.
  rewrite H1, H2, H3, H4. destruct d; reflexivity.
Qed.

Lemma tok_punct d c rest toks :
  plain_punct c = true -> tokens_ok d rest toks -> tokens_ok d (c :: rest) (TPunct c :: toks).
Proof.
  intros Hc H. apply (tok_step d (c :: rest) rest [TPunct c] toks); [|exact H].
  intros f. cbn [tokens_fuel].
  assert (is_space c = false) as -> by (unfold plain_punct, is_space in *; lia).
  rewrite lit_start_false by (unfold plain_punct in *; lia).
  assert (is_alpha c = false) as -> by (unfold plain_punct, is_alpha in *; lia).
  assert (is_digit c = false) as -> by (unfold plain_punct, is_digit in *; lia).
  assert ((c =? c_minus) = false) as -> by (unfold plain_punct, c_minus in *; lia).
  assert ((c =? 47) = false) as -> by (unfold plain_punct in *; lia).
  destruct (tokens_fuel d f rest); reflexivity.
Qed.

(* words *)
Definition word_end (rest : str) : Prop :=
  match rest with c :: _ => is_word_char c = false /\ (c =? 39) = false | [] => True end.

Lemma tok_word d w rest toks :
  safe_ident w = true -> word_end rest -> tokens_ok d rest toks ->
  tokens_ok d (w ++ rest) (TWord w :: toks).
Proof.
  intros Hw Hr H. destruct w as [|c w]; [discriminate|].
  cbn [safe_ident] in Hw. apply andb_true_iff in Hw. destruct Hw as [Hc Hw].
  apply (tok_step d ((c :: w) ++ rest) rest [TWord (c :: w)] toks); [|exact H].
  intros f. cbn [tokens_fuel app].
  assert (is_space c = false) as -> by (unfold is_space, is_alpha in *; lia).
  assert (lit_start d (c :: w ++ rest) = false) as ->.
  { unfold lit_start. change c_q with 39. change c_dq with 34. change c_E with 69.
    assert ((c =? 39) = false) as -> by (unfold is_alpha in *; lia).
    assert ((c =? 34) = false) as -> by (unfold is_alpha in *; lia).
    destruct d; try reflexivity. cbn [orb].
    destruct ((c =? 69) || (c =? 101)); [|reflexivity]. cbn [andb].
    destruct w as [|c2 w2]; cbn [app].
    - destruct rest as [|c3 r3]; [reflexivity|]. cbn in Hr. tauto.
    - cbn [forallb] in Hw. apply andb_true_iff in Hw. destruct Hw as [Hc2 _].
      unfold is_word_char, is_alpha, is_digit in Hc2. lia. }
  rewrite Hc.
  assert (Hs : span is_word_char (c :: w ++ rest) = (c :: w, rest)).
  { apply (span_app is_word_char (c :: w) rest).
    - cbn [forallb]. rewrite Hw. unfold is_word_char. rewrite Hc. reflexivity.
    - destruct rest as [|c3 r3]; [exact I|]. cbn in Hr. cbn. tauto. }
  rewrite Hs. destruct (tokens_fuel d f rest); reflexivity.
Qed.

(* numbers *)
Definition num_end (rest : str) : Prop :=
  match rest with c :: _ => is_digit c = false | [] => True end.

Lemma tok_digits d ds rest toks :
  ds <> [] -> forallb is_digit ds = true -> num_end rest -> tokens_ok d rest toks ->
  tokens_ok d (ds ++ rest) (TNum (Z.of_N (digits_val ds)) :: toks).
Proof.
  intros Hne Hd Hr H. destruct ds as [|c ds]; [congruence|].
  apply (tok_step d ((c :: ds) ++ rest) rest [TNum (Z.of_N (digits_val (c :: ds)))] toks); [|exact H].
  intros f. cbn [tokens_fuel app].
  assert (Hc : is_digit c = true) by (cbn [forallb] in Hd; now apply andb_true_iff in Hd).
  assert (is_space c = false) as -> by (unfold is_space, is_digit in *; lia).
  rewrite lit_start_false by (unfold is_digit in *; lia).
  assert (is_alpha c = false) as -> by (unfold is_alpha, is_digit in *; lia).
  rewrite Hc.
  assert (Hs : span is_digit (c :: ds ++ rest) = (c :: ds, rest)).
  { apply (span_app is_digit (c :: ds) rest); [exact Hd|].
    destruct rest; [exact I|exact Hr]. }
  rewrite Hs. destruct (tokens_fuel d f rest); reflexivity.
Qed.

Lemma tok_neg_digits d ds rest toks :
  ds <> [] -> forallb is_digit ds = true -> num_end rest -> tokens_ok d rest toks ->
  tokens_ok d (c_minus :: ds ++ rest) (TNum (- Z.of_N (digits_val ds)) :: toks).
Proof.
  intros Hne Hd Hr H. destruct ds as [|c ds]; [congruence|].
  apply (tok_step d (c_minus :: (c :: ds) ++ rest) rest [TNum (- Z.of_N (digits_val (c :: ds)))] toks); [|exact H].
  intros f. cbn [tokens_fuel app].
  assert (Hc : is_digit c = true) by (cbn [forallb] in Hd; now apply andb_true_iff in Hd).
  change (is_space c_minus) with false. cbv iota.
  rewrite lit_start_false by reflexivity.
  change (is_alpha c_minus) with false. change (is_digit c_minus) with false.
  change (c_minus =? c_minus) with true. cbv iota.
  assert ((c =? c_minus) = false) as -> by (unfold is_digit, c_minus in *; lia).
  rewrite Hc.
  assert (Hs : span is_digit (c :: ds ++ rest) = (c :: ds, rest)).
  { apply (span_app is_digit (c :: ds) rest); [exact Hd|].
    destruct rest; [exact I|exact Hr]. }
  rewrite Hs. destruct (tokens_fuel d f rest); reflexivity.
Qed.

Lemma tok_int d z rest toks :
  num_end rest -> tokens_ok d rest toks -> tokens_ok d (dec_Z z ++ rest) (TNum z :: toks).
Proof.
  intros Hr H. destruct z as [|p|p]; cbn [dec_Z].
  - apply (tok_digits d [48] rest toks); try assumption; [discriminate|reflexivity].
  - replace (Z.pos p) with (Z.of_N (digits_val (dec_N (N.pos p)))) by (rewrite dec_N_val; reflexivity).
    apply tok_digits; try assumption; [apply dec_N_nonempty|apply dec_N_digits].
  - replace (Z.neg p) with (- Z.of_N (digits_val (dec_N (N.pos p))))%Z by (rewrite dec_N_val; reflexivity).
    cbn [app]. apply tok_neg_digits; try assumption; [apply dec_N_nonempty|apply dec_N_digits].
Qed.

(* string literals *)
Lemma clean_string_start d s rest :
  exists r, clean_string d s ++ rest = 39 :: r \/ (d = Postgres /\ clean_string d s ++ rest = 69 :: 39 :: r).
Proof.
  unfold clean_string, quoted.
  destruct (dialect_eqb d Postgres && contains 92 (clean_body d s)) eqn:E.
  - apply andb_true_iff in E. destruct E as [E _]. destruct d; try discriminate E.
    eexists. right. split; [reflexivity|]. cbn [app]. reflexivity.
  - eexists. left. cbn [app]. reflexivity.
Qed.

Lemma tok_str d s rest toks :
  str_ok d s = true -> no_quote_start rest -> tokens_ok d rest toks ->
  tokens_ok d (clean_string d s ++ rest) (TStr s :: toks).
Proof.
  intros Hok Hr H.
  apply (tok_step d (clean_string d s ++ rest) rest [TStr s] toks); [|exact H].
  intros f. pose proof (lex_lit_roundtrip d s rest Hok Hr) as Hl.
  destruct (clean_string_start d s rest) as [r [E|[Ed E]]].
  - rewrite E in *. cbn [tokens_fuel]. change (is_space 39) with false. cbv iota.
    assert (lit_start d (39 :: r) = true) as -> by (destruct d; reflexivity).
    rewrite Hl. destruct (tokens_fuel d f rest); reflexivity.
  - subst d. rewrite E in *. cbn [tokens_fuel]. change (is_space 69) with false. cbv iota.
    assert (lit_start Postgres (69 :: 39 :: r) = true) as -> by reflexivity.
    rewrite Hl. destruct (tokens_fuel Postgres f rest); reflexivity.
Qed.
