(* C09 -- the theorems: the invariant holds in every state reached by guarded steps; deadlock
   freedom; quiescence; the witnesses that refute the unguarded statements. *)
From Coq Require Import List ZArith Bool Arith Lia.
From Model Require Import CacheConc CacheConcSpec.
From Proofs Require Import CacheConcBase CacheConcFields CacheConcIdent CacheConcSteps CacheConcInv CacheConcAux CacheConcMain.
Import ListNotations.

Lemma no_holder_init : forall dc freq frac rows progs i o e, ~ holder (initc dc freq frac rows progs) i o e.
Proof.
  intros dc freq frac rows progs i o e (t & Ht & [H | H]); simpl in *.
  - contradiction.
  - discriminate.
Qed.

Lemma inv_init : forall dc freq frac rows progs, Inv (initc dc freq frac rows progs).
Proof.
  intros. constructor; simpl;
    try (intros; discriminate);
    try (intros; exfalso; eapply no_holder_init; eauto; fail);
    try (constructor; fail).
  - intros t _. unfold ref_ok. repeat split; try (intros; discriminate). intros ? ? ? [].
  - intros t o _ [[] | []].
  - intros t _. split; discriminate.
  - intros t o _ Ho. lia.
  - intros t _. now left.
  - intros t _. apply cull_ok_none. reflexivity.
  - intros t _. apply iter_ok_none. reflexivity.
  - intros t x _ [].
Qed.

(* both modes of the connection (cache=True / cache=False) *)
Theorem inv_reachable_modes : forall dc freq frac rows progs s,
  greach guard (initc dc freq frac rows progs) s -> Inv s.
Proof.
  intros dc freq frac rows progs s H. induction H as [| s t s' Hr IH Hg Hs].
  - apply inv_init.
  - eapply step_inv; eauto. exact (proj1 (aux_greach _ _ _ _ _ _ _ Hr)).
Qed.

Theorem inv_reachable : forall freq frac rows progs s,
  greach guard (init freq frac rows progs) s -> Inv s.
Proof. intros freq frac rows progs s H. exact (inv_reachable_modes true freq frac rows progs s H). Qed.

(* ------------------------------------------------------------------ Safe *)
Lemma slot_holder : forall s t o i e, result_of s t (RObj o i e) -> holder s i o e.
Proof. intros s t o i e (Ht & H). exists t. auto. Qed.

Lemma inv_safe : forall s, Inv s -> Safe s.
Proof.
  intros s Hinv. constructor.
  - apply (inv_lock s Hinv).
  - intros t t' i o o' e A B. eapply (inv_ident s Hinv); eapply slot_holder; eauto.
  - intros t i o A. apply (inv_reg s Hinv). eapply slot_holder; eauto.
  - intros t x (Ht & H). eapply (inv_noexc s Hinv); eauto.
Qed.

(* ------------------------------------------------------------------ deadlock freedom *)
Definition lock_acquire_pc (p : pc) : bool :=
  match p with F108 | U192 | E234 | A250 | K181a | L272 | F135 | K183a => true | _ => false end.

Lemma step_none : forall s t, t < s_n s -> step s t = None ->
  finished (s_thr s t) = true \/
  (lock_acquire_pc (t_pc (s_thr s t)) = true /\ s_lock s <> None) \/
  (t_pc (s_thr s t) = X1072 /\ o_wlock (s_heap s (self_of (s_thr s t))) <> None).
Proof.
  intros s t Ht H. unfold step in H. apply Nat.ltb_lt in Ht. rewrite Ht in H. simpl in H.
  unfold finished.
  destruct (t_pc (s_thr s t)) eqn:Hpc;
    unfold goto, acquire, release, crash, unmodelled, expire_return, xall_return, mex_next, start_op in H;
    repeat match type of H with
           | context [match ?x with _ => _ end] => destruct x eqn:?
           | context [if ?x then _ else _] => destruct x eqn:?
           end;
    try discriminate H;
    try (left; reflexivity);
    try (right; left; split; [reflexivity | congruence]);
    try (right; right; split; [reflexivity | congruence]).
Qed.

Theorem no_deadlock : forall s, Inv s ->
  (forall t, t < s_n s -> enabled s t = false) -> all_finished s.
Proof.
  intros s Hinv Hdis t Ht.
  assert (Hnone : forall x, x < s_n s -> step s x = None).
  { intros x Hx. specialize (Hdis x Hx). unfold enabled in Hdis. destruct (step s x); [discriminate | reflexivity]. }
  (* a holder of the cache lock can always run *)
  assert (Hholder : forall x, x < s_n s -> holds (t_pc (s_thr s x)) = true -> False).
  { intros x Hx Hh. destruct (step_none s x Hx (Hnone x Hx)) as [F | [(A & _) | (A & _)]].
    - unfold finished in F. destruct (t_pc (s_thr s x)); simpl in Hh; try discriminate.
    - destruct (t_pc (s_thr s x)); simpl in *; discriminate.
    - rewrite A in Hh. discriminate. }
  assert (Hfree : s_lock s = None).
  { destruct (s_lock s) as [x |] eqn:L; [| reflexivity]. exfalso.
    pose proof (inv_lock_dom s Hinv x L) as Hx.
    apply (Hholder x Hx). now apply (inv_lock s Hinv x Hx). }
  destruct (step_none s t Ht (Hnone t Ht)) as [F | [(_ & B) | (A & B)]]; [assumption | congruence |].
  (* blocked on the write lock of an instance: its holder can only wait for the cache lock, which is free *)
  exfalso. destruct (o_wlock (s_heap s (self_of (s_thr s t)))) as [x |] eqn:W; [| congruence].
  destruct (inv_wlock_dom s Hinv x _ W) as (Hx & Ho).
  apply (inv_wlock s Hinv x _ Hx Ho) in W. destruct W as (Wh & _).
  destruct (step_none s x Hx (Hnone x Hx)) as [F | [(_ & C) | (C & _)]].
  - unfold finished in F. destruct (t_pc (s_thr s x)); simpl in Wh; discriminate.
  - congruence.
  - rewrite C in Wh. discriminate.
Qed.

(* ------------------------------------------------------------------ quiescence *)
Theorem quiescent : forall s, Inv s -> all_finished s ->
  s_lock s = None /\
  (forall t x, result_of s t (RExc x) -> x = NotFound) /\
  (forall t t' i o o' e, result_of s t (RObj o i e) -> result_of s t' (RObj o' i e) -> o = o') /\
  (forall t i o, result_of s t (RObj o i (s_epoch s i)) ->
     dget (s_strong s) i = Some o \/ dget (s_weak s) i = Some o).
Proof.
  intros s Hinv Hfin. pose proof (inv_safe s Hinv) as S.
  assert (Hidle : forall t, t < s_n s -> t_pc (s_thr s t) = Idle).
  { intros t Ht. specialize (Hfin t Ht). unfold finished in Hfin. destruct (t_pc (s_thr s t)); try discriminate. reflexivity. }
  repeat split.
  - destruct (s_lock s) as [x |] eqn:L; [| reflexivity]. exfalso.
    pose proof (inv_lock_dom s Hinv x L) as Hx.
    apply (inv_lock s Hinv x Hx) in L. rewrite (Hidle x Hx) in L. discriminate.
  - apply (safe_noexc s S).
  - apply (safe_ident s S).
  - intros t i o H. destruct (safe_reach s S t i o H) as [A | [A | (x & Hx & A)]]; auto.
    exfalso. unfold mov_of in A. rewrite (Hidle x Hx) in A. discriminate.
Qed.

(* ------------------------------------------------------------------ runs are reachable states *)
Lemma run_reach_from : forall s0 sched s1 s, reach s0 s1 -> run s1 sched = Some s -> reach s0 s.
Proof.
  intros s0. induction sched as [| t r IH]; intros s1 s R H; simpl in H.
  - inversion H; subst. exact R.
  - destruct (step s1 t) as [s2 |] eqn:E; [| discriminate].
    apply (IH s2 s); [| exact H]. eapply greach_step; eauto.
Qed.
Lemma run_reach : forall sched s0 s, run s0 sched = Some s -> reach s0 s.
Proof. intros sched s0 s H. eapply run_reach_from; [apply greach_refl | exact H]. Qed.

(* what the detectors mean *)
Lemma in_res_list : forall s r, In r (res_list s) -> exists t, result_of s t r.
Proof.
  intros s r H. unfold res_list in H. apply in_flat_map in H. destruct H as (t & Ht & H).
  apply in_seq in Ht. exists t. split; [lia | exact H].
Qed.

Lemma two_objects_unsafe : forall s, two_objects s = true -> ~ Safe s.
Proof.
  intros s H S. unfold two_objects in H. apply existsb_exists in H. destruct H as (a & Ha & H).
  apply existsb_exists in H. destruct H as (b & Hb & H).
  destruct a as [o i e | | |]; try discriminate. destruct b as [o' i' e' | | |]; try discriminate.
  apply andb_true_iff in H. destruct H as (H & Hne). apply andb_true_iff in H. destruct H as (Hi & He).
  apply Z.eqb_eq in Hi. apply Nat.eqb_eq in He. subst.
  destruct (in_res_list s _ Ha) as (t & Rt). destruct (in_res_list s _ Hb) as (t' & Rt').
  pose proof (safe_ident s S t t' i' o o' e' Rt Rt'). subst. rewrite Nat.eqb_refl in Hne. discriminate.
Qed.

Lemma bad_exception_unsafe : forall s, bad_exception s = true -> ~ Safe s.
Proof.
  intros s H S. unfold bad_exception in H. apply existsb_exists in H. destruct H as (a & Ha & H).
  destruct a as [| x | |]; try discriminate.
  destruct (in_res_list s _ Ha) as (t & Rt).
  rewrite (safe_noexc s S t x Rt) in H. discriminate.
Qed.

Lemma lost_object_unsafe : forall s, all_finished_b s = true -> lost_object s = true -> ~ Safe s.
Proof.
  intros s Hf H S. unfold lost_object in H. apply existsb_exists in H. destruct H as (a & Ha & H).
  destruct a as [o i e | | |]; try discriminate.
  apply andb_true_iff in H. destruct H as (H & Hw). apply andb_true_iff in H. destruct H as (He & Hs).
  apply Nat.eqb_eq in He. subst e.
  destruct (in_res_list s _ Ha) as (t & Rt).
  destruct (safe_reach s S t i o Rt) as [A | [A | (x & Hx & A)]].
  - rewrite A, Nat.eqb_refl in Hs. discriminate.
  - rewrite A, Nat.eqb_refl in Hw. discriminate.
  - unfold all_finished_b in Hf. rewrite forallb_forall in Hf.
    assert (F : finished (s_thr s x) = true) by (apply Hf; apply in_seq; lia).
    unfold finished in F. unfold mov_of in A. destruct (t_pc (s_thr s x)); discriminate.
Qed.

Lemma grun_greach_from : forall s0 sched s1 s, greach guard s0 s1 -> grun s1 sched = Some s -> greach guard s0 s.
Proof.
  intros s0. induction sched as [| t r IH]; intros s1 s R H; simpl in H.
  - inversion H; subst. exact R.
  - destruct (guard s1 t) eqn:G; [| discriminate].
    destruct (step s1 t) as [s2 |] eqn:E; [| discriminate].
    apply (IH s2 s); [| exact H]. eapply greach_step; eauto.
Qed.
Lemma grun_greach : forall sched s0 s, grun s0 sched = Some s -> greach guard s0 s.
Proof. intros sched s0 s H. eapply grun_greach_from; [apply greach_refl | exact H]. Qed.

(* ------------------------------------------------------------------ the theorems in the form of Props/C09.v *)
Theorem safe_reachable : forall freq frac rows progs s,
  greach guard (init freq frac rows progs) s -> Safe s.
Proof. intros. apply inv_safe. eapply inv_reachable; eauto. Qed.

Theorem quiescent_reachable : forall freq frac rows progs s,
  greach guard (init freq frac rows progs) s -> all_finished s ->
  s_lock s = None /\
  (forall t x, result_of s t (RExc x) -> x = NotFound) /\
  (forall t t' i o o' e, result_of s t (RObj o i e) -> result_of s t' (RObj o' i e) -> o = o') /\
  (forall t i o, result_of s t (RObj o i (s_epoch s i)) ->
     dget (s_strong s) i = Some o \/ dget (s_weak s) i = Some o).
Proof. intros. apply quiescent; [eapply inv_reachable; eauto | assumption]. Qed.

Theorem no_deadlock_reachable : forall freq frac rows progs s,
  greach guard (init freq frac rows progs) s ->
  (forall t, t < s_n s -> enabled s t = false) -> all_finished s.
Proof. intros. apply no_deadlock; [eapply inv_reachable; eauto | assumption]. Qed.

(* ---- the same three for both modes *)
Theorem safe_reachable_modes : forall dc freq frac rows progs s,
  greach guard (initc dc freq frac rows progs) s -> Safe s.
Proof. intros. apply inv_safe. eapply inv_reachable_modes; eauto. Qed.

Theorem quiescent_reachable_modes : forall dc freq frac rows progs s,
  greach guard (initc dc freq frac rows progs) s -> all_finished s ->
  s_lock s = None /\
  (forall t x, result_of s t (RExc x) -> x = NotFound) /\
  (forall t t' i o o' e, result_of s t (RObj o i e) -> result_of s t' (RObj o' i e) -> o = o') /\
  (forall t i o, result_of s t (RObj o i (s_epoch s i)) ->
     dget (s_strong s) i = Some o \/ dget (s_weak s) i = Some o).
Proof. intros. apply quiescent; [eapply inv_reachable_modes; eauto | assumption]. Qed.

Theorem no_deadlock_reachable_modes : forall dc freq frac rows progs s,
  greach guard (initc dc freq frac rows progs) s ->
  (forall t, t < s_n s -> enabled s t = false) -> all_finished s.
Proof. intros. apply no_deadlock; [eapply inv_reachable_modes; eauto | assumption]. Qed.

(* the mode never changes, every thread stays inside the branches of the mode, and without caching the strong dict
   stays empty: holds for every schedule, guarded or not *)
Theorem mode_reachable : forall dc freq frac rows progs s,
  reach (initc dc freq frac rows progs) s -> Aux s /\ s_docache s = dc.
Proof. intros dc freq frac rows progs s H. exact (aux_greach _ dc freq frac rows progs s H). Qed.

(* without caching the expired flag is all expire() changes: the cache entry stays, the purge epochs stay 0 only when
   nobody purges -- stated as: no thread of a cache=False connection ever is at a purging statement *)
Theorem nocache_never_purges : forall freq frac rows progs s t,
  reach (initc false freq frac rows progs) s -> t < s_n s ->
  t_pc (s_thr s t) <> E237 /\ t_pc (s_thr s t) <> E239.
Proof.
  intros freq frac rows progs s t H Ht. destruct (mode_reachable _ _ _ _ _ _ H) as (A & D).
  split; intros E; pose proof (aux_doc s A t Ht) as X; rewrite E in X; specialize (X eq_refl); congruence.
Qed.

(* ------------------------------------------------------------------ the witness against the unguarded statements
   (a schedule found by the scheduler on the real code, replayed here) *)
Definition w_setup : list op := [Get 1%Z; Get 2%Z].
Definition w_prefix : list nat := repeat 0 58.

(* create || get of the id being created: two live instances of row 4 *)
Definition w_get_sched : list nat := w_prefix ++ repeat 2 20 ++ repeat 1 9 ++ repeat 2 8 ++ repeat 1 4.
Lemma created_vs_get_witness :
  match run (init 100 2 [1%Z; 2%Z; 3%Z] [w_setup; [Create]; [Get 4%Z]]) w_get_sched with
  | Some s => all_finished_b s = true /\ two_objects s = true
  | None => False
  end.
Proof. vm_compute. split; reflexivity. Qed.

(* regression: the schedules that were witnesses of the three findings repaired by 6765e29 and 7ef2364
   now are guarded runs that end well *)
Definition ends_well (s : state) : bool :=
  all_finished_b s && negb (two_objects s) && negb (bad_exception s) && negb (lost_object s) &&
  match s_lock s with None => true | Some _ => false end.
Definition w_xall_sched : list nat := w_prefix ++ repeat 2 11 ++ repeat 1 9 ++ repeat 2 3 ++ repeat 1 4.
Definition w_lost_sched : list nat := w_prefix ++ repeat 2 12 ++ repeat 1 9 ++ repeat 2 2 ++ repeat 1 4.
Definition w_mex_sched : list nat := w_prefix ++ repeat 2 32 ++ repeat 1 6 ++ repeat 2 34 ++ repeat 1 16.

Lemma refute_inv_full : forall freq frac rows progs sched,
  match run (init freq frac rows progs) sched with
  | Some s => all_finished_b s = true /\ two_objects s = true
  | None => False
  end -> ~ C09_inv_full.
Proof.
  intros freq frac rows progs sched W F.
  pose proof (run_reach sched (init freq frac rows progs)) as R.
  destruct (run (init freq frac rows progs) sched) as [s |]; [| contradiction].
  destruct W as (_ & W). apply (two_objects_unsafe s W). apply (F freq frac rows progs). now apply R.
Qed.

Theorem inv_full_refuted : ~ C09_inv_full.
Proof. exact (refute_inv_full 100%Z 2 [1%Z; 2%Z; 3%Z] [w_setup; [Create]; [Get 4%Z]] w_get_sched created_vs_get_witness). Qed.

Lemma refute_quiescent_full : forall freq frac rows progs sched,
  match run (init freq frac rows progs) sched with
  | Some s => all_finished_b s = true /\ two_objects s = true
  | None => False
  end -> ~ C09_quiescent_full.
Proof.
  intros freq frac rows progs sched W F.
  pose proof (run_reach sched (init freq frac rows progs)) as R.
  destruct (run (init freq frac rows progs) sched) as [s |]; [| contradiction].
  destruct W as (Wf & W). specialize (R s eq_refl).
  assert (A : all_finished s).
  { intros t Ht. unfold all_finished_b in Wf. rewrite forallb_forall in Wf. apply Wf. apply in_seq. lia. }
  destruct (F _ _ _ _ s R A) as (_ & _ & I & _).
  unfold two_objects in W. apply existsb_exists in W. destruct W as (a & Ha & W).
  apply existsb_exists in W. destruct W as (b & Hb & W).
  destruct a as [o i e | | |]; try discriminate. destruct b as [o' i' e' | | |]; try discriminate.
  apply andb_true_iff in W. destruct W as (W & Hne). apply andb_true_iff in W. destruct W as (Hi & He).
  apply Z.eqb_eq in Hi. apply Nat.eqb_eq in He. subst.
  destruct (in_res_list s _ Ha) as (t & Rt). destruct (in_res_list s _ Hb) as (t' & Rt').
  pose proof (I t t' i' o o' e' Rt Rt'). subst. rewrite Nat.eqb_refl in Hne. discriminate.
Qed.

Theorem quiescent_full_refuted : ~ C09_quiescent_full.
Proof. exact (refute_quiescent_full 100%Z 2 [1%Z; 2%Z; 3%Z] [w_setup; [Create]; [Get 4%Z]] w_get_sched created_vs_get_witness). Qed.

(* ------------------------------------------------------------------ cache=False: the same race (create || get of the id
   being created), schedule found by the scheduler on the real code with cache=0 and replayed here *)
Definition w_noc_sched : list nat := repeat 0 46 ++ repeat 1 4 ++ repeat 2 22 ++ repeat 1 7.
Lemma created_vs_get_nocache_witness :
  match run (initc false 100 2 [1%Z; 2%Z; 3%Z] [w_setup; [Create]; [Get 4%Z]]) w_noc_sched with
  | Some s => all_finished_b s = true /\ two_objects s = true
  | None => False
  end.
Proof. vm_compute. split; reflexivity. Qed.

Theorem inv_nocache_full_refuted : ~ C09_inv_nocache_full.
Proof.
  intros F. pose proof created_vs_get_nocache_witness as W.
  pose proof (run_reach w_noc_sched (initc false 100 2 [1%Z; 2%Z; 3%Z] [w_setup; [Create]; [Get 4%Z]])) as R.
  destruct (run (initc false 100 2 [1%Z; 2%Z; 3%Z] [w_setup; [Create]; [Get 4%Z]]) w_noc_sched) as [s |]; [| contradiction].
  destruct W as (_ & W). apply (two_objects_unsafe s W). apply (F 100%Z 2 [1%Z; 2%Z; 3%Z] [w_setup; [Create]; [Get 4%Z]]). now apply R.
Qed.

Theorem quiescent_nocache_full_refuted : ~ C09_quiescent_nocache_full.
Proof.
  intros F. pose proof created_vs_get_nocache_witness as W.
  pose proof (run_reach w_noc_sched (initc false 100 2 [1%Z; 2%Z; 3%Z] [w_setup; [Create]; [Get 4%Z]])) as R.
  destruct (run (initc false 100 2 [1%Z; 2%Z; 3%Z] [w_setup; [Create]; [Get 4%Z]]) w_noc_sched) as [s |]; [| contradiction].
  destruct W as (Wf & W). specialize (R s eq_refl).
  assert (A : all_finished s).
  { intros t Ht. unfold all_finished_b in Wf. rewrite forallb_forall in Wf. apply Wf. apply in_seq. lia. }
  destruct (F _ _ _ _ s R A) as (_ & _ & I & _).
  unfold two_objects in W. apply existsb_exists in W. destruct W as (a & Ha & W).
  apply existsb_exists in W. destruct W as (b & Hb & W).
  destruct a as [o i e | | |]; try discriminate. destruct b as [o' i' e' | | |]; try discriminate.
  apply andb_true_iff in W. destruct W as (W & Hne). apply andb_true_iff in W. destruct W as (Hi & He).
  apply Z.eqb_eq in Hi. apply Nat.eqb_eq in He. subst.
  destruct (in_res_list s _ Ha) as (t & Rt). destruct (in_res_list s _ Hb) as (t' & Rt').
  pose proof (I t t' i' o o' e' Rt Rt'). subst. rewrite Nat.eqb_refl in Hne. discriminate.
Qed.
