(* C02: the statements exactly as Props/C02.v cites them. *)
From Coq Require Import List NArith ZArith Bool Lia.
From Lib Require Import Str Lex.
From Gen Require Import Lit.
From Model Require Import Lit.
From Proofs Require Import LitStr LitTok LitStmt.
Import ListNotations.
Open Scope N_scope.

Definition ansi_dialect (d : dialect) : bool :=
  match d with Sqlite | Firebird | Sybase | Maxdb | Mssql => true | _ => false end.
Definition tsql_dialect (d : dialect) : bool := match d with Sybase | Mssql => true | _ => false end.

Lemma string_ansi d s rest :
  ansi_dialect d = true -> no_quote_start rest ->
  exists text, render d (VStr s) = Some text /\ lex_ansi (text ++ rest) = Some (s, rest).
Proof.
  intros Hd Hr. exists (clean_string d s). split; [apply gen_string_char|].
  apply lex_ansi_roundtrip; [destruct d; try discriminate Hd; reflexivity|exact Hr].
Qed.

Lemma string_mysql s rest :
  no_quote_start rest ->
  exists text, render Mysql (VStr s) = Some text /\ lex_mysql (text ++ rest) = Some (s, rest).
Proof. intros Hr. exists (clean_string Mysql s). split; [apply gen_string_char|now apply lex_mysql_roundtrip]. Qed.

Lemma string_pg s rest :
  contains c_nul s = false -> no_quote_start rest ->
  exists text, render Postgres (VStr s) = Some text /\ lex_pg (text ++ rest) = Some (s, rest).
Proof. intros Hn Hr. exists (clean_string Postgres s). split; [apply gen_string_char|now apply lex_pg_roundtrip]. Qed.

Lemma string_tsql d s rest :
  tsql_dialect d = true -> has_continuation s = false -> no_quote_start rest ->
  exists text, render d (VStr s) = Some text /\ lex_tsql (text ++ rest) = Some (s, rest).
Proof.
  intros Hd Hc Hr. exists (clean_string d s). split; [apply gen_string_char|].
  apply lex_tsql_roundtrip; [destruct d; try discriminate Hd; reflexivity|exact Hc|exact Hr].
Qed.

Lemma sqlite_nul s :
  exists text, render Sqlite (VStr s) = Some text /\ sqlite_accepts text = negb (contains c_nul s).
Proof. exists (clean_string Sqlite s). split; [apply gen_string_char|apply sqlite_accepts_string]. Qed.

Lemma value_tokens d v rest toks :
  value_ok d v = true -> lit_end rest -> tokens_ok d rest toks ->
  exists text, render d v = Some text /\ tokens_ok d (text ++ rest) (lit_tokens d v ++ toks).
Proof.
  intros Hv Hr Ht. destruct (render_tokens d v Hv) as (text & E & P). exists text. split; [exact E|now apply P].
Qed.

Lemma sequence_tokens d vs :
  forallb (value_ok d) vs = true ->
  exists text, render d (VSeq vs) = Some text /\
    tokens_ok d text (TPunct c_lp :: sep_tokens (TPunct c_comma) (map (lit_tokens d) vs) ++ [TPunct c_rp]).
Proof.
  intros Hv. destruct (render_tokens d (VSeq vs) Hv) as (text & E & P). exists text. split; [exact E|].
  now apply piece_whole.
Qed.

(* enum values in sqlite / sybase / mssql DDL are rendered with the POSTGRES converter
   (col.py: _sqliteType = _postgresType): either the text is a plain ANSI literal
   decoding to the value, or it carries the E prefix, which those engines refuse *)
Lemma enum_value_ansi s rest :
  no_quote_start rest ->
  exists text, render Postgres (VStr s) = Some text /\
    ((contains c_bsl text = false /\ lex_ansi (text ++ rest) = Some (s, rest)) \/ starts_with [c_E; c_q] text = true).
Proof.
  intros Hr. exists (clean_string Postgres s). split; [apply gen_string_char|].
  unfold clean_string, quoted, clean_body. cbn [bs_dialect dialect_eqb andb].
  destruct (contains 92 (esc_bs s)) eqn:E; [right; reflexivity|left]. split.
  - change c_bsl with 92. cbn [app]. rewrite contains_cons, contains_app, E. reflexivity.
  - rewrite (esc_bs_no_backslash s E). apply (lex_ansi_roundtrip Sqlite s rest eq_refl Hr).
Qed.

(* ---------------------------------------------------------------- the skeleton does not depend on the data *)
Definition tshape (t : token) : token :=
  match t with TStr _ => TStr [] | TNum _ => TNum 0 | x => x end.

Fixpoint vshape (v : value) : value :=
  match v with
  | VStr _ => VStr []
  | VInt _ => VInt 0
  | VBool _ => VBool false
  | VNone => VNone
  | VDate _ _ _ => VDate 0 0 0
  | VDateTime _ _ _ _ _ _ _ => VDateTime 0 0 0 0 0 0 0
  | VTime _ _ _ _ => VTime 0 0 0 0
  | VSeq l => VSeq (map vshape l)
  end.

Lemma sep_tokens_shape sep : forall l,
  map tshape (sep_tokens sep l) = sep_tokens (tshape sep) (map (map tshape) l).
Proof.
  induction l as [|x l IH]; [reflexivity|]. destruct l as [|y l']; [cbn; reflexivity|].
  rewrite sep_tokens2. cbn [map]. rewrite sep_tokens2, map_app. cbn [map]. now rewrite IH.
Qed.

Lemma lit_tokens_shape d : forall v, map tshape (lit_tokens d v) = map tshape (lit_tokens d (vshape v)).
Proof.
  apply value_ind'; try reflexivity.
  - intros b. destruct d, b; reflexivity.
  - intros l HF. cbn [vshape lit_tokens map]. rewrite !map_app. cbn [map]. f_equal. f_equal.
    rewrite !sep_tokens_shape. f_equal. rewrite !map_map.
    induction HF as [|v l Hv HF IH]; [reflexivity|]. cbn [map]. now rewrite Hv, IH.
Qed.

Lemma lits_shape d vs1 vs2 : map vshape vs1 = map vshape vs2 ->
  map (map tshape) (map (lit_tokens d) vs1) = map (map tshape) (map (lit_tokens d) vs2).
Proof.
  revert vs2. induction vs1 as [|v vs1 IH]; intros [|w vs2] H; try discriminate H; [reflexivity|].
  cbn [map] in *. injection H as Hv Hr. rewrite (IH vs2 Hr). f_equal.
  rewrite (lit_tokens_shape d v), (lit_tokens_shape d w), Hv. reflexivity.
Qed.

Lemma insert_skeleton_independent d table names vs1 vs2 :
  map vshape vs1 = map vshape vs2 ->
  map tshape (insert_skeleton d table names vs1) = map tshape (insert_skeleton d table names vs2).
Proof.
  intros H. unfold insert_skeleton. rewrite !map_app. f_equal. f_equal. f_equal. f_equal.
  rewrite !sep_tokens_shape. f_equal. now apply lits_shape.
Qed.
