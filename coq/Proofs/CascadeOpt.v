(* C12 -- class options on the dependent classes (lazyUpdate, cacheValues) and
   destroySelf through a Transaction: the extended model `destroyX` against
   its stored-state projection `destroyL` and the plain `destroy`. *)
From Coq Require Import List ZArith NArith Bool Lia.
From Model Require Import Cascade.
From Proofs Require Import CascadeAlg.
Import ListNotations.
Open Scope Z_scope.

(* ---------------------------------------------------------------- loops *)
Lemma run_listX_proj : forall {A} (bx : A -> state -> queue -> xresult) (b : A -> state -> result) l,
  (forall a st q, In a l -> xproj (bx a st q) = b a st) ->
  forall st q, xproj (run_listX bx l st q) = run_list b l st.
Proof.
  induction l as [|a l IH]; intros H st q; cbn; auto.
  pose proof (H a st q (or_introl eq_refl)) as Ha.
  destruct (bx a st q) as [st' q'| st' q'|]; cbn in Ha; rewrite <- Ha; cbn; auto.
  apply IH. intros; apply H; right; auto.
Qed.

Lemma run_list_ext_in : forall {A} (b1 b2 : A -> state -> result) l,
  (forall a st, In a l -> b1 a st = b2 a st) ->
  forall st, run_list b1 l st = run_list b2 l st.
Proof.
  induction l as [|a l IH]; intros H st; cbn; auto.
  rewrite (H a st (or_introl eq_refl)).
  destruct (b2 a st); auto. apply IH. intros; apply H; right; auto.
Qed.

Lemma existsb_filter_sub : forall {A} (f h : A -> bool) l,
  existsb f (filter h l) = true -> existsb f l = true.
Proof.
  induction l as [|a l IH]; cbn; auto.
  destruct (h a); cbn; intros H.
  - apply orb_true_iff in H. destruct H as [H|H]; [rewrite H; auto|rewrite IH; auto using orb_true_r].
  - rewrite IH; auto using orb_true_r.
Qed.

(* ---------------------------------------------------------------- projection *)
Section Proj.
Variable os : options.
Variable dc : bool.

Lemma dep_stepX_proj : forall (recx : state -> queue -> node -> xresult) (rec : state -> node -> result),
  (forall st q p, xproj (recx st q p) = rec st p) ->
  forall name x k st q,
    xproj (dep_stepX os dc recx name x k st q) = dep_stepL os rec name x k st.
Proof.
  intros recx rec H name x k st q. unfold dep_stepX, dep_stepL. cbv zeta.
  destruct (is_nil (dep_cols name k)); [reflexivity|].
  match goal with |- context [if ?b then XRaised _ _ else _] => destruct b end; [reflexivity|].
  destruct (existsb (fun c => is_cascade (fk_policy c)) (dep_cols name k)); [|reflexivity].
  apply run_listX_proj. intros; apply H.
Qed.

Lemma destroyX_proj : forall g fuel st q p,
  xproj (destroyX os dc fuel g st q p) = destroyL os dc fuel g st p.
Proof.
  intros g. induction fuel as [|f IH]; intros st q p; [reflexivity|].
  cbn [destroyX destroyL]. cbv zeta.
  match goal with |- xproj (match run_listX ?bx ?l ?s ?qq with _ => _ end) = _ =>
    pose proof (run_listX_proj bx (dep_stepL os (destroyL os dc f g) (fst p) (snd p)) l) as R;
    rewrite <- (R (fun a st' q' _ => dep_stepX_proj _ _ IH (fst p) (snd p) a st' q') s qq);
    destruct (run_listX bx l s qq); reflexivity
  end.
Qed.

(* the stored state does not depend on what is queued *)
Lemma destroyX_queue_independent : forall g fuel st q q' p,
  xproj (destroyX os dc fuel g st q p) = xproj (destroyX os dc fuel g st q' p).
Proof. intros. rewrite !destroyX_proj. reflexivity. Qed.

(* ---------------------------------------------------------------- no lazy class with a 'null' column *)
Lemma dep_stepL_plain : forall (recl rec : state -> node -> result),
  (forall st p, recl st p = rec st p) ->
  forall name x k st,
    lazy_of os (c_name k) && existsb (fun c => is_setnull (fk_policy c)) (c_fks k) = false ->
    dep_stepL os recl name x k st = dep_step rec name x k st.
Proof.
  intros recl rec H name x k st Hk. unfold dep_stepL, dep_step. cbv zeta.
  destruct (is_nil (dep_cols name k)); [reflexivity|].
  match goal with |- context [if ?b then Raised _ else _] => destruct b end; [reflexivity|].
  assert (E : (existsb (fun c => is_setnull (fk_policy c)) (dep_cols name k) && negb (lazy_of os (c_name k)))
              = existsb (fun c => is_setnull (fk_policy c)) (dep_cols name k)).
  { destruct (existsb (fun c => is_setnull (fk_policy c)) (dep_cols name k)) eqn:E1; auto.
    unfold dep_cols in E1. apply existsb_filter_sub in E1. rewrite E1, andb_true_r in Hk. rewrite Hk. reflexivity. }
  rewrite E.
  destruct (existsb (fun c => is_cascade (fk_policy c)) (dep_cols name k)); [|reflexivity].
  apply run_list_ext_in. intros; apply H.
Qed.

Lemma destroyL_plain : forall g, lazy_nulls os g = false ->
  forall fuel st p, destroyL os dc fuel g st p = destroy dc fuel g st p.
Proof.
  intros g Hg. induction fuel as [|f IH]; intros st p; [reflexivity|].
  cbn [destroyL destroy]. cbv zeta.
  match goal with |- match run_list ?b1 ?l ?s with _ => _ end = match run_list ?b2 ?l ?s with _ => _ end =>
    rewrite (run_list_ext_in b1 b2 l); [reflexivity|]
  end.
  intros k st' Hin. apply dep_stepL_plain; auto.
  unfold find_dependencies in Hin. apply filter_In in Hin. destruct Hin as [Hin _].
  unfold lazy_nulls in Hg. rewrite existsb_false in Hg. apply Hg; auto.
Qed.

Lemma destroyX_plain : forall g, lazy_nulls os g = false ->
  forall fuel st q p, xproj (destroyX os dc fuel g st q p) = destroy dc fuel g st p.
Proof. intros. rewrite destroyX_proj. apply destroyL_plain; auto. Qed.

(* ---------------------------------------------------------------- rows of a lazyUpdate class are never written *)
Definition sub (nz : N) (st' st : state) : Prop := forall r, In r (table st' nz) -> In r (table st nz).
Definition res_sub (nz : N) (res : result) (st : state) : Prop :=
  match res with Done st' => sub nz st' st | Raised st' => sub nz st' st | OutOfFuel => True end.

Lemma sub_refl : forall nz st, sub nz st st.
Proof. unfold sub; auto. Qed.
Lemma sub_trans : forall nz a b c, sub nz a b -> sub nz b c -> sub nz a c.
Proof. unfold sub; auto. Qed.
Lemma res_sub_trans : forall nz res b c, res_sub nz res b -> sub nz b c -> res_sub nz res c.
Proof. intros nz [s|s|] b c; cbn; auto; intros; eapply sub_trans; eauto. Qed.

Lemma table_delete_links : forall t s x st n, table (sql_delete_links t s x st) n = table st n.
Proof. reflexivity. Qed.

Lemma table_fold_links : forall {J} (f : J -> bool) (t : J -> N) (sd : J -> bool) x (js : list J) st n,
  table (fold_left (fun s j => if f j then sql_delete_links (t j) (sd j) x s else s) js st) n = table st n.
Proof.
  induction js as [|j js IH]; intros; cbn; auto.
  rewrite IH. destruct (f j); auto.
Qed.

Lemma sub_delete_row : forall nz k x st, sub nz (sql_delete_row k x st) st.
Proof.
  intros nz k x st r. unfold sql_delete_row. rewrite table_map_tabs.
  - destruct (N.eqb nz k); auto. intros H. apply filter_In in H. tauto.
  - intros k0. destruct (N.eqb k0 k); reflexivity.
Qed.

Lemma table_null_row_other : forall nz k name x i st,
  N.eqb nz (c_name k) = false -> table (sql_null_row k name x i st) nz = table st nz.
Proof.
  intros nz k name x i st H. unfold sql_null_row. rewrite table_map_tabs.
  - rewrite H. reflexivity.
  - intros k0. destruct (N.eqb k0 (c_name k)); reflexivity.
Qed.

Lemma table_fold_null_other : forall nz k name x (rs : list row) st,
  N.eqb nz (c_name k) = false ->
  table (fold_left (fun s r => sql_null_row k name x (r_id r) s) rs st) nz = table st nz.
Proof.
  induction rs as [|r rs IH]; intros; cbn; auto.
  rewrite IH by auto. apply table_null_row_other; auto.
Qed.

Lemma run_list_sub : forall {A} nz (body : A -> state -> result) l,
  (forall a st, res_sub nz (body a st) st) ->
  forall st, res_sub nz (run_list body l st) st.
Proof.
  induction l as [|a l IH]; intros H st; cbn; [apply sub_refl|].
  pose proof (H a st) as Ha. destruct (body a st) as [s|s|]; cbn in *; auto.
  eapply res_sub_trans; [apply IH; auto|exact Ha].
Qed.

Lemma dep_stepL_sub : forall nz, lazy_of os nz = true ->
  forall (rec : state -> node -> result), (forall st p, res_sub nz (rec st p) st) ->
  forall name x k st, res_sub nz (dep_stepL os rec name x k st) st.
Proof.
  intros nz Hz rec Hrec name x k st. unfold dep_stepL. cbv zeta.
  set (st1 := fold_left _ (c_joins k) st).
  assert (S1 : sub nz st1 st).
  { intros r. unfold st1.
    rewrite (table_fold_links (fun j => N.eqb (j_other j) name) j_table (fun j => negb (j_side j))). auto. }
  destruct (is_nil (dep_cols name k)); [exact S1|].
  match goal with |- context [if ?b then Raised _ else _] => destruct b end; [exact S1|].
  match goal with |- context [run_list _ (map r_id (select_matching name x k ?s2)) _] => set (st2 := s2) end.
  assert (S2 : sub nz st2 st).
  { unfold st2.
    destruct (existsb (fun c => is_setnull (fk_policy c)) (dep_cols name k) && negb (lazy_of os (c_name k))) eqn:E;
      [|exact S1].
    apply andb_true_iff in E. destruct E as [_ E]. apply negb_true_iff in E.
    assert (Hne : N.eqb nz (c_name k) = false).
    { destruct (N.eqb nz (c_name k)) eqn:En; auto. apply N.eqb_eq in En. subst nz. congruence. }
    intros r. rewrite table_fold_null_other by auto. apply S1. }
  destruct (existsb (fun c => is_cascade (fk_policy c)) (dep_cols name k)); [|exact S2].
  eapply res_sub_trans; [|exact S2].
  apply run_list_sub. intros; apply Hrec.
Qed.

Lemma destroyL_sub : forall nz, lazy_of os nz = true ->
  forall g fuel st p, res_sub nz (destroyL os dc fuel g st p) st.
Proof.
  intros nz Hz g. induction fuel as [|f IH]; intros st p; [exact I|].
  cbn [destroyL]. cbv zeta.
  set (st1 := fold_left _ (joins_of g (fst p)) st).
  assert (S1 : sub nz st1 st).
  { intros r. unfold st1.
    rewrite (table_fold_links (fun _ => true) j_table j_side). auto. }
  pose proof (run_list_sub nz (dep_stepL os (destroyL os dc f g) (fst p) (snd p)) (find_dependencies (fst p) g)
                (fun a s => dep_stepL_sub nz Hz _ IH (fst p) (snd p) a s) st1) as R.
  destruct (run_list _ (find_dependencies (fst p) g) st1) as [s|s|]; cbn in *; auto.
  - intros r Hr. apply S1, R. apply (sub_delete_row nz (fst p) (snd p) s). exact Hr.
  - eapply sub_trans; eauto.
Qed.

Lemma row_exists_after_delete : forall k x st p0, row_exists (cache_purge dc p0 (sql_delete_row k x st)) (k, x) = false.
Proof.
  intros. unfold row_exists. cbn [fst snd].
  change (table (cache_purge dc p0 (sql_delete_row k x st)) k) with (table (sql_delete_row k x st) k).
  unfold sql_delete_row. rewrite table_map_tabs.
  - rewrite N.eqb_refl. apply existsb_false. intros r Hr. apply filter_In in Hr. destruct Hr as [_ Hr].
    apply negb_true_iff in Hr. exact Hr.
  - intros k0. destruct (N.eqb k0 k); reflexivity.
Qed.

Lemma destroyL_done_victim_gone : forall g fuel st p st',
  destroyL os dc fuel g st p = Done st' -> row_exists st' p = false.
Proof.
  intros g [|f] st p st'; [discriminate|].
  cbn [destroyL]. cbv zeta.
  destruct (run_list _ (find_dependencies (fst p) g) _) as [s|s|]; try discriminate.
  intros H. injection H as <-. destruct p as [k x]. apply row_exists_after_delete.
Qed.

(* the finding as a theorem: whatever the population, a surviving row of a lazyUpdate class
   is stored exactly as before -- in particular a cascade='null' reference to the victim is
   still there -- while the victim's row is gone *)
Theorem lazy_reference_outlives_row : forall g fuel st p st' nz r,
  lazy_of os nz = true ->
  destroyL os dc fuel g st p = Done st' ->
  In r (table st' nz) ->
  In r (table st nz) /\ row_exists st' p = false.
Proof.
  intros g fuel st p st' nz r Hz Hd Hr. split.
  - pose proof (destroyL_sub nz Hz g fuel st p) as S. rewrite Hd in S. apply S; auto.
  - eapply destroyL_done_victim_gone; eauto.
Qed.

Theorem lazy_rows_never_written : forall g fuel st p st' nz r,
  lazy_of os nz = true ->
  (destroyL os dc fuel g st p = Done st' \/ destroyL os dc fuel g st p = Raised st') ->
  In r (table st' nz) -> In r (table st nz).
Proof.
  intros g fuel st p st' nz r Hz Hd Hr.
  pose proof (destroyL_sub nz Hz g fuel st p) as S. destruct Hd as [Hd|Hd]; rewrite Hd in S; apply S; auto.
Qed.

End Proj.

(* ---------------------------------------------------------------- transactions *)
Theorem txn_gone_cached : forall os fuel g st p st' d,
  destroy_txn os true fuel g st p = Done st' ->
  row_exists st' d = false -> get_found st' d = false.
Proof.
  intros os fuel g st p st' d H Hd. unfold destroy_txn in H.
  destruct (destroyX os true fuel g (with_cache st []) [] p) as [s q|s q|]; try discriminate.
  injection H as <-. unfold get_found. rewrite Hd, orb_false_r.
  cbn [s_cache with_cache commit_parent].
  destruct (mem d (filter (row_exists s) (s_cache st))) eqn:E; auto.
  apply mem_In in E. apply filter_In in E. destruct E as [_ E].
  change (row_exists s d = false) in Hd. congruence.
Qed.

Theorem txn_refusal_clean : forall os dc fuel g st p st',
  destroy_txn os dc fuel g st p = Raised st' -> st' = st.
Proof.
  intros os dc fuel g st p st' H. unfold destroy_txn in H.
  destruct (destroyX os dc fuel g (with_cache st []) [] p); try discriminate. injection H; auto.
Qed.

(* the stored state after the commit is what destroySelf does on the transaction's own view *)
Theorem txn_done_db : forall os dc fuel g st p st',
  destroy_txn os dc fuel g st p = Done st' ->
  exists st'', destroyL os dc fuel g (with_cache st []) p = Done st'' /\
               s_tabs st' = s_tabs st'' /\ s_links st' = s_links st''.
Proof.
  intros os dc fuel g st p st' H. unfold destroy_txn in H.
  pose proof (destroyX_proj os dc g fuel (with_cache st []) [] p) as P.
  destruct (destroyX os dc fuel g (with_cache st []) [] p) as [s q|s q|]; try discriminate.
  injection H as <-. exists s. cbn in P. rewrite <- P. auto.
Qed.
