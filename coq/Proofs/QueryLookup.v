(* count(), getOne(), by<Col>() and index.get(): what the generated case
   splits return over the reference semantics. *)
From Coq Require Import List ZArith NArith Bool Lia Permutation.
From Lib Require Import PyLite QueryPy.
From Gen Require Import Query.
From Model Require Import Query.
From Proofs Require Import QueryChar QuerySort QueryWhere QueryAgg.
Import ListNotations.
Open Scope Z_scope.

(* ---------------------------------------------------------------- count() *)
Lemma count_distinct_is_int w rows : exists cd, count_distinct_id w rows = AInt cd.
Proof. unfold count_distinct_id. rewrite agg_count. eexists. reflexivity. Qed.

Theorem count_unsliced s ws rows :
  falsy ws -> (sr_dist s = true -> ids_unique rows) ->
  run_count s (ws, VNone) rows = OInt (zlength (matching (sr_clause s) rows)).
Proof.
  intros Hs Hu. unfold run_count. cbn [fst snd].
  destruct (sr_dist s) eqn:Hd.
  - rewrite (count_distinct_ids _ _ (Hu eq_refl)). rewrite (count_unsliced_char _ _ _ _ Hs). reflexivity.
  - destruct (count_distinct_is_int (sr_clause s) rows) as [cd ->].
    rewrite (count_unsliced_char _ _ _ _ Hs). reflexivity.
Qed.

Theorem count_sliced_refused s win rows :
  sliced win = true -> run_count s win rows = OAssert.
Proof.
  intros H. destruct win as [ws we]. unfold run_count. cbn [fst snd].
  destruct (count_distinct_is_int (sr_clause s) rows) as [cd ->].
  rewrite (count_refused_char _ _ _ _ _ H). reflexivity.
Qed.

Lemma unsliced_shape win : sliced win = false -> falsy (fst win) /\ snd win = VNone.
Proof.
  destruct win as [ws we]. unfold sliced, falsy. cbn [fst snd]. intros H.
  apply orb_false_iff in H. destruct H as [H1 H2]. split; [exact H1|]. destruct we; [reflexivity|discriminate|discriminate].
Qed.

(* count() on every window state: a number exactly when the select is not sliced *)
Theorem count_total s win rows :
  (sr_dist s = true -> ids_unique rows) ->
  run_count s win rows = if sliced win then OAssert else OInt (zlength (matching (sr_clause s) rows)).
Proof.
  intros Hu. destruct (sliced win) eqn:E; [exact (count_sliced_refused _ _ _ E)|].
  destruct (unsliced_shape _ E) as [H1 H2]. destruct win as [ws we]. cbn [fst snd] in *. subst we.
  exact (count_unsliced s ws rows H1 Hu).
Qed.

Lemma accepted_length q rows out :
  select_accepts q rows out -> zlength out = zlength (candidates q rows).
Proof.
  intros [ks [_ [Hp _]]]. unfold zlength. rewrite (Permutation_length Hp). reflexivity.
Qed.

Theorem count_matches_list dflt s ws rows out :
  falsy ws -> ids_unique rows -> select_accepts (sr_sql dflt s) rows out ->
  run_count s (ws, VNone) rows = OInt (zlength out).
Proof.
  intros Hs Hu Ha. rewrite (count_unsliced s ws rows Hs (fun _ => Hu)).
  rewrite (accepted_length _ _ _ Ha). unfold sr_sql. rewrite distinct_is_identity by exact Hu. reflexivity.
Qed.

(* ---------------------------------------------------------------- getOne() *)
Lemma zlength_nonneg {A} (l : list A) : 0 <= zlength l.
Proof. unfold zlength. lia. Qed.

Theorem getone_cases dflt s nd rows :
  resolve_order (q_order (sr_sql dflt s)) <> OReject ->
  run_getone dflt s nd rows =
  match candidates (sr_sql dflt s) rows with
  | [] => if nd then ONotFound else ODefault
  | [r] => OFound (rid r)
  | _ => OIntegrity
  end.
Proof.
  intros H. unfold run_getone.
  assert (G : forall o : out, match resolve_order (q_order (sr_sql dflt s)) with OReject => ODbError | _ => o end = o).
  { intros o. destruct (resolve_order (q_order (sr_sql dflt s))); [reflexivity|contradiction|reflexivity]. }
  rewrite G. rewrite getOne_char. unfold clean_getOne.
  destruct (candidates (sr_sql dflt s) rows) as [|r [|r' c]].
  - cbn. destruct nd; reflexivity.
  - reflexivity.
  - rewrite !zlength_cons. pose proof (zlength_nonneg c).
    replace (1 + (1 + zlength c) =? 0) with false by lia.
    replace (1 <? 1 + (1 + zlength c)) with true by lia. reflexivity.
Qed.

Theorem getone_rejected dflt s nd rows :
  resolve_order (q_order (sr_sql dflt s)) = OReject -> run_getone dflt s nd rows = ODbError.
Proof. intros H. unfold run_getone. rewrite H. reflexivity. Qed.

(* in terms of any list the engine may return *)
Theorem getone_of_list dflt s nd rows out :
  select_accepts (sr_sql dflt s) rows out ->
  run_getone dflt s nd rows =
  match out with
  | [] => if nd then ONotFound else ODefault
  | [r] => OFound (rid r)
  | _ => OIntegrity
  end.
Proof.
  intros [ks [Hk [Hp _]]]. rewrite getone_cases by (rewrite Hk; discriminate).
  destruct out as [|r [|r' o]].
  - apply Permutation_nil in Hp. rewrite Hp. reflexivity.
  - apply Permutation_length_1_inv in Hp. rewrite Hp. reflexivity.
  - pose proof (Permutation_length Hp) as L. cbn [length] in L.
    destruct (candidates (sr_sql dflt s) rows) as [|a [|b c]]; try discriminate. reflexivity.
Qed.

(* ---------------------------------------------------------------- by<Col>() *)
Lemma altid_holds v r : holds (altid_where v) r = oz_eqb (ru r) (kv_sql v).
Proof.
  unfold altid_where. rewrite holds_emit. unfold wsat. cbn [weval getc].
  destruct (kv_sql v) as [z|]; [|destruct (oz_eqb (ru r) None); reflexivity].
  destruct (ru r) as [x|]; cbn; [destruct (x =? z)|]; reflexivity.
Qed.

Theorem altid_outcome v rows o :
  altid_accepts v rows o ->
  (o = ONotFound /\ forall r, In r rows -> ru r <> kv_sql v) \/
  (exists r, In r rows /\ ru r = kv_sql v /\ o = OFound (rid r)).
Proof.
  unfold altid_accepts. destruct o; try contradiction.
  - intros H. right. apply in_map_iff in H. destruct H as [r [Hr Hin]].
    apply filter_In in Hin. destruct Hin as [Hin Hh]. rewrite altid_holds in Hh. apply oz_eqb_eq in Hh.
    exists r. subst. auto.
  - intros H. left. split; [reflexivity|]. intros r Hin E.
    assert (Hm : In r (matching (altid_where v) rows)).
    { apply filter_In. split; [exact Hin|]. rewrite altid_holds. apply oz_eqb_eq. exact E. }
    rewrite H in Hm. exact Hm.
Qed.

Theorem altid_total v rows : exists o, altid_accepts v rows o.
Proof.
  destruct (matching (altid_where v) rows) as [|r l] eqn:E.
  - exists ONotFound. exact E.
  - exists (OFound (rid r)). unfold altid_accepts. rewrite E. left. reflexivity.
Qed.

(* with the UNIQUE constraint the row is determined *)
Theorem altid_unique z rows r1 r2 :
  u_unique rows -> In r1 rows -> In r2 rows -> ru r1 = Some z -> ru r2 = Some z -> r1 = r2.
Proof. intros H. apply H. Qed.

Theorem altid_check_sound v rows o : altid_check v rows o = true -> altid_accepts v rows o.
Proof.
  unfold altid_check, altid_accepts. destruct o; try discriminate.
  - intros H. apply zmem_in. exact H.
  - destruct (matching (altid_where v) rows); [reflexivity|discriminate].
Qed.

(* ---------------------------------------------------------------- index.get() *)
Theorem index_get_cases dflt kws w rows :
  selectby_where kws = Some w ->
  resolve_order (emit_order colnames dflt BNoDefault false) <> OReject ->
  run_index dflt kws rows =
  match filter (kw_sat kws) rows with
  | [] => ONotFound
  | [r] => OFound (rid r)
  | _ => OIntegrity
  end.
Proof.
  intros Hw Ho. unfold run_index, sr_make. rewrite Hw. cbn [option_map].
  rewrite getone_cases by exact Ho.
  unfold candidates, sr_sql. cbn [q_distinct q_where sr_dist sr_clause].
  replace (matching w rows) with (filter (kw_sat kws) rows).
  - reflexivity.
  - unfold matching. apply filter_ext. intros r. symmetry. apply selectby_sat. exact Hw.
Qed.

Theorem index_type_error dflt kws rows :
  selectby_where kws = None -> run_index dflt kws rows = OTypeError.
Proof. intros H. unfold run_index, sr_make. rewrite H. reflexivity. Qed.

Lemma all_equal_short {A} (l : list A) : NoDup l -> (forall a b, In a l -> In b l -> a = b) -> (length l <= 1)%nat.
Proof.
  intros Hn He. destruct l as [|a [|b l]]; cbn; try lia.
  exfalso. inversion Hn as [|? ? Hna _]; subst. apply Hna. left.
  apply He; [right; left; reflexivity|left; reflexivity].
Qed.

(* with the UNIQUE index, a key without NULL matches at most one row *)
Theorem index_at_most_one k vs vf x y rows :
  (k = KwFk \/ k = KwFkID) -> kv_sql vs = Some x -> kv_sql vf = Some y ->
  ids_unique rows -> ix_unique rows ->
  (length (filter (kw_sat [(KwS, vs); (k, vf)]) rows) <= 1)%nat.
Proof.
  intros Hk Hs Hf Hu Hx. apply all_equal_short.
  - apply NoDup_filter. apply ids_unique_rows. exact Hu.
  - intros a b Ha Hb. apply filter_In in Ha. apply filter_In in Hb.
    destruct Ha as [Ia Sa], Hb as [Ib Sb].
    assert (G : forall r, kw_sat [(KwS, vs); (k, vf)] r = true -> rs r = Some x /\ rfk r = Some y).
    { intros r S. unfold kw_sat in S. rewrite forallb_forall in S.
      pose proof (S KwS) as S1. pose proof (S k) as S2.
      destruct Hk as [-> | ->].
      - unfold kw_holds in S1, S2. cbn in S1, S2. rewrite Hs in S1. rewrite Hf in S2.
        split; apply oz_eqb_eq; [apply S1|apply S2]; cbn; auto 10.
      - unfold kw_holds in S1, S2. cbn in S1, S2. rewrite Hs in S1. rewrite Hf in S2.
        split; apply oz_eqb_eq; [apply S1|apply S2]; cbn; auto 10. }
    destruct (G a Sa) as [A1 A2]. destruct (G b Sb) as [B1 B2].
    exact (Hx a b x y Ia Ib A1 B1 A2 B2).
Qed.
