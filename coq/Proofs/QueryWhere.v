(* WHERE: sqlbuilder comparisons and filter() chains mean what the Python
   expression says (three-valued), selectBy keywords mean plain equality with
   None matching NULL, and a foreign key may be given as object or id under
   either name. *)
From Coq Require Import List ZArith NArith Bool Lia Permutation.
From Lib Require Import PyLite QueryPy.
From Gen Require Import Query.
From Model Require Import Query.
From Proofs Require Import QueryChar QuerySort.
Import ListNotations.
Open Scope Z_scope.

Lemma eval3_emit w r : eval3 (emit_where w) r = weval w r.
Proof.
  induction w as [|c v|c v|a IHa b IHb|a IHa b IHb|a IHa]; cbn [emit_where eval3 weval].
  - reflexivity.
  - destruct v as [v|]; cbn [eval3 cmp3]; [destruct (getc c r)|]; reflexivity.
  - destruct v as [v|]; cbn [eval3 cmp3]; [destruct (getc c r)|]; reflexivity.
  - rewrite IHa, IHb. reflexivity.
  - rewrite IHa, IHb. reflexivity.
  - rewrite IHa. reflexivity.
Qed.

Lemma holds_emit w r : holds (emit_where w) r = wsat w r.
Proof. unfold holds, wsat. rewrite eval3_emit. reflexivity. Qed.

Lemma holds_and a b r : holds (SAnd a b) r = holds a r && holds b r.
Proof. unfold holds. cbn [eval3]. destruct (eval3 a r), (eval3 b r); reflexivity. Qed.

(* filter(None) adds nothing, filter(w) adds a conjunct *)
Lemma holds_chain ms : forall s r,
  holds (sr_clause (sr_calls s ms)) r = holds (sr_clause s) r && forallb (fun w => wsat w r) (filters_of ms).
Proof.
  unfold sr_calls. induction ms as [|m ms IH]; intros s r.
  - cbn. rewrite andb_true_r. reflexivity.
  - cbn [fold_left filters_of flat_map]. rewrite IH. destruct m as [o| | |[w|]]; cbn [sr_call sr_clause app]; try reflexivity.
    rewrite holds_and, holds_emit. cbn [forallb]. rewrite andb_assoc. reflexivity.
Qed.

Lemma filter_ext_in' {A} (f g : A -> bool) l : (forall x, f x = g x) -> filter f l = filter g l.
Proof. intros H. apply filter_ext. exact H. Qed.

Theorem chain_matching w o rv d ms rows :
  matching (sr_clause (sr_calls (mksr (emit_where w) o rv d) ms)) rows
  = filter (fun r => wsat w r && forallb (fun f => wsat f r) (filters_of ms)) rows.
Proof.
  unfold matching. apply filter_ext. intros r. rewrite holds_chain. cbn [sr_clause]. rewrite holds_emit. reflexivity.
Qed.

(* ---------------------------------------------------------------- selectBy *)
Lemma holds_join l r : holds (join_items l) r = forallb (fun w => holds w r) l.
Proof.
  induction l as [|x l IH]; [reflexivity|]. destruct l as [|y l'].
  - cbn. rewrite andb_true_r. reflexivity.
  - change (join_items (x :: y :: l')) with (if gen_clause_and then SAnd x (join_items (y :: l')) else SOr x (join_items (y :: l'))).
    rewrite clause_and_char. rewrite holds_and, IH. reflexivity.
Qed.

Lemma holds_item c v r :
  holds (item_where (c, gen_clause_word v, kv_sql v)) r = oz_eqb (getc c r) (kv_sql v).
Proof.
  unfold item_where, holds. cbn [fst snd eval3]. rewrite clause_word_char.
  destruct v as [|z|i]; cbn [word_op kv_sql cmp3].
  - destruct (oz_eqb (getc c r) None); reflexivity.
  - destruct (getc c r) as [a|]; cbn; [destruct (a =? z)|]; reflexivity.
  - destruct (getc c r) as [a|]; cbn; [destruct (a =? i)|]; reflexivity.
Qed.

Definition data_holds (r : row) (cv : col * kval) : bool := oz_eqb (getc (fst cv) r) (kv_sql (snd cv)).

Lemma holds_clause kws r :
  holds (join_items (map item_where (clause_items kws))) r = forallb (data_holds r) (clause_data kws).
Proof.
  rewrite holds_join. unfold clause_items.
  induction (clause_data kws) as [|cv l IH]; [reflexivity|].
  cbn [map forallb]. rewrite holds_item, IH. reflexivity.
Qed.

Lemma forallb_part r c k kws :
  forallb (data_holds r) (part c k kws) =
  match kwlookup k kws with Some v => oz_eqb (getc c r) (kv_sql v) | None => true end.
Proof.
  unfold part. destruct (kwlookup k kws); cbn; [rewrite andb_true_r|]; reflexivity.
Qed.

(* selectBy(keywords kws) selects exactly the rows whose attributes equal the keyword
   values, None matching NULL *)
Theorem selectby_sat kws w r :
  selectby_where kws = Some w -> holds w r = kw_sat kws r.
Proof.
  unfold selectby_where. destruct (clause_leftover kws) eqn:Hl; [discriminate|].
  intros H. inversion H; subst. clear H. rewrite holds_clause.
  unfold clause_data. rewrite !forallb_app, !forallb_part.
  unfold kw_sat. cbn [forallb]. unfold kw_holds. cbn [kw_col].
  unfold clause_leftover, has_kw in Hl. unfold has_kw.
  destruct (kwlookup KwBogus kws); [discriminate|]. cbn [orb] in Hl.
  destruct (kwlookup KwId kws), (kwlookup KwA kws), (kwlookup KwB kws), (kwlookup KwS kws), (kwlookup KwU kws);
    destruct (kwlookup KwFkID kws) eqn:E1, (kwlookup KwFk kws) eqn:E2; try discriminate;
    rewrite ?forallb_part, ?E1, ?E2; cbn [opt_list option_map forallb data_holds fst snd andb];
    unfold data_holds; cbn [fst snd]; rewrite ?fk_value_sql, ?andb_true_r; reflexivity.
Qed.

Corollary selectby_none_is_null kws w k c r :
  selectby_where kws = Some w -> kwlookup k kws = Some KNone -> kw_col k = Some c ->
  holds w r = true -> getc c r = None.
Proof.
  intros Hw Hk Hc Hh. rewrite (selectby_sat _ _ _ Hw) in Hh. unfold kw_sat in Hh.
  rewrite forallb_forall in Hh.
  assert (Hin : In k [KwId; KwA; KwB; KwS; KwFkID; KwFk; KwU]).
  { destruct k; cbn; auto 10. discriminate. }
  specialize (Hh k Hin). unfold kw_holds in Hh. rewrite Hk, Hc in Hh. apply oz_eqb_eq in Hh. exact Hh.
Qed.

(* the emitted text: IS NULL for None, = for a value *)
Lemma clause_items_single k c v :
  kw_col k = Some c -> k <> KwFk ->
  clause_items [(k, v)] = [(c, match v with KNone => WIS | _ => WEQ end, kv_sql v)].
Proof.
  intros Hc Hk. destruct k; try discriminate; try contradiction; inversion Hc; subst;
    unfold clause_items, clause_data, part, has_kw; cbn; rewrite clause_word_char; reflexivity.
Qed.

(* ---------------------------------------------------------------- foreign key: object or id, either name *)
Lemma kwlookup_app k l1 kv l2 :
  kwlookup k (l1 ++ kv :: l2) =
  match kwlookup k l1 with
  | Some v => Some v
  | None => if kw_eqb k (fst kv) then Some (snd kv) else kwlookup k l2
  end.
Proof.
  induction l1 as [|[k' v'] l1 IH]; cbn [app kwlookup].
  - destruct kv. reflexivity.
  - destruct (kw_eqb k k'); [reflexivity|exact IH].
Qed.

(* the clause in terms of the SQL values only (robust against where the id of
   an object is taken: in _SO_columnClause or later by sqlrepr) *)
Definition sqlpart (c : col) (k : kw) (kws : list (kw * kval)) : list (col * option Z) :=
  match kwlookup k kws with Some v => [(c, kv_sql v)] | None => [] end.
Definition sql_data (kws : list (kw * kval)) : list (col * option Z) :=
  sqlpart CId KwId kws ++ sqlpart CA KwA kws ++ sqlpart CB KwB kws ++ sqlpart CS KwS kws
  ++ (match kwlookup KwFkID kws with
      | Some v => [(CFk, kv_sql v)]
      | None => sqlpart CFk KwFk kws
      end)
  ++ sqlpart CU KwU kws.
Definition sql_item (cz : col * option Z) : col * cword * option Z :=
  (fst cz, match snd cz with None => WIS | Some _ => WEQ end, snd cz).

Lemma clause_word_sql v : gen_clause_word v = match kv_sql v with None => WIS | Some _ => WEQ end.
Proof. rewrite clause_word_char. destruct v; reflexivity. Qed.

Lemma map_part c k kws :
  map (fun cv : col * kval => (fst cv, kv_sql (snd cv))) (part c k kws) = sqlpart c k kws.
Proof. unfold part, sqlpart. destruct (kwlookup k kws); reflexivity. Qed.

Lemma clause_items_sql kws : clause_items kws = map sql_item (sql_data kws).
Proof.
  unfold clause_items.
  replace (map (fun cv : col * kval => (fst cv, gen_clause_word (snd cv), kv_sql (snd cv))) (clause_data kws))
    with (map sql_item (map (fun cv : col * kval => (fst cv, kv_sql (snd cv))) (clause_data kws))).
  - f_equal. unfold clause_data, sql_data. rewrite !map_app, !map_part. unfold has_kw.
    do 4 f_equal. f_equal. unfold part, sqlpart.
    destruct (kwlookup KwFkID kws); [reflexivity|].
    destruct (kwlookup KwFk kws); cbn; [rewrite fk_value_sql|]; reflexivity.
  - rewrite map_map. apply map_ext. intros cv. unfold sql_item. cbn [fst snd]. rewrite clause_word_sql. reflexivity.
Qed.

Lemma selectby_where_sql kws :
  selectby_where kws = if clause_leftover kws then None else Some (join_items (map item_where (map sql_item (sql_data kws)))).
Proof. unfold selectby_where. rewrite clause_items_sql. reflexivity. Qed.

Theorem fk_object_or_id l1 l2 i :
  selectby_where (l1 ++ (KwFk, KObj i) :: l2) = selectby_where (l1 ++ (KwFk, KInt i) :: l2).
Proof.
  rewrite !selectby_where_sql. unfold clause_leftover, sql_data, sqlpart, has_kw.
  rewrite !kwlookup_app. cbn [fst snd kw_eqb].
  destruct (kwlookup KwBogus l1), (kwlookup KwFkID l1), (kwlookup KwFk l1); reflexivity.
Qed.

Theorem fk_either_name l1 l2 i :
  has_kw KwFk (l1 ++ l2) = false -> has_kw KwFkID (l1 ++ l2) = false ->
  selectby_where (l1 ++ (KwFk, KObj i) :: l2) = selectby_where (l1 ++ (KwFkID, KInt i) :: l2).
Proof.
  unfold has_kw. intros H1 H2.
  assert (A : forall k, kwlookup k (l1 ++ l2) = match kwlookup k l1 with Some v => Some v | None => kwlookup k l2 end).
  { intros k. induction l1 as [|[k' v'] l1 IH]; cbn [app kwlookup]; [reflexivity|].
    destruct (kw_eqb k k'); [reflexivity|]. apply IH.
    - revert H1. cbn [app kwlookup]. destruct (kw_eqb KwFk k'); [discriminate|]. auto.
    - revert H2. cbn [app kwlookup]. destruct (kw_eqb KwFkID k'); [discriminate|]. auto. }
  rewrite A in H1, H2.
  rewrite !selectby_where_sql. unfold clause_leftover, sql_data, sqlpart, has_kw.
  rewrite !kwlookup_app. cbn [fst snd kw_eqb].
  destruct (kwlookup KwFk l1); [discriminate|]. destruct (kwlookup KwFkID l1); [discriminate|].
  destruct (kwlookup KwFk l2); [discriminate|]. destruct (kwlookup KwFkID l2); [discriminate|].
  destruct (kwlookup KwBogus l1); reflexivity.
Qed.
