(* C15: what get / destroySelf / attribute writes / _create do to a state that
   represents a list of objects. *)
From Coq Require Import List ZArith Bool Lia.
From Model Require Import Inherit.
From Proofs Require Import InheritBase.
Import ListNotations.
Open Scope Z_scope.

(* ------------------------------------------------------------------ get *)
Definition obj_of (o : aobj) : obj := mkobj (aid o) (ak o) (map (av o) (chain (ak o))).

Lemma find_tab : forall s os id o l, repr s os -> afind id os = Some o ->
  find id (tab s l) = if memc l (chain (ak o)) then Some (arow l o) else None.
Proof. intros s os id o l [Hnd [Ht _]] Hf. rewrite Ht, find_proj, Hf by assumption. reflexivity. Qed.
Lemma find_tab_none : forall s os id l, repr s os -> afind id os = None -> find id (tab s l) = None.
Proof. intros s os id l [Hnd [Ht _]] Hf. rewrite Ht, find_proj, Hf by assumption. reflexivity. Qed.

Lemma get_obj_repr : forall s os e id o, repr s os -> afind id os = Some o ->
  memc e (chain (ak o)) = true -> get_obj s e id = inr (obj_of o).
Proof.
  intros s os e id o Hr Hf Hm.
  assert (F := fun l => find_tab s os id o l Hr Hf).
  apply afind_some in Hf. destruct Hf as [_ Hid].
  unfold get_obj, obj_of, val_of, has. destruct o as [i k v]. cbn in *. subst i.
  pose proof (F KA) as FA; pose proof (F KB) as FB; pose proof (F KC) as FC; pose proof (F KB2) as FD.
  clear F. cbn [tab] in FA, FB, FC, FD.
  destruct k, e; try discriminate Hm; cbn in FA, FB, FC, FD |- *;
    repeat (rewrite ?FA, ?FB, ?FC, ?FD; cbn); reflexivity.
Qed.

Lemma get_obj_absent : forall s os e id, repr s os -> afind id os = None -> get_obj s e id = inl ENotFound.
Proof.
  intros s os e id Hr Hf. unfold get_obj. cbn [descend]. rewrite (find_tab_none s os id e Hr Hf). reflexivity.
Qed.

Lemma get_obj_wrong_entry : forall s os e id o, repr s os -> afind id os = Some o ->
  memc e (chain (ak o)) = false -> get_obj s e id = inl ENotFound.
Proof.
  intros s os e id o Hr Hf Hm. unfold get_obj. cbn [descend]. rewrite (find_tab s os id o e Hr Hf), Hm. reflexivity.
Qed.

Lemma get_obj_inv : forall s os e id ob, repr s os -> get_obj s e id = inr ob ->
  exists o, afind id os = Some o /\ memc e (chain (ak o)) = true /\ ob = obj_of o.
Proof.
  intros s os e id ob Hr Hg. destruct (afind id os) as [o|] eqn:Hf.
  - destruct (memc e (chain (ak o))) eqn:Hm.
    + rewrite (get_obj_repr s os e id o Hr Hf Hm) in Hg. inversion Hg. eauto.
    + rewrite (get_obj_wrong_entry s os e id o Hr Hf Hm) in Hg. discriminate.
  - rewrite (get_obj_absent s os e id Hr Hf) in Hg. discriminate.
Qed.

Lemma get_obj_err : forall s os e id x, repr s os -> get_obj s e id = inl x -> x = ENotFound.
Proof.
  intros s os e id x Hr Hg. destruct (afind id os) as [o|] eqn:Hf.
  - destruct (memc e (chain (ak o))) eqn:Hm.
    + rewrite (get_obj_repr s os e id o Hr Hf Hm) in Hg. discriminate.
    + rewrite (get_obj_wrong_entry s os e id o Hr Hf Hm) in Hg. congruence.
  - rewrite (get_obj_absent s os e id Hr Hf) in Hg. congruence.
Qed.

(* ------------------------------------------------------------------ small list facts *)
Lemma del_absent : forall id t, has id t = false -> del id t = t.
Proof.
  induction t as [|r t IH]; intro H; [reflexivity|]. unfold has in *. cbn in *.
  destruct (rid r =? id); [discriminate|]. cbn. f_equal. apply IH. exact H.
Qed.
Lemma setv_absent : forall id v t, has id t = false -> setv id v t = t.
Proof.
  induction t as [|r t IH]; intro H; [reflexivity|]. unfold has in *. cbn in *.
  destruct (rid r =? id); [discriminate|]. f_equal. apply IH. exact H.
Qed.
Lemma del_app_new : forall id v tg t, (forall r, In r t -> rid r <> id) -> del id (t ++ [mkrow id v tg]) = t.
Proof.
  intros id v tg t H. unfold del. rewrite filter_app. cbn. rewrite Z.eqb_refl. cbn. rewrite app_nil_r.
  induction t as [|r t IH]; [reflexivity|]. cbn.
  assert (rid r <> id) by (apply H; left; reflexivity). apply Z.eqb_neq in H0. rewrite H0. cbn. f_equal.
  apply IH. intros. apply H. right. assumption.
Qed.
Lemma born_adel : forall id os,
  filter (fun p : Z * cls => negb (fst p =? id)) (map (fun o => (aid o, ak o)) os) = map (fun o => (aid o, ak o)) (adel id os).
Proof.
  induction os as [|o os IH]; [reflexivity|]. cbn. destruct (aid o =? id); cbn; [|f_equal]; apply IH.
Qed.

Lemma del_del : forall id t, del id (del id t) = del id t.
Proof.
  induction t as [|r t IH]; [reflexivity|]. unfold del in *. cbn.
  destruct (rid r =? id) eqn:E; cbn; [exact IH|]. rewrite E. cbn. f_equal. exact IH.
Qed.

(* ------------------------------------------------------------------ destroySelf *)
Lemma destroy_chain_ok : forall ls id s, (forall k, In k ls -> restricted k id s = false) ->
  exists s', destroy_chain ls id s = (s', None) /\
    (forall l, tab s' l = if memc l ls then del id (tab s l) else tab s l) /\
    seq s' = seq s /\ refs s' = refs s /\ born s' = born s.
Proof.
  induction ls as [|k ls IH]; intros id s H.
  - exists s. cbn. auto.
  - cbn [destroy_chain]. rewrite (H k (or_introl eq_refl)).
    destruct (IH id (set_tab s k (del id (tab s k)))) as [s' [H1 [H2 [H3 [H4 H5]]]]].
    { intros k' Hk'. unfold restricted. rewrite refs_set_tab. apply H. right. exact Hk'. }
    exists s'. split; [exact H1|]. rewrite seq_set_tab in H3. rewrite refs_set_tab in H4. rewrite born_set_tab in H5.
    repeat split; try assumption.
    intro l. rewrite H2. rewrite tab_set. unfold memc. cbn [existsb].
    destruct (cls_eqb l k) eqn:E; cbn.
    + apply cls_eqb_eq in E. subst l. destruct (existsb (cls_eqb k) ls); [|reflexivity].
      apply del_del.
    + reflexivity.
Qed.

Lemma destroy_repr : forall s os id o, repr s os -> afind id os = Some o ->
  memc KB (chain (ak o)) && zmem id (refs s) = false ->
  exists s', destroy_chain (chain (ak o)) id s = (s', None) /\
    (forall l, tab s' l = del id (tab s l)) /\ seq s' = seq s /\ refs s' = refs s /\ born s' = born s /\
    repr (set_born s' (filter (fun p => negb (fst p =? id)) (born s'))) (adel id os).
Proof.
  intros s os id o Hr Hf Hg.
  destruct (destroy_chain_ok (chain (ak o)) id s) as [s' [H1 [H2 [H3 [H4 H5]]]]].
  { intros k Hk. unfold restricted. destruct (cls_eqb k KB) eqn:E; [|reflexivity]. apply cls_eqb_eq in E. subst k.
    apply memc_In in Hk. rewrite Hk in Hg. exact Hg. }
  assert (T : forall l, tab s' l = del id (tab s l)).
  { intro l. rewrite H2. destruct (memc l (chain (ak o))) eqn:E; [reflexivity|].
    symmetry. apply del_absent. destruct Hr as [Hnd [Ht _]]. rewrite Ht, has_proj, Hf by assumption. exact E. }
  exists s'. repeat split; try assumption.
  - destruct Hr as [Hnd _]. rewrite aids_adel. apply nodup_filter. exact Hnd.
  - intro l. rewrite tab_set_born, T. destruct Hr as [_ [Ht _]]. rewrite Ht. apply del_proj.
  - cbn. rewrite H5. destruct Hr as [_ [_ [Hb _]]]. rewrite Hb. apply born_adel.
  - intros o' Ho'. apply in_adel in Ho'. cbn. rewrite H3. destruct Hr as [_ [_ [_ Hs]]]. apply Hs. tauto.
Qed.

(* ------------------------------------------------------------------ attribute writes *)
Lemma sql_update_repr : forall s os col id v s', repr s os -> sql_update col id v s = inr s' ->
  repr s' (aset id col v os) /\ refs s' = refs s /\ seq s' = seq s.
Proof.
  intros s os col id v s' Hr H. unfold sql_update in H.
  assert (Hr' := Hr). destruct Hr' as [Hnd [Ht [Hb Hs]]].
  assert (B : map (fun o => (aid o, ak o)) (aset id col v os) = map (fun o => (aid o, ak o)) os).
  { unfold aset. rewrite map_map. apply map_ext. intro o. rewrite aset1_id, aset1_k. reflexivity. }
  assert (S : forall o, In o (aset id col v os) -> aid o <= seq s).
  { intros o Ho. unfold aset in Ho. apply in_map_iff in Ho. destruct Ho as [o0 [<- Ho0]]. rewrite aset1_id. apply Hs. exact Ho0. }
  destruct (has id (tab s col)) eqn:Hh.
  - destruct (notnull col && isnone v); [discriminate|].
    destruct (taken v (Some id) (tab s col)); [discriminate|]. inversion H; subst s'; clear H.
    rewrite refs_set_tab, seq_set_tab. repeat split; try reflexivity.
    + rewrite aids_aset. exact Hnd.
    + intro l. rewrite tab_set. destruct (cls_eqb l col) eqn:E.
      * apply cls_eqb_eq in E. subst l. rewrite Ht. apply setv_proj_same.
      * apply cls_eqb_neq in E. rewrite proj_aset_other by exact E. apply Ht.
    + rewrite born_set_tab, B. exact Hb.
    + intros o Ho. rewrite seq_set_tab. apply S. exact Ho.
  - inversion H; subst s'; clear H. repeat split; try reflexivity.
    + rewrite aids_aset. exact Hnd.
    + intro l. destruct (cls_dec l col) as [->|Hne].
      * rewrite <- setv_proj_same, <- Ht. symmetry. apply setv_absent. exact Hh.
      * rewrite proj_aset_other by exact Hne. apply Ht.
    + rewrite B. exact Hb.
    + exact S.
Qed.

Lemma write1_repr : forall s os col id v s', repr s os -> write1 s id col v = inr s' ->
  exists ov, validate v = inr ov /\ repr s' (aset id col ov os) /\ refs s' = refs s /\ seq s' = seq s.
Proof.
  intros s os col id v s' Hr H. unfold write1 in H. destruct (validate v) as [e|ov]; [discriminate|].
  exists ov. split; [reflexivity|]. eapply sql_update_repr; eassumption.
Qed.

Definition skel (os : list aobj) : list (Z * cls) := map (fun o => (aid o, ak o)) os.
Lemma skel_aset : forall id l v os, skel (aset id l v os) = skel os.
Proof. intros. unfold skel, aset. rewrite map_map. apply map_ext. intro o. rewrite aset1_id, aset1_k. reflexivity. Qed.

Lemma write_all_repr : forall kvs s os k id s' r, repr s os -> write_all s k id kvs = (s', r) ->
  exists os', repr s' os' /\ skel os' = skel os /\ refs s' = refs s /\ seq s' = seq s.
Proof.
  induction kvs as [|[c v] kvs IH]; intros s os k id s' r Hr H; cbn in H.
  - inversion H; subst. exists os. auto.
  - destruct (memc c (chain k)).
    + destruct (write1 s id c v) as [e|s1] eqn:W.
      * inversion H; subst. exists os. auto.
      * destruct (write1_repr s os c id v s1 Hr W) as [ov [_ [Hr1 [Hrf Hsq]]]].
        destruct (IH s1 _ k id s' r Hr1 H) as [os' [A [B [C D]]]].
        exists os'. rewrite B, skel_aset, C, D. auto.
    + inversion H; subst. exists os. auto.
Qed.

Lemma set_many_repr : forall kvs s os k id s' r, repr s os -> set_many s k id kvs = (s', r) ->
  exists os', repr s' os' /\ skel os' = skel os /\ refs s' = refs s /\ seq s' = seq s.
Proof.
  intros kvs s os k id s' r Hr H. unfold set_many in H.
  destruct (validate_all _); [inversion H; subst; exists os; auto|].
  destruct (write_all s k id (filter _ kvs)) as [s1 [e|]] eqn:W1.
  - inversion H; subst. eapply write_all_repr; eassumption.
  - destruct (write_all_repr _ _ _ _ _ _ _ Hr W1) as [os1 [A [B [C D]]]].
    destruct (write_all_repr _ _ _ _ _ _ _ A H) as [os2 [A2 [B2 [C2 D2]]]].
    exists os2. rewrite B2, B, C2, C, D2, D. auto.
Qed.
