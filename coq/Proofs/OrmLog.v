(* Statement-log reasoning: which SQL statements a computation can issue. *)
From Coq Require Import List ZArith Bool Lia ZifyBool.
From Model Require Import Orm.
From Proofs Require Import OrmBase.
Import ListNotations.
Open Scope Z_scope.

Section Emits.
Variable P : stmt -> Prop.

(* m only appends statements satisfying P to the log *)
Definition emits {A} (m : M A) : Prop :=
  forall s, exists new, log (snd (m s)) = new ++ log s /\ Forall P new.

Lemma emits_ret {A} (a : A) : emits (ret a).
Proof. intros s. exists []. split; [reflexivity|constructor]. Qed.
Lemma emits_raise {A} e : emits (@raise A e).
Proof. intros s. exists []. split; [reflexivity|constructor]. Qed.
Lemma emits_gets {A} (f : st -> A) : emits (gets f).
Proof. intros s. exists []. split; [reflexivity|constructor]. Qed.
Lemma emits_modify f : (forall s, log (f s) = log s) -> emits (modify f).
Proof. intros H s. exists []. cbn. split; [apply H|constructor]. Qed.
Lemma emits_bind {A B} (m : M A) (f : A -> M B) : emits m -> (forall a, emits (f a)) -> emits (bind m f).
Proof.
  intros Hm Hf s. unfold bind. destruct (Hm s) as (n1 & E1 & F1).
  destruct (m s) as [[a|e] s'] eqn:Em; cbn in *.
  - destruct (Hf a s') as (n2 & E2 & F2). exists (n2 ++ n1). rewrite E2, E1, app_assoc. split; auto.
    apply Forall_app; auto.
  - exists n1. auto.
Qed.
Lemma emits_statement q : P q -> emits (statement q).
Proof.
  intros Hq s. exists [q]. unfold statement.
  destruct (fault s) as [n|]; [destruct (Nat.eqb n (length (log s)))|]; cbn; split; auto.
Qed.
Lemma emits_finally {A} (m : M A) c : emits m -> (forall s, log (c s) = log s) -> emits (finally m c).
Proof.
  intros Hm Hc s. unfold finally. destruct (Hm s) as (n & E & F). destruct (m s) as [r s']; cbn in *.
  exists n. rewrite Hc. auto.
Qed.
Lemma emits_same_log {A} (m : M A) : (forall s, log (snd (m s)) = log s) -> emits m.
Proof. intros H s. exists []. split; [apply H|constructor]. Qed.

End Emits.

Create HintDb ep discriminated.
#[export] Hint Resolve emits_ret emits_raise emits_gets : ep.

Ltac ep_step :=
  match goal with
  | |- emits _ (bind _ _) => apply emits_bind; [|intros]
  | |- emits _ (match ?x with _ => _ end) => destruct x eqn:?
  | |- emits _ (if ?x then _ else _) => destruct x eqn:?
  | |- emits _ (let '(_, _) := ?x in _) => destruct x eqn:?
  | |- emits _ (finally _ _) => apply emits_finally; [|reflexivity]
  | |- emits _ (modify _) => apply emits_modify; reflexivity
  | |- emits _ (set_tbl _ _) => apply emits_modify; reflexivity
  | |- emits _ (set_cch _ _) => apply emits_modify; reflexivity
  | |- emits _ (upd_inst _ _) => apply emits_modify; reflexivity
  end.
Ltac ep := repeat ep_step; eauto with ep.

(* ------------------------------------------------------------------ no UPDATE reaches the lazy class *)
Definition not_lazy_update (q : stmt) : Prop :=
  match q with SUpdate Lazy _ _ => False | _ => True end.
Notation NL := (emits not_lazy_update).

Section WithConfig.
Variable cfg : config.

Lemma e_new_inst i : NL (new_inst i).
Proof. apply emits_same_log. reflexivity. Qed.
Local Hint Resolve e_new_inst : ep.

Lemma e_db_select_one k id cols : NL (db_select_one k id cols).
Proof. unfold db_select_one. ep. apply emits_statement. exact I. Qed.
Lemma e_db_update k id upd : is_lazy k = false -> NL (db_update k id upd).
Proof. intros Hk. unfold db_update. ep. apply emits_statement. destruct k; try exact I. discriminate. Qed.
Lemma e_db_insert k vals : NL (db_insert k vals).
Proof. unfold db_insert. ep. apply emits_statement. exact I. Qed.
Lemma e_db_delete k id : NL (db_delete k id).
Proof. unfold db_delete. ep. apply emits_statement. exact I. Qed.
Local Hint Resolve e_db_select_one e_db_update e_db_insert e_db_delete : ep.

Lemma e_ensure_factory k : NL (ensure_factory k).
Proof. unfold ensure_factory. ep. Qed.
Lemma e_cull k roots : NL (cull cfg k roots).
Proof. unfold cull. ep. Qed.
Local Hint Resolve e_ensure_factory e_cull : ep.
Lemma e_cull_tick k roots : NL (cull_tick cfg k roots).
Proof. unfold cull_tick. ep. Qed.
Local Hint Resolve e_cull_tick : ep.
Lemma e_cache_get k id roots : NL (cache_get cfg k id roots).
Proof. unfold cache_get. ep. Qed.
Lemma e_cache_put k id o : NL (cache_put cfg k id o).
Proof. unfold cache_put. ep. Qed.
Lemma e_cache_created k id o : NL (cache_created cfg k id o).
Proof. unfold cache_created. ep. Qed.
Lemma e_cache_expire k id : NL (cache_expire cfg k id).
Proof. unfold cache_expire. ep. Qed.
Lemma e_cache_try_get k id roots : NL (cache_try_get cfg k id roots).
Proof. unfold cache_try_get. ep. Qed.
Lemma e_cache_purge k id : NL (cache_purge k id).
Proof. unfold cache_purge. ep. Qed.
Local Hint Resolve e_cache_get e_cache_put e_cache_created e_cache_expire e_cache_purge e_cache_try_get : ep.

Lemma e_select_init o r : NL (select_init o r).
Proof. unfold select_init. ep. Qed.
Local Hint Resolve e_select_init : ep.
Lemma e_so_get k id sel roots : NL (so_get cfg k id sel roots).
Proof. unfold so_get. ep. Qed.
Lemma e_validate v : NL (validate v).
Proof. unfold validate. ep. Qed.
Local Hint Resolve e_so_get e_validate : ep.
Lemma e_validate_all kvs : NL (validate_all kvs).
Proof. induction kvs as [|[c v] r IH]; cbn [validate_all]; ep. Qed.
Local Hint Resolve e_validate_all : ep.

Lemma e_so_setattr o c v : NL (so_setattr o c v).
Proof. unfold so_setattr. ep. Qed.
Lemma e_so_set o kvs : NL (so_set o kvs).
Proof. unfold so_set. ep. Qed.
Lemma e_so_expire o : NL (so_expire cfg o).
Proof. unfold so_expire. ep. Qed.
Lemma e_so_read o c : NL (so_read o c).
Proof. unfold so_read. ep. Qed.
Lemma e_so_destroy o : NL (so_destroy o).
Proof. unfold so_destroy. ep. Qed.
Lemma e_so_create k kvs : NL (so_create cfg k kvs).
Proof. unfold so_create. ep. Qed.
Local Hint Resolve e_so_setattr e_so_set e_so_expire e_so_read e_so_destroy e_so_create : ep.

Lemma e_so_unpickle p : NL (so_unpickle cfg p).
Proof. unfold so_unpickle. ep. Qed.
Lemma e_fold_expire items : forall m, NL m -> NL (fold_left (fun m o => m ;;; so_expire cfg o) items m).
Proof. induction items as [|o r IH]; intros m Hm; cbn [fold_left]; [exact Hm|]. apply IH. ep. Qed.
Lemma e_so_expire_all k : NL (so_expire_all cfg k).
Proof. unfold so_expire_all. ep. apply e_fold_expire. ep. Qed.
Local Hint Resolve e_so_unpickle e_so_expire_all : ep.

Lemma e_hold o : NL (hold o).
Proof. unfold hold. ep. Qed.
Local Hint Resolve e_hold : ep.
Lemma e_hold_or_none m : NL m -> NL (hold_or_none m).
Proof.
  intros Hm s. unfold hold_or_none. destruct (Hm s) as (n & E & F).
  destruct (m s) as [[o|e] s']; cbn in *.
  - exists n. auto.
  - exists n. auto.
Qed.
Lemma e_or_empty_slot {A} b (m : M A) : NL m -> NL (or_empty_slot b m).
Proof.
  intros Hm s. unfold or_empty_slot. destruct (Hm s) as (n & E & F).
  destruct (m s) as [[o|e] s']; cbn in *; [eauto|]. destruct b; cbn; eauto.
Qed.
Lemma e_handle h : NL (handle h).
Proof. unfold handle. ep. Qed.
Local Hint Resolve e_handle : ep.
Lemma e_select_rows k rows : forall acc, NL (select_rows cfg k rows acc).
Proof. induction rows as [|[id r] rest IH]; intros acc; cbn [select_rows]; ep. Qed.
Local Hint Resolve e_select_rows : ep.

(* the operations that are allowed to write pending values *)
Fixpoint is_flush (o : op) : bool :=
  match o with
  | OSyncUpdate _ | OSync _ | OPickle _ => true
  | OFault _ o' => is_flush o'
  | _ => false
  end.

Lemma e_run_op fuel : forall o, is_flush o = false -> NL (run_op cfg fuel o).
Proof.
  induction fuel as [|f IH]; intros o Hf; destruct o; cbn [run_op is_flush] in *; try discriminate;
    try (apply e_hold_or_none); try (apply e_or_empty_slot); ep;
    try (apply emits_statement; exact I).
Qed.

Theorem no_lazy_update_before_flush s o :
  is_flush o = false -> Forall not_lazy_update (log (snd (step cfg s o))).
Proof.
  intros Hf. unfold step. destruct (e_run_op 2 o Hf (with_fault (with_log s []) None)) as (n & E & F).
  rewrite E. cbn. now rewrite app_nil_r.
Qed.

End WithConfig.
