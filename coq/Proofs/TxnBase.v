(* Base lemmas for the transaction model: the state/exception monad as a Hoare
   logic and as a logic of footprints (relations kept by a computation),
   association lists, record projections. *)
From Coq Require Import List ZArith Bool Lia ZifyBool.
From Model Require Import Txn.
Import ListNotations.
Open Scope Z_scope.

(* ------------------------------------------------------------------ Hoare triples *)
(* {P} m {Q on return | E on raise} *)
Definition hoare {A} (P : st -> Prop) (m : M A) (Q : A -> st -> Prop) (E : st -> Prop) : Prop :=
  forall s, P s -> match m s with (Ret a, s') => Q a s' | (Raise e, s') => E s' end.

Lemma hoare_ret {A} (P : st -> Prop) (a : A) (Q : A -> st -> Prop) E : (forall s, P s -> Q a s) -> hoare P (ret a) Q E.
Proof. intros H s Hs. cbn. auto. Qed.
Lemma hoare_raise {A} (P : st -> Prop) e (Q : A -> st -> Prop) (E : st -> Prop) : (forall s, P s -> E s) -> hoare P (raise e) Q E.
Proof. intros H s Hs. cbn. auto. Qed.
Lemma hoare_bind {A B} (P : st -> Prop) (m : M A) (f : A -> M B) (R : A -> st -> Prop) (Q : B -> st -> Prop) E :
  hoare P m R E -> (forall a, hoare (R a) (f a) Q E) -> hoare P (bind m f) Q E.
Proof.
  intros Hm Hf s Hs. unfold bind. specialize (Hm s Hs).
  destruct (m s) as [[a|e] s']; [apply (Hf a s' Hm)|exact Hm].
Qed.
Lemma hoare_gets {A} (P : st -> Prop) (f : st -> A) (Q : A -> st -> Prop) E : (forall s, P s -> Q (f s) s) -> hoare P (gets f) Q E.
Proof. intros H s Hs. cbn. auto. Qed.
Lemma hoare_modify (P : st -> Prop) (f : st -> st) (Q : unit -> st -> Prop) E : (forall s, P s -> Q tt (f s)) -> hoare P (modify f) Q E.
Proof. intros H s Hs. cbn. auto. Qed.
Lemma hoare_conseq {A} (P P' : st -> Prop) (m : M A) (Q Q' : A -> st -> Prop) (E E' : st -> Prop) :
  hoare P' m Q' E' -> (forall s, P s -> P' s) -> (forall a s, Q' a s -> Q a s) -> (forall s, E' s -> E s) ->
  hoare P m Q E.
Proof.
  intros H HP HQ HE s Hs. specialize (H s (HP s Hs)). destruct (m s) as [[a|e] s']; auto.
Qed.
Lemma hoare_pre {A} (P P' : st -> Prop) (m : M A) (Q : A -> st -> Prop) E : hoare P' m Q E -> (forall s, P s -> P' s) -> hoare P m Q E.
Proof. intros H HP. eapply hoare_conseq; eauto. Qed.
(* the state the precondition speaks about can be named *)
Lemma hoare_name {A} (P : st -> Prop) (m : M A) (Q : A -> st -> Prop) E :
  (forall s0, P s0 -> hoare (fun s => s = s0) m Q E) -> hoare P m Q E.
Proof. intros H s Hs. exact (H s Hs s eq_refl). Qed.

(* a state predicate kept by a computation whatever its outcome *)
Definition keeps {A} (I : st -> Prop) (m : M A) : Prop := hoare I m (fun _ => I) I.

Lemma keeps_ret {A} (I : st -> Prop) (a : A) : keeps I (ret a).
Proof. apply hoare_ret; auto. Qed.
Lemma keeps_raise {A} (I : st -> Prop) e : keeps I (@raise A e).
Proof. apply hoare_raise; auto. Qed.
Lemma keeps_bind {A B} (I : st -> Prop) (m : M A) (f : A -> M B) : keeps I m -> (forall a, keeps I (f a)) -> keeps I (bind m f).
Proof. intros Hm Hf. eapply hoare_bind; [exact Hm|exact Hf]. Qed.
Lemma keeps_gets {A} (I : st -> Prop) (f : st -> A) : keeps I (gets f).
Proof. apply hoare_gets; auto. Qed.
Lemma keeps_modify (I : st -> Prop) (f : st -> st) : (forall s, I s -> I (f s)) -> keeps I (modify f).
Proof. intros H. apply hoare_modify; auto. Qed.

(* ------------------------------------------------------------------ footprints: a relation between the state
   before and the state after, whatever the outcome *)
Definition pres {A} (R : st -> st -> Prop) (m : M A) : Prop := forall s, R s (snd (m s)).

Section Pres.
Variable R : st -> st -> Prop.
Hypothesis Rrefl : forall s, R s s.
Hypothesis Rtrans : forall a b c, R a b -> R b c -> R a c.

Lemma pres_ret {A} (a : A) : pres R (ret a).
Proof. intros s. cbn. auto. Qed.
Lemma pres_raise {A} e : pres R (@raise A e).
Proof. intros s. cbn. auto. Qed.
Lemma pres_gets {A} (f : st -> A) : pres R (gets f).
Proof. intros s. cbn. auto. Qed.
Lemma pres_modify (f : st -> st) : (forall s, R s (f s)) -> pres R (modify f).
Proof. intros H s. cbn. auto. Qed.
Lemma pres_bind {A B} (m : M A) (f : A -> M B) : pres R m -> (forall a, pres R (f a)) -> pres R (bind m f).
Proof.
  intros Hm Hf s. unfold bind. specialize (Hm s). destruct (m s) as [[a|e] s']; cbn in *; auto.
  eapply Rtrans; [exact Hm|apply Hf].
Qed.
End Pres.

Ltac pres_step :=
  lazymatch goal with
  | |- pres _ (bind _ _) => apply pres_bind; [assumption | | intros]
  | |- pres _ (ret _) => apply pres_ret; assumption
  | |- pres _ (raise _) => apply pres_raise; assumption
  | |- pres _ (gets _) => apply pres_gets; assumption
  | |- pres _ (if ?b then _ else _) => destruct b
  | |- pres _ (match ?x with _ => _ end) => destruct x
  | |- pres _ (let _ := _ in _) => cbv zeta
  end.

(* ------------------------------------------------------------------ lists *)
Lemma nth_set_nth_same {X} (l : list X) n x d : (n < length l)%nat -> nth n (set_nth n x l) d = x.
Proof. revert n; induction l as [|y l IH]; intros [|n] H; cbn in *; try lia; auto. apply IH. lia. Qed.

Lemma nth_set_nth_other {X} (l : list X) n m x d : n <> m -> nth m (set_nth n x l) d = nth m l d.
Proof.
  revert n m; induction l as [|y l IH]; intros [|n] [|m] H; cbn; auto; try congruence.
Qed.

Lemma length_set_nth {X} (l : list X) n x : length (set_nth n x l) = length l.
Proof. revert n; induction l as [|y l IH]; intros [|n]; cbn; auto. Qed.

Lemma set_nth_oob {X} (l : list X) n x : (length l <= n)%nat -> set_nth n x l = l.
Proof. revert n; induction l as [|y l IH]; intros [|n] H; cbn in *; auto; try lia. f_equal. apply IH. lia. Qed.

Lemma assoc_set_same {X} id (x : X) l : assoc id (assoc_set id x l) = Some x.
Proof.
  induction l as [|[k v] l IH]; cbn.
  - now rewrite Z.eqb_refl.
  - destruct (k =? id) eqn:E; cbn; rewrite E; auto.
Qed.

Lemma assoc_set_other {X} id id' (x : X) l : id <> id' -> assoc id' (assoc_set id x l) = assoc id' l.
Proof.
  intros H. induction l as [|[k v] l IH]; cbn.
  - destruct (id =? id') eqn:E; [lia|reflexivity].
  - destruct (k =? id) eqn:E; cbn.
    + assert (k = id) by lia. subst k. destruct (id =? id') eqn:E2; [lia|reflexivity].
    + destruct (k =? id'); auto.
Qed.

Lemma assoc_remove_same {X} id (l : list (Z * X)) : assoc id (assoc_remove id l) = None.
Proof.
  induction l as [|[k v] l IH]; cbn; auto. destruct (k =? id) eqn:E; cbn; [auto|rewrite E; auto].
Qed.

Lemma assoc_remove_other {X} id id' (l : list (Z * X)) : id <> id' -> assoc id' (assoc_remove id l) = assoc id' l.
Proof.
  intros H. induction l as [|[k v] l IH]; cbn; auto.
  destruct (k =? id) eqn:E; cbn.
  - assert (k = id) by lia. subst k. destruct (id =? id') eqn:E2; [lia|auto].
  - destruct (k =? id'); auto.
Qed.

Lemma assoc_In {X} id (x : X) l : assoc id l = Some x -> In (id, x) l.
Proof.
  induction l as [|[k v] l IH]; cbn; [discriminate|].
  destruct (k =? id) eqn:E; intros H.
  - inversion H. subst. left. f_equal. lia.
  - right. auto.
Qed.

Lemma assoc_None_notin {X} id (l : list (Z * X)) : assoc id l = None -> forall x, ~ In (id, x) l.
Proof.
  induction l as [|[k v] l IH]; cbn; intros H x; [tauto|].
  destruct (k =? id) eqn:E; [discriminate|]. intros [Hin|Hin]; [inversion Hin; lia|exact (IH H x Hin)].
Qed.

Lemma assoc_app_none {X} id (l l' : list (Z * X)) : assoc id l = None -> assoc id (l ++ l') = assoc id l'.
Proof.
  induction l as [|[k v] l IH]; cbn; auto. destruct (k =? id); [discriminate|auto].
Qed.

Lemma assoc_app_some {X} id (x : X) (l l' : list (Z * X)) : assoc id l = Some x -> assoc id (l ++ l') = Some x.
Proof.
  induction l as [|[k v] l IH]; cbn; [discriminate|]. destruct (k =? id); auto.
Qed.

Lemma In_assoc_remove {X} id (e : Z * X) l : In e (assoc_remove id l) -> In e l /\ fst e <> id.
Proof.
  induction l as [|[k v] l IH]; cbn; [tauto|].
  destruct (k =? id) eqn:E.
  - intros H. destruct (IH H). split; auto.
  - intros [H|H]; [subst e; cbn; split; [auto|lia]|destruct (IH H); split; auto].
Qed.

Lemma In_assoc_remove_intro {X} id (e : Z * X) l : In e l -> fst e <> id -> In e (assoc_remove id l).
Proof.
  induction l as [|[k v] l IH]; cbn; [tauto|].
  intros [H|H] Hne.
  - subst e. cbn in Hne. destruct (k =? id) eqn:E; [lia|left; auto].
  - destruct (k =? id); [|right]; auto.
Qed.

Lemma In_assoc_set {X} id (x : X) (e : Z * X) l : In e (assoc_set id x l) -> In e l \/ e = (id, x).
Proof.
  induction l as [|[k v] l IH]; cbn.
  - intros [H|[]]; auto.
  - destruct (k =? id) eqn:E; cbn.
    + intros [H|H]; [right; rewrite <- H; f_equal; lia|left; auto].
    + intros [H|H]; [left; auto|destruct (IH H); auto].
Qed.

Lemma mem_nat_In n l : mem_nat n l = true <-> In n l.
Proof.
  induction l as [|x l IH]; cbn; [split; [discriminate|tauto]|].
  rewrite orb_true_iff, IH, Nat.eqb_eq. tauto.
Qed.

Lemma mem_z_In n l : mem_z n l = true <-> In n l.
Proof.
  induction l as [|x l IH]; cbn; [split; [discriminate|tauto]|].
  rewrite orb_true_iff, IH, Z.eqb_eq. tauto.
Qed.

Lemma in_seq_nat n k : In k (seq_nat n) <-> (k < n)%nat.
Proof.
  induction n as [|n IH]; cbn; [split; [tauto|lia]|].
  rewrite in_app_iff, IH. cbn. lia.
Qed.

Lemma forallb_seq_nat (f : nat -> bool) n : forallb f (seq_nat n) = true <-> (forall k, (k < n)%nat -> f k = true).
Proof.
  rewrite forallb_forall. split; intros H k Hk; apply H; apply in_seq_nat; auto.
Qed.

(* ------------------------------------------------------------------ record projections *)
Lemma cn_with_cn s sd c : cn (with_cn s sd c) sd = c.
Proof. destruct sd; reflexivity. Qed.
Lemma cn_with_cn_other s sd sd' c : sd <> sd' -> cn (with_cn s sd c) sd' = cn s sd'.
Proof. destruct sd, sd'; intros H; try reflexivity; congruence. Qed.
Lemma side_eqb_refl sd : side_eqb sd sd = true.
Proof. destruct sd; reflexivity. Qed.
Lemma side_eqb_eq a b : side_eqb a b = true <-> a = b.
Proof. destruct a, b; cbn; split; intros; congruence. Qed.
Lemma side_eq_dec (a b : side) : {a = b} + {a <> b}.
Proof. decide equality. Qed.

Lemma other_neq sd : sd <> other sd.
Proof. destruct sd; discriminate. Qed.
