(* C09 -- composite preservation lemmas for the cache=False branches: an entry is written into the weak
   dict under the lock (put line "P155", created line "K183"); a dead weak entry is deleted under the
   lock (get line "F142"). *)
From Coq Require Import List ZArith Bool Arith Lia.
From Model Require Import CacheConc CacheConcSpec.
From Proofs Require Import CacheConcBase CacheConcFields CacheConcIdent CacheConcSteps.
Import ListNotations.

Lemma wabs_holds : forall p, wabs p = true -> holds p = true.
Proof. destruct p; simpl; intros; try discriminate; reflexivity. Qed.

(* ------------------------------------------------------------------ F: an entry is written into the weak dict by the
   lock holder; neither dict has the key *)
Section WeakSet.
Variables (s s' : state) (t : nat) (th' : thread) (i : Z) (o : nat).
Hypothesis Hinv : Inv s.
Hypothesis Ht : t < s_n s.
Hypothesis Hn : s_n s' = s_n s.
Hypothesis Hthr : s_thr s' = upd (s_thr s) t th'.
Hypothesis Es : s_strong s' = s_strong s.
Hypothesis Ew : s_weak s' = dset (s_weak s) i o.
Hypothesis El : s_lock s' = s_lock s.
Hypothesis Eh : s_heap s' = s_heap s.
Hypothesis Eo : s_nextobj s' = s_nextobj s.
Hypothesis Ee : s_epoch s' = s_epoch s.
Hypothesis Eu : s_unmod s' = s_unmod s.
Let th := s_thr s t.

Hypothesis Hs_none : dget (s_strong s) i = None.
Hypothesis Hw_none : dget (s_weak s) i = None.
Hypothesis Ho : o < s_nextobj s.
Hypothesis Hk : o_key (s_heap s o) = i.
Hypothesis Hmv : mov_of th = None.

Variable new : option (Z * nat * nat).
Hypothesis O_val : ref_ok s (t_val th').
Hypothesis O_self : ref_ok s (t_self th').
Hypothesis O_slots : forall o i e, In (RObj o i e) (t_slots th') -> o < s_nextobj s.
Hypothesis O_cobj : ref_ok s (t_cobj th').
Hypothesis O_cull : cullpc (t_pc th') = false.
Hypothesis O_deadw : deadw th' = None.
Hypothesis O_holds : holds (t_pc th') = holds (t_pc th).
Hypothesis O_wl : forall o, o < s_nextobj s -> (wl th' o <-> wl th o).
Hypothesis O_sabs : sabs (t_pc th') = false.
Hypothesis O_wabs : wabs (t_pc th') = false.
Hypothesis O_valdef : valdef (t_pc th') = true -> t_val th' <> None.
Hypothesis O_valkey : forall o, (valdef (t_pc th') || tagged (t_pc th')) = true -> t_val th' = Some o ->
                        o_key (s_heap s o) = t_id th'.
Hypothesis O_selfkey : forall o, creating (t_pc th') = true -> t_self th' = Some o -> o_key (s_heap s o) = t_id th'.
Hypothesis O_selfdef : selfdef (t_pc th') = true -> t_self th' <> None.
Hypothesis O_exc : exc_ok th'.
Hypothesis O_noexc : forall x, In (RExc x) (t_slots th') -> x = NotFound.
Hypothesis O_core : core_pc (t_pc th') = true.
Hypothesis O_all : forall o, In o (t_all th') \/ In o (t_items th') -> o < s_nextobj s.
Hypothesis L_holds : holds (t_pc th) = true.
Hypothesis L_xwin : xwinpc (t_pc th) = false.
Hypothesis O_iterpc : iterpc (t_pc th') = false.
Hypothesis O_mov : mov_of th' = None.
Hypothesis O_new : forall i o e, hold_th th' i o e -> hold_th th i o e \/ new = Some (i, o, e).
Hypothesis O_newis : forall i0 o0 e0, new = Some (i0, o0, e0) -> i0 = i /\ o0 = o /\ e0 = s_epoch s i.
Hypothesis O_f121 : t_pc th' <> F121.

Lemma reg_wset_mono : forall i' o', registered s i' o' -> registered s' i' o'.
Proof.
  intros i' o' [A | [A | (x & Hx & A)]].
  - left. now rewrite Es.
  - right. left. rewrite Ew. rewrite dget_dset_other; [assumption | congruence].
  - destruct (Nat.eq_dec x t) as [-> | Hne].
    + fold th in A. congruence.
    + right. right. exists x. rewrite Hn. split; [assumption |].
      now rewrite (thr_other s s' t th' Hthr) by assumption.
Qed.

Lemma inv_weak_set : Inv s'.
Proof.
  assert (Hother : forall x, x < s_n s -> x <> t -> holds (t_pc (s_thr s x)) = false).
  { intros x Hx Hne. exact (others_unlocked s t x Hinv Ht Hx Hne L_holds). }
  assert (Hnewc : forall i0 o0 e0, new = Some (i0, o0, e0) ->
            e0 = s_epoch s i0 /\ forall o', registered s i0 o' -> o' = o0).
  { intros i0 o0 e0 H. destruct (O_newis _ _ _ H) as (-> & -> & ->). split; [reflexivity |].
    intros o' [A | [A | (x & Hx & A)]]; try congruence.
    destruct (Nat.eq_dec x t) as [-> | Hne].
    - fold th in A. congruence.
    - destruct (mov_core s x i o' Hinv Hx A) as (Hh & _). rewrite (Hother x Hx Hne) in Hh. discriminate. }
  assert (Hep : forall j, s_epoch s j <= s_epoch s' j) by (intros; rewrite Ee; lia).
  assert (K : keys_kept s s') by (intros o1 _; now rewrite Eh).
  constructor.
  - use f_w_strong. lia.
  - intros k o1 H. rewrite Ew in H. rewrite Eo. destruct (Z.eq_dec k i) as [-> | Hne].
    + rewrite dget_dset_same in H. injection H as E. rewrite <- E. assumption.
    + rewrite dget_dset_other in H by assumption. eapply inv_w_weak; eauto.
  - use f_w_thr; unfold ref_ok in *; rewrite ?Eo; auto; lia.
  - use f_w_cobj; unfold ref_ok in *; rewrite ?Eo; auto; lia.
  - use f_w_all; [lia |]. now rewrite Eo.
  - use f_key_strong.
  - intros k o1 H. rewrite Ew in H. rewrite Eh. destruct (Z.eq_dec k i) as [-> | Hne].
    + rewrite dget_dset_same in H. injection H as E. rewrite <- E. assumption.
    + rewrite dget_dset_other in H by assumption. eapply inv_key_weak; eauto.
  - use f_lock. now apply lc_same.
  - use f_lock_dom. now apply lc_same.
  - intros x o1 Hx Ho1. use f_wlock; try lia.
    + apply wc_same; [intros; now rewrite Eh | assumption].
    + intros o2 H1 H2. lia.
  - use f_wlock_dom; try lia.
    + apply wc_same; [intros; now rewrite Eh | assumption].
    + intros o2 H1 H2. lia.
    + intros; now rewrite Eh.
  - use f_sabs. congruence.
  - intros x Hx S. rewrite Hn in Hx. destruct (Nat.eq_dec x t) as [-> | Hne].
    + rewrite (thr_same s s' t th' Hthr) in S. congruence.
    + rewrite (thr_other s s' t th' Hthr) in * by assumption. exfalso.
      apply wabs_holds in S. rewrite (Hother x Hx Hne) in S. discriminate.
  - rewrite Es. apply (inv_nodup_strong s Hinv).
  - rewrite Ew. apply nodup_dset. apply (inv_nodup_weak s Hinv).
  - intros k o1 H. rewrite Es in H. rewrite Ew. destruct (Z.eq_dec k i) as [-> | Hne]; [congruence |].
    rewrite dget_dset_other by assumption. left. eapply disj_strict; eauto.
  - use f_valdef.
  - use f_valkey. intros o1. rewrite Eh. apply O_valkey.
  - use f_selfkey. intros o1. rewrite Eh. apply O_selfkey.
  - use f_selfdef.
  - use f_exc.
  - use f_ep_le.
  - use f_ident.
  - use f_reg.
    + intros i' o' _ _ R. now apply reg_wset_mono.
    + intros i0 o0 e0 H _. destruct (O_newis _ _ _ H) as (-> & -> & _). right. left. rewrite Ew. apply dget_dset_same.
  - use f_f121; try (now right). intros o1 P. contradiction.
  - eapply f_deadw with (s := s) (new := new); try eassumption.
    + now right.
    + intros i0 o0 e0 H x k Hx Hne D E. destruct (O_newis _ _ _ H) as (-> & _). subst k.
      destruct (inv_deadw s Hinv x i Hx D) as (Q & _). congruence.
    + left. intros. now rewrite Ee.
    + intros k D. congruence.
  - use f_cull.
    + intros x Hx Hne C. rewrite Eh. eapply cull_ok_unlocked; [| exact C]. now apply Hother.
    + rewrite Eh. now apply cull_ok_none.
  - use f_iter.
    + intros x Hx Hne C. eapply iter_ok_unlocked; [| exact C]. now apply Hother.
    + now apply iter_ok_none.
  - use f_noexc.
  - rewrite Eu. apply (inv_unmod s Hinv).
  - use f_scope.
Qed.

End WeakSet.

(* ------------------------------------------------------------------ G: get without caching, line 142: the lock holder
   deletes the weak entry of its id, whose referent is dead (guard: seen_dead_still) *)
Section WeakDel.
Variables (s s' : state) (t : nat) (od : nat).
Hypothesis Hinv : Inv s.
Hypothesis Ht : t < s_n s.
Let th := s_thr s t.
Hypothesis Hpc : t_pc th = F142.
Hypothesis Hn : s_n s' = s_n s.
Hypothesis Hthr : s_thr s' = upd (s_thr s) t (set_pc th F143).
Hypothesis Es : s_strong s' = s_strong s.
Hypothesis Ew : s_weak s' = ddel (s_weak s) (t_id th).
Hypothesis El : s_lock s' = s_lock s.
Hypothesis Eh : s_heap s' = s_heap s.
Hypothesis Eo : s_nextobj s' = s_nextobj s.
Hypothesis Ee : s_epoch s' = s_epoch s.
Hypothesis Eu : s_unmod s' = s_unmod s.
Hypothesis Hstrong : s_strong s = [].
Hypothesis Hdead : dget (s_weak s) (t_id th) = Some od.
Hypothesis Hdead2 : aliveb s od = false.

Lemma inv_weak_del : Inv s'.
Proof.
  pose proof (thr_same s s' t (set_pc th F143) Hthr) as Tsame.
  assert (Hep : forall j, s_epoch s j <= s_epoch s' j) by (intros; rewrite Ee; lia).
  assert (K : keys_kept s s') by (intros o1 _; now rewrite Eh).
  assert (Hnewc : forall i0 o0 e0, @None (Z * nat * nat) = Some (i0, o0, e0) ->
            e0 = s_epoch s i0 /\ forall o', registered s i0 o' -> o' = o0) by discriminate.
  assert (Hnew : forall i o e, hold_th (set_pc th F143) i o e -> hold_th th i o e \/ None = Some (i, o, e)).
  { intros i o e [A | A]; [left; now left |]. unfold inflight in A. simpl in A. discriminate. }
  destruct (inv_w_thr s Hinv t Ht) as (Rv & Rs & Rl). fold th in Rv, Rs, Rl.
  assert (Hholds : holds (t_pc th) = true) by now rewrite Hpc.
  assert (Hother : forall x, x < s_n s -> x <> t -> holds (t_pc (s_thr s x)) = false).
  { intros x Hx Hne. exact (others_unlocked s t x Hinv Ht Hx Hne Hholds). }
  assert (Hwsome : forall j o, dget (s_weak s') j = Some o -> dget (s_weak s) j = Some o).
  { intros j o H. rewrite Ew in H. eapply dget_ddel_some; eauto. apply (inv_nodup_weak s Hinv). }
  constructor.
  - use f_w_strong. lia.
  - intros j o H. rewrite Eo. eapply inv_w_weak; eauto.
  - use f_w_thr; unfold ref_ok in *; rewrite ?Eo; auto; lia.
  - use f_w_cobj; [lia |]. simpl. unfold ref_ok. rewrite Eo. apply (inv_w_cobj s Hinv t Ht).
  - use f_w_all; [lia |]. simpl. rewrite Eo. intros o X. exact (inv_w_all s Hinv t o Ht X).
  - use f_key_strong.
  - intros j o H. rewrite Eh. eapply inv_key_weak; eauto.
  - use f_lock. apply lc_same; [assumption | simpl; fold th; now rewrite Hpc].
  - use f_lock_dom. apply lc_same; [assumption | simpl; fold th; now rewrite Hpc].
  - intros x o1 Hx Ho1. use f_wlock; try lia.
    + apply wc_same; [intros; now rewrite Eh |]. intros o2 _. unfold wl. simpl. fold th. rewrite Hpc. simpl. tauto.
    + intros o2 H1 H2. lia.
  - use f_wlock_dom; try lia.
    + apply wc_same; [intros; now rewrite Eh |]. intros o2 _. unfold wl. simpl. fold th. rewrite Hpc. simpl. tauto.
    + intros o2 H1 H2. lia.
    + intros; now rewrite Eh.
  - use f_sabs. simpl. discriminate.
  - intros x Hx S. rewrite Hn in Hx. rewrite Ew. destruct (Nat.eq_dec x t) as [-> | Hne].
    + rewrite Tsame. simpl. apply dget_ddel_same. apply (inv_nodup_weak s Hinv).
    + rewrite (thr_other s s' t _ Hthr) in * by assumption. apply dget_ddel_none. now apply (inv_wabs s Hinv).
  - rewrite Es. apply (inv_nodup_strong s Hinv).
  - rewrite Ew. apply nodup_ddel. apply (inv_nodup_weak s Hinv).
  - intros j o H. rewrite Es, Hstrong in H. discriminate.
  - use f_valdef. simpl. discriminate.
  - use f_valkey. simpl. discriminate.
  - use f_selfkey. simpl. discriminate.
  - use f_selfdef. simpl. discriminate.
  - use f_exc. destruct (inv_exc s Hinv t Ht) as [A | (_ & [C | [C | C]])];
      [left; exact A | exfalso; fold th in C; congruence ..].
  - use f_ep_le.
  - use f_ident.
  - use f_reg; try discriminate.
    intros i o E Hh R.
    destruct R as [A | [A | (x & Hx & A)]].
    + rewrite Hstrong in A. discriminate.
    + destruct (Z.eq_dec i (t_id th)) as [-> | Hne].
      * exfalso. assert (o = od) by congruence. subst o.
        apply holder_alive in Hh. congruence.
      * right. left. rewrite Ew. now rewrite dget_ddel_other by assumption.
    + destruct (Nat.eq_dec x t) as [-> | Hne].
      * fold th in A. unfold mov_of in A. rewrite Hpc in A. discriminate.
      * exfalso. destruct (mov_core s x i o Hinv Hx A) as (Hh2 & _). rewrite (Hother x Hx Hne) in Hh2. discriminate.
  - use f_f121; try discriminate; try (now right).
  - eapply f_deadw with (s := s) (new := @None (Z * nat * nat)); try eassumption; try discriminate; try (now right).
  - use f_cull.
    + intros x Hx Hne C. rewrite Eh. eapply cull_ok_unlocked; [| exact C]. now apply Hother.
    + apply cull_ok_none. reflexivity.
  - use f_iter.
    + intros x Hx Hne C. eapply iter_ok_unlocked; [| exact C]. now apply Hother.
    + apply iter_ok_none. reflexivity.
  - use f_noexc. simpl. intros x H. exact (inv_noexc s Hinv t x Ht H).
  - rewrite Eu. apply (inv_unmod s Hinv).
  - use f_scope. reflexivity.
Qed.

End WeakDel.
