(* C14_skeleton: reading back the CREATE TABLE tokens of any valid
   declaration gives the skeleton the declaration denotes -- for every dialect,
   by induction on the column list. *)
From Coq Require Import List ZArith NArith Bool String Ascii Lia.
From Model Require Import Ddl.
From Proofs Require Import DdlBase.
Import ListNotations.
Open Scope string_scope.
Open Scope list_scope.
Open Scope N_scope.

Definition norm_flags (f : flags) : flags :=
  if f_pk f then {| f_nn := true; f_uq := true; f_pk := true |} else f.

(* ------------------------------------------------------------------ one column definition, generically *)
Lemma col_shape : forall db pre mid post f r,
  name_ok db = true ->
  cleanc is_flag_word O pre = Some O ->
  frun (fst_ O no_flags) mid = Some (fst_ O f) -> cleanc is_ref_word O mid = Some O ->
  cleanc is_fstep_word O post = Some O -> find_ref O post = Some r ->
  read_seg (W db :: pre ++ mid ++ post) =
    Some (SegCol {| k_name := db; k_nn := f_nn (norm_flags f); k_uq := f_uq (norm_flags f);
                    k_pk := f_pk (norm_flags f) |} r)
  /\ bal (W db :: pre ++ mid ++ post).
Proof.
  intros db pre mid post f r Hn Hpre Hmid Hmidr Hpost Hpostr.
  apply name_ok_inv in Hn. destruct Hn as [_ Hres].
  destruct (reserved_split _ Hres) as (Hfl & Hfor & _ & _).
  split.
  - unfold read_seg. rewrite Hfor, Hres.
    assert (Hflags : read_flags (pre ++ mid ++ post) = Some (norm_flags f)).
    { unfold read_flags. change fs0 with (fst_ O no_flags).
      rewrite frun_app.
      rewrite (frun_neutral pre O O no_flags (cleanc_mono _ _ flag_fstep _ _ _ Hpre)).
      rewrite frun_app, Hmid.
      rewrite (frun_neutral post O O f Hpost). unfold fst_, norm_flags. reflexivity. }
    assert (Href : find_ref O (pre ++ mid ++ post) = Some r).
    { rewrite (find_ref_skip pre _ O O (cleanc_mono _ _ flag_ref _ _ _ Hpre)).
      rewrite (find_ref_skip mid _ O O Hmidr). exact Hpostr. }
    rewrite Hflags, Href. reflexivity.
  - unfold bal. change (W db :: pre ++ mid ++ post) with ([W db] ++ (pre ++ (mid ++ post))).
    rewrite cleanc_app. change (cleanc no_word O [W db]) with (Some O). cbv iota beta.
    rewrite cleanc_app, (cleanc_mono is_flag_word no_word (fun _ _ => eq_refl) _ _ _ Hpre).
    rewrite cleanc_app, (cleanc_mono is_ref_word no_word (fun _ _ => eq_refl) _ _ _ Hmidr).
    exact (cleanc_mono is_fstep_word no_word (fun _ _ => eq_refl) _ _ _ Hpost).
Qed.

(* ------------------------------------------------------------------ _extraSQL *)
Definition add_extra (f : flags) (c : coldecl) : flags :=
  {| f_nn := f_nn f || spec_notnull c; f_uq := f_uq f || spec_unique c; f_pk := f_pk f |}.

Definition defsql_safe (c : coldecl) : bool :=
  match c_defsql c with Some t => safe_toks t | None => true end.

Lemma safe_toks_inv : forall t, safe_toks t = true -> cleanc is_flag_word O t = Some O.
Proof.
  intros t H. unfold safe_toks in H. destruct (cleanc is_flag_word O t) as [[|n]|]; try discriminate. reflexivity.
Qed.

Lemma frun_notnull : forall f,
  frun (fst_ O f) (kws ["NOT"; "NULL"]) = Some (fst_ O {| f_nn := true; f_uq := f_uq f; f_pk := f_pk f |}).
Proof. intros. vm_compute. reflexivity. Qed.
Lemma frun_unique : forall f,
  frun (fst_ O f) [kw "UNIQUE"] = Some (fst_ O {| f_nn := f_nn f; f_uq := true; f_pk := f_pk f |}).
Proof. intros. vm_compute. reflexivity. Qed.
Lemma frun_default : forall f t, cleanc is_flag_word O t = Some O ->
  frun (fst_ O f) (kw "DEFAULT" :: t) = Some (fst_ O f).
Proof.
  intros f t H. apply frun_neutral.
  change (kw "DEFAULT" :: t) with ([kw "DEFAULT"] ++ t). rewrite cleanc_app.
  replace (cleanc is_fstep_word O [kw "DEFAULT"]) with (Some O) by (vm_compute; reflexivity).
  exact (cleanc_mono _ _ flag_fstep _ _ _ H).
Qed.
Lemma cref_default : forall t, cleanc is_flag_word O t = Some O ->
  cleanc is_ref_word O (kw "DEFAULT" :: t) = Some O.
Proof.
  intros t H. change (kw "DEFAULT" :: t) with ([kw "DEFAULT"] ++ t). rewrite cleanc_app.
  replace (cleanc is_ref_word O [kw "DEFAULT"]) with (Some O) by (vm_compute; reflexivity).
  exact (cleanc_mono _ _ flag_ref _ _ _ H).
Qed.

Lemma eff_unique_spec : forall c, eff_unique c || c_altid c = spec_unique c.
Proof.
  intros c. unfold eff_unique, spec_unique. destruct (c_unique c) as [[|]|], (c_altid c); reflexivity.
Qed.

Lemma extra_partA : forall (b : bool) f,
  frun (fst_ O f) (if b then kws ["NOT"; "NULL"] else []) =
    Some (fst_ O {| f_nn := f_nn f || b; f_uq := f_uq f; f_pk := f_pk f |})
  /\ cleanc is_ref_word O (if b then kws ["NOT"; "NULL"] else []) = Some O.
Proof.
  intros b f. destruct b.
  - rewrite frun_notnull, orb_true_r. split; [reflexivity|vm_compute; reflexivity].
  - rewrite orb_false_r. destruct f; split; reflexivity.
Qed.
Lemma extra_partB : forall (b : bool) f,
  frun (fst_ O f) (if b then [kw "UNIQUE"] else []) =
    Some (fst_ O {| f_nn := f_nn f; f_uq := f_uq f || b; f_pk := f_pk f |})
  /\ cleanc is_ref_word O (if b then [kw "UNIQUE"] else []) = Some O.
Proof.
  intros b f. destruct b.
  - rewrite frun_unique, orb_true_r. split; [reflexivity|vm_compute; reflexivity].
  - rewrite orb_false_r. destruct f; split; reflexivity.
Qed.
Lemma extra_partC : forall (o : option (list tok)) f,
  match o with Some t => safe_toks t | None => true end = true ->
  frun (fst_ O f) (match o with Some t => kw "DEFAULT" :: t | None => [] end) = Some (fst_ O f)
  /\ cleanc is_ref_word O (match o with Some t => kw "DEFAULT" :: t | None => [] end) = Some O.
Proof.
  intros [t|] f H.
  - apply safe_toks_inv in H. split; [apply frun_default; exact H|apply cref_default; exact H].
  - split; reflexivity.
Qed.

Lemma extra_ok : forall c f, defsql_safe c = true ->
  frun (fst_ O f) (extra_sql c) = Some (fst_ O (add_extra f c))
  /\ cleanc is_ref_word O (extra_sql c) = Some O.
Proof.
  intros c f Hs. unfold defsql_safe in Hs. unfold extra_sql.
  destruct (extra_partA (c_notnone c || c_altid c) f) as [A1 A2].
  destruct (extra_partB (eff_unique c || c_altid c)
              {| f_nn := f_nn f || (c_notnone c || c_altid c); f_uq := f_uq f; f_pk := f_pk f |}) as [B1 B2].
  destruct (extra_partC (c_defsql c)
              {| f_nn := f_nn f || (c_notnone c || c_altid c);
                 f_uq := f_uq f || (eff_unique c || c_altid c); f_pk := f_pk f |} Hs) as [C1 C2].
  split.
  - rewrite frun_app, A1, frun_app, B1. cbn [f_nn f_uq f_pk]. rewrite C1.
    unfold add_extra, spec_notnull. rewrite eff_unique_spec. reflexivity.
  - rewrite cleanc_app, A2, cleanc_app, B2. exact C2.
Qed.

(* ------------------------------------------------------------------ type names are neutral *)
Lemma cleanc_int_toks : forall bad z d, cleanc bad (S d) (int_toks z) = Some (S d).
Proof. intros bad z d. destruct z; reflexivity. Qed.

Lemma cleanc_paren : forall bad l d, cleanc bad (S d) l = Some (S d) -> cleanc bad d (paren l) = Some d.
Proof.
  intros bad l d H. unfold paren. change (LP :: l ++ [RP]) with ([LP] ++ l ++ [RP]).
  rewrite cleanc_app. cbn [cleanc]. change (cleanc bad (S d) (l ++ [RP])) with (cleanc bad (S d) (l ++ [RP])).
  rewrite cleanc_app, H. reflexivity.
Qed.

Lemma cleanc_ty_n : forall bad name z, bad (s2l name) = false -> cleanc bad O (ty_n name z) = Some O.
Proof.
  intros bad name z H. unfold ty_n, kw. change (W (s2l name) :: paren (int_toks z)) with ([W (s2l name)] ++ paren (int_toks z)).
  rewrite cleanc_app. cbn [cleanc]. rewrite H. apply cleanc_paren. apply cleanc_int_toks.
Qed.

Ltac flagw := vm_compute; reflexivity.

Lemma string_type_neutral : forall d cp len vc uni, cleanc is_flag_word O (string_type d cp len vc uni) = Some O.
Proof.
  intros d cp len vc uni. unfold string_type, mssql_string, string_sqltype.
  destruct d; destruct (len_truthy len); destruct (eff_varchar len vc); try destruct uni; try destruct (mssql_max cp);
    try (apply cleanc_ty_n; flagw); try flagw.
Qed.

Lemma opt_paren_neutral : forall (o : option Z),
  cleanc is_flag_word O (match o with Some z => if (1 <=? z)%Z then paren (int_toks z) else [] | None => [] end) = Some O.
Proof.
  intros [z|]; [|reflexivity]. destruct (1 <=? z)%Z; [|reflexivity].
  apply cleanc_paren. apply cleanc_int_toks.
Qed.

Lemma int_type_neutral : forall f len u z, cleanc is_flag_word O (int_type f len u z) = Some O.
Proof.
  intros f len u z. unfold int_type. rewrite cleanc_app.
  replace (cleanc is_flag_word O [kw (int_name f)]) with (Some O) by (destruct f; flagw).
  rewrite cleanc_app, opt_paren_neutral. destruct u, z; flagw.
Qed.

Lemma decimal_neutral : forall s p, cleanc is_flag_word O (decimal_type s p) = Some O.
Proof.
  intros s p. unfold decimal_type. change (kw "DECIMAL" :: paren (int_toks s ++ [Comma] ++ int_toks p))
    with ([kw "DECIMAL"] ++ paren (int_toks s ++ [Comma] ++ int_toks p)).
  rewrite cleanc_app. replace (cleanc is_flag_word O [kw "DECIMAL"]) with (Some O) by flagw.
  apply cleanc_paren. rewrite cleanc_app, cleanc_int_toks. cbn [app cleanc]. apply cleanc_int_toks.
Qed.

Lemma blob_neutral : forall d cp len, cleanc is_flag_word O (blob_type d cp len) = Some O.
Proof.
  intros d cp len. unfold blob_type.
  destruct d; try apply string_type_neutral.
  - destruct (len_truthy len); [|flagw].
    destruct (z24 <=? len_val len)%Z; [flagw|]. destruct (z16 <=? len_val len)%Z; [flagw|].
    destruct (z8 <=? len_val len)%Z; flagw.
  - flagw.
  - destruct (mssql_max cp); flagw.
Qed.

Lemma pickle_neutral : forall d cp len, cleanc is_flag_word O (pickle_type d cp len) = Some O.
Proof.
  intros d cp len. unfold pickle_type. destruct d; try apply blob_neutral.
  destruct (len_truthy len); [|flagw].
  destruct (z24 <=? len_val len)%Z; [flagw|]. destruct (z16 <=? len_val len)%Z; flagw.
Qed.

Lemma key_type_neutral : forall d t, cleanc is_flag_word O (key_type d t) = Some O.
Proof. intros d t. destruct d, t; flagw. Qed.

Lemma plain_type_neutral : forall d cp k ty,
  plain_type d cp k = Some ty -> kind_valid d k = true -> cleanc is_flag_word O ty = Some O.
Proof.
  intros d cp k ty H Hv. destruct k; cbn [plain_type] in H; inversion H; subst; clear H.
  - apply string_type_neutral.
  - apply string_type_neutral.
  - apply int_type_neutral.
  - destruct d; flagw.
  - destruct d; flagw.
  - unfold datetime_type. destruct d; try destruct (mysql_micro cp); try destruct (mssql_micro cp); flagw.
  - destruct d; flagw.
  - unfold time_type. destruct d; try destruct (mysql_micro cp); try destruct (mssql_micro cp); flagw.
  - unfold timestamp_type, datetime_type. destruct d; try destruct (mysql_micro cp); try destruct (mssql_micro cp); flagw.
  - apply decimal_neutral.
  - apply blob_neutral.
  - apply pickle_neutral.
  - destruct d; flagw.
  - apply key_type_neutral.
  - cbn [kind_valid] in Hv. apply safe_toks_inv. exact Hv.
Qed.

(* ------------------------------------------------------------------ enum value lists *)
Lemma cleanc_lit_toks : forall bad d v n, cleanc bad (S n) (lit_toks d v) = Some (S n).
Proof.
  intros bad d v n. unfold lit_toks. destruct v as [s|]; [|reflexivity].
  destruct (sqlrepr_str (enum_conv d) s) as [e body]. destruct e; [destruct d|]; reflexivity.
Qed.

Lemma cleanc_enum_list : forall bad d vs n, cleanc bad (S n) (enum_list d vs) = Some (S n).
Proof.
  intros. unfold enum_list. apply cleanc_lits. intros l Hl n'.
  apply in_map_iff in Hl. destruct Hl as [v [E _]]. subst. apply cleanc_lit_toks.
Qed.

Lemma enum_check_neutral : forall d db vs, cleanc is_flag_word O (enum_check d db vs) = Some O.
Proof.
  intros. unfold enum_check.
  change (kw "CHECK" :: paren (W db :: kw "in" :: paren (enum_list d vs)))
    with ([kw "CHECK"] ++ paren ([W db; kw "in"] ++ paren (enum_list d vs))).
  rewrite cleanc_app. replace (cleanc is_flag_word O [kw "CHECK"]) with (Some O) by flagw.
  apply cleanc_paren. rewrite cleanc_app. cbn [cleanc kw]. apply cleanc_paren. apply cleanc_enum_list.
Qed.

Lemma enum_type_neutral : forall d vs, cleanc is_flag_word O (kw "ENUM" :: paren (enum_list d vs)) = Some O.
Proof.
  intros. change (kw "ENUM" :: paren (enum_list d vs)) with ([kw "ENUM"] ++ paren (enum_list d vs)).
  rewrite cleanc_app. replace (cleanc is_flag_word O [kw "ENUM"]) with (Some O) by flagw.
  apply cleanc_paren. apply cleanc_enum_list.
Qed.

(* ------------------------------------------------------------------ what a column definition reads as *)
Definition inline_ref (d : dialect) (c : coldecl) : option refsk :=
  match c_kind c with
  | KFk t cs rc =>
      match d with
      | Sqlite => Some {| r_table := fk_table t; r_col := ref_idname t rc; r_action := action_of cs |}
      | Sybase | Mssql => Some {| r_table := fk_table t; r_col := ref_idname t rc; r_action := None |}
      | _ => None
      end
  | _ => None
  end.

Definition col_read (d : dialect) (st : style) (c : coldecl) : list seg :=
  SegCol (col_skeleton st c) (inline_ref d c) ::
  match c_kind c, d with
  | KFk t cs rc, Maxdb =>
      [SegFk {| f_col := dbname_of st c;
                f_ref := {| r_table := fk_table t; r_col := ref_idname t rc; r_action := None |} |}]
  | _, _ => []
  end.

Definition col_guard (d : dialect) (c : coldecl) : bool :=
  match d with
  | Mysql => negb (mysql_enum_forced_nn c)
  | Maxdb => negb (maxdb_fk_drops_extra c)
  | _ => true
  end.

Lemma add_extra_no_flags : forall c,
  add_extra no_flags c = {| f_nn := spec_notnull c; f_uq := spec_unique c; f_pk := false |}.
Proof. reflexivity. Qed.

(* the common case: name, neutral type, _extraSQL, a tail *)
Lemma col_std : forall st c pre post r,
  name_ok (dbname_of st c) = true -> defsql_safe c = true ->
  cleanc is_flag_word O pre = Some O ->
  cleanc is_fstep_word O post = Some O -> find_ref O post = Some r ->
  read_seg (W (dbname_of st c) :: pre ++ extra_sql c ++ post) = Some (SegCol (col_skeleton st c) r)
  /\ bal (W (dbname_of st c) :: pre ++ extra_sql c ++ post).
Proof.
  intros st c pre post r Hn Hs Hpre Hpost Hr.
  destruct (extra_ok c no_flags Hs) as [E1 E2].
  destruct (col_shape (dbname_of st c) pre (extra_sql c) post _ r Hn Hpre E1 E2 Hpost Hr) as [A B].
  split; [|exact B]. rewrite A. reflexivity.
Qed.

Lemma read_action_ok : forall cs, read_action (action_toks cs) = Some (action_of cs).
Proof. destruct cs; vm_compute; reflexivity. Qed.

Lemma action_fstep_clean : forall cs, cleanc is_fstep_word O (action_toks cs) = Some O.
Proof. destruct cs; vm_compute; reflexivity. Qed.

Lemma col_valid_inv : forall d st c, col_valid d st c = true ->
  name_ok (dbname_of st c) = true /\ kind_valid d (c_kind c) = true /\ defsql_safe c = true.
Proof.
  intros d st c H. unfold col_valid in H.
  apply andb_true_iff in H. destruct H as [H H3]. apply andb_true_iff in H. destruct H as [H1 H2].
  repeat split; assumption.
Qed.

Lemma name_fstep : forall w, name_ok w = true -> is_fstep_word w = false.
Proof.
  intros w H. apply name_ok_inv in H. destruct H as [_ H].
  apply reserved_split in H. destruct H as [H _]. apply flag_fstep. exact H.
Qed.
Lemma name_ref : forall w, name_ok w = true -> is_ref_word w = false.
Proof.
  intros w H. apply name_ok_inv in H. destruct H as [_ H].
  apply reserved_split in H. destruct H as [H _]. apply flag_ref. exact H.
Qed.

Lemma exists_fstep : forall db, is_fstep_word (db ++ s2l "_exists") = false.
Proof.
  intros db. unfold is_fstep_word.
  assert (H : In c_us (db ++ s2l "_exists")) by (apply in_app_us).
  rewrite !(kw_is_us _ _ H) by reflexivity. reflexivity.
Qed.
Lemma exists_ref : forall db, is_ref_word (db ++ s2l "_exists") = false.
Proof.
  intros db. unfold is_ref_word. apply kw_is_us; [apply in_app_us|reflexivity].
Qed.

(* ------------------------------------------------------------------ every column, every dialect *)
Lemma one_seg : forall s sk, read_seg s = Some sk /\ bal s ->
  Forall bal [s] /\ all_some (map read_seg [s]) = Some [sk].
Proof. intros s sk [A B]. split; [constructor; [exact B|constructor]|]. cbn. rewrite A. reflexivity. Qed.

Lemma col_plain : forall (d : dialect) (cp : caps) st c ty,
  col_valid d st c = true ->
  cleanc is_flag_word O ty = Some O ->
  Forall bal [W (dbname_of st c) :: ty ++ extra_sql c]
  /\ all_some (map read_seg [W (dbname_of st c) :: ty ++ extra_sql c]) = Some [SegCol (col_skeleton st c) None].
Proof.
  intros d cp st c ty Hv Hty. destruct (col_valid_inv _ _ _ Hv) as (Hn & _ & Hs).
  apply one_seg. rewrite <- (app_nil_r (extra_sql c)).
  apply col_std; try assumption; reflexivity.
Qed.

Lemma fk_refs_tail : forall t idn act a,
  name_ok t = true -> read_action act = Some a -> cleanc is_fstep_word O act = Some O ->
  cleanc is_fstep_word O ([kw "REFERENCES"; W t; LP; W idn; RP] ++ act) = Some O
  /\ find_ref O ([kw "REFERENCES"; W t; LP; W idn; RP] ++ act)
     = Some (Some {| r_table := t; r_col := idn; r_action := a |}).
Proof.
  intros t idn act a Ht Ha Hc. split.
  - change ([kw "REFERENCES"; W t; LP; W idn; RP] ++ act) with ([kw "REFERENCES"] ++ [W t] ++ [LP; W idn; RP] ++ act).
    rewrite cleanc_app. replace (cleanc is_fstep_word O [kw "REFERENCES"]) with (Some O) by flagw.
    rewrite cleanc_app. cbn [cleanc]. rewrite (name_fstep _ Ht).
    rewrite cleanc_app. cbn [cleanc]. exact Hc.
  - cbn [app find_ref kw].
    replace (kw_is (s2l "REFERENCES") "REFERENCES") with true by flagw.
    unfold read_ref_at. rewrite Ha. reflexivity.
Qed.

Lemma col_ok : forall d cp st c, col_valid d st c = true -> col_guard d c = true ->
  exists ss, col_segs d cp st c = Some ss /\ Forall bal ss
             /\ all_some (map read_seg ss) = Some (col_read d st c).
Proof.
  intros d cp st c Hv Hg.
  destruct (col_valid_inv _ _ _ Hv) as (Hn & Hk & Hs).
  unfold col_segs, col_read, inline_ref.
  destruct (c_kind c) eqn:K;
    try (match goal with
         | |- context [plain_type d cp ?k] =>
             let ty := fresh "ty" in
             destruct (plain_type d cp k) as [ty|] eqn:P; [|cbn in P; discriminate];
             eexists; split; [reflexivity|];
             assert (Hd : match d with Maxdb => @nil seg | _ => [] end = []) by (destruct d; reflexivity);
             try rewrite Hd;
             replace (match d with Sqlite => @None refsk | _ => None end) with (@None refsk) by (destruct d; reflexivity);
             apply (col_plain d cp st c ty Hv); exact (plain_type_neutral d cp k ty P Hk)
         end).
  - (* enum *)
    rename vals into vs. cbn [kind_valid] in Hk. apply andb_true_iff in Hk. destruct Hk as [Hmax Hemp].
    assert (Hpre : forall n, cleanc is_flag_word O (ty_n "VARCHAR" n) = Some O)
      by (intro n; apply cleanc_ty_n; flagw).
    destruct d; try discriminate Hmax.
    + (* sqlite *)
      destruct vs as [|v vs]; [discriminate Hemp|].
      eexists; split; [reflexivity|]. apply one_seg.
      rewrite app_assoc. rewrite <- (app_nil_r (extra_sql c)).
      apply col_std; try assumption; try reflexivity.
      rewrite cleanc_app, Hpre. apply enum_check_neutral.
    + (* mysql *)
      assert (E : col_segs Mysql cp st c =
                  Some [W (dbname_of st c) :: (kw "ENUM" :: paren (enum_list Mysql (not_none_vals vs)))
                          ++ ((if negb (has_none vs) then kws ["NOT"; "NULL"] else []) ++ extra_sql c) ++ []]).
      { unfold col_segs. rewrite K. rewrite app_nil_r. destruct vs as [|v vs]; [reflexivity|].
        destruct (has_none (v :: vs)); reflexivity. }
      unfold col_segs in E. rewrite K in E. rewrite E. eexists; split; [reflexivity|]. apply one_seg.
      destruct (extra_partA (negb (has_none vs)) no_flags) as [A1 A2].
      destruct (extra_ok c {| f_nn := f_nn no_flags || negb (has_none vs); f_uq := f_uq no_flags; f_pk := f_pk no_flags |} Hs)
        as [E1 E2].
      assert (F : frun (fst_ O no_flags) ((if negb (has_none vs) then kws ["NOT"; "NULL"] else []) ++ extra_sql c)
                  = Some (fst_ O {| f_nn := spec_notnull c; f_uq := spec_unique c; f_pk := false |})).
      { rewrite frun_app, A1, E1. unfold add_extra. cbn [f_nn f_uq f_pk no_flags orb].
        cbn [col_guard] in Hg. unfold mysql_enum_forced_nn in Hg. rewrite K in Hg.
        destruct (has_none vs), (spec_notnull c); cbn in Hg |- *; try reflexivity; discriminate. }
      assert (R : cleanc is_ref_word O ((if negb (has_none vs) then kws ["NOT"; "NULL"] else []) ++ extra_sql c) = Some O).
      { rewrite cleanc_app, A2. exact E2. }
      destruct (col_shape (dbname_of st c) _ _ [] _ None Hn (enum_type_neutral Mysql (not_none_vals vs)) F R eq_refl eq_refl)
        as [X Y].
      split; [|exact Y]. rewrite X. reflexivity.
    + (* postgres *)
      destruct vs as [|v vs]; [discriminate Hemp|].
      eexists; split; [reflexivity|]. apply one_seg.
      rewrite app_assoc. rewrite <- (app_nil_r (extra_sql c)).
      apply col_std; try assumption; try reflexivity.
      rewrite cleanc_app, Hpre. apply enum_check_neutral.
    + (* firebird *)
      destruct vs as [|v vs]; [discriminate Hemp|].
      eexists; split; [reflexivity|]. apply one_seg.
      apply col_std; try assumption; try apply Hpre.
      * exact (cleanc_mono _ _ flag_fstep _ _ _ (enum_check_neutral _ _ _)).
      * apply find_ref_none. exact (cleanc_mono _ _ flag_ref _ _ _ (enum_check_neutral _ _ _)).
    + (* mssql *)
      destruct vs as [|v vs]; [discriminate Hemp|].
      eexists; split; [reflexivity|]. apply one_seg.
      rewrite app_assoc. rewrite <- (app_nil_r (extra_sql c)).
      apply col_std; try assumption; try reflexivity.
      rewrite cleanc_app, Hpre. apply enum_check_neutral.
    + (* sybase *)
      destruct vs as [|v vs]; [discriminate Hemp|].
      eexists; split; [reflexivity|]. apply one_seg.
      rewrite app_assoc. rewrite <- (app_nil_r (extra_sql c)).
      apply col_std; try assumption; try reflexivity.
      rewrite cleanc_app, Hpre. apply enum_check_neutral.
  - (* foreign key *)
    rename target into t. cbn [kind_valid] in Hk. apply andb_true_iff in Hk. destruct Hk as [Ht Hi].
    pose proof (key_type_neutral d (fk_idtype t)) as Hty.
    destruct d.
    + (* sqlite *)
      eexists; split; [reflexivity|]. apply one_seg.
      destruct (fk_refs_tail (fk_table t) (ref_idname t refcol) (action_toks csc) (action_of csc) Ht
                  (read_action_ok csc) (action_fstep_clean csc)) as [T1 T2].
      apply col_std; try assumption.
      * change ([kw "CONSTRAINT"; W (dbname_of st c ++ s2l "_exists")] ++ ?x)
          with ([kw "CONSTRAINT"] ++ [W (dbname_of st c ++ s2l "_exists")] ++ x).
        rewrite cleanc_app. replace (cleanc is_fstep_word O [kw "CONSTRAINT"]) with (Some O) by flagw.
        rewrite cleanc_app. cbn [cleanc]. rewrite exists_fstep. exact T1.
      * rewrite (find_ref_skip [kw "CONSTRAINT"; W (dbname_of st c ++ s2l "_exists")] _ O O).
        -- exact T2.
        -- change [kw "CONSTRAINT"; W (dbname_of st c ++ s2l "_exists")]
             with ([kw "CONSTRAINT"] ++ [W (dbname_of st c ++ s2l "_exists")]).
           rewrite cleanc_app. replace (cleanc is_ref_word O [kw "CONSTRAINT"]) with (Some O) by flagw.
           cbn [cleanc]. rewrite exists_ref. reflexivity.
    + eexists; split; [reflexivity|]. apply (col_plain Mysql cp st c _ Hv Hty).
    + eexists; split; [reflexivity|]. apply (col_plain Postgres cp st c _ Hv Hty).
    + eexists; split; [reflexivity|]. apply (col_plain Firebird cp st c _ Hv Hty).
    + (* mssql *)
      eexists; split; [reflexivity|]. apply one_seg.
      destruct (fk_refs_tail (fk_table t) (ref_idname t refcol) [] None Ht eq_refl eq_refl) as [T1 T2].
      rewrite app_nil_r in T1, T2. apply col_std; assumption.
    + (* sybase *)
      eexists; split; [reflexivity|]. apply one_seg.
      destruct (fk_refs_tail (fk_table t) (ref_idname t refcol) [] None Ht eq_refl eq_refl) as [T1 T2].
      rewrite app_nil_r in T1, T2. apply col_std; assumption.
    + (* maxdb: the column without _extraSQL, then a table-level FOREIGN KEY clause *)
      eexists; split; [reflexivity|].
      cbn [col_guard] in Hg. unfold maxdb_fk_drops_extra in Hg. rewrite K in Hg. cbn [is_fk andb] in Hg.
      apply negb_true_iff in Hg. apply orb_false_iff in Hg. destruct Hg as [Hg G3].
      apply orb_false_iff in Hg. destruct Hg as [G1 G2].
      assert (SU : spec_unique c = false) by (rewrite <- eff_unique_spec, G2, G3; reflexivity).
      destruct (col_shape (dbname_of st c) (key_type Maxdb (fk_idtype t)) [] [] no_flags None Hn Hty
                  eq_refl eq_refl eq_refl eq_refl) as [X Y].
      rewrite !app_nil_r in X, Y.
      split.
      * constructor; [exact Y|]. constructor; [|constructor]. reflexivity.
      * cbn [map all_some]. rewrite X. unfold col_skeleton. rewrite G1, SU.
        cbn [norm_flags no_flags f_nn f_uq f_pk].
        unfold read_seg.
        replace (kw_is (s2l "FOREIGN") "FOREIGN") with true by flagw.
        cbn [app kw].
        replace (kw_is (s2l "KEY") "KEY") with true by flagw.
        replace (kw_is (s2l "REFERENCES") "REFERENCES") with true by flagw.
        cbn [andb read_ref_at read_action]. reflexivity.
Qed.

(* ------------------------------------------------------------------ the id column *)
Definition id_read (d : dialect) (idn : str) : colsk :=
  {| k_name := idn; k_nn := true; k_uq := true; k_pk := id_is_primary d |}.

Lemma id_col_ok : forall d idn t sz, name_ok idn = true ->
  read_seg (id_col d idn t sz) = Some (SegCol (id_read d idn) None) /\ bal (id_col d idn t sz).
Proof.
  intros d idn t sz Hn. unfold id_col.
  assert (G : forall mid f, frun (fst_ O no_flags) mid = Some (fst_ O f) -> cleanc is_ref_word O mid = Some O ->
              read_seg (W idn :: mid) =
                Some (SegCol {| k_name := idn; k_nn := f_nn (norm_flags f); k_uq := f_uq (norm_flags f);
                                k_pk := f_pk (norm_flags f) |} None) /\ bal (W idn :: mid)).
  { intros mid f F R. pose proof (col_shape idn [] mid [] f None Hn eq_refl F R eq_refl eq_refl) as X.
    cbn [app] in X. rewrite app_nil_r in X. exact X. }
  destruct d, t, sz; cbv beta iota;
    match goal with
    | |- read_seg (W idn :: ?mid) = _ /\ _ =>
        let f := eval vm_compute in (frun (fst_ O no_flags) mid) in
        match f with
        | Some ?s =>
            let X := fresh "X" in let Y := fresh "Y" in
            destruct (G mid (fs_flags s)) as [X Y];
            [vm_compute; reflexivity | vm_compute; reflexivity | split; [rewrite X; reflexivity | exact Y]]
        end
    end.
Qed.

(* ------------------------------------------------------------------ the whole table *)
Definition inline_fk (d : dialect) (st : style) (c : coldecl) : option fksk :=
  match c_kind c with
  | KFk t cs rc =>
      let r a := Some {| f_col := dbname_of st c;
                         f_ref := {| r_table := fk_table t; r_col := ref_idname t rc; r_action := a |} |} in
      match d with
      | Sqlite => r (action_of cs)
      | Sybase | Mssql | Maxdb => r None
      | _ => None
      end
  | _ => None
  end.
Definition inline_fks (d : dialect) (dc : decl) : list fksk := somes (map (inline_fk d (d_style dc)) (d_cols dc)).

Lemma col_read_cols : forall d st c, seg_cols (col_read d st c) = [col_skeleton st c].
Proof. intros. unfold col_read. destruct (c_kind c), d; reflexivity. Qed.

Lemma col_read_fks : forall d st c,
  seg_fks (col_read d st c) = match inline_fk d st c with Some f => [f] | None => [] end.
Proof.
  intros. unfold col_read, inline_fk, inline_ref. destruct (c_kind c); try (destruct d; reflexivity).
Qed.

Lemma cols_ok : forall d cp st cols,
  forallb (col_valid d st) cols = true -> forallb (col_guard d) cols = true ->
  exists segss, all_some (map (col_segs d cp st) cols) = Some segss
    /\ Forall bal (List.concat segss)
    /\ exists sgs, all_some (map read_seg (List.concat segss)) = Some sgs
         /\ seg_cols sgs = map (col_skeleton st) cols
         /\ seg_fks sgs = somes (map (inline_fk d st) cols).
Proof.
  intros d cp st. induction cols as [|c cols IH]; intros Hv Hg.
  - exists []. repeat split; try constructor. exists []. repeat split.
  - cbn [forallb] in Hv, Hg. apply andb_true_iff in Hv, Hg. destruct Hv as [Hv1 Hv2]. destruct Hg as [Hg1 Hg2].
    destruct (IH Hv2 Hg2) as (segss & A & B & sgs & C & D & E).
    destruct (col_ok d cp st c Hv1 Hg1) as (ss & A1 & B1 & C1).
    exists (ss :: segss). cbn [map all_some]. rewrite A1, A. split; [reflexivity|].
    cbn [List.concat]. split; [apply Forall_app; split; assumption|].
    exists (col_read d st c ++ sgs). rewrite map_app. split; [apply all_some_app; assumption|].
    rewrite seg_cols_app, seg_fks_app, col_read_cols, col_read_fks, D, E. split; [reflexivity|].
    cbn [map somes]. destruct (inline_fk d st c); reflexivity.
Qed.

Lemma valid_inv : forall d dc, valid d dc = true ->
  name_ok (table_of dc) = true /\ name_ok (idname_of dc) = true
  /\ forallb (col_valid d (d_style dc)) (d_cols dc) = true.
Proof.
  intros d dc H. unfold valid in H. apply andb_true_iff in H. destruct H as [H H3].
  apply andb_true_iff in H. destruct H as [H1 H2]. repeat split; assumption.
Qed.

Lemma guard_cols : forall d dc, skeleton_guard d dc = true -> forallb (col_guard d) (d_cols dc) = true.
Proof.
  intros d dc H. apply forallb_forall. intros c Hc. unfold skeleton_guard in H.
  destruct d; try reflexivity; cbn [col_guard]; apply negb_true_iff in H; apply negb_true_iff.
  - destruct (mysql_enum_forced_nn c) eqn:E; [|reflexivity]. exfalso.
    assert (X : existsb mysql_enum_forced_nn (d_cols dc) = true)
      by (apply existsb_exists; exists c; split; assumption).
    congruence.
  - destruct (maxdb_fk_drops_extra c) eqn:E; [|reflexivity]. exfalso.
    assert (X : existsb maxdb_fk_drops_extra (d_cols dc) = true)
      by (apply existsb_exists; exists c; split; assumption).
    congruence.
Qed.

Theorem skeleton_ok : forall d cp dc, valid d dc = true -> skeleton_guard d dc = true ->
  exists toks, create_table d cp dc = Some toks
    /\ read_ddl toks = Some {| s_table := table_of dc; s_cols := expected_cols d dc; s_fks := inline_fks d dc |}.
Proof.
  intros d cp dc Hv Hg. destruct (valid_inv _ _ Hv) as (Ht & Hi & Hc).
  destruct (cols_ok d cp (d_style dc) (d_cols dc) Hc (guard_cols _ _ Hg))
    as (segss & A & B & sgs & C & D & E).
  destruct (id_col_ok d (idname_of dc) (d_idtype dc) (d_idsize dc) Hi) as [I1 I2].
  unfold create_table, table_segs. rewrite A. eexists. split; [reflexivity|].
  unfold read_ddl, paren, kw.
  replace (kw_is (s2l "CREATE") "CREATE") with true by flagw.
  replace (kw_is (s2l "TABLE") "TABLE") with true by flagw.
  rewrite Ht. cbn [andb]. rewrite unsnoc_app.
  rewrite split_sep; [|discriminate|constructor; assumption].
  cbn [map all_some]. rewrite I1, C. cbn [seg_cols seg_fks]. rewrite D, E.
  unfold expected_cols, id_read, inline_fks. destruct d; reflexivity.
Qed.
