(* C14_idempotent and C14_evolution_inv over the schema state machine. *)
From Coq Require Import List ZArith NArith Bool String Ascii Lia.
From Model Require Import Ddl.
From Proofs Require Import DdlBase.
Import ListNotations.
Open Scope string_scope.
Open Scope list_scope.
Open Scope N_scope.

(* ------------------------------------------------------------------ tables *)
Lemma table_exists_alt : forall db n,
  table_exists db n = existsb (fun t => str_eqb (t_name t) n) (db_tables db).
Proof.
  intros db n. unfold table_exists. induction (db_tables db) as [|t ts IH]; [reflexivity|].
  cbn. destruct (str_eqb (t_name t) n); [reflexivity|exact IH].
Qed.

Definition with_tables (db : dbstate) (ts : list table) : dbstate :=
  {| db_tables := ts; db_indexes := db_indexes db |}.

(* the tables of db' include those of db *)
Definition grows (db db' : dbstate) : Prop :=
  forall n, table_exists db n = true -> table_exists db' n = true.
(* ... are among those of db *)
Definition shrinks (db db' : dbstate) : Prop :=
  forall n, table_exists db n = false -> table_exists db' n = false.

Lemma grows_refl : forall db, grows db db. Proof. intros db n H. exact H. Qed.
Lemma grows_trans : forall a b c, grows a b -> grows b c -> grows a c.
Proof. intros a b c H1 H2 n H. apply H2, H1, H. Qed.
Lemma shrinks_refl : forall db, shrinks db db. Proof. intros db n H. exact H. Qed.
Lemma shrinks_trans : forall a b c, shrinks a b -> shrinks b c -> shrinks a c.
Proof. intros a b c H1 H2 n H. apply H2, H1, H. Qed.

Lemma exact_ci : forall a b, str_eqb a b = true -> same_name_ci a b = true.
Proof. intros a b H. apply str_eqb_eq in H. subst. unfold same_name_ci. apply str_eqb_refl. Qed.

Lemma exists_has : forall db n, table_exists db n = true -> eng_has db n = true.
Proof.
  intros db n H. rewrite table_exists_alt in H. unfold eng_has.
  induction (db_tables db) as [|t ts IH]; [discriminate|]. cbn in *.
  destruct (str_eqb (t_name t) n) eqn:E; [rewrite (exact_ci _ _ E); reflexivity|].
  rewrite (IH H). apply orb_true_r.
Qed.

Lemma eng_create_grows : forall db n cols, grows db (fst (eng_create db n cols)).
Proof.
  intros db n cols m H. unfold eng_create. destruct (eng_has db n); [exact H|].
  cbn [fst]. rewrite table_exists_alt in *. cbn [db_tables]. rewrite existsb_app, H. reflexivity.
Qed.
(* CREATE TABLE makes the table, unless a table whose name differs in case only is in the way *)
Lemma eng_create_makes : forall db n cols, eng_has db n = table_exists db n ->
  table_exists (fst (eng_create db n cols)) n = true.
Proof.
  intros db n cols Hc. unfold eng_create. destruct (eng_has db n) eqn:E; [cbn [fst]; congruence|].
  cbn [fst]. rewrite table_exists_alt. cbn [db_tables]. rewrite existsb_app. cbn.
  rewrite str_eqb_refl, orb_true_r. reflexivity.
Qed.
Lemma eng_create_index_tables : forall db a b, db_tables (fst (eng_create_index db a b)) = db_tables db.
Proof. intros. unfold eng_create_index. destruct (_ || _); reflexivity. Qed.

Lemma eng_drop_shrinks : forall db n, shrinks db (fst (eng_drop db n)).
Proof.
  intros db n m H. unfold eng_drop. destruct (eng_has db n); [|exact H].
  cbn [fst]. rewrite table_exists_alt in *. cbn [db_tables].
  induction (db_tables db) as [|t ts IH]; [reflexivity|].
  cbn in H. apply orb_false_iff in H. destruct H as [H1 H2].
  cbn [filter]. destruct (negb (same_name_ci (t_name t) n)); [|apply IH; exact H2].
  cbn. rewrite H1. apply IH; exact H2.
Qed.
Lemma eng_drop_removes : forall db n, table_exists db n = true -> table_exists (fst (eng_drop db n)) n = false.
Proof.
  intros db n H. unfold eng_drop. rewrite (exists_has db n H). cbn [fst]. rewrite table_exists_alt. cbn [db_tables].
  induction (db_tables db) as [|t ts IH]; [reflexivity|].
  cbn [filter]. destruct (same_name_ci (t_name t) n) eqn:E; cbn [negb]; [exact IH|].
  cbn. destruct (str_eqb (t_name t) n) eqn:E2; [rewrite (exact_ci _ _ E2) in E; discriminate|]. exact IH.
Qed.

Lemma efold_rel : forall {A} (R : dbstate -> dbstate -> Prop) (f : dbstate -> A -> eres) l db,
  (forall db, R db db) -> (forall a b c, R a b -> R b c -> R a c) ->
  (forall db x, R db (fst (f db x))) -> R db (fst (efold f l db)).
Proof.
  intros A R f l db Hr Ht Hf. revert db. induction l as [|x l IH]; intro db; [apply Hr|].
  cbn [efold]. unfold ebind. destruct (f db x) as [db1 e] eqn:E.
  pose proof (Hf db x) as H1. rewrite E in H1. cbn [fst] in H1.
  destruct e; [exact H1|]. eapply Ht; [exact H1|apply IH].
Qed.

Lemma create_join_tables_grows : forall dc f db, grows db (fst (create_join_tables dc f db)).
Proof.
  intros. unfold create_join_tables. apply efold_rel; [apply grows_refl|apply grows_trans|].
  intros db0 j. destruct (f && table_exists db0 (inter_table dc j)); [apply grows_refl|apply eng_create_grows].
Qed.
Lemma create_indexes_grows : forall dc db, grows db (fst (create_indexes dc db)).
Proof.
  intros. unfold create_indexes. apply efold_rel; [apply grows_refl|apply grows_trans|].
  intros db0 ix n H. rewrite table_exists_alt in *. rewrite eng_create_index_tables. exact H.
Qed.
Lemma drop_join_tables_shrinks : forall dc f db, shrinks db (fst (drop_join_tables dc f db)).
Proof.
  intros. unfold drop_join_tables. apply efold_rel; [apply shrinks_refl|apply shrinks_trans|].
  intros db0 j. destruct (f && negb (table_exists db0 (inter_table dc j))); [apply shrinks_refl|apply eng_drop_shrinks].
Qed.

Lemma ebind_fst_rel : forall (R : dbstate -> dbstate -> Prop) m f db0,
  (forall a b c, R a b -> R b c -> R a c) ->
  R db0 (fst m) -> (forall db, R db (fst (f db))) -> R db0 (fst (ebind m f)).
Proof.
  intros R [db e] f db0 Ht H1 H2. cbn [fst] in H1. unfold ebind. destruct e; [exact H1|].
  eapply Ht; [exact H1|apply H2].
Qed.

(* ------------------------------------------------------------------ idempotence *)
(* no table whose name differs from n in case only (for sqlite that IS table n) *)
Definition case_clash_free (db : dbstate) (n : str) : bool := Bool.eqb (eng_has db n) (table_exists db n).

(* after createTable(ifNotExists=True, createJoinTables=cj, createIndexes=ci), however it ended,
   the table is there ... *)
Lemma create_full_exists : forall dc cj ci db, case_clash_free db (table_of dc) = true ->
  table_exists (fst (create_table_full dc true cj ci db)) (table_of dc) = true.
Proof.
  intros dc cj ci db Hc. apply eqb_prop in Hc. unfold create_table_full. cbn [andb].
  destruct (table_exists db (table_of dc)) eqn:E; [exact E|].
  assert (G : grows (fst (eng_create db (table_of dc) (class_cols dc)))
                    (fst (ebind (eng_create db (table_of dc) (class_cols dc))
                            (fun db1 => ebind (if cj then create_join_tables dc true db1 else (db1, false))
                                          (fun db2 => if ci then create_indexes dc db2 else (db2, false)))))).
  { apply ebind_fst_rel; [apply grows_trans|apply grows_refl|]. intro db1.
    apply ebind_fst_rel; [apply grows_trans| |].
    - destruct cj; [apply create_join_tables_grows|apply grows_refl].
    - intro db2. destruct ci; [apply create_indexes_grows|apply grows_refl]. }
  apply G. apply eng_create_makes. congruence.
Qed.

(* ... so a second call -- with whatever createJoinTables / createIndexes flags -- changes nothing and
   does not fail, whatever other tables the database holds (tableExists compares the name exactly) *)
Theorem create_full_idem : forall dc cj ci cj' ci' db, case_clash_free db (table_of dc) = true ->
  create_table_full dc true cj' ci' (fst (create_table_full dc true cj ci db))
  = (fst (create_table_full dc true cj ci db), false).
Proof.
  intros dc cj ci cj' ci' db Hc. unfold create_table_full at 1. cbn [andb].
  rewrite (create_full_exists dc cj ci db Hc). reflexivity.
Qed.

Theorem create_idem : forall dc db, case_clash_free db (table_of dc) = true ->
  create_table_op dc true (fst (create_table_op dc true db)) = (fst (create_table_op dc true db), false).
Proof. intros dc db Hc. exact (create_full_idem dc true true true true db Hc). Qed.

(* without that hypothesis the second call still leaves the state alone (it may fail again) *)
Theorem create_idem_state : forall dc db,
  fst (create_table_op dc true (fst (create_table_op dc true db))) = fst (create_table_op dc true db).
Proof.
  intros dc db. destruct (case_clash_free db (table_of dc)) eqn:Hc; [rewrite (create_idem dc db Hc); reflexivity|].
  unfold case_clash_free in Hc. apply eqb_false_iff in Hc.
  assert (E : table_exists db (table_of dc) = false /\ eng_has db (table_of dc) = true).
  { destruct (table_exists db (table_of dc)) eqn:T.
    - rewrite (exists_has _ _ T) in Hc. congruence.
    - split; [reflexivity|]. destruct (eng_has db (table_of dc)); congruence. }
  destruct E as [T H].
  assert (R : create_table_op dc true db = (db, true)).
  { unfold create_table_op, create_table_full. cbn [andb]. rewrite T. unfold eng_create. rewrite H. reflexivity. }
  rewrite R. cbn [fst]. rewrite R. reflexivity.
Qed.

Lemma drop_full_gone : forall dc dj db,
  table_exists (fst (drop_table_full dc true dj db)) (table_of dc) = false.
Proof.
  intros dc dj db. unfold drop_table_full. cbn [andb].
  destruct (table_exists db (table_of dc)) eqn:E; cbn [negb]; [|exact E].
  assert (G : shrinks (fst (eng_drop db (table_of dc)))
                      (fst (ebind (eng_drop db (table_of dc))
                              (fun db1 => if dj then drop_join_tables dc true db1 else (db1, false))))).
  { apply ebind_fst_rel; [apply shrinks_trans|apply shrinks_refl|]. intro db1.
    destruct dj; [apply drop_join_tables_shrinks|apply shrinks_refl]. }
  apply G. apply eng_drop_removes. exact E.
Qed.

Theorem drop_full_idem : forall dc dj dj' db,
  drop_table_full dc true dj' (fst (drop_table_full dc true dj db)) = (fst (drop_table_full dc true dj db), false).
Proof.
  intros dc dj dj' db. unfold drop_table_full at 1. cbn [andb]. rewrite drop_full_gone. reflexivity.
Qed.

Theorem drop_idem : forall dc db,
  drop_table_op dc true (fst (drop_table_op dc true db)) = (fst (drop_table_op dc true db), false).
Proof. intros dc db. exact (drop_full_idem dc true true db). Qed.

(* ------------------------------------------------------------------ evolution *)
Definition cell (cols : list str) (row : list Z) (x : str) : Z :=
  match index_of x cols with Some k => nth k row znull | None => znull end.

Lemma project_cell : forall from to row, project from to row = map (cell from row) to.
Proof. reflexivity. Qed.

Lemma mem_str_in : forall x l, mem_str x l = true <-> In x l.
Proof.
  intros x l. induction l as [|y l IH]; cbn; [split; [discriminate|tauto]|].
  rewrite orb_true_iff, IH, str_eqb_eq. split; intros [H|H]; auto.
Qed.

Lemma index_of_nth : forall x l k, index_of x l = Some k -> nth_error l k = Some x.
Proof.
  intros x. induction l as [|y l IH]; intros k H; [discriminate|].
  cbn in H. destruct (str_eqb y x) eqn:E.
  - inversion H. apply str_eqb_eq in E. subst. reflexivity.
  - destruct (index_of x l) as [k'|]; [|discriminate]. inversion H. cbn. apply IH. reflexivity.
Qed.
Lemma index_of_in : forall x l, In x l -> exists k, index_of x l = Some k.
Proof.
  intros x. induction l as [|y l IH]; intro H; [destruct H|].
  cbn. destruct (str_eqb y x) eqn:E; [eexists; reflexivity|].
  destruct H as [H|H]; [subst; rewrite str_eqb_refl in E; discriminate|].
  destruct (IH H) as [k Hk]. rewrite Hk. eexists; reflexivity.
Qed.
Lemma index_of_app : forall x l m, In x l -> index_of x (l ++ m) = index_of x l.
Proof.
  intros x. induction l as [|y l IH]; intros m H; [destruct H|].
  cbn. destruct (str_eqb y x) eqn:E; [reflexivity|].
  destruct H as [H|H]; [subst; rewrite str_eqb_refl in E; discriminate|]. rewrite (IH m H). reflexivity.
Qed.

Lemma nth_map_index : forall (g : str -> Z) x l k d, index_of x l = Some k -> nth k (map g l) d = g x.
Proof.
  intros g x. induction l as [|y l IH]; intros k d H; [discriminate|].
  cbn in H. destruct (str_eqb y x) eqn:E.
  - inversion H. apply str_eqb_eq in E. subst. reflexivity.
  - destruct (index_of x l) as [k'|] eqn:K; [|discriminate]. inversion H. cbn. apply IH. reflexivity.
Qed.

(* a value copied by INSERT ... SELECT is the value it had *)
Lemma cell_project : forall from to row x, In x to ->
  cell to (project from to row) x = cell from row x.
Proof.
  intros from to row x H. unfold cell at 1. destruct (index_of_in x to H) as [k Hk]. rewrite Hk.
  rewrite project_cell. apply nth_map_index. exact Hk.
Qed.

(* ALTER TABLE ADD COLUMN leaves the other cells alone *)
Lemma cell_add : forall cols new row x, In x cols ->
  cell (cols ++ [new]) (row ++ [znull]) x = cell cols row x.
Proof.
  intros cols new row x H. unfold cell. rewrite (index_of_app x cols [new] H).
  destruct (index_of x cols) as [k|]; [|reflexivity].
  destruct (Nat.lt_ge_cases k (List.length row)) as [L|L].
  - rewrite app_nth1 by exact L. reflexivity.
  - rewrite (nth_overflow row) by exact L.
    destruct (Nat.eq_dec k (List.length row)) as [E|E].
    + subst. rewrite nth_middle. reflexivity.
    + rewrite nth_overflow; [reflexivity|]. rewrite app_length. cbn. lia.
Qed.

(* ---------- the invariant: class and table in step *)
Definition evo_wf (s : evo_state) : Prop :=
  exists t, find_table (db_tables (e_db s)) (table_of (e_decl s)) = Some t
            /\ t_cols t = class_cols (e_decl s)
            /\ table_exists (e_db s) (table_of (e_decl s) ++ s2l "_ORIGINAL") = false
            /\ sqlite_accepts (e_decl s) = true.

Definition the_table (s : evo_state) : option table :=
  find_table (db_tables (e_db s)) (table_of (e_decl s)).

Lemma find_map_table : forall ts n f t, (forall x, str_eqb (t_name x) n = true -> t_name (f x) = t_name x) ->
  find_table ts n = Some t ->
  find_table (map (fun x => if str_eqb (t_name x) n then f x else x) ts) n = Some (f t).
Proof.
  intros ts n f t Hf. induction ts as [|y ts IH]; intro H; [discriminate|].
  cbn in H |- *. destruct (str_eqb (t_name y) n) eqn:E.
  - inversion H; subst. cbn. rewrite (Hf _ E), E. reflexivity.
  - cbn. rewrite E. apply IH. exact H.
Qed.

Lemma exists_map_table : forall ts n m f, (forall x, str_eqb (t_name x) n = true -> t_name (f x) = t_name x) ->
  existsb (fun t => str_eqb (t_name t) m) (map (fun x => if str_eqb (t_name x) n then f x else x) ts)
  = existsb (fun t => str_eqb (t_name t) m) ts.
Proof.
  intros ts n m f Hf. induction ts as [|y ts IH]; [reflexivity|].
  cbn. destruct (str_eqb (t_name y) n) eqn:E; [rewrite (Hf _ E)|]; rewrite IH; reflexivity.
Qed.

Lemma table_of_set_cols : forall dc cs, table_of (set_cols dc cs) = table_of dc.
Proof. reflexivity. Qed.
Lemma class_cols_set_cols : forall dc cs,
  class_cols (set_cols dc cs) = idname_of dc :: map (dbname_of (d_style dc)) cs.
Proof. reflexivity. Qed.

Lemma add_ok_mono : forall c e, sqlite_add_ok false c = true -> sqlite_add_ok e c = true.
Proof.
  intros c e H. unfold sqlite_add_ok in *.
  apply andb_true_iff in H; destruct H as [H H3].
  apply andb_true_iff in H; destruct H as [H1 H2].
  rewrite H1, H3. rewrite orb_false_r in H2. rewrite H2. reflexivity.
Qed.
Lemma add_ok_type : forall c e, sqlite_add_ok e c = true -> sqlite_type_ok (c_kind c) = true.
Proof. intros c e H. unfold sqlite_add_ok in H. apply andb_true_iff in H. tauto. Qed.

Definition cells_kept (t t' : table) (x : str) : Prop :=
  map (fun r => cell (t_cols t') r x) (t_rows t') = map (fun r => cell (t_cols t) r x) (t_rows t).

(* One step -- any addColumn or delColumn, accepted by the engine or not -- keeps class and
   table in step and keeps the cells of every column that is still there; it does not fail
   when the engine accepts the op. *)
(* the steps the property speaks about: addColumn / delColumn with changeSchema=True, and steps of
   either flavour that the class refuses before anything changes (name collisions, unknown columns) *)
Definition in_scope (dc : decl) (op : evo_op) : bool := changes_schema op || op_refused dc op.
Fixpoint ops_in_scope (s : evo_state) (ops : list evo_op) : bool :=
  match ops with
  | [] => true
  | op :: r => in_scope (e_decl s) op && ops_in_scope (fst (evo_step s op)) r
  end.

(* a refused step changes nothing at all *)
Lemma refused_unchanged : forall s op, op_refused (e_decl s) op = true -> evo_step s op = (s, true).
Proof.
  intros s op H. destruct op as [c|n|c|n]; cbn [op_refused] in H; unfold evo_step.
  - rewrite H. reflexivity.
  - unfold del_known in H. rewrite H. reflexivity.
  - rewrite H. reflexivity.
  - apply negb_true_iff in H. rewrite H. reflexivity.
Qed.

Theorem evo_step_ok : forall s op t, evo_wf s -> the_table s = Some t -> in_scope (e_decl s) op = true ->
  evo_wf (fst (evo_step s op))
  /\ (op_ok (e_decl s) op = true -> snd (evo_step s op) = false)
  /\ exists t', the_table (fst (evo_step s op)) = Some t'
       /\ forall x, In x (t_cols t) -> In x (t_cols t') -> cells_kept t t' x.
Proof.
  intros s op t W Ht Sc. pose proof W as (t0 & F & C & O & SA).
  unfold the_table in Ht. rewrite F in Ht. inversion Ht; subst t0. clear Ht.
  assert (TE : table_exists (e_db s) (table_of (e_decl s)) = true) by (unfold table_exists; rewrite F; reflexivity).
  assert (Refused : op_refused (e_decl s) op = true ->
            evo_wf (fst (evo_step s op))
            /\ (op_ok (e_decl s) op = true -> snd (evo_step s op) = false)
            /\ exists t', the_table (fst (evo_step s op)) = Some t'
                 /\ forall x, In x (t_cols t) -> In x (t_cols t') -> cells_kept t t' x).
  { intro R. rewrite (refused_unchanged s op R). cbn [fst snd]. split; [exact W|]. split.
    - intro Hok. exfalso. destruct op as [c|n|c|n]; cbn [op_ok op_refused] in *.
      + rewrite R in Hok. rewrite andb_false_r in Hok. discriminate.
      + rewrite Hok in R. discriminate.
      + rewrite R in Hok. discriminate.
      + rewrite Hok in R. discriminate.
    - exists t. unfold the_table. split; [exact F|]. intros. reflexivity. }
  destruct (op_refused (e_decl s) op) eqn:Ref; [exact (Refused eq_refl)|]. clear Refused.
  unfold in_scope in Sc. rewrite Ref, orb_false_r in Sc.
  destruct op as [c|n|c|n]; try discriminate Sc; cbn [op_refused] in Ref; unfold evo_step.
  - (* addColumn *)
    cbn [op_ok]. rewrite Ref. cbn [negb]. rewrite andb_true_r. rewrite F, TE. cbn [andb].
    destruct (sqlite_add_ok match t_rows t with [] => true | _ :: _ => false end c) eqn:OK.
    + cbn [fst snd].
      set (f := fun t1 : table => {| t_name := table_of (e_decl s);
                                     t_cols := t_cols t1 ++ [dbname_of (d_style (e_decl s)) c];
                                     t_rows := map (fun r => r ++ [znull]) (t_rows t1) |}).
      assert (F' : find_table (map_table (e_db s) (table_of (e_decl s)) f) (table_of (e_decl s)) = Some (f t)).
      { unfold map_table. apply find_map_table; [|exact F].
        intros x E. apply str_eqb_eq in E. cbn. congruence. }
      split; [|split; [reflexivity|]].
      * exists (f t). cbn [e_decl e_db db_tables]. rewrite table_of_set_cols. split; [exact F'|]. split.
        -- cbn [f t_cols]. rewrite C, class_cols_set_cols, map_app. reflexivity.
        -- split.
           ++ rewrite table_exists_alt in O |- *. cbn [db_tables]. unfold map_table.
              rewrite exists_map_table; [exact O|]. intros x E. apply str_eqb_eq in E. cbn. congruence.
           ++ unfold sqlite_accepts in *. cbn [set_cols d_cols]. rewrite forallb_app, SA. cbn [forallb].
              rewrite (add_ok_type _ _ OK). reflexivity.
      * exists (f t). unfold the_table. cbn [e_decl e_db db_tables]. rewrite table_of_set_cols.
        split; [exact F'|]. intros x Hx _. unfold cells_kept. cbn [f t_cols t_rows]. rewrite map_map.
        apply map_ext. intro r. apply cell_add. exact Hx.
    + (* the engine refuses: nothing changes *)
      cbn [fst snd]. split; [exact W|]. split.
      * intro Hok. rewrite (add_ok_mono c _ Hok) in OK. discriminate.
      * exists t. unfold the_table. split; [exact F|]. intros. reflexivity.
  - (* delColumn *)
    cbn [op_ok]. apply negb_false_iff in Ref. unfold del_known in Ref. rewrite Ref. cbn [negb].
    rewrite F. rewrite O.
    set (dc' := set_cols (e_decl s) (filter (fun c => negb (str_eqb (final_name c) n)) (d_cols (e_decl s)))).
    assert (Sub : forallb (fun c => mem_str c (t_cols t)) (class_cols dc') = true).
    { apply forallb_forall. intros x Hx. apply mem_str_in. rewrite C.
      unfold dc' in Hx. rewrite class_cols_set_cols in Hx. unfold class_cols.
      destruct Hx as [Hx|Hx]; [left; exact Hx|right].
      apply in_map_iff in Hx. destruct Hx as [c0 [E Hc]]. apply filter_In in Hc. destruct Hc as [Hc _].
      apply in_map_iff. exists c0. split; assumption. }
    assert (SA' : sqlite_accepts dc' = true).
    { unfold sqlite_accepts in *. unfold dc'. cbn [set_cols d_cols]. apply forallb_forall. intros x Hx.
      apply filter_In in Hx. destruct Hx as [Hx _]. rewrite forallb_forall in SA. apply SA. exact Hx. }
    rewrite SA'. cbn [negb]. rewrite Sub. cbn [fst snd].
    set (f := fun t1 : table => {| t_name := table_of (e_decl s); t_cols := class_cols dc';
                                   t_rows := map (project (t_cols t1) (class_cols dc')) (t_rows t1) |}).
    assert (F' : find_table (map_table (e_db s) (table_of (e_decl s)) f) (table_of (e_decl s)) = Some (f t)).
    { unfold map_table. apply find_map_table; [|exact F].
      intros x E. apply str_eqb_eq in E. cbn. congruence. }
    split; [|split; [reflexivity|]].
    + exists (f t). cbn [e_decl e_db db_tables]. change (table_of dc') with (table_of (e_decl s)).
      split; [exact F'|]. split; [reflexivity|]. split; [|exact SA'].
      rewrite table_exists_alt in O |- *. cbn [db_tables]. unfold map_table.
      rewrite exists_map_table; [exact O|]. intros x E. apply str_eqb_eq in E. cbn. congruence.
    + exists (f t). unfold the_table. cbn [e_decl e_db db_tables]. change (table_of dc') with (table_of (e_decl s)).
      split; [exact F'|]. intros x _ Hx. unfold cells_kept. cbn [f t_cols t_rows] in Hx |- *. rewrite map_map.
      apply map_ext. intro r. apply cell_project. exact Hx.
Qed.

(* the columns that stay through a whole run *)
Fixpoint kept (x : str) (s : evo_state) (ops : list evo_op) : Prop :=
  match ops with
  | [] => True
  | op :: r => In x (class_cols (e_decl (fst (evo_step s op)))) /\ kept x (fst (evo_step s op)) r
  end.

(* any sequence of addColumn / delColumn, refused ones included *)
Theorem evo_run_ok : forall ops s t, evo_wf s -> the_table s = Some t -> ops_in_scope s ops = true ->
  evo_wf (fst (evo_run s ops))
  /\ (ops_ok s ops = true -> snd (evo_run s ops) = false)
  /\ exists t', the_table (fst (evo_run s ops)) = Some t'
       /\ t_cols t' = class_cols (e_decl (fst (evo_run s ops)))
       /\ forall x, In x (t_cols t) -> kept x s ops -> cells_kept t t' x.
Proof.
  induction ops as [|op ops IH]; intros s t W Ht Sc.
  - cbn. split; [exact W|]. split; [reflexivity|]. exists t. split; [exact Ht|].
    destruct W as (t0 & F & C & _ & _). unfold the_table in Ht. rewrite F in Ht. inversion Ht; subst.
    split; [exact C|]. intros. reflexivity.
  - cbn [ops_in_scope] in Sc. apply andb_true_iff in Sc. destruct Sc as [Sc1 Sc2].
    destruct (evo_step_ok s op t W Ht Sc1) as (W1 & E1 & t1 & T1 & K1).
    cbn [evo_run kept ops_ok]. destruct (evo_step s op) as [s1 e1] eqn:ES. cbn [fst snd] in *.
    destruct (IH s1 t1 W1 T1 Sc2) as (W2 & E2 & t2 & T2 & C2 & K2).
    destruct (evo_run s1 ops) as [s2 e2] eqn:ER. cbn [fst snd] in *.
    split; [exact W2|]. split.
    + intro Hok. apply andb_true_iff in Hok. destruct Hok as [Hop Hops].
      rewrite (E1 Hop), (E2 Hops). reflexivity.
    + exists t2. split; [exact T2|]. split; [exact C2|].
      intros x Hx [Hk1 Hk2]. unfold cells_kept in *.
      assert (Hx1 : In x (t_cols t1)).
      { destruct W1 as (t1' & F1 & C1 & _ & _). unfold the_table in T1. rewrite F1 in T1. inversion T1; subst.
        rewrite C1. exact Hk1. }
      rewrite (K2 x Hx1 Hk2). apply K1; assumption.
Qed.
