(* C04: the identity map.  The corollaries of the invariant. *)
From Coq Require Import List ZArith Bool Lia ZifyBool.
From Model Require Import Orm.
From Proofs Require Import OrmBase OrmSpec OrmLazy OrmInvLists OrmInvTables OrmInvDefs OrmInvCoh OrmInvFrames OrmInvOC OrmInvCache OrmInvOps OrmInvOps2 OrmInvRun.
Import ListNotations.
Open Scope Z_scope.

Lemma gop_M04 ops : forallb guard04 ops = true -> forallb (gop M04) ops = true.
Proof.
  intros H. rewrite forallb_forall in *. intros o Ho. unfold gop. cbn. rewrite (H o Ho). reflexivity.
Qed.

Lemma gop_MNU ops : forallb guard04 ops = true -> forallb no_unpickle ops = true -> forallb (gop MNU) ops = true.
Proof.
  intros H H2. rewrite forallb_forall in *. intros o Ho. unfold gop. cbn. rewrite (H o Ho), (H2 o Ho). reflexivity.
Qed.

Lemma slot_of_some s o : In (Some o) (slots s) -> slot_of s o <> None.
Proof.
  unfold slot_of. generalize 0%nat. induction (slots s) as [|x l IH]; intros n; cbn; [tauto|].
  intros [->|Hi]; [rewrite Nat.eqb_refl; discriminate|].
  destruct x as [y|]; [destruct (Nat.eqb y o); [discriminate|]|]; apply IH; exact Hi.
Qed.

Lemma slot_of_slots s s' o : slots s' = slots s -> slot_of s' o = slot_of s o.
Proof. intros E. unfold slot_of. now rewrite E. Qed.

Section C04.
Variable cfg : config.

(* the start state of a step *)
Definition st0 (s : st) : st := with_fault (with_log s []) None.
Lemma Inv_st0 m s : Inv cfg m [] s -> Inv cfg m [] (st0 s).
Proof. intros H. apply Inv_fault. apply Inv_log. exact H. Qed.

(* a held, current instance of an existing row is the registered one, also after an operation that extends the state *)
Lemma held_registered m roots s s1 o k id :
  Inv cfg m [] s -> Inv cfg m roots s1 -> ext s s1 -> tables s1 = tables s ->
  In (Some o) (slots s) -> i_obsolete (get_inst s o) = false -> i_k (get_inst s o) = k -> i_id (get_inst s o) = id ->
  row_exists s k id -> registered s1 k id o.
Proof.
  intros H H1 (Esl & _ & _ & Ekeys) Et Hh Hc Hk Hi Hrow.
  destruct (inv_L _ _ _ _ H o (held_live [] s o Hh)) as (Hlt & _).
  destruct (Ekeys o Hlt) as (E1 & E2 & E3).
  assert (Hl1 : live s1 roots o) by (right; left; rewrite Esl; exact Hh).
  destruct (inv_L _ _ _ _ H1 o Hl1) as (_ & _ & R). unfold ok_reg in R. rewrite E1, E2, E3, Hk, Hi in R.
  apply R; [exact Hc|]. unfold row_exists, tbl in *. rewrite Et. exact Hrow.
Qed.

Theorem C04_unique_proof_alt :
  forall ops o1 o2 k id,
    forallb guard04 ops = true ->
    let s := run cfg ops in
    held s o1 -> held s o2 -> current s o1 -> current s o2 ->
    is_row s o1 k id -> is_row s o2 k id ->
    assoc id (t_rows (tbl s k)) <> None ->      (* ADDED: the row exists *)
    o1 = o2.
Proof.
  intros ops o1 o2 k id Hg s H1 H2 C1 C2 (K1 & I1) (K2 & I2) Hrow.
  pose proof (reachable_Inv cfg M04 ops (gop_M04 ops Hg)) as H. fold s in H.
  apply (Inv_unique cfg M04 [] s o1 o2 H (held_live [] s o1 H1) (held_live [] s o2 H2)); [congruence|congruence|].
  rewrite K1, I1. exact Hrow.
Qed.

(* without unpickling in the history, the statement holds as given *)
Theorem C04_unique_proof_alt2 :
  forall ops o1 o2 k id,
    forallb guard04 ops = true ->
    forallb no_unpickle ops = true ->           (* ADDED: no OUnpickle in the history *)
    let s := run cfg ops in
    held s o1 -> held s o2 -> current s o1 -> current s o2 ->
    is_row s o1 k id -> is_row s o2 k id -> o1 = o2.
Proof.
  intros ops o1 o2 k id Hg Hnu s H1 H2 C1 C2 (K1 & I1) (K2 & I2).
  pose proof (reachable_Inv cfg MNU ops (gop_MNU ops Hg Hnu)) as H. fold s in H.
  apply (Inv_unique cfg MNU [] s o1 o2 H (held_live [] s o1 H1) (held_live [] s o2 H2)); [congruence|congruence|].
  destruct (inv_L _ _ _ _ H o1 (held_live [] s o1 H1)) as (_ & (_ & B2 & _) & _). apply B2; [reflexivity|exact C1].
Qed.

Theorem C04_get_returns_held_proof_alt :
  forall ops o k id id' tok s',
    forallb guard04 ops = true ->
    let s := run cfg ops in
    held s o -> current s o -> is_row s o k id ->
    assoc id (t_rows (tbl s k)) <> None ->      (* ADDED: the row exists *)
    step cfg s (OGet k id) = (Ret (RObj id' tok), s') ->
    id' = id /\ tok = slot_of s o /\ tok <> None.
Proof.
  intros ops o k id id' tok s' Hg s Hh Hc (Hk & Hi) Hrow Hstep.
  pose proof (reachable_Inv cfg M04 ops (gop_M04 ops Hg)) as H. fold s in H.
  pose proof (Inv_st0 M04 s H) as H0.
  unfold step in Hstep. cbn [run_op] in Hstep. fold (st0 s) in Hstep. unfold hold_or_none in Hstep.
  pose proof (so_get_spec cfg M04 k id None [] (st0 s) H0 ltac:(discriminate)) as G.
  destruct (so_get cfg k id None [] (st0 s)) as [[ob|e] s1]; [|discriminate].
  destruct G as (G1 & G2 & G3 & G4 & G5 & G6 & G7).
  assert (R : registered s1 k id o) by (apply (held_registered M04 [] (st0 s) s1 o k id H0 G1 G2 G3); assumption).
  assert (ob = o) by (eapply registered_fun; eauto). subst ob.
  unfold hold, bind, gets, modify, ret in Hstep. cbn [fst snd] in Hstep. inversion Hstep; subst id' tok s'. clear Hstep.
  destruct G2 as (Esl & _). split; [exact G7|]. split.
  - apply slot_of_slots. exact Esl.
  - apply slot_of_some. rewrite Esl. exact Hh.
Qed.

End C04.

Theorem C04_byalt_returns_held_proof : C04_byalt_returns_held_stmt.
Proof.
  intros cfg ops o k u id' tok s' Hg s Hh Hc Hk Hi Hstep.
  pose proof (reachable_Inv cfg M04 ops (gop_M04 ops Hg)) as H. fold s in H.
  pose proof (Inv_st0 cfg M04 s H) as H0.
  unfold step in Hstep. cbn [run_op] in Hstep. fold (st0 s) in Hstep. unfold hold_or_none in Hstep.
  unfold bind at 1 in Hstep. rewrite (statement_ok _ (st0 s) eq_refl) in Hstep.
  set (s0 := with_log (st0 s) _) in *.
  assert (H0' : Inv cfg M04 [] s0) by (apply Inv_log; exact H0).
  unfold bind at 1, gets in Hstep. cbn [fst snd] in Hstep.
  match type of Hstep with context [find ?f ?l] => destruct (find f l) as [[id r]|] eqn:Efind end; [|discriminate].
  apply find_some in Efind. destruct Efind as (Hin & _).
  pose proof (so_get_spec cfg M04 k id (Some r) [] s0 H0') as G.
  assert (Hr : forall r', Some r = Some r' -> assoc id (t_rows (tbl s0 k)) = Some r').
  { intros r' E. inversion E as [E']. rewrite <- E'. apply (table_row cfg M04 s0 k id r H0' Hin). }
  specialize (G Hr).
  destruct (so_get cfg k id (Some r) [] s0) as [[ob|e] s1]; [|discriminate].
  destruct G as (G1 & G2 & G3 & G4 & G5 & G6 & G7).
  unfold hold, bind, gets, modify, ret in Hstep. cbn [fst snd] in Hstep. inversion Hstep as [[Eid Etok Es']]. clear Hstep.
  assert (Eidd : id' = id) by congruence. subst id'.
  assert (Hrow : row_exists s0 k id) by (unfold row_exists; rewrite (Hr r eq_refl); discriminate).
  assert (R : registered s1 k id o) by (apply (held_registered cfg M04 [] s0 s1 o k id H0' G1 G2 G3); assumption).
  assert (ob = o) by (eapply registered_fun; eauto). subst ob.
  destruct G2 as (Esl & _). split.
  - apply (slot_of_slots s s1 o). exact Esl.
  - apply slot_of_some. rewrite Esl. exact Hh.
Qed.

Theorem C04_select_returns_held_proof : C04_select_returns_held_stmt.
Proof.
  intros cfg ops o k flt keep res id tok s' Hg s Hh Hc (Hk & Hi) Hstep Hin.
  pose proof (reachable_Inv cfg M04 ops (gop_M04 ops Hg)) as H. fold s in H.
  pose proof (Inv_st0 cfg M04 s H) as H0.
  unfold step in Hstep. cbn [run_op] in Hstep. fold (st0 s) in Hstep. unfold or_empty_slot in Hstep.
  unfold bind at 1 in Hstep. rewrite (statement_ok _ (st0 s) eq_refl) in Hstep.
  set (s0 := with_log (st0 s) _) in *.
  assert (H0' : Inv cfg M04 [] s0) by (apply Inv_log; exact H0).
  unfold bind at 1, gets in Hstep. cbn [fst snd] in Hstep.
  set (rows := sort_by_id _) in Hstep.
  assert (Hrows : forall id r, In (id, r) rows -> assoc id (t_rows (tbl s0 k)) = Some r).
  { intros id0 r Hi0. unfold rows in Hi0. apply (proj1 (In_sort_by_id _ _)) in Hi0. apply filter_In in Hi0. destruct Hi0 as (Hi0 & _).
    apply (table_row cfg M04 s0 k id0 r H0' Hi0). }
  unfold bind at 1 in Hstep.
  pose proof (select_rows_spec cfg M04 k rows [] s0 H0' Hrows) as S.
  destruct (select_rows cfg k rows [] s0) as [[objs|e] s1]; [|destruct keep; discriminate].
  destruct S as (S1 & S2 & S3 & S4).
  unfold bind at 1, gets in Hstep. cbn [fst snd] in Hstep.
  assert (Eres : res = map (fun x => (i_id (get_inst s1 x), slot_of s1 x)) objs).
  { destruct keep as [n|]; [destruct (nth_error objs n)|]; unfold bind, modify, ret in Hstep; cbn [fst snd] in Hstep; inversion Hstep; reflexivity. }
  subst res. apply in_map_iff in Hin. destruct Hin as (x & Ex & Hx). inversion Ex as [[Eid Etok]]. clear Ex.
  destruct (S4 x Hx) as [[]|(id0 & R & K1 & K2 & Rw)].
  assert (E0 : id0 = id) by congruence. rewrite E0 in R, Rw. clear E0.
  assert (Ro : registered s1 k id o) by (apply (held_registered cfg M04 objs s0 s1 o k id H0' S1 S2 S3); assumption).
  assert (x = o) by (eapply registered_fun; eauto). subst x.
  destruct S2 as (Esl & _). split.
  - apply (slot_of_slots s s1 o). exact Esl.
  - apply slot_of_some. rewrite Esl. exact Hh.
Qed.

Theorem C04_unpickle_no_duplicate_proof_alt :
  forall cfg ops o p pk,
    forallb guard04 ops = true ->
    let s := run cfg ops in
    held s o -> current s o -> nth_error (pickles s) p = Some pk -> is_row s o (p_k pk) (p_id pk) ->
    assoc (p_id pk) (t_rows (tbl s (p_k pk))) <> None ->      (* ADDED: the row exists *)
    exists s', step cfg s (OUnpickle p) = (Raise EValue, s').
Proof.
  intros cfg ops o p pk Hg s Hh Hc Hp (Hk & Hi) Hrow.
  pose proof (reachable_Inv cfg M04 ops (gop_M04 ops Hg)) as H. fold s in H.
  pose proof (Inv_st0 cfg M04 s H) as H0.
  assert (R : registered (st0 s) (p_k pk) (p_id pk) o).
  { apply (held_registered cfg M04 [] (st0 s) (st0 s) o _ _ H0 H0 (ext_refl _) eq_refl); assumption. }
  unfold step. cbn [run_op]. fold (st0 s). unfold hold_or_none, so_unpickle.
  unfold bind at 1, gets. cbn [fst snd]. change (pickles (st0 s)) with (pickles s). rewrite Hp.
  unfold bind at 1, new_inst. cbn [fst snd].
  set (s1 := with_heap (st0 s) _).
  assert (H1 : Inv cfg M04 [] s1) by (apply Inv_new; [exact H0|reflexivity|split; [reflexivity|split; reflexivity]]).
  unfold bind at 1.
  destruct (cache_try_get_run cfg M04 (p_k pk) (p_id pk) [length (heap (st0 s))] [] s1 H1) as (a & Et & Hnone). rewrite Et.
  destruct a as [x|]; [eexists; reflexivity|].
  exfalso. apply (Hnone eq_refl o R). right. left. exact Hh.
Qed.

(* destroySelf purges the entry in every caching mode: no doCache hypothesis *)
Theorem C04_deleted_not_returned_anycache_proof :
  forall cfg ops k id id' tok s',
    forallb guard04 ops = true ->
    forallb no_unpickle ops = true ->           (* ADDED: no OUnpickle in the history *)
    let s := run cfg ops in
    step cfg s (OGet k id) = (Ret (RObj id' tok), s') ->
    assoc id (t_rows (tbl s' k)) <> None.
Proof.
  intros cfg ops k id id' tok s' Hg Hnu s Hstep.
  pose proof (reachable_Inv cfg MNU ops (gop_MNU ops Hg Hnu)) as H. fold s in H.
  pose proof (Inv_st0 cfg MNU s H) as H0.
  unfold step in Hstep. cbn [run_op] in Hstep. fold (st0 s) in Hstep. unfold hold_or_none in Hstep.
  pose proof (so_get_spec cfg MNU k id None [] (st0 s) H0 ltac:(discriminate)) as G.
  destruct (so_get cfg k id None [] (st0 s)) as [[ob|e] s1]; [|discriminate].
  destruct G as (G1 & G2 & G3 & G4 & G5 & G6 & G7).
  unfold hold, bind, gets, modify, ret in Hstep. cbn [fst snd] in Hstep. inversion Hstep; subst id' tok s'. clear Hstep.
  destruct (inv_X _ _ _ _ G1 k id ob (registered_cached _ _ _ _ G4)) as (_ & Hrow). exact (Hrow eq_refl).
Qed.

(* the earlier, weaker form (kept for its users) *)
Theorem C04_deleted_not_returned_proof_alt :
  forall cfg ops k id id' tok s',
    forallb guard04 ops = true -> doCache cfg = true ->
    forallb no_unpickle ops = true ->
    let s := run cfg ops in
    step cfg s (OGet k id) = (Ret (RObj id' tok), s') ->
    assoc id (t_rows (tbl s' k)) <> None.
Proof.
  intros cfg ops k id id' tok s' Hg _ Hnu. exact (C04_deleted_not_returned_anycache_proof cfg ops k id id' tok s' Hg Hnu).
Qed.

(* no history of C04 ever leaves a destroyed instance in the identity map (any caching mode, unpickling allowed) *)
Theorem C04_cached_is_current :
  forall cfg ops k id o,
    forallb guard04 ops = true ->
    let s := run cfg ops in
    (In (id, o) (c_strong (cch s k)) \/ In (id, o) (c_weak (cch s k))) -> i_obsolete (get_inst s o) = false.
Proof.
  intros cfg ops k id o Hg s Hc.
  pose proof (reachable_Inv cfg M04 ops (gop_M04 ops Hg)) as H. fold s in H.
  exact (proj1 (inv_X _ _ _ _ H k id o Hc)).
Qed.

(* the same two, for histories without unpickling: a held current instance always has its row *)
Lemma held_current_row cfg ops o :
  forallb guard04 ops = true -> forallb no_unpickle ops = true ->
  let s := run cfg ops in
  held s o -> current s o -> assoc (i_id (get_inst s o)) (t_rows (tbl s (i_k (get_inst s o)))) <> None.
Proof.
  intros Hg Hnu s Hh Hc.
  pose proof (reachable_Inv cfg MNU ops (gop_MNU ops Hg Hnu)) as H. fold s in H.
  destruct (inv_L _ _ _ _ H o (held_live [] s o Hh)) as (_ & (_ & B2 & _) & _). exact (B2 eq_refl Hc).
Qed.

Theorem C04_get_returns_held_proof_alt2 :
  forall cfg ops o k id id' tok s',
    forallb guard04 ops = true ->
    forallb no_unpickle ops = true ->           (* ADDED: no OUnpickle in the history *)
    let s := run cfg ops in
    held s o -> current s o -> is_row s o k id ->
    step cfg s (OGet k id) = (Ret (RObj id' tok), s') ->
    id' = id /\ tok = slot_of s o /\ tok <> None.
Proof.
  intros cfg ops o k id id' tok s' Hg Hnu s Hh Hc Hr Hstep.
  apply (C04_get_returns_held_proof_alt cfg ops o k id id' tok s' Hg Hh Hc Hr); [|exact Hstep].
  destruct Hr as (<- & <-). exact (held_current_row cfg ops o Hg Hnu Hh Hc).
Qed.

Theorem C04_unpickle_no_duplicate_proof_alt2 :
  forall cfg ops o p pk,
    forallb guard04 ops = true ->
    forallb no_unpickle ops = true ->           (* ADDED: no OUnpickle in the history (this is the first unpickle) *)
    let s := run cfg ops in
    held s o -> current s o -> nth_error (pickles s) p = Some pk -> is_row s o (p_k pk) (p_id pk) ->
    exists s', step cfg s (OUnpickle p) = (Raise EValue, s').
Proof.
  intros cfg ops o p pk Hg Hnu s Hh Hc Hp Hr.
  apply (C04_unpickle_no_duplicate_proof_alt cfg ops o p pk Hg Hh Hc Hp Hr).
  destruct Hr as (<- & <-). exact (held_current_row cfg ops o Hg Hnu Hh Hc).
Qed.

Print Assumptions C04_unique_proof_alt.
Print Assumptions C04_unique_proof_alt2.
Print Assumptions C04_get_returns_held_proof_alt.
Print Assumptions C04_byalt_returns_held_proof.
Print Assumptions C04_select_returns_held_proof.
Print Assumptions C04_unpickle_no_duplicate_proof_alt.
Print Assumptions C04_deleted_not_returned_proof_alt.
Print Assumptions C04_get_returns_held_proof_alt2.
Print Assumptions C04_unpickle_no_duplicate_proof_alt2.
Print Assumptions C04_deleted_not_returned_anycache_proof.
Print Assumptions C04_cached_is_current.
