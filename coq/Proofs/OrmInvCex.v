(* The statements of OrmSpec that are FALSE of the model as written, with the
   concrete histories that refute them. *)
From Coq Require Import List ZArith Bool Lia.
From Model Require Import Orm.
From Proofs Require Import OrmSpec.
Import ListNotations.
Open Scope Z_scope.

Definition cfgT : config := {| doCache := true; cullFreq := 100; cullFrac := 2 |}.

(* create a row, pickle the instance, destroy it, unpickle (a current instance of a
   deleted row, registered), destroy the already destroyed first instance AGAIN:
   destroySelf expires the cache entry of the unpickled instance *)
Definition hist_redestroy : list op :=
  [OCreate Eager [(1%nat, VInt 1)]; OPickle 0; ODestroy 0; OUnpickle 0; ODestroy 0].

Ltac solve_side := vm_compute; intuition (try congruence).

(* ... a second unpickle then yields a second live instance of the same row *)
Lemma C04_unique_stmt_false : ~ C04_unique_stmt.
Proof.
  intros H. assert (E : 1%nat = 2%nat); [|discriminate].
  apply (H cfgT (hist_redestroy ++ [OUnpickle 0]) 1%nat 2%nat Eager 1); solve_side.
Qed.

(* the same with caching off: the purge of destroySelf removes the weak entry too *)
Definition cfgF : config := {| doCache := false; cullFreq := 100; cullFrac := 2 |}.
Lemma C04_unique_stmt_false_nocache :
  exists ops o1 o2 k id, forallb guard04 ops = true /\
    held (run cfgF ops) o1 /\ held (run cfgF ops) o2 /\ current (run cfgF ops) o1 /\ current (run cfgF ops) o2 /\
    is_row (run cfgF ops) o1 k id /\ is_row (run cfgF ops) o2 k id /\ o1 <> o2.
Proof.
  exists (hist_redestroy ++ [OUnpickle 0]), 1%nat, 2%nat, Eager, 1. solve_side.
Qed.

Lemma C04_unpickle_no_duplicate_stmt_false : ~ C04_unpickle_no_duplicate_stmt.
Proof.
  intros H.
  destruct (H cfgT hist_redestroy 1%nat 0%nat {| p_k := Eager; p_id := 1; p_vals := [Some VNull; Some (VInt 1); Some (VInt 0)] |}) as (s' & E);
    try solve_side.
  vm_compute in E. discriminate E.
Qed.

Lemma C04_get_returns_held_stmt_false : ~ C04_get_returns_held_stmt.
Proof.
  intros H.
  destruct (H cfgT (hist_redestroy ++ [OUnpickle 0]) 1%nat Eager 1 1 (Some 2%nat)
              (snd (step cfgT (run cfgT (hist_redestroy ++ [OUnpickle 0])) (OGet Eager 1)))) as (_ & E & _);
    try solve_side.
  vm_compute in E. discriminate E.
Qed.

(* unpickling the pickle of a destroyed row registers an instance whose row is gone; get returns it *)
Lemma C04_deleted_not_returned_stmt_false : ~ C04_deleted_not_returned_stmt.
Proof.
  intros H.
  apply (H cfgT [OCreate Eager [(1%nat, VInt 1)]; OPickle 0; ODestroy 0; OUnpickle 0] Eager 1 1 (Some 1%nat)
           (snd (step cfgT (run cfgT [OCreate Eager [(1%nat, VInt 1)]; OPickle 0; ODestroy 0; OUnpickle 0]) (OGet Eager 1))));
    solve_side.
Qed.

(* a cacheValues=False class does not refresh its attributes on assignment *)
Lemma C05_coherent_stmt_false_nocv : ~ C05_coherent_stmt.
Proof.
  intros H.
  pose proof (H cfgT [OCreate NoCV [(1%nat, VInt 1)]; OSetAttr 0 0 (VInt 2)] 0%nat eq_refl) as S.
  cbn zeta in S. assert (Hh : held (run cfgT [OCreate NoCV [(1%nat, VInt 1)]; OSetAttr 0 0 (VInt 2)]) 0) by solve_side.
  assert (Hc : current (run cfgT [OCreate NoCV [(1%nat, VInt 1)]; OSetAttr 0 0 (VInt 2)]) 0) by solve_side.
  specialize (S Hh Hc 0%nat VNull). vm_compute in S. destruct (S eq_refl) as (r & E1 & E2). inversion E1; subst. discriminate.
Qed.

(* (the former witnesses C05_coherent_stmt_false_range / C05_read_stmt_false -- a reload of a dirty lazy
   instance hid its pending values -- no longer exist: the reload now overlays the pending values, repair ab43260) *)

Print Assumptions C04_unique_stmt_false.
Print Assumptions C04_unpickle_no_duplicate_stmt_false.
Print Assumptions C04_get_returns_held_stmt_false.
Print Assumptions C04_deleted_not_returned_stmt_false.
Print Assumptions C05_coherent_stmt_false_nocv.
Print Assumptions C04_unique_stmt_false_nocache.
