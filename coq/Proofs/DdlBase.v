(* Base lemmas for C14: string equality, keyword tests, the comma splitter,
   the flag automaton and the REFERENCES finder are compositional. *)
From Coq Require Import List ZArith NArith Bool String Ascii Lia.
From Model Require Import Ddl.
Import ListNotations.
Open Scope string_scope.
Open Scope list_scope.
Open Scope N_scope.

(* ------------------------------------------------------------------ strings *)
Lemma str_eqb_refl : forall s, str_eqb s s = true.
Proof. induction s; cbn; [reflexivity|]. rewrite N.eqb_refl. exact IHs. Qed.

Lemma str_eqb_eq : forall a b, str_eqb a b = true <-> a = b.
Proof.
  induction a as [|x a IH]; destruct b as [|y b]; cbn; split; intro H; try reflexivity; try discriminate.
  - apply andb_true_iff in H. destruct H as [H1 H2]. apply N.eqb_eq in H1. apply IH in H2. subst. reflexivity.
  - inversion H; subst. rewrite N.eqb_refl. apply IH. reflexivity.
Qed.

Lemma str_eqb_neq : forall a b, str_eqb a b = false <-> a <> b.
Proof.
  intros a b. split; intro H.
  - intro E. apply str_eqb_eq in E. congruence.
  - destruct (str_eqb a b) eqn:E; [|reflexivity]. apply str_eqb_eq in E. contradiction.
Qed.

Lemma upper_c_us : forall c, upper_c c = c_us -> c = c_us.
Proof.
  intros c. unfold upper_c, is_lower, c_us.
  destruct ((97 <=? c) && (c <=? 122)) eqn:E; [|auto].
  apply andb_true_iff in E. destruct E as [E1 E2]. apply N.leb_le in E1, E2. lia.
Qed.

Lemma in_upper_s : forall c s, In c s -> In (upper_c c) (upper_s s).
Proof. intros. unfold upper_s. apply in_map. assumption. Qed.

(* a word that contains an underscore is none of the reader's keywords *)
Definition no_us (k : string) : bool := negb (existsb (fun c => c =? c_us) (s2l k)).

Lemma kw_is_us : forall w k, In c_us w -> no_us k = true -> kw_is w k = false.
Proof.
  intros w k Hin Hk. unfold kw_is. apply str_eqb_neq. intro E.
  apply in_upper_s in Hin. rewrite E in Hin. unfold no_us in Hk.
  apply negb_true_iff in Hk.
  assert (existsb (fun c => c =? c_us) (s2l k) = true).
  { apply existsb_exists. exists (upper_c c_us). split; [assumption|]. cbn. reflexivity. }
  congruence.
Qed.

Lemma in_app_us : forall a b, In c_us (a ++ c_us :: b).
Proof. intros. apply in_or_app. right. left. reflexivity. Qed.

(* ------------------------------------------------------------------ word classes *)
Definition is_fstep_word (w : str) : bool :=
  kw_is w "NOT" || kw_is w "PRIMARY" || kw_is w "UNIQUE" || kw_is w "IDENTITY".
Definition is_ref_word (w : str) : bool := kw_is w "REFERENCES".
Definition no_word (w : str) : bool := false.

Lemma flag_word_split : forall w, is_flag_word w = false ->
  kw_is w "NOT" = false /\ kw_is w "UNIQUE" = false /\ kw_is w "PRIMARY" = false
  /\ kw_is w "IDENTITY" = false /\ kw_is w "REFERENCES" = false /\ kw_is w "FOREIGN" = false.
Proof.
  intros w H. unfold is_flag_word, flag_words in H. cbn [existsb] in H.
  repeat (apply orb_false_iff in H; destruct H as [? H]). repeat split; assumption.
Qed.

Lemma flag_fstep : forall w, is_flag_word w = false -> is_fstep_word w = false.
Proof.
  intros w H. apply flag_word_split in H. destruct H as (A & B & C & D & _).
  unfold is_fstep_word. rewrite A, B, C, D. reflexivity.
Qed.
Lemma flag_ref : forall w, is_flag_word w = false -> is_ref_word w = false.
Proof. intros w H. apply flag_word_split in H. unfold is_ref_word. tauto. Qed.

Lemma reserved_split : forall w, is_reserved w = false ->
  is_flag_word w = false /\ kw_is w "FOREIGN" = false /\ kw_is w "NULL" = false /\ kw_is w "KEY" = false.
Proof.
  intros w H. unfold is_reserved, reserved_words in H. cbn [existsb] in H.
  repeat (apply orb_false_iff in H; destruct H as [? H]).
  unfold is_flag_word, flag_words. cbn [existsb].
  repeat match goal with h : kw_is w _ = false |- _ => rewrite h; clear h end.
  repeat split; reflexivity.
Qed.

Lemma name_ok_inv : forall w, name_ok w = true -> w <> [] /\ is_reserved w = false.
Proof.
  intros w H. unfold name_ok in H. apply andb_true_iff in H. destruct H as [A B].
  apply negb_true_iff in B. split; [|assumption]. destruct w; [discriminate|congruence].
Qed.

(* ------------------------------------------------------------------ cleanc *)
Lemma cleanc_app : forall bad a b d,
  cleanc bad d (a ++ b) = match cleanc bad d a with Some d' => cleanc bad d' b | None => None end.
Proof.
  intros bad. induction a as [|t a IH]; intros b d; [reflexivity|].
  cbn. destruct t; try apply IH.
  - destruct d; [|apply IH]. destruct (bad s); [reflexivity|apply IH].
  - destruct d; [reflexivity|apply IH].
  - destruct d; [reflexivity|apply IH].
Qed.

Lemma cleanc_mono : forall (b1 b2 : str -> bool), (forall w, b1 w = false -> b2 w = false) ->
  forall a d d', cleanc b1 d a = Some d' -> cleanc b2 d a = Some d'.
Proof.
  intros b1 b2 Hm. induction a as [|t a IH]; intros d d' H; [exact H|].
  cbn in *. destruct t; try (apply IH; exact H).
  - destruct d; [|apply IH; exact H]. destruct (b1 s) eqn:E; [discriminate|].
    rewrite (Hm _ E). apply IH; exact H.
  - destruct d; [discriminate|apply IH; exact H].
  - destruct d; [discriminate|apply IH; exact H].
Qed.

Definition bal (l : list tok) : Prop := cleanc no_word O l = Some O.

Lemma bal_of : forall bad l, cleanc bad O l = Some O -> bal l.
Proof. intros. unfold bal. eapply cleanc_mono; [|eassumption]. reflexivity. Qed.

Lemma bal_app : forall a b, bal a -> bal b -> bal (a ++ b).
Proof. unfold bal. intros a b Ha Hb. rewrite cleanc_app, Ha. exact Hb. Qed.

(* at depth > 0 nothing but parentheses matters *)
Lemma cleanc_lits : forall bad (ls : list (list tok)) d,
  (forall l, In l ls -> forall d, cleanc bad (S d) l = Some (S d)) ->
  cleanc bad (S d) (sep_by [Comma] ls) = Some (S d).
Proof.
  intros bad. induction ls as [|x ls IH]; intros d H; [reflexivity|].
  destruct ls as [|y ls].
  - cbn. apply H. left. reflexivity.
  - change (sep_by [Comma] (x :: y :: ls)) with (x ++ [Comma] ++ sep_by [Comma] (y :: ls)).
    rewrite cleanc_app, (H x (or_introl eq_refl)). cbn [app cleanc].
    apply IH. intros l Hl. apply H. right. exact Hl.
Qed.

(* ------------------------------------------------------------------ split_top *)
Lemma split_top_skip : forall s d d' cur r,
  cleanc no_word d s = Some d' ->
  split_top d cur (s ++ r) = split_top d' (rev s ++ cur) r.
Proof.
  induction s as [|t s IH]; intros d d' cur r H.
  - cbn in *. inversion H. reflexivity.
  - cbn in H. cbn [app rev]. rewrite <- app_assoc. cbn [app].
    destruct t; cbn [split_top]; try (apply IH; exact H).
    + destruct d; apply IH; exact H.
    + destruct d; [discriminate|]. cbn [pred]. apply IH; exact H.
    + destruct d; [discriminate|]. apply IH; exact H.
Qed.

Lemma split_sep : forall segs, segs <> [] -> Forall bal segs ->
  split_top O [] (sep_by [Comma] segs) = segs.
Proof.
  induction segs as [|x segs IH]; intros Hne Hb; [congruence|].
  inversion Hb as [|? ? Hx Hr]; subst.
  destruct segs as [|y segs].
  - cbn [sep_by]. rewrite <- (app_nil_r x) at 1. rewrite (split_top_skip x O O [] [] Hx).
    cbn. rewrite app_nil_r, rev_involutive. reflexivity.
  - change (sep_by [Comma] (x :: y :: segs)) with (x ++ [Comma] ++ sep_by [Comma] (y :: segs)).
    rewrite (split_top_skip x O O [] _ Hx). cbn [app split_top].
    rewrite app_nil_r, rev_involutive. f_equal. apply IH; [discriminate|assumption].
Qed.

(* ------------------------------------------------------------------ the flag automaton *)
Lemma frun_app : forall a b s,
  frun s (a ++ b) = match frun s a with Some s' => frun s' b | None => None end.
Proof.
  induction a as [|t a IH]; intros b s; [reflexivity|].
  cbn. destruct (fstep s t); [apply IH|reflexivity].
Qed.

Definition fst_ (d : nat) (f : flags) : fstate := {| fs_depth := d; fs_mode := MNorm; fs_flags := f |}.

Lemma fstep_word_other : forall f w, is_fstep_word w = false ->
  fstep (fst_ O f) (W w) = Some (fst_ O f).
Proof.
  intros f w H. unfold is_fstep_word in H.
  repeat (apply orb_false_iff in H; destruct H as [H ?]).
  unfold fstep, fst_. cbn. rewrite H.
  repeat match goal with h : kw_is w _ = false |- _ => rewrite h end. reflexivity.
Qed.

Lemma frun_neutral : forall l d d' f, cleanc is_fstep_word d l = Some d' ->
  frun (fst_ d f) l = Some (fst_ d' f).
Proof.
  induction l as [|t l IH]; intros d d' f H.
  - cbn in *. inversion H. reflexivity.
  - cbn in H. cbn [frun]. destruct t.
    + destruct d.
      * destruct (is_fstep_word s) eqn:E; [discriminate|].
        rewrite (fstep_word_other f s E). apply IH; exact H.
      * cbn. apply IH; exact H.
    + cbn. apply IH; exact H.
    + cbn. apply IH; exact H.
    + destruct d; [discriminate|]. cbn. apply IH; exact H.
    + destruct d; [discriminate|]. cbn. apply IH; exact H.
    + cbn. apply IH; exact H.
    + cbn. apply IH; exact H.
Qed.

(* ------------------------------------------------------------------ the REFERENCES finder *)
Lemma find_ref_skip : forall a b d d', cleanc is_ref_word d a = Some d' ->
  find_ref d (a ++ b) = find_ref d' b.
Proof.
  induction a as [|t a IH]; intros b d d' H.
  - cbn in *. inversion H. reflexivity.
  - cbn in H. cbn [app find_ref]. destruct t; try (apply IH; exact H).
    + destruct d; [|apply IH; exact H].
      unfold is_ref_word in H at 1. destruct (kw_is s "REFERENCES"); [discriminate|]. apply IH; exact H.
    + destruct d; [discriminate|]. cbn [pred]. apply IH; exact H.
    + destruct d; [discriminate|]. apply IH; exact H.
Qed.

Lemma find_ref_none : forall a d, cleanc is_ref_word d a = Some O -> find_ref d a = Some None.
Proof.
  intros a d H. rewrite <- (app_nil_r a). rewrite (find_ref_skip a [] d O H). reflexivity.
Qed.

(* ------------------------------------------------------------------ misc *)
Lemma unsnoc_app : forall {A} (l : list A) x, unsnoc (l ++ [x]) = Some (l, x).
Proof. intros. unfold unsnoc. rewrite rev_app_distr. cbn. rewrite rev_involutive. reflexivity. Qed.

Lemma all_some_app : forall {A} (a b : list (option A)) x y,
  all_some a = Some x -> all_some b = Some y -> all_some (a ++ b) = Some (x ++ y).
Proof.
  induction a as [|o a IH]; intros b x y Ha Hb.
  - cbn in *. inversion Ha. exact Hb.
  - cbn in *. destruct o; [|discriminate]. destruct (all_some a) eqn:E; [|discriminate].
    inversion Ha; subst. rewrite (IH b l y eq_refl Hb). reflexivity.
Qed.

Lemma seg_cols_app : forall a b, seg_cols (a ++ b) = seg_cols a ++ seg_cols b.
Proof. induction a as [|s a IH]; intros; [reflexivity|]. destruct s; cbn; rewrite IH; reflexivity. Qed.
Lemma seg_fks_app : forall a b, seg_fks (a ++ b) = seg_fks a ++ seg_fks b.
Proof.
  induction a as [|s a IH]; intros; [reflexivity|]. destruct s as [c [r|]|f]; cbn; rewrite IH; reflexivity.
Qed.
