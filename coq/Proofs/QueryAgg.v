(* Aggregates: sqlite's row-by-row accumulators compute the sum / minimum /
   maximum / average / count of the non-NULL values (of the distinct non-NULL
   values under DISTINCT), and NULL when there is none. *)
From Coq Require Import List ZArith NArith Bool Lia.
From Lib Require Import PyLite QueryPy.
From Gen Require Import Query.
From Model Require Import Query.
Import ListNotations.
Open Scope Z_scope.

Definition zstep (d : bool) (a : acc) (z : Z) : acc := acc_step d a (Some z).

Lemma fold_nonnull d vals : forall a, fold_left (acc_step d) vals a = fold_left (zstep d) (nonnull vals) a.
Proof.
  induction vals as [|[z|] vals IH]; intros a; cbn [fold_left nonnull]; [reflexivity| |].
  - apply IH.
  - cbn [acc_step]. apply IH.
Qed.

(* closed form *)
Fixpoint lmin (l : list Z) : option Z :=
  match l with [] => None | z :: r => Some (match lmin r with None => z | Some m => Z.min z m end) end.
Fixpoint lmax (l : list Z) : option Z :=
  match l with [] => None | z :: r => Some (match lmax r with None => z | Some m => Z.max z m end) end.
Definition omin (a b : option Z) : option Z :=
  match a, b with None, x | x, None => x | Some x, Some y => Some (Z.min x y) end.
Definition omax (a b : option Z) : option Z :=
  match a, b with None, x | x, None => x | Some x, Some y => Some (Z.max x y) end.

Definition obs4 (a : acc) : Z * Z * option Z * option Z := (ac_cnt a, ac_sum a, ac_min a, ac_max a).
Definition closed (o : Z * Z * option Z * option Z) (l : list Z) : Z * Z * option Z * option Z :=
  let '(c, s, mn, mx) := o in (c + zlength l, s + zsum l, omin mn (lmin l), omax mx (lmax l)).

Lemma zlength_cons {A} (x : A) l : zlength (x :: l) = 1 + zlength l.
Proof. unfold zlength. cbn [length]. lia. Qed.

Lemma closed_step a z l d :
  zmem z (ac_seen a) = false \/ d = false ->
  closed (obs4 (zstep d a z)) l = closed (obs4 a) (z :: l).
Proof.
  intros H. unfold zstep, acc_step.
  assert (E : d && zmem z (ac_seen a) = false) by (destruct H as [-> | ->]; [apply andb_false_r|reflexivity]).
  rewrite E. unfold obs4, closed. cbn [ac_cnt ac_sum ac_min ac_max lmin lmax zsum fold_right].
  rewrite zlength_cons. fold (zsum l).
  f_equal; [f_equal; [f_equal; lia|]|].
  - destruct (ac_min a) as [m|], (lmin l) as [x|]; cbn [omin]; f_equal; lia.
  - destruct (ac_max a) as [m|], (lmax l) as [x|]; cbn [omax]; f_equal; lia.
Qed.

Lemma nd_closed l : forall a, obs4 (fold_left (zstep false) l a) = closed (obs4 a) l.
Proof.
  induction l as [|z l IH]; intros a; cbn [fold_left].
  - unfold closed, obs4. cbn. rewrite !Z.add_0_r.
    destruct (ac_min a), (ac_max a); reflexivity.
  - rewrite IH. apply closed_step. right. reflexivity.
Qed.

Lemma dist_closed l : forall a, obs4 (fold_left (zstep true) l a) = closed (obs4 a) (zdedup_from (ac_seen a) l).
Proof.
  induction l as [|z l IH]; intros a; cbn [fold_left zdedup_from].
  - unfold closed, obs4. cbn. rewrite !Z.add_0_r.
    destruct (ac_min a), (ac_max a); reflexivity.
  - destruct (zmem z (ac_seen a)) eqn:E.
    + unfold zstep at 2. unfold acc_step. rewrite E. cbn [andb]. apply IH.
    + rewrite IH.
      assert (Hs : ac_seen (zstep true a z) = z :: ac_seen a).
      { unfold zstep, acc_step. rewrite E. reflexivity. }
      rewrite Hs. apply closed_step. left. exact E.
Qed.

Lemma agg_obs d vals :
  obs4 (fold_left (acc_step d) vals acc0) = closed (0, 0, None, None) (distinct_vals d vals).
Proof.
  rewrite fold_nonnull. destruct d; [rewrite dist_closed|rewrite nd_closed]; reflexivity.
Qed.

Lemma zlength_zero {A} (l : list A) : (zlength l =? 0) = match l with [] => true | _ => false end.
Proof. destruct l; [reflexivity|]. rewrite zlength_cons. unfold zlength. apply Z.eqb_neq. lia. Qed.

Lemma lmin_spec l : match lmin l with None => l = [] | Some m => is_min m l end.
Proof.
  induction l as [|z l IH]; [reflexivity|]. cbn [lmin]. destruct (lmin l) as [m|].
  - destruct IH as [Hin Hle]. split.
    + destruct (Z.min_spec z m) as [[_ ->]|[_ ->]]; [left; reflexivity|right; exact Hin].
    + intros x [<-|Hx]; [lia|]. specialize (Hle x Hx). lia.
  - subst. split; [left; reflexivity|]. intros x [<-|[]]. lia.
Qed.
Lemma lmax_spec l : match lmax l with None => l = [] | Some m => is_max m l end.
Proof.
  induction l as [|z l IH]; [reflexivity|]. cbn [lmax]. destruct (lmax l) as [m|].
  - destruct IH as [Hin Hle]. split.
    + destruct (Z.max_spec z m) as [[_ ->]|[_ ->]]; [right; exact Hin|left; reflexivity].
    + intros x [<-|Hx]; [lia|]. specialize (Hle x Hx). lia.
  - subst. split; [left; reflexivity|]. intros x [<-|[]]. lia.
Qed.

(* ---------------------------------------------------------------- the five functions *)
Theorem agg_count d vals : agg_exec FCOUNT d vals = AInt (zlength (distinct_vals d vals)).
Proof.
  unfold agg_exec, agg_final. pose proof (agg_obs d vals) as H. unfold obs4, closed in H.
  inversion H. reflexivity.
Qed.

Theorem agg_sum d vals :
  agg_exec FSUM d vals = match distinct_vals d vals with [] => ANull | l => AInt (zsum l) end.
Proof.
  unfold agg_exec, agg_final. pose proof (agg_obs d vals) as H. unfold obs4, closed in H.
  inversion H as [[Hc Hs Hmn Hmx]]. rewrite Hc, Hs. cbn [Z.add]. rewrite zlength_zero.
  destruct (distinct_vals d vals); reflexivity.
Qed.

Theorem agg_avg d vals :
  agg_exec FAVG d vals = match distinct_vals d vals with [] => ANull | l => ARat (zsum l) (zlength l) end.
Proof.
  unfold agg_exec, agg_final. pose proof (agg_obs d vals) as H. unfold obs4, closed in H.
  inversion H as [[Hc Hs Hmn Hmx]]. rewrite Hc, Hs. cbn [Z.add]. rewrite zlength_zero.
  destruct (distinct_vals d vals); reflexivity.
Qed.

Theorem agg_min d vals :
  match agg_exec FMIN d vals with
  | ANull => distinct_vals d vals = []
  | AInt m => is_min m (distinct_vals d vals)
  | ARat _ _ => False
  end.
Proof.
  unfold agg_exec, agg_final. pose proof (agg_obs d vals) as H. unfold obs4, closed in H.
  inversion H as [[Hc Hs Hmn Hmx]]. rewrite Hmn. cbn [omin].
  pose proof (lmin_spec (distinct_vals d vals)) as L. destruct (lmin (distinct_vals d vals)); exact L.
Qed.

Theorem agg_max d vals :
  match agg_exec FMAX d vals with
  | ANull => distinct_vals d vals = []
  | AInt m => is_max m (distinct_vals d vals)
  | ARat _ _ => False
  end.
Proof.
  unfold agg_exec, agg_final. pose proof (agg_obs d vals) as H. unfold obs4, closed in H.
  inversion H as [[Hc Hs Hmn Hmx]]. rewrite Hmx. cbn [omax].
  pose proof (lmax_spec (distinct_vals d vals)) as L. destruct (lmax (distinct_vals d vals)); exact L.
Qed.

(* ---------------------------------------------------------------- zdedup is "the distinct values" *)
Lemma zmem_in z l : zmem z l = true <-> In z l.
Proof.
  unfold zmem. rewrite existsb_exists. split.
  - intros [x [Hx E]]. apply Z.eqb_eq in E. subst. exact Hx.
  - intros H. exists z. split; [exact H|apply Z.eqb_refl].
Qed.

Lemma zdedup_from_spec l : forall seen,
  NoDup (zdedup_from seen l) /\
  forall x, In x (zdedup_from seen l) <-> In x l /\ ~ In x seen.
Proof.
  induction l as [|z l IH]; intros seen; cbn [zdedup_from].
  - split; [constructor|]. intros x. split; [intros []|intros [[] _]].
  - destruct (zmem z seen) eqn:E.
    + destruct (IH seen) as [Hn Hi]. split; [exact Hn|]. intros x. rewrite Hi.
      apply zmem_in in E. split.
      * intros [H1 H2]. split; [right; exact H1|exact H2].
      * intros [[<-|H1] H2]; [contradiction|]. split; assumption.
    + destruct (IH (z :: seen)) as [Hn Hi].
      assert (Hz : ~ In z seen) by (intros H; apply zmem_in in H; congruence).
      split.
      * constructor; [|exact Hn]. rewrite Hi. intros [_ H]. apply H. left. reflexivity.
      * intros x. cbn [In]. rewrite Hi. cbn [In]. split.
        -- intros [<-|[H1 H2]]; [split; [left; reflexivity|exact Hz]|].
           split; [right; exact H1|]. intros H. apply H2. right. exact H.
        -- intros [[<-|H1] H2]; [left; reflexivity|].
           destruct (Z.eq_dec z x) as [->|Hne]; [left; reflexivity|].
           right. split; [exact H1|]. intros [H|H]; [contradiction|contradiction].
Qed.

Theorem zdedup_spec l : NoDup (zdedup l) /\ forall x, In x (zdedup l) <-> In x l.
Proof.
  destruct (zdedup_from_spec l []) as [Hn Hi]. split; [exact Hn|].
  intros x. unfold zdedup. rewrite Hi. split; [intros [H _]; exact H|intros H; split; [exact H|intros []]].
Qed.

Lemma zdedup_nodup l : NoDup l -> zdedup l = l.
Proof.
  unfold zdedup. assert (G : forall seen, NoDup l -> (forall x, In x l -> ~ In x seen) -> zdedup_from seen l = l).
  { induction l as [|z l IH]; intros seen Hn Hd; [reflexivity|]. cbn [zdedup_from].
    inversion Hn as [|? ? Hz Hl]; subst.
    destruct (zmem z seen) eqn:E.
    - apply zmem_in in E. exfalso. exact (Hd z (or_introl eq_refl) E).
    - f_equal. apply IH; [exact Hl|]. intros x Hx [<-|H]; [contradiction|].
      exact (Hd x (or_intror Hx) H). }
  intros Hn. apply G; [exact Hn|]. intros x _ [].
Qed.

Lemma nonnull_some l : nonnull (map Some l) = l.
Proof. induction l as [|z l IH]; [reflexivity|]. cbn [map nonnull]. rewrite IH. reflexivity. Qed.

(* COUNT(DISTINCT id) over rows with unique ids is the number of rows *)
Theorem count_distinct_ids w rows :
  ids_unique rows -> count_distinct_id w rows = AInt (count_star w rows).
Proof.
  intros H. unfold count_distinct_id, count_star. rewrite agg_count. unfold distinct_vals.
  replace (map (getc CId) (matching w rows)) with (map Some (map rid (matching w rows)))
    by (rewrite map_map; reflexivity).
  rewrite nonnull_some. rewrite zdedup_nodup.
  - unfold zlength. rewrite map_length. reflexivity.
  - unfold matching. clear - H. unfold ids_unique in H.
    induction rows as [|x rows IH]; [constructor|]. cbn [map filter] in *.
    inversion H as [|? ? Hn Hd]; subst. destruct (holds w x); [|exact (IH Hd)].
    cbn [map]. constructor; [|exact (IH Hd)].
    intros Hin. apply Hn. apply in_map_iff in Hin. destruct Hin as [y [Hy Hin]].
    apply filter_In in Hin. rewrite <- Hy. apply in_map. exact (proj1 Hin).
Qed.
