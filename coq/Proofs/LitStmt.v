(* C02, values and statements: every value occupies exactly its literal
   token(s) whatever follows, and the statement templates tokenize to a
   skeleton in which the data appear only as those literal tokens. *)
From Coq Require Import List NArith ZArith Bool Lia ZifyBool.
From Lib Require Import Str Lex.
From Gen Require Import Lit.
From Model Require Import Lit.
From Proofs Require Import LitStr LitTok.
Import ListNotations.
Open Scope N_scope.

(* what may follow a rendered value in the templates: end of text, a space, `)` or `,` *)
Definition lit_end (rest : str) : Prop :=
  match rest with [] => True | c :: _ => c = 32 \/ c = 41 \/ c = 44 end.

Lemma lit_end_nqs rest : lit_end rest -> no_quote_start rest.
Proof. destruct rest as [|c r]; [trivial|]. cbn. intros [ -> | [ -> | -> ] ]; reflexivity. Qed.
Lemma lit_end_num rest : lit_end rest -> num_end rest.
Proof. destruct rest as [|c r]; [trivial|]. cbn. intros [ -> | [ -> | -> ] ]; reflexivity. Qed.
Lemma lit_end_word rest : lit_end rest -> word_end rest.
Proof. destruct rest as [|c r]; [trivial|]. cbn. intros [ -> | [ -> | -> ] ]; split; reflexivity. Qed.

(* a piece of text that always tokenizes to tk, whatever (admissible) text follows *)
Definition piece_ok (d : dialect) (text : str) (tk : list token) : Prop :=
  forall rest toks, lit_end rest -> tokens_ok d rest toks -> tokens_ok d (text ++ rest) (tk ++ toks).

(* ---------------------------------------------------------------- induction on values *)
Section value_induction.
  Variable P : value -> Prop.
  Hypothesis HStr : forall s, P (VStr s).
  Hypothesis HInt : forall z, P (VInt z).
  Hypothesis HBool : forall b, P (VBool b).
  Hypothesis HNone : P VNone.
  Hypothesis HDate : forall y m d, P (VDate y m d).
  Hypothesis HDateTime : forall y m d hh mm ss us, P (VDateTime y m d hh mm ss us).
  Hypothesis HTime : forall hh mm ss us, P (VTime hh mm ss us).
  Hypothesis HSeq : forall l, Forall P l -> P (VSeq l).
  Fixpoint value_ind' (v : value) : P v :=
    match v with
    | VStr s => HStr s
    | VInt z => HInt z
    | VBool b => HBool b
    | VNone => HNone
    | VDate y m d => HDate y m d
    | VDateTime y m d hh mm ss us => HDateTime y m d hh mm ss us
    | VTime hh mm ss us => HTime hh mm ss us
    | VSeq l => HSeq l ((fix go (l : list value) : Forall P l :=
                           match l with
                           | [] => Forall_nil P
                           | x :: r => Forall_cons x (value_ind' x) (go r)
                           end) l)
    end.
End value_induction.

(* ---------------------------------------------------------------- plain bodies (dates, times) *)
Definition plain_char (c : ch) : bool := is_digit c || (c =? 45) || (c =? 58) || (c =? 46) || (c =? 32).

Lemma plain_facts : forall b, forallb plain_char b = true ->
  esc_bs b = b /\ esc_ansi b = b /\ contains 92 b = false /\ contains 0 b = false /\ has_continuation b = false.
Proof.
  induction b as [|c b IH]; intros H; [repeat split|].
  cbn [forallb] in H. apply andb_true_iff in H. destruct H as [Hc Hb].
  destruct (IH Hb) as (I1 & I2 & I3 & I4 & I5).
  unfold plain_char, is_digit in Hc.
  assert (E39 : (c =? 39) = false) by lia. assert (E92 : (c =? 92) = false) by lia.
  assert (E0 : (c =? 0) = false) by lia. assert (E8 : (c =? 8) = false) by lia.
  assert (E10 : (c =? 10) = false) by lia. assert (E13 : (c =? 13) = false) by lia.
  assert (E9 : (c =? 9) = false) by lia.
  repeat split.
  - unfold esc_bs. cbn [flat_map]. fold (esc_bs b). unfold esc_bs_char.
    rewrite E39, E92, E0, E8, E10, E13, E9, I1. reflexivity.
  - unfold esc_ansi. cbn [flat_map]. fold (esc_ansi b). unfold esc_ansi_char. rewrite E39, I2. reflexivity.
  - rewrite contains_cons, I3. rewrite N.eqb_sym, E92. reflexivity.
  - rewrite contains_cons, I4. rewrite N.eqb_sym, E0. reflexivity.
  - rewrite has_continuation_cons, I5. change c_bsl with 92. rewrite E92. reflexivity.
Qed.

Lemma plain_string d b : forallb plain_char b = true ->
  clean_string d b = 39 :: b ++ [39] /\ str_ok d b = true.
Proof.
  intros H. destruct (plain_facts b H) as (I1 & I2 & I3 & I4 & I5).
  unfold clean_string, quoted, clean_body, str_ok. change c_nul with 0.
  destruct d; cbn [bs_dialect dialect_eqb andb]; rewrite ?I1, ?I2, ?I3, ?I4, ?I5; split; reflexivity.
Qed.

Lemma piece_plain d b : forallb plain_char b = true -> piece_ok d (39 :: b ++ [39]) [TStr b].
Proof.
  intros H rest toks Hr Ht. destruct (plain_string d b H) as [E Hok]. rewrite <- E.
  apply tok_str; [exact Hok|now apply lit_end_nqs|exact Ht].
Qed.

Lemma digit_plain l : forallb is_digit l = true -> forallb plain_char l = true.
Proof.
  induction l as [|c l IH]; [reflexivity|]. cbn [forallb]. intros H.
  apply andb_true_iff in H. destruct H as [Hc Hl]. rewrite (IH Hl). unfold plain_char. rewrite Hc. reflexivity.
Qed.

Lemma fixed_plain w n : forallb plain_char (fixed w n) = true.
Proof. apply digit_plain, fixed_digits. Qed.
Lemma date_plain y m d : forallb plain_char (date_text y m d) = true.
Proof. unfold date_text. rewrite !forallb_app, !fixed_plain. reflexivity. Qed.
Lemma time_plain hh mm ss us : forallb plain_char (time_text hh mm ss us) = true.
Proof. unfold time_text. rewrite !forallb_app, !fixed_plain. reflexivity. Qed.

(* ---------------------------------------------------------------- scalars *)
Lemma piece_str d s : str_ok d s = true -> piece_ok d (clean_string d s) [TStr s].
Proof. intros H rest toks Hr Ht. apply tok_str; [exact H|now apply lit_end_nqs|exact Ht]. Qed.

Lemma piece_int d z : piece_ok d (dec_Z z) [TNum z].
Proof. intros rest toks Hr Ht. apply tok_int; [now apply lit_end_num|exact Ht]. Qed.

Lemma piece_word d w : safe_ident w = true -> piece_ok d w [TWord w].
Proof. intros H rest toks Hr Ht. apply tok_word; [exact H|now apply lit_end_word|exact Ht]. Qed.

(* ---------------------------------------------------------------- comma-separated lists *)
Lemma join2 sep (x y : str) r : join sep (x :: y :: r) = x ++ sep ++ join sep (y :: r).
Proof. reflexivity. Qed.
Lemma sep_tokens2 sep (x y : list token) r : sep_tokens sep (x :: y :: r) = x ++ sep :: sep_tokens sep (y :: r).
Proof. reflexivity. Qed.

(* a separator: tokenizes to one token whatever follows, and may follow a value *)
Definition sep_ok (d : dialect) (st : str) (stk : token) : Prop :=
  (forall rest, lit_end (st ++ rest)) /\
  (forall rest toks, tokens_ok d rest toks -> tokens_ok d (st ++ rest) (stk :: toks)).

Lemma join_sep_ok d st stk : sep_ok d st stk -> forall (ps : list (str * list token)),
  Forall (fun p => piece_ok d (fst p) (snd p)) ps ->
  piece_ok d (join st (map fst ps)) (sep_tokens stk (map snd ps)).
Proof.
  intros [Hs1 Hs2]. induction ps as [|[tx tk] ps IH]; intros HF rest toks Hr Ht.
  - exact Ht.
  - inversion HF as [|? ? Hx Hps]; subst. cbn [fst snd] in Hx.
    destruct ps as [|[ty tky] ps'].
    + cbn [map join sep_tokens fst snd]. now apply Hx.
    + specialize (IH Hps rest toks Hr Ht).
      change (map fst ((tx, tk) :: (ty, tky) :: ps')) with (tx :: ty :: map fst ps').
      change (map snd ((tx, tk) :: (ty, tky) :: ps')) with (tk :: tky :: map snd ps').
      rewrite join2, sep_tokens2. rewrite <- !app_assoc. cbn [app].
      apply Hx; [apply Hs1|]. apply Hs2. exact IH.
Qed.

Lemma comma_sep_ok d : sep_ok d [44; 32] (TPunct c_comma).
Proof.
  split; [intros rest; cbn; tauto|]. intros rest toks H. cbn [app].
  apply tok_punct; [reflexivity|]. apply tok_space; [reflexivity|]. exact H.
Qed.

Lemma join_comma_ok d : forall (ps : list (str * list token)),
  Forall (fun p => piece_ok d (fst p) (snd p)) ps ->
  piece_ok d (join [44; 32] (map fst ps)) (sep_tokens (TPunct c_comma) (map snd ps)).
Proof. apply join_sep_ok, comma_sep_ok. Qed.

(* ---------------------------------------------------------------- every value *)
Definition renders_ok (d : dialect) (v : value) : Prop :=
  value_ok d v = true -> exists text, render d v = Some text /\ piece_ok d text (lit_tokens d v).

Lemma sequence_pieces d : forall l,
  Forall (renders_ok d) l -> forallb (value_ok d) l = true ->
  exists texts, sequence (map (render d) l) = Some texts /\
                length texts = length l /\
                Forall (fun p => piece_ok d (fst p) (snd p)) (combine texts (map (lit_tokens d) l)).
Proof.
  induction l as [|v l IH]; intros HF Hok.
  - exists []. repeat split. constructor.
  - inversion HF as [|? ? Hv Hl]; subst. cbn [forallb] in Hok. apply andb_true_iff in Hok.
    destruct Hok as [Hvo Hlo]. destruct (Hv Hvo) as (tx & Etx & Ptx).
    destruct (IH Hl Hlo) as (texts & Es & Hlen & HP).
    exists (tx :: texts). cbn [map sequence]. rewrite Etx, Es. repeat split.
    + cbn. now rewrite Hlen.
    + cbn [map combine]. constructor; [exact Ptx|exact HP].
Qed.

Lemma map_fst_combine {A B} : forall (a : list A) (b : list B), length a = length b -> map fst (combine a b) = a.
Proof. induction a as [|x a IH]; intros [|y b] H; try discriminate; [reflexivity|]. cbn. f_equal. apply IH. now inversion H. Qed.
Lemma map_snd_combine {A B} : forall (a : list A) (b : list B), length a = length b -> map snd (combine a b) = b.
Proof. induction a as [|x a IH]; intros [|y b] H; try discriminate; [reflexivity|]. cbn. f_equal. apply IH. now inversion H. Qed.

(* the comma-separated rendering of a list of values *)
Lemma values_joined d l :
  Forall (renders_ok d) l -> forallb (value_ok d) l = true ->
  exists texts, render_all d l = Some texts /\ length texts = length l /\
                piece_ok d (join [44; 32] texts) (sep_tokens (TPunct c_comma) (map (lit_tokens d) l)).
Proof.
  intros HF Hok. destruct (sequence_pieces d l HF Hok) as (texts & Es & Hlen & HP).
  exists texts. split; [exact Es|]. split; [exact Hlen|].
  pose proof (join_comma_ok d _ HP) as J.
  rewrite map_fst_combine, map_snd_combine in J by (rewrite ?map_length; exact Hlen). exact J.
Qed.

Lemma paren_piece d text tk : piece_ok d text tk -> piece_ok d (40 :: text ++ [41]) (TPunct c_lp :: tk ++ [TPunct c_rp]).
Proof.
  intros H rest toks Hr Ht. cbn [app]. apply tok_punct; [reflexivity|].
  rewrite <- !app_assoc. cbn [app]. apply H; [cbn; tauto|]. apply tok_punct; [reflexivity|exact Ht].
Qed.

Lemma render_tokens d : forall v, renders_ok d v.
Proof.
  apply value_ind'; unfold renders_ok; cbn [render lit_tokens value_ok].
  - intros s Hok. exists (clean_string d s). split; [apply gen_string_char|now apply piece_str].
  - intros z _. exists (dec_Z z). split; [reflexivity|apply piece_int].
  - intros b _. destruct d, b; eexists; (split; [reflexivity|]);
      try (apply (piece_int _ 1%Z)); try (apply (piece_int _ 0%Z));
      [apply (piece_str Postgres [116]); reflexivity|apply (piece_str Postgres [102]); reflexivity].
  - intros _. exists s_NULL. split; [reflexivity|]. apply piece_word. reflexivity.
  - intros y m dd _. exists (39 :: date_text y m dd ++ [39]). split.
    + unfold gen_DateConverter, date_text. cbn [app]. repeat (rewrite <- app_assoc; cbn [app]). reflexivity.
    + apply piece_plain, date_plain.
  - intros y m dd hh mm ss us _. exists (39 :: (date_text y m dd ++ [32] ++ time_text hh mm ss us) ++ [39]). split.
    + unfold gen_DateTimeConverterMS, date_text, time_text. cbn [app]. repeat (rewrite <- app_assoc; cbn [app]). reflexivity.
    + apply piece_plain. rewrite !forallb_app, date_plain, time_plain. reflexivity.
  - intros hh mm ss us _. exists (39 :: time_text hh mm ss us ++ [39]). split.
    + unfold gen_TimeConverterMS, time_text. cbn [app]. repeat (rewrite <- app_assoc; cbn [app]). reflexivity.
    + apply piece_plain, time_plain.
  - intros l HF Hok. destruct (values_joined d l HF Hok) as (texts & Es & _ & HP).
    unfold render_all in Es. rewrite Es. cbn [obind]. unfold gen_SequenceConverter.
    eexists. split; [reflexivity|]. cbn [app]. now apply paren_piece.
Qed.

Lemma render_all_ok d l : forallb (value_ok d) l = true ->
  exists texts, render_all d l = Some texts /\ length texts = length l /\
                piece_ok d (join [44; 32] texts) (sep_tokens (TPunct c_comma) (map (lit_tokens d) l)).
Proof.
  intros H. apply values_joined; [|exact H]. apply Forall_forall. intros v _. apply render_tokens.
Qed.

(* whole-text form: a piece followed by nothing *)
Lemma piece_whole d text tk : piece_ok d text tk -> tokens_ok d text tk.
Proof.
  intros H. specialize (H [] [] I (tok_nil d)). now rewrite !app_nil_r in H.
Qed.

(* ---------------------------------------------------------------- statements *)
Ltac t_word w := apply (tok_word _ w); [first [reflexivity|assumption] | first [exact I | split; reflexivity] | ].
Ltac t_space := apply tok_space; [reflexivity|].
Ltac t_punct := apply tok_punct; [reflexivity|].

Lemma names_piece d names : forallb safe_ident names = true ->
  piece_ok d (join [44; 32] names) (sep_tokens (TPunct c_comma) (map (fun n => [TWord n]) names)).
Proof.
  intros Hn. pose proof (join_comma_ok d (map (fun n => (n, [TWord n])) names)) as J.
  rewrite !map_map in J. cbn [fst snd] in J. rewrite map_id in J. apply J.
  apply Forall_forall. intros p Hin. apply in_map_iff in Hin. destruct Hin as (n & <- & Hin).
  cbn [fst snd]. apply piece_word. rewrite forallb_forall in Hn. now apply Hn.
Qed.

(* INSERT INTO t (names) VALUES (values) *)
Lemma insert_stmt d table names values :
  safe_ident table = true -> forallb safe_ident names = true -> forallb (value_ok d) values = true ->
  exists text, insert_sql d table names values = Some text /\
               tokens_ok d text (insert_skeleton d table names values).
Proof.
  intros Ht Hn Hv. destruct (render_all_ok d values Hv) as (texts & Es & _ & HP).
  pose proof (names_piece d names Hn) as HN.
  unfold insert_sql. rewrite Es. cbn [obind]. unfold gen_insertSQL. eexists. split; [reflexivity|].
  unfold insert_skeleton. cbn [app].
  t_word w_INSERT. t_space. t_word w_INTO. t_space. t_word table. t_space. t_punct.
  apply HN; [cbn; tauto|]. cbn [app].
  t_punct. t_space. t_word w_VALUES. t_space. t_punct.
  apply HP; [cbn; tauto|]. t_punct. apply tok_nil.
Qed.

(* UPDATE t SET c = (v), ... WHERE id = (v) *)
Lemma update_item_piece d n r tk : safe_ident n = true -> piece_ok d r tk ->
  piece_ok d (gen_update_item n r) ([TWord n; TPunct c_eq; TPunct c_lp] ++ tk ++ [TPunct c_rp]).
Proof.
  intros Hn Hr rest toks Hrest Ht. unfold gen_update_item. rewrite <- ?app_assoc. cbn [app].
  t_word n. t_space. t_punct. t_space. t_punct.
  rewrite <- ?app_assoc. apply Hr; [cbn; tauto|]. cbn [app]. t_punct. exact Ht.
Qed.

Lemma update_items d : forall sets,
  forallb (fun p => safe_ident (fst p)) sets = true -> forallb (value_ok d) (map snd sets) = true ->
  exists rs, render_all d (map snd sets) = Some rs /\ length rs = length sets /\
    Forall (fun p => piece_ok d (fst p) (snd p))
      (combine (map (fun p => gen_update_item (fst p) (snd p)) (combine (map fst sets) rs))
               (map (fun p => [TWord (fst p); TPunct c_eq; TPunct c_lp] ++ lit_tokens d (snd p) ++ [TPunct c_rp]) sets)).
Proof.
  unfold render_all. induction sets as [|[n v] sets IH]; intros Hn Hv.
  - exists []. repeat split. constructor.
  - cbn [forallb map fst snd] in *. apply andb_true_iff in Hn. destruct Hn as [Hn1 Hn].
    apply andb_true_iff in Hv. destruct Hv as [Hv1 Hv].
    destruct (render_tokens d v Hv1) as (tx & Etx & Ptx).
    destruct (IH Hn Hv) as (rs & Es & Hlen & HP).
    exists (tx :: rs). cbn [sequence]. rewrite Etx, Es. repeat split.
    + cbn. now rewrite Hlen.
    + cbn [combine map fst snd]. constructor; [|exact HP].
      cbn [fst snd]. now apply update_item_piece.
Qed.

Lemma update_stmt d table idname id sets :
  safe_ident table = true -> safe_ident idname = true ->
  forallb (fun p => safe_ident (fst p)) sets = true ->
  value_ok d id = true -> forallb (value_ok d) (map snd sets) = true ->
  exists text, update_sql d table idname id sets = Some text /\
               tokens_ok d text (update_skeleton d table idname id sets).
Proof.
  intros Ht Hi Hn Hid Hv.
  destruct (render_tokens d id Hid) as (rid & Eid & Pid).
  destruct (update_items d sets Hn Hv) as (rs & Es & Hlen & HP).
  pose proof (join_comma_ok d _ HP) as J.
  rewrite map_fst_combine, map_snd_combine in J
    by (rewrite ?map_length, ?combine_length, ?map_length, ?Hlen; lia).
  unfold update_sql. rewrite Eid, Es. cbn [obind]. unfold gen_SO_update. eexists. split; [reflexivity|].
  unfold update_skeleton. cbn [app].
  t_word w_UPDATE. t_space. t_word table. t_space. t_word w_SET. t_space.
  apply J; [cbn; tauto|]. cbn [app].
  t_space. t_word w_WHERE. t_space. t_word idname. t_space. t_punct. t_space. t_punct.
  rewrite <- ?app_assoc. apply Pid; [cbn; tauto|]. cbn [app]. t_punct. apply tok_nil.
Qed.

(* name = lit AND name IS NULL AND ... *)
Lemma and_sep_ok d : sep_ok d gen_clause_sep (TWord w_AND).
Proof.
  split; [intros rest; cbn; tauto|]. intros rest toks H. unfold gen_clause_sep. cbn [app].
  t_space. t_word w_AND. t_space. exact H.
Qed.

Lemma clause_item_piece d n v r : safe_ident n = true -> piece_ok d r (lit_tokens d v) ->
  piece_ok d (gen_clause_item n (is_none v) r)
    ([TWord n; (if is_none v then TWord s_IS else TPunct c_eq)] ++ lit_tokens d v).
Proof.
  intros Hn Hr rest toks Hrest Ht. unfold gen_clause_item. rewrite <- ?app_assoc. cbn [app].
  t_word n. t_space. destruct (is_none v); cbn [app].
  - t_word s_IS. t_space. now apply Hr.
  - t_punct. t_space. now apply Hr.
Qed.

Lemma clause_items d : forall items,
  forallb (fun p => safe_ident (fst p)) items = true -> forallb (value_ok d) (map snd items) = true ->
  exists rs, render_all d (map snd items) = Some rs /\ length rs = length items /\
    Forall (fun p => piece_ok d (fst p) (snd p))
      (combine (map (fun p => gen_clause_item (fst (fst p)) (is_none (snd (fst p))) (snd p)) (combine items rs))
               (map (fun p => [TWord (fst p); (if is_none (snd p) then TWord s_IS else TPunct c_eq)] ++ lit_tokens d (snd p)) items)).
Proof.
  unfold render_all. induction items as [|[n v] items IH]; intros Hn Hv.
  - exists []. repeat split. constructor.
  - cbn [forallb map fst snd] in *. apply andb_true_iff in Hn. destruct Hn as [Hn1 Hn].
    apply andb_true_iff in Hv. destruct Hv as [Hv1 Hv].
    destruct (render_tokens d v Hv1) as (tx & Etx & Ptx).
    destruct (IH Hn Hv) as (rs & Es & Hlen & HP).
    exists (tx :: rs). cbn [sequence]. rewrite Etx, Es. repeat split.
    + cbn. now rewrite Hlen.
    + cbn [combine map fst snd]. constructor; [|exact HP].
      cbn [fst snd]. now apply clause_item_piece.
Qed.

Lemma clause_stmt d items :
  forallb (fun p => safe_ident (fst p)) items = true -> forallb (value_ok d) (map snd items) = true ->
  exists text, clause_sql d items = Some text /\ tokens_ok d text (clause_skeleton d items).
Proof.
  intros Hn Hv. destruct (clause_items d items Hn Hv) as (rs & Es & Hlen & HP).
  pose proof (join_sep_ok d _ _ (and_sep_ok d) _ HP) as J.
  rewrite map_fst_combine, map_snd_combine in J
    by (rewrite ?map_length, ?combine_length, ?Hlen; lia).
  unfold clause_sql. rewrite Es. cbn [obind]. eexists. split; [reflexivity|].
  unfold clause_skeleton. now apply piece_whole.
Qed.

Lemma tokens_ok_eq d t1 t2 k : t1 = t2 -> tokens_ok d t1 k -> tokens_ok d t2 k.
Proof. now intros ->. Qed.

(* ((col) = (lit)) and ((col) IN (lits)) *)
Definition wrap (s : str) : str :=
  if negb (starts_with [40] s) && negb (str_eqb s s_NULL) then [40] ++ s ++ [41] else s.

Lemma gen_SQLOp_char op a b :
  gen_SQLOp op a b = Some ([40] ++ wrap a ++ [32] ++ op ++ [32] ++ wrap b ++ [41]).
Proof.
  unfold gen_SQLOp, wrap. change [78; 85; 76; 76] with s_NULL. rewrite !andb_true_r.
  destruct (negb (starts_with [40] a) && negb (str_eqb a s_NULL));
    destruct (negb (starts_with [40] b) && negb (str_eqb b s_NULL)); cbn [app]; reflexivity.
Qed.

Lemma wrap_ident col : safe_ident col = true -> str_eqb col s_NULL = false -> wrap col = [40] ++ col ++ [41].
Proof.
  intros Hs Hn. unfold wrap. rewrite Hn. destruct col as [|c r]; [discriminate|].
  cbn [safe_ident] in Hs. apply andb_true_iff in Hs. destruct Hs as [Hc _].
  cbn [starts_with]. assert ((40 =? c) = false) as -> by (unfold is_alpha in Hc; lia). reflexivity.
Qed.

Definition is_seq (v : value) : bool := match v with VSeq _ => true | _ => false end.

Lemma dec_Z_head z : exists c r, dec_Z z = c :: r /\ (is_digit c = true \/ c = 45).
Proof.
  destruct z as [|p|p]; cbn [dec_Z].
  - exists 48, []. split; [reflexivity|left; reflexivity].
  - pose proof (dec_N_nonempty (N.pos p)) as Hne. pose proof (dec_N_digits (N.pos p)) as Hd.
    destruct (dec_N (N.pos p)) as [|c r]; [congruence|]. exists c, r. split; [reflexivity|].
    cbn [forallb] in Hd. apply andb_true_iff in Hd. left. tauto.
  - exists c_minus, (dec_N (N.pos p)). split; [reflexivity|right; reflexivity].
Qed.

(* a rendered scalar other than None is wrapped in parentheses by SQLOp *)
Lemma wrap_scalar d v r : is_none v = false -> is_seq v = false -> render d v = Some r ->
  wrap r = [40] ++ r ++ [41].
Proof.
  intros Hn Hq E.
  assert (H : exists c t, r = c :: t /\ (c =? 40) = false /\ (c =? 78) = false).
  { destruct v; try discriminate; cbn [render] in E.
    - rewrite gen_string_char in E. injection E as <-.
      destruct (clean_string_start d s []) as [t [E1|[_ E1]]]; rewrite app_nil_r in E1; rewrite E1;
        eexists _, _; (split; [reflexivity|split; reflexivity]).
    - injection E as <-. destruct (dec_Z_head z) as (c & t & -> & Hc). exists c, t. split; [reflexivity|].
      unfold is_digit in Hc. split; lia.
    - destruct d, b; injection E as <-; eexists _, _; (split; [reflexivity|split; reflexivity]).
    - injection E as <-. eexists _, _; (split; [reflexivity|split; reflexivity]).
    - injection E as <-. eexists _, _; (split; [reflexivity|split; reflexivity]).
    - injection E as <-. eexists _, _; (split; [reflexivity|split; reflexivity]). }
  destruct H as (c & t & -> & H40 & H78). unfold wrap. cbn [starts_with].
  rewrite (N.eqb_sym 40 c), H40. cbn [negb andb].
  unfold s_NULL. cbn [str_eqb]. rewrite H78. reflexivity.
Qed.

Lemma eq_stmt d col v :
  safe_ident col = true -> str_eqb col s_NULL = false -> value_ok d v = true ->
  exists text, eq_sql d col v = Some text /\ tokens_ok d text (eq_skeleton d col v).
Proof.
  intros Hc Hcn Hv. destruct (render_tokens d v Hv) as (r & Er & Pr).
  unfold eq_sql. rewrite Er. cbn [obind]. rewrite gen_SQLOp_char. eexists. split; [reflexivity|].
  rewrite (wrap_ident col Hc Hcn). unfold eq_skeleton.
  destruct (is_none v) eqn:En.
  - destruct v; try discriminate En. cbn [render] in Er. injection Er as <-.
    change (wrap [78; 85; 76; 76]) with s_NULL. cbn [app].
    t_punct. t_punct. rewrite <- ?app_assoc. cbn [app]. t_word col. t_punct. t_space.
    t_word s_IS. t_space. t_word s_NULL. t_punct. apply tok_nil.
  - destruct (is_seq v) eqn:Eq.
    + destruct v; try discriminate Eq. cbn [render] in Er.
      destruct (sequence (map (render d) l)) as [rs|]; [|discriminate Er]. cbn [obind] in Er.
      unfold gen_SequenceConverter in Er. injection Er as <-.
      unfold wrap at 1. cbn [app starts_with N.eqb Pos.eqb negb andb].
      t_punct. t_punct. rewrite <- ?app_assoc. cbn [app]. t_word col. t_punct. t_space. t_punct. t_space.
      cbn [app] in Pr.
      eapply tokens_ok_eq; [|apply (Pr [41] [TPunct c_rp]); [cbn; tauto|t_punct; apply tok_nil]].
      cbn [app]. rewrite <- app_assoc. reflexivity.
    + rewrite (wrap_scalar d v r En Eq Er).
      assert (Hsk : match v with
                    | VSeq _ => TPunct c_eq :: lit_tokens d v
                    | _ => [TPunct c_eq; TPunct c_lp] ++ lit_tokens d v ++ [TPunct c_rp]
                    end = [TPunct c_eq; TPunct c_lp] ++ lit_tokens d v ++ [TPunct c_rp])
        by (destruct v; try reflexivity; discriminate Eq).
      rewrite Hsk. cbn [app].
      t_punct. t_punct. rewrite <- ?app_assoc. cbn [app]. t_word col. t_punct. t_space. t_punct. t_space. t_punct.
      rewrite <- ?app_assoc. apply Pr; [cbn; tauto|]. cbn [app]. t_punct. t_punct. apply tok_nil.
Qed.

Lemma in_stmt d col vs :
  safe_ident col = true -> str_eqb col s_NULL = false -> forallb (value_ok d) vs = true ->
  exists text, in_sql d col vs = Some text /\ tokens_ok d text (in_skeleton d col vs).
Proof.
  intros Hc Hcn Hv. destruct (render_tokens d (VSeq vs) Hv) as (r & Er & Pr).
  unfold in_sql. rewrite Er. cbn [obind]. rewrite gen_SQLOp_char. eexists. split; [reflexivity|].
  rewrite (wrap_ident col Hc Hcn). unfold in_skeleton.
  cbn [render] in Er. destruct (sequence (map (render d) vs)) as [rs|]; [|discriminate Er].
  cbn [obind] in Er. unfold gen_SequenceConverter in Er. injection Er as <-.
  unfold wrap at 1. cbn [app starts_with N.eqb Pos.eqb negb andb].
  t_punct. t_punct. rewrite <- ?app_assoc. cbn [app]. t_word col. t_punct. t_space. t_word s_IN. t_space.
  cbn [app] in Pr.
  eapply tokens_ok_eq; [|apply (Pr [41] [TPunct c_rp]); [cbn; tauto|t_punct; apply tok_nil]].
  cbn [app]. rewrite <- app_assoc. reflexivity.
Qed.
