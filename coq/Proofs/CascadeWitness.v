(* C12 -- concrete witnesses: where the faithful model of destroySelf leaves
   the specification (each confirmed on the real code by tools/props/c12.py),
   and non-vacuity of the guards. *)
From Coq Require Import List ZArith NArith Bool Lia.
From Model Require Import Cascade.
Import ListNotations.
Open Scope Z_scope.

Definition fk (t : N) (p : policy) := {| fk_target := t; fk_policy := p |}.
Definition jn (o t : N) (s : bool) := {| j_other := o; j_table := t; j_side := s |}.
Definition cl (n : N) (f : list fkcol) (j : list joindef) := {| c_name := n; c_fks := f; c_joins := j |}.
Definition rw (i : Z) (v : list (option Z)) := {| r_id := i; r_vals := v |}.
Definition mkst (t : list (N * list row)) (l : list (N * list (Z * Z))) (c : list node) :=
  {| s_tabs := t; s_links := l; s_cache := c |}.

(* the full statement: refinement without any guard *)
Definition refines_full : Prop :=
  forall dc g st p fuel,
    wf_graph g = true -> wf_state st = true -> row_exists st p = true ->
    (fuel > length (all_nodes g st))%nat ->
    destroy dc fuel g st p = destroy_spec dc g st p.

(* ---- K0 <- K1 (cascade=True) <- K2 (cascade=False): K1#1 is destroyed
   before K1#2 turns out to be restricted *)
Definition g_partial : graph :=
  [cl 0 [] []; cl 1 [fk 0 Cascade] []; cl 2 [fk 1 Restrict] []].
Definition st_partial : state :=
  mkst [(0%N, [rw 1 []]); (1%N, [rw 1 [Some 1]; rw 2 [Some 1]]); (2%N, [rw 1 [Some 2]])] [] [].

Lemma partial_refuted :
  exists g st p st', wf_graph g = true /\ wf_state st = true /\ acyclicb g st p = true /\
    destroy_spec true g st p = Raised st /\
    destroy true 10 g st p = Raised st' /\
    table st 1%N = [rw 1 [Some 1]; rw 2 [Some 1]] /\ table st' 1%N = [rw 2 [Some 1]].
Proof.
  exists g_partial, st_partial, (0%N, 1), (mkst [(0%N, [rw 1 []]); (1%N, [rw 2 [Some 1]]); (2%N, [rw 1 [Some 2]])] [] []).
  vm_compute. repeat split; reflexivity.
Qed.

Lemma refines_full_refuted : ~ refines_full.
Proof.
  intros H. specialize (H true g_partial st_partial (0%N, 1) 10%nat).
  assert (E : destroy true 10 g_partial st_partial (0%N, 1) = destroy_spec true g_partial st_partial (0%N, 1)).
  { apply H; vm_compute; auto. lia. }
  vm_compute in E. discriminate.
Qed.

(* ---- link rows are removed before the restriction is noticed *)
Lemma partial_links_refuted :
  exists g st p st', wf_graph g = true /\ wf_state st = true /\ acyclicb g st p = true /\
    destroy_spec true g st p = Raised st /\ destroy true 10 g st p = Raised st' /\
    link_table st 0%N = [(1, 1); (1, 2); (2, 2)] /\ link_table st' 0%N = [(2, 2)].
Proof.
  exists [cl 0 [] [jn 1 0 false]; cl 1 [fk 0 Restrict] [jn 0 0 true]],
         (mkst [(0%N, [rw 1 []; rw 2 []]); (1%N, [rw 1 [Some 1]; rw 2 [None]])] [(0%N, [(1, 1); (1, 2); (2, 2)])] []),
         (0%N, 1),
         (mkst [(0%N, [rw 1 []; rw 2 []]); (1%N, [rw 1 [Some 1]; rw 2 [None]])] [(0%N, [(2, 2)])] []).
  vm_compute. repeat split; reflexivity.
Qed.

(* ---- (repaired, 6f7f267) K1 has a cascade=True and a cascade=False column
   to K0; K0#1 is referenced only through the cascading one: the restrict test
   now looks at the cascade=False column only, and both rows are deleted as
   the specification says *)
Lemma per_class_now_fine :
  let g := [cl 0 [] []; cl 1 [fk 0 Cascade; fk 0 Restrict] []] in
  let st := mkst [(0%N, [rw 1 []; rw 2 []]); (1%N, [rw 1 [Some 1; None]; rw 2 [None; Some 2]])] [] [] in
  guard_ok g st (0%N, 1) = true /\ restricted g st (closure g st (0%N, 1)) = false /\
  destroy true 10 g st (0%N, 1) = destroy_spec true g st (0%N, 1) /\
  destroy true 10 g st (0%N, 1) = Done (mkst [(0%N, [rw 2 []]); (1%N, [rw 2 [None; Some 2]])] [] []).
Proof. vm_compute. auto. Qed.

(* ---- a row that references itself through cascade=True: no fuel suffices *)
Definition g_self : graph := [cl 0 [fk 0 Cascade] []].
Definition st_self : state := mkst [(0%N, [rw 1 [Some 1]])] [] [].

Lemma self_cycle_diverges : forall dc fuel, destroy dc fuel g_self st_self (0%N, 1) = OutOfFuel.
Proof.
  intros dc fuel. induction fuel as [|f IH]; [reflexivity|].
  cbn. rewrite IH. reflexivity.
Qed.

Lemma cycle_refuted :
  exists g st p, wf_graph g = true /\ wf_state st = true /\ row_exists st p = true /\
    acyclicb g st p = false /\
    (exists st', destroy_spec true g st p = Done st' /\ table st' 0%N = []) /\
    forall dc fuel, destroy dc fuel g st p = OutOfFuel.
Proof.
  exists g_self, st_self, (0%N, 1). repeat split; try (vm_compute; reflexivity).
  - eexists. split; vm_compute; reflexivity.
  - apply self_cycle_diverges.
Qed.

(* ... and a cycle through two classes *)
Definition g_two : graph := [cl 0 [fk 1 Cascade] []; cl 1 [fk 0 Cascade] []].
Definition st_two : state := mkst [(0%N, [rw 1 [Some 1]]); (1%N, [rw 1 [Some 1]])] [] [].
Lemma two_cycle_diverges : forall dc fuel,
  destroy dc fuel g_two st_two (0%N, 1) = OutOfFuel /\ destroy dc fuel g_two st_two (1%N, 1) = OutOfFuel.
Proof.
  intros dc fuel. induction fuel as [|f [IH1 IH2]]; [split; reflexivity|].
  split; cbn; rewrite ?IH1, ?IH2; reflexivity.
Qed.

(* ---- the restricting row is itself in the closure: refused or not
   depending on which dependent class the registry lists first *)
Lemma order_refuted :
  exists g g' st st' p,
    (* same classes, same rows, classes 1 and 2 swapped in the registry *)
    wf_graph g = true /\ wf_graph g' = true /\ acyclicb g st p = true /\ acyclicb g' st' p = true /\
    restricted g st (closure g st p) = true /\ restricted g' st' (closure g' st' p) = true /\
    (exists r, destroy true 10 g st p = Raised r) /\
    (exists r, destroy true 10 g' st' p = Done r /\ table r 0%N = [] /\ table r 1%N = [] /\ table r 2%N = []).
Proof.
  exists [cl 0 [] []; cl 1 [fk 0 Cascade] []; cl 2 [fk 0 Cascade; fk 1 Restrict] []],
         [cl 0 [] []; cl 1 [fk 0 Cascade; fk 2 Restrict] []; cl 2 [fk 0 Cascade] []],
         (mkst [(0%N, [rw 1 []]); (1%N, [rw 1 [Some 1]]); (2%N, [rw 1 [Some 1; Some 1]])] [] []),
         (mkst [(0%N, [rw 1 []]); (1%N, [rw 1 [Some 1; Some 1]]); (2%N, [rw 1 [Some 1]])] [] []),
         (0%N, 1).
  repeat split; try (vm_compute; reflexivity); eexists; repeat split; vm_compute; reflexivity.
Qed.

(* ---- (repaired, e3b93b4) cache=False: destroySelf purges the weak entry as
   well; the held instances of the destroyed rows are not handed out again *)
Lemma uncached_now_gone :
  let g := [cl 0 [] []; cl 1 [fk 0 Cascade] []] in
  let st := mkst [(0%N, [rw 1 []]); (1%N, [rw 1 [Some 1]])] [] [(0%N, 1); (1%N, 1)] in
  exists st', destroy false 10 g st (0%N, 1) = Done st' /\
    get_found st' (0%N, 1) = false /\ get_found st' (1%N, 1) = false.
Proof. eexists. vm_compute. auto. Qed.

(* ---- non-vacuity: a depth-2 cascade with null-outs, a dangling
   cascade=None reference and link rows on both sides, inside the guard *)
Definition g_deep : graph :=
  [cl 0 [] [jn 2 0 false];
   cl 1 [fk 0 Cascade; fk 0 SetNull] [];
   cl 2 [fk 1 Cascade; fk 0 NoAction; fk 1 SetNull] [jn 0 0 true]].
Definition st_deep : state :=
  mkst [(0%N, [rw 1 []; rw 2 []]);
        (1%N, [rw 1 [Some 1; Some 2]; rw 2 [Some 2; Some 1]; rw 3 [None; None]]);
        (2%N, [rw 1 [Some 1; Some 1; Some 2]; rw 2 [Some 3; Some 1; Some 1]; rw 3 [Some 2; Some 2; Some 1]])]
       [(0%N, [(1, 1); (2, 1); (1, 3); (2, 2)])]
       [(0%N, 1); (1%N, 1); (2%N, 1); (2%N, 2)].

Lemma deep_guard : wf_graph g_deep = true /\ wf_state st_deep = true /\ guard_ok g_deep st_deep (0%N, 1) = true.
Proof. vm_compute. auto. Qed.

Lemma deep_closure : closure g_deep st_deep (0%N, 1) = [(0%N, 1); (1%N, 1); (2%N, 1)].
Proof. vm_compute. reflexivity. Qed.

Lemma deep_result :
  destroy true 10 g_deep st_deep (0%N, 1) =
  Done (mkst [(0%N, [rw 2 []]);
              (1%N, [rw 2 [Some 2; None]; rw 3 [None; None]]);
              (2%N, [rw 2 [Some 3; Some 1; None]; rw 3 [Some 2; Some 2; None]])]
             [(0%N, [(2, 2)])]
             [(2%N, 2)]).
Proof. vm_compute. reflexivity. Qed.

(* a refusal noticed before anything is written, inside the guard *)
Lemma immediate_guard :
  let g := [cl 0 [] []; cl 1 [fk 0 SetNull] []; cl 2 [fk 0 Restrict; fk 0 Cascade] []] in
  let st := mkst [(0%N, [rw 1 []]); (1%N, [rw 1 [None]]); (2%N, [rw 1 [Some 1; None]])] [] [] in
  guard_ok g st (0%N, 1) = true /\ restricted g st (closure g st (0%N, 1)) = true /\
  destroy true 5 g st (0%N, 1) = Raised st.
Proof. vm_compute. auto. Qed.
