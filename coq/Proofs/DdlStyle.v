(* C14_style_roundtrip: underToMixed (mixedToUnder s) = s on the style's domain. *)
From Coq Require Import List ZArith NArith Bool String Ascii Lia.
From Model Require Import Ddl.
From Proofs Require Import DdlBase.
Import ListNotations.
Open Scope string_scope.
Open Scope list_scope.
Open Scope N_scope.

(* k = length of the run of capitals we are in *)
Fixpoint runs_ok (k : nat) (p : str) : bool :=
  match p with
  | [] => true
  | c :: r => if is_upper c then Nat.ltb k 2 && runs_ok (S k) r
              else negb (c =? c_us) && runs_ok O r
  end.
Definition core_ok (s : str) : bool :=
  runs_ok O s && match s with c :: _ => negb (is_upper c) | [] => true end.

(* The domain: no underscore, does not start with a capital, no run of three
   or more capitals; a trailing "ID" is set aside first (and must leave
   something); otherwise the result must not end in "_id" (s does not end in "Id"). *)
Definition style_dom (s : str) : bool :=
  if ends_with s (s2l "ID")
  then negb (match drop_last 2 s with [] => true | _ => false end) && core_ok (drop_last 2 s)
  else core_ok s && negb (ends_with (m2u_core s) (s2l "_id")).

Lemma lower_is_lower : forall c, is_upper c = true -> is_lower (lower_c c) = true.
Proof.
  intros c H. unfold lower_c. rewrite H. unfold is_upper, is_lower in *.
  apply andb_true_iff in H. destruct H as [A B]. apply N.leb_le in A, B.
  apply andb_true_iff. split; apply N.leb_le; lia.
Qed.
Lemma upper_lower : forall c, is_upper c = true -> upper_c (lower_c c) = c.
Proof.
  intros c H. unfold upper_c. rewrite (lower_is_lower c H). unfold lower_c. rewrite H. lia.
Qed.
Lemma lower_not_nl : forall c, is_lower c = true -> (c =? 10) = false.
Proof.
  intros c H. unfold is_lower in H. apply andb_true_iff in H. destruct H as [A _].
  apply N.leb_le in A. apply N.eqb_neq. lia.
Qed.

Lemma u2m_pair : forall c rest, is_lower c = true ->
  u2m_sub (c_us :: c :: rest) = upper_c c :: u2m_sub rest.
Proof. intros c rest H. cbn. rewrite (lower_not_nl c H). reflexivity. Qed.

Lemma flush_decode : forall run rest, forallb is_lower run = true -> (List.length run <= 2)%nat ->
  u2m_sub (flush_run run ++ rest) = rev (map upper_c run) ++ u2m_sub rest.
Proof.
  intros run rest Hl Hn. destruct run as [|c2 [|c1 [|c0 r]]].
  - reflexivity.
  - cbn in Hl. rewrite andb_true_r in Hl. cbn [flush_run app]. rewrite (u2m_pair c2 rest Hl). reflexivity.
  - cbn in Hl. rewrite andb_true_r in Hl. apply andb_true_iff in Hl. destruct Hl as [H2 H1].
    cbn [flush_run rev app]. rewrite (u2m_pair c1 _ H1). rewrite (u2m_pair c2 rest H2). reflexivity.
  - cbn in Hn. lia.
Qed.

Lemma core : forall p run q,
  runs_ok (List.length run) p = true -> forallb is_lower run = true -> (List.length run <= 2)%nat ->
  u2m_sub (m2u_sub p run ++ q) = rev (map upper_c run) ++ p ++ u2m_sub q.
Proof.
  induction p as [|c r IH]; intros run q Hr Hl Hn.
  - cbn [m2u_sub app]. apply flush_decode; assumption.
  - cbn [runs_ok] in Hr. cbn [m2u_sub]. destruct (is_upper c) eqn:U.
    + apply andb_true_iff in Hr. destruct Hr as [Hk Hr]. apply Nat.ltb_lt in Hk.
      rewrite (IH (lower_c c :: run) q).
      * cbn [map rev]. rewrite (upper_lower c U). rewrite <- app_assoc. reflexivity.
      * exact Hr.
      * cbn [forallb]. rewrite (lower_is_lower c U). exact Hl.
      * cbn [List.length]. lia.
    + apply andb_true_iff in Hr. destruct Hr as [Hc Hr]. apply negb_true_iff in Hc.
      rewrite <- app_assoc. rewrite flush_decode by assumption. cbn [app u2m_sub]. rewrite Hc.
      rewrite (IH [] q Hr eq_refl) by (cbn; lia). reflexivity.
Qed.

Lemma core_nil : forall p q, runs_ok O p = true -> u2m_sub (m2u_sub p [] ++ q) = p ++ u2m_sub q.
Proof. intros p q H. rewrite (core p [] q H eq_refl) by (cbn; lia). reflexivity. Qed.

(* ---------- suffixes *)
Lemma ends_with_app : forall x suf, ends_with (x ++ suf) suf = true.
Proof.
  induction x as [|c x IH]; intro suf.
  - cbn. destruct suf; cbn; [reflexivity|]. rewrite N.eqb_refl, str_eqb_refl. reflexivity.
  - cbn [app ends_with]. rewrite IH. destruct (str_eqb (c :: x ++ suf) suf); reflexivity.
Qed.

Lemma ends_with_split : forall s suf, ends_with s suf = true -> exists x, s = x ++ suf.
Proof.
  induction s as [|c s IH]; intros suf H.
  - cbn in H. destruct suf; [exists []; reflexivity|discriminate].
  - cbn [ends_with] in H. destruct (str_eqb (c :: s) suf) eqn:E.
    + apply str_eqb_eq in E. exists []. exact E.
    + destruct (IH suf H) as [x Hx]. exists (c :: x). rewrite Hx. reflexivity.
Qed.

Lemma drop_last_app : forall x suf, drop_last (List.length suf) (x ++ suf) = x.
Proof.
  intros x suf. unfold drop_last. rewrite app_length.
  replace (List.length x + List.length suf - List.length suf)%nat with (List.length x) by lia.
  rewrite firstn_app, firstn_all. replace (List.length x - List.length x)%nat with O by lia.
  cbn. apply app_nil_r.
Qed.

Lemma m2u_sub_app : forall p run c q, is_upper c = false ->
  m2u_sub (p ++ c :: q) run = m2u_sub p run ++ c :: m2u_sub q [].
Proof.
  induction p as [|x p IH]; intros run c q Hc.
  - cbn [app m2u_sub]. rewrite Hc. reflexivity.
  - cbn [app m2u_sub]. destruct (is_upper x).
    + apply IH. exact Hc.
    + rewrite (IH [] c q Hc). rewrite <- app_assoc. reflexivity.
Qed.

Lemma strip_first : forall c r (run : str), is_upper c = false -> (c =? c_us) = false ->
  strip_us (m2u_sub (c :: r) []) = m2u_sub (c :: r) [].
Proof. intros c r run U E. cbn [m2u_sub]. rewrite U. cbn [flush_run app strip_us]. rewrite E. reflexivity. Qed.

Lemma core_ok_inv : forall s, core_ok s = true ->
  runs_ok O s = true /\ (s = [] \/ exists c r, s = c :: r /\ is_upper c = false /\ (c =? c_us) = false).
Proof.
  intros s H. unfold core_ok in H. apply andb_true_iff in H. destruct H as [R F]. split; [exact R|].
  destruct s as [|c r]; [left; reflexivity|right]. exists c, r. apply negb_true_iff in F.
  split; [reflexivity|]. split; [exact F|]. cbn [runs_ok] in R. rewrite F in R.
  apply andb_true_iff in R. destruct R as [R _]. apply negb_true_iff in R. exact R.
Qed.

Theorem style_roundtrip : forall s, style_dom s = true -> underToMixed (mixedToUnder s) = s.
Proof.
  intros s H. unfold style_dom in H. unfold mixedToUnder.
  destruct (ends_with s (s2l "ID")) eqn:E.
  - (* ...ID *)
    apply andb_true_iff in H. destruct H as [Hne Hc].
    destruct (ends_with_split _ _ E) as [p Hp].
    assert (D : drop_last 2 s = p) by (subst s; apply (drop_last_app p (s2l "ID"))).
    rewrite D in Hne, Hc. rewrite D. destruct (core_ok_inv p Hc) as [R [Z|(c & r & Pc & U & Us)]]; [rewrite Z in Hne; cbn in Hne; discriminate Hne|].
    assert (M : m2u_core (p ++ s2l "_id") = m2u_sub p [] ++ s2l "_id").
    { unfold m2u_core. change (s2l "_id") with (c_us :: s2l "id").
      rewrite m2u_sub_app by reflexivity. change (m2u_sub (s2l "id") []) with (s2l "id").
      rewrite Pc. cbn [m2u_sub]. rewrite U. cbn [flush_run app strip_us]. rewrite Us. reflexivity. }
    rewrite M. unfold underToMixed. rewrite ends_with_app.
    replace (drop_last 3 (m2u_sub p [] ++ s2l "_id")) with (m2u_sub p [])
      by (symmetry; apply (drop_last_app (m2u_sub p []) (s2l "_id"))).
    rewrite (core_nil p (s2l "ID") R). rewrite Hp. reflexivity.
  - (* no ID suffix *)
    apply andb_true_iff in H. destruct H as [Hc Hn]. apply negb_true_iff in Hn.
    unfold underToMixed. rewrite Hn.
    destruct (core_ok_inv s Hc) as [R [Z|(c & r & Pc & U & Us)]].
    + subst s. reflexivity.
    + unfold m2u_core. rewrite Pc. rewrite (strip_first c r [] U Us). rewrite <- Pc.
      rewrite <- (app_nil_r (m2u_sub s [])). rewrite (core_nil s [] R). apply app_nil_r.
Qed.
