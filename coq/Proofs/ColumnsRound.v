(* C01: in-domain values are stored and read back equal and of the same type. *)
From Coq Require Import List NArith ZArith Bool Lia ZifyBool.
From Lib Require Import Str Lex ColumnsTpl.
From Gen Require Import Columns.
From Model Require Import Columns.
From Proofs Require Import ColumnsStr ColumnsNum ColumnsDate ColumnsAff ColumnsExact ColumnsTypes ColumnsMain ColumnsDec.
Import ListNotations.
Open Scope N_scope.

Definition good (T : coltype) (v x : pyval) : Prop :=
  same (expected T v) x /\ pytype x = pytype (expected T v).

Lemma good_refl T v : good T v (expected T v).
Proof. split; [now left|reflexivity]. Qed.

(* what a successful write needs *)
Definition stored_ok (C : codecs) (T : coltype) (v : pyval) : Prop :=
  exists dbv py s d,
    from_python C T (fk_unwrap T v) = Ok dbv /\ to_python C T dbv = Ok py /\ db_store C T dbv = Ok s /\
    read_db C T s = Ok d /\ good T v py /\ good T v d.

(* ---------------------------------------------------------------- storing text and integers *)
Lemma store_text C T s : col_affinity T = ATEXT -> text_ok s = true -> db_store C T (PStr s) = Ok (SText s).
Proof. intros Ha Hok. unfold db_store. cbn [literal rbind]. now rewrite store_quoted, Hok, Ha. Qed.

Lemma store_numeric_text C T dbv inner :
  col_affinity T = ANUMERIC -> literal C dbv = Ok (c_q :: inner ++ [c_q]) ->
  forallb dt_char inner = true -> looks_numeric inner = false ->
  db_store C T dbv = Ok (SText inner).
Proof.
  intros Ha Hlit Hch Hnum. unfold db_store. rewrite Hlit. cbn [rbind].
  destruct (dt_chars_text_ok inner Hch) as [Hok Hq].
  rewrite <- (quote_plain inner Hq). rewrite store_quoted, Hok, Ha. cbn [apply_affinity]. now rewrite Hnum.
Qed.

Lemma store_int_col C T dbv z :
  (col_affinity T = AINTEGER \/ col_affinity T = ANUMERIC) -> literal C dbv = Ok (dec_Z z) -> int64_ok z = true ->
  db_store C T dbv = Ok (SInt z).
Proof.
  intros Ha Hlit H64. unfold db_store. rewrite Hlit. cbn [rbind]. rewrite (store_int C _ z H64).
  destruct Ha as [Ha|Ha]; rewrite Ha; reflexivity.
Qed.

Ltac ok4 dbv py s d := exists dbv, py, s, d.

(* ---------------------------------------------------------------- every type but DecimalString and the REAL-prone ones *)
Lemma stored_none C T : stored_ok C T PNone.
Proof.
  ok4 PNone PNone SNull PNone. rewrite unwrap_none, none_from, none_to.
  assert (Hg : good T PNone PNone) by (unfold good, expected; rewrite unwrap_none; split; [now left|reflexivity]).
  split; [reflexivity|]. split; [reflexivity|]. split.
  { unfold db_store. cbn [literal rbind]. apply store_null. }
  split.
  { unfold read_db. cbn [driver]. apply none_to. }
  split; exact Hg.
Qed.

Lemma stored_string C T s :
  (exists l, T = TString l) \/ (exists l, T = TUnicode l) \/ (exists vals, T = TEnum vals /\ existsb (str_eqb s) vals = true)
  \/ T = TForeignKeyStr ->
  text_ok s = true -> stored_ok C T (PStr s).
Proof.
  intros HT Hok. ok4 (PStr s) (PStr s) (SText s) (PStr s).
  assert (Ha : col_affinity T = ATEXT) by (destruct HT as [(l & ->)|[(l & ->)|[(vals & -> & _)| ->]]]; now rewrite affinity_char).
  assert (Hu : fk_unwrap T (PStr s) = PStr s) by (destruct T; reflexivity).
  assert (Hf : from_python C T (PStr s) = Ok (PStr s)).
  { destruct HT as [(l & ->)|[(l & ->)|[(vals & -> & Hm)| ->]]]; cbn; [reflexivity|reflexivity|now rewrite Hm|reflexivity]. }
  assert (Ht : to_python C T (PStr s) = Ok (PStr s)).
  { destruct HT as [(l & ->)|[(l & ->)|[(vals & -> & Hm)| ->]]]; cbn; [reflexivity|reflexivity|now rewrite Hm|reflexivity]. }
  rewrite Hu. repeat split; try assumption; try (now apply store_text); unfold expected; rewrite ?Hu; try (now left); reflexivity.
Qed.

Lemma stored_int C T z : int_family T = true -> int64_ok z = true -> stored_ok C T (PInt z).
Proof.
  intros HT H64. ok4 (PInt z) (PInt z) (SInt z) (PInt z).
  assert (Hu : fk_unwrap T (PInt z) = PInt z) by (destruct T; reflexivity).
  rewrite Hu. unfold good, expected. rewrite Hu.
  repeat split; try (now left); try (destruct T; try discriminate; reflexivity).
  apply store_int_col; [left; rewrite affinity_char; destruct T; try discriminate; reflexivity|reflexivity|assumption].
Qed.

Lemma stored_bool C b : stored_ok C TBool (PBool b).
Proof.
  ok4 (PBool b) (PBool b) (SInt (if b then 1 else 0)%Z) (PBool b).
  unfold good, expected. cbn [fk_unwrap].
  repeat split; try (now left); try reflexivity.
  - apply store_int_col; [right; reflexivity|apply bool_literal|destruct b; reflexivity].
  - destruct b; reflexivity.
Qed.

Lemma stored_fk C v z : (v = PInt z \/ v = PObj z) -> int64_ok z = true -> stored_ok C TForeignKey v.
Proof.
  intros Hv H64. ok4 (PInt z) (PInt z) (SInt z) (PInt z).
  assert (Hu : fk_unwrap TForeignKey v = PInt z) by (destruct Hv; subst; reflexivity).
  unfold good, expected. rewrite Hu.
  repeat split; try (now left); try reflexivity.
  apply store_int_col; [left; reflexivity|reflexivity|assumption].
Qed.

Lemma stored_fks_inst C s : text_ok s = true -> stored_ok C TForeignKeyStr (PObjS s).
Proof.
  intros Hok. ok4 (PStr s) (PStr s) (SText s) (PStr s). unfold good, expected. cbn [fk_unwrap].
  repeat split; try (now left); try reflexivity.
  apply store_text; [reflexivity|assumption].
Qed.

Lemma stored_datetime C T y m d h mi s us :
  (T = TDateTime \/ T = TTimestamp) -> valid_date y m d = true -> valid_time h mi s us = true ->
  stored_ok C T (PDateTime y m d h mi s us false).
Proof.
  intros HT Hd Ht. set (v := PDateTime y m d h mi s us false).
  ok4 v v (SText (dt_text (stamp_of_dt y m d h mi s us))) v.
  assert (Hu : fk_unwrap T v = v) by (destruct HT; subst; reflexivity).
  unfold good, expected. rewrite Hu.
  repeat split; try (now left); try (destruct HT; subst; reflexivity).
  - apply store_numeric_text; [destruct HT; subst; reflexivity| |apply dt_text_chars|apply dt_text_not_numeric].
    unfold v. cbn [literal]. now rewrite conv_datetime_char.
  - unfold read_db. cbn [driver]. destruct HT; subst; cbn [to_python]; now apply read_datetime_text.
Qed.
Lemma stored_date C y m d : valid_date y m d = true -> stored_ok C TDate (PDate y m d).
Proof.
  intros Hd. set (v := PDate y m d). ok4 v v (SText (date_text (stamp_of_dt y m d 0 0 0 0))) v.
  unfold good, expected. cbn [fk_unwrap].
  repeat split; try (now left); try reflexivity.
  - apply store_numeric_text; [reflexivity| |apply date_text_chars|apply date_text_not_numeric'].
    unfold v. cbn [literal]. now rewrite conv_date_char.
  - unfold read_db. cbn [driver to_python]. now apply read_date_text.
Qed.
Lemma stored_time C h mi s us : valid_time h mi s us = true -> stored_ok C TTime (PTime h mi s us false).
Proof.
  intros Ht. set (v := PTime h mi s us false). ok4 v v (SText (time_text (stamp_of_dt 0 0 0 h mi s us))) v.
  unfold good, expected. cbn [fk_unwrap].
  repeat split; try (now left); try reflexivity.
  - apply store_numeric_text; [reflexivity| |apply time_text_chars|apply time_text_not_numeric].
    unfold v. cbn [literal]. now rewrite conv_time_char.
  - unfold read_db. cbn [driver to_python]. now apply read_time_text.
Qed.

Lemma stored_blob C b : b64_law C b -> stored_ok C TBlob (PBytes b).
Proof.
  intros (Hdec & Hasc & Hok). ok4 (PStr (b64enc C b)) (PBytes b) (SText (b64enc C b)) (PBytes b).
  unfold good, expected. cbn [fk_unwrap].
  assert (Hread : to_python C TBlob (PStr (b64enc C b)) = Ok (PBytes b)).
  { cbn [to_python v_string rbind v_binary_to]. now rewrite Hasc, Hdec. }
  repeat split; try (now left); try reflexivity; try assumption.
  apply store_text; [reflexivity|assumption].
Qed.

Lemma stored_pickle C v : v <> PNone -> b64_law C (pdumps C v) -> ploads C (pdumps C v) = v -> stored_ok C TPickle v.
Proof.
  intros Hv (Hdec & Hasc & Hok) Hl. set (t := b64enc C (pdumps C v)). ok4 (PStr t) v (SText t) v.
  unfold good, expected. cbn [fk_unwrap].
  assert (Hread : to_python C TPickle (PStr t) = Ok v).
  { cbn [to_python v_string rbind v_binary_to]. unfold t. rewrite Hasc. cbn [rbind v_pickle_to]. now rewrite Hdec, Hl. }
  repeat split; try (now left); try reflexivity; try assumption.
  - destruct v; try congruence; reflexivity.
  - apply store_text; [reflexivity|assumption].
Qed.

Lemma stored_uuid C n : uuid_parse C (uuid_str C n) = Ok n -> text_ok (uuid_str C n) = true -> stored_ok C TUuid (PUuid n).
Proof.
  intros Hp Hok. set (t := uuid_str C n). ok4 (PStr t) (PUuid n) (SText t) (PUuid n).
  unfold good, expected. cbn [fk_unwrap].
  assert (Hread : to_python C TUuid (PStr t) = Ok (PUuid n)) by (cbn; unfold t; now rewrite Hp).
  repeat split; try (now left); try reflexivity; try assumption.
  apply store_text; [reflexivity|assumption].
Qed.

Lemma stored_json C v t :
  v <> PNone -> json_domain v = true -> jdumps C v = Ok t -> jloads C t = v -> text_ok t = true -> stored_ok C TJson v.
Proof.
  intros Hv Hdom Hd Hl Hok. ok4 (PStr t) v (SText t) v.
  unfold good, expected. cbn [fk_unwrap].
  assert (Hread : to_python C TJson (PStr t) = Ok v) by (cbn; now rewrite Hl).
  assert (Hfrom : from_python C TJson v = Ok (PStr t)).
  { destruct v; try congruence; try discriminate Hdom; cbn [from_python v_json_from]; rewrite Hd; reflexivity. }
  repeat split; try (now left); try reflexivity; try assumption.
  apply store_text; [reflexivity|assumption].
Qed.

(* REAL-prone columns: the oracle *)
Lemma stored_real C T v :
  real_prone T = true -> v <> PNone -> in_domain T v = true -> engine_roundtrip C T v = true -> stored_ok C T v.
Proof.
  intros HT Hv Hdom Hor. unfold engine_roundtrip in Hor. rewrite HT in Hor.
  assert (Hu : fk_unwrap T v = v) by (destruct T; try discriminate; reflexivity).
  assert (Hft : from_python C T v = Ok v /\ to_python C T v = Ok v).
  { destruct T; try discriminate HT; destruct v; try congruence; try discriminate Hdom; split; reflexivity. }
  destruct Hft as [Hf Ht].
  assert (Hor' : match db_store C T v with
                 | Ok s => match read_db C T s with
                           | Ok d => pyeq v d && pytag_eqb (pytype d) (pytype v)
                           | Raise _ => false
                           end
                 | Raise _ => false
                 end = true) by (destruct v; try congruence; exact Hor).
  destruct (db_store C T v) as [s|] eqn:Hs; [|discriminate].
  destruct (read_db C T s) as [d|] eqn:Hd; [|discriminate].
  apply andb_true_iff in Hor'. destruct Hor' as [He Hty].
  ok4 v v s d. unfold good, expected. rewrite Hu.
  repeat split; try assumption; try (now left); try reflexivity.
  - now right.
  - destruct (pytype d), (pytype v); try discriminate; reflexivity.
Qed.

(* DecimalStringCol without quantisation: the text is the value *)
Lemma stored_decstr_plain C size prec neg c e :
  prec <=? 6 = true -> dec_fits size prec c e = true ->
  stored_ok C (TDecStr size prec false) (PDec neg c e).
Proof.
  intros Hp Hfit. unfold dec_fits in Hfit.
  assert (He : (-6 <= e <= 0)%Z) by lia.
  set (v := PDec neg c e). set (t := dec_eng_string neg c e).
  ok4 (PStr t) v (SText t) v. unfold good, expected. cbn [fk_unwrap].
  assert (Hread : to_python C (TDecStr size prec false) (PStr t) = Ok v).
  { cbn [to_python v_decstr_to v_string rbind v_decimal_to]. unfold decimal_of_str, t. now rewrite dec_text_roundtrip. }
  repeat split; try (now left); try reflexivity; try assumption.
  apply store_text; [now rewrite affinity_char|apply eng_string_text_ok].
Qed.

(* DecimalStringCol(quantize=True): the value is brought to the declared number of places, both ways *)
Lemma stored_decstr_quant C size prec neg c e :
  coltype_ok (TDecStr size prec true) = true -> dec_fits size prec c e = true ->
  stored_ok C (TDecStr size prec true) (PDec neg c e).
Proof.
  intros HT Hfit. cbn in HT.
  assert (Hp6 : prec <=? 6 = true) by lia. assert (Hps : prec <=? size = true) by lia.
  assert (H1 : 1 <=? size = true) by lia. assert (H28 : size <=? 28 = true) by lia.
  destruct (quantize_within size prec neg c e Hps H1 H28 Hfit) as (Hq1 & Hlt2 & Hq2).
  set (c' := c * pow10 (Z.to_N (e + Z.of_N prec))) in *.
  assert (Hlt1 : dec_lt_pow10 neg c e (Z.of_N size - Z.of_N prec) = true).
  { apply lt_pow10_any. unfold dec_fits in Hfit. apply andb_true_iff in Hfit. now destruct Hfit. }
  assert (Hep : (-6 <= - Z.of_N prec <= 0)%Z) by lia.
  set (v := PDec neg c e). set (t := dec_eng_string neg c' (- Z.of_N prec)).
  set (py := PDec neg c' (- Z.of_N prec)).
  ok4 (PStr t) py (SText t) py. unfold good, expected. cbn [fk_unwrap].
  assert (Hfrom : from_python C (TDecStr size prec true) v = Ok (PStr t)).
  { unfold v. cbn [from_python]. unfold v_decstr_from. cbn [v_decimal_from rbind]. unfold decstr_render, dsv_quantize.
    rewrite Hlt1, Hq1. reflexivity. }
  assert (Hread : to_python C (TDecStr size prec true) (PStr t) = Ok py).
  { cbn [to_python]. unfold v_decstr_to. cbn [v_string rbind v_decimal_to]. unfold decimal_of_str, t.
    rewrite dec_text_roundtrip by exact Hep. cbn [rbind]. unfold dsv_quantize. rewrite Hlt2, Hq2. reflexivity. }
  assert (Hsame : same v py).
  { right. unfold v, py. cbn [pyeq]. apply quantized_equal. unfold dec_fits in Hfit. lia. }
  repeat split; try assumption; try reflexivity.
  apply store_text; [now rewrite affinity_char|apply eng_string_text_ok].
Qed.

(* ---------------------------------------------------------------- the success record of run *)
Lemma run_success C T v w var :
  stored_ok C T v ->
  let o := run C T v w var in
  o_write o = Ok tt /\
  (exists c d, o_cache o = Some (Ok c) /\ o_db o = Some (Ok d) /\ good T v c /\ good T v d) /\
  (forall p, o_cache_pre o = Some p -> exists c', p = Ok c' /\ good T v c').
Proof.
  intros (dbv & py & s & d & Hf & Ht & Hs & Hd & Hgp & Hgd). unfold run. rewrite Hf, Ht, Hs, Hd.
  destruct w, var; cbn [o_write o_cache o_db o_cache_pre]; (split; [reflexivity|]); split;
    try (intros p Hp; first [discriminate | injection Hp as <-; exists py; split; [reflexivity|exact Hgp]]);
    first [ exists d, d; repeat split; solve [reflexivity | apply Hgd]
          | exists py, d; repeat split; solve [reflexivity | apply Hgd | apply Hgp] ].
Qed.
