(* List/string lemmas used by the C18 proofs: partition, rpartition, span,
   membership, filters, string equality. *)
From Coq Require Import List NArith Bool Lia ZifyBool.
From Lib Require Import UriPy.
Import ListNotations.
Open Scope N_scope.

Definition nochar (d : N) (s : str) : bool := forallb (fun c => negb (c =? d)) s.

Lemma forallb_imp {A} (p q : A -> bool) l :
  (forall x, p x = true -> q x = true) -> forallb p l = true -> forallb q l = true.
Proof.
  intros H. induction l as [|a l IH]; cbn [forallb]; [reflexivity|].
  rewrite !andb_true_iff. intros [Ha Hl]. split; auto.
Qed.

Lemma forallb_cons {A} (p : A -> bool) a l : forallb p (a :: l) = p a && forallb p l.
Proof. reflexivity. Qed.

Lemma nochar_app d a b : nochar d (a ++ b) = nochar d a && nochar d b.
Proof. apply forallb_app. Qed.

Lemma nochar_cons d c s : nochar d (c :: s) = negb (c =? d) && nochar d s.
Proof. reflexivity. Qed.

Lemma nochar_of (p : N -> bool) d s :
  p d = false -> forallb p s = true -> nochar d s = true.
Proof.
  intros Hd. apply forallb_imp. intros x Hx. destruct (x =? d) eqn:E; [|reflexivity].
  apply N.eqb_eq in E. subst. congruence.
Qed.

Lemma chr_in_nochar d s : nochar d s = true -> chr_in d s = false.
Proof.
  unfold chr_in, nochar. induction s as [|c s IH]; cbn [existsb forallb]; [reflexivity|].
  rewrite andb_true_iff. intros [Hc Hs]. rewrite (IH Hs), orb_false_r.
  rewrite N.eqb_sym. destruct (c =? d); [discriminate|reflexivity].
Qed.

Lemma chr_in_app d a b : chr_in d (a ++ b) = chr_in d a || chr_in d b.
Proof. apply existsb_app. Qed.

Lemma chr_in_nochar_false d s : chr_in d s = false -> nochar d s = true.
Proof.
  unfold chr_in, nochar. induction s as [|c s IH]; cbn [existsb forallb]; [reflexivity|].
  rewrite orb_false_iff. intros [Hc Hs]. rewrite (IH Hs), andb_true_r.
  rewrite N.eqb_sym, Hc. reflexivity.
Qed.

Lemma partition_at_app d pre post :
  nochar d pre = true -> partition_at d (pre ++ d :: post) = Some (pre, post).
Proof.
  induction pre as [|c pre IH]; cbn [app partition_at].
  - intros _. rewrite N.eqb_refl. reflexivity.
  - rewrite nochar_cons, andb_true_iff. intros [Hc Hp].
    destruct (c =? d); [discriminate|]. rewrite (IH Hp). reflexivity.
Qed.

Lemma partition_at_none d s : nochar d s = true -> partition_at d s = None.
Proof.
  induction s as [|c s IH]; cbn [partition_at]; [reflexivity|].
  rewrite nochar_cons, andb_true_iff. intros [Hc Hs].
  destruct (c =? d); [discriminate|]. rewrite (IH Hs). reflexivity.
Qed.

Lemma rpartition_at_none d s : nochar d s = true -> rpartition_at d s = None.
Proof.
  induction s as [|c s IH]; cbn [rpartition_at]; [reflexivity|].
  rewrite nochar_cons, andb_true_iff. intros [Hc Hs].
  rewrite (IH Hs). destruct (c =? d); [discriminate|reflexivity].
Qed.

Lemma rpartition_at_app d pre post :
  nochar d post = true -> rpartition_at d (pre ++ d :: post) = Some (pre, post).
Proof.
  intros Hp. induction pre as [|c pre IH]; cbn [app rpartition_at].
  - rewrite (rpartition_at_none _ _ Hp), N.eqb_refl. reflexivity.
  - rewrite IH. reflexivity.
Qed.

Lemma span_until_app p a x b :
  forallb (fun c => negb (p c)) a = true -> p x = true -> span_until p (a ++ x :: b) = (a, x :: b).
Proof.
  intros Ha Hx. induction a as [|c a IH]; cbn [app span_until].
  - rewrite Hx. reflexivity.
  - cbn [forallb] in Ha. apply andb_true_iff in Ha. destruct Ha as [Hc Ha].
    destruct (p c); [discriminate|]. rewrite (IH Ha). reflexivity.
Qed.

Lemma filter_id {A} (p : A -> bool) l : forallb p l = true -> filter p l = l.
Proof.
  induction l as [|a l IH]; cbn [forallb filter]; [reflexivity|].
  rewrite andb_true_iff. intros [Ha Hl]. rewrite Ha, (IH Hl). reflexivity.
Qed.

Lemma str_eqb_refl a : str_eqb a a = true.
Proof. induction a as [|x a IH]; [reflexivity|]. cbn. rewrite N.eqb_refl. exact IH. Qed.

Lemma str_eqb_eq a b : str_eqb a b = true -> a = b.
Proof.
  revert b. induction a as [|x a IH]; intros [|y b]; cbn; try discriminate; [reflexivity|].
  rewrite andb_true_iff. intros [Hx Hr]. apply N.eqb_eq in Hx. subst. f_equal. exact (IH _ Hr).
Qed.

Lemma str_eqb_neq a b : a <> b -> str_eqb a b = false.
Proof.
  intros H. destruct (str_eqb a b) eqn:E; [|reflexivity]. exfalso. exact (H (str_eqb_eq _ _ E)).
Qed.

Lemma lower_ascii_app a b : lower_ascii (a ++ b) = lower_ascii a ++ lower_ascii b.
Proof. apply map_app. Qed.
