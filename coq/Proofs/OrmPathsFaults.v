(* C04 / C06 for histories with access paths AND injected database errors. *)
From Coq Require Import List ZArith Bool Lia ZifyBool.
From Model Require Import Orm OrmPaths.
From Proofs Require Import OrmBase OrmSpec OrmLazy OrmInvLists OrmInvTables OrmInvDefs OrmInvCoh OrmInvFrames OrmInvOC
  OrmInvCache OrmInvOps OrmInvOps2 OrmInvRun OrmInvC04 OrmInvFaults OrmPathsSpec OrmPathsInv OrmPathsC04.
Import ListNotations.
Open Scope Z_scope.

Definition pgopf (m : mode) (o : pop) : bool :=
  match o with
  | PBase o => gopf m o
  | PPath _ => true
  | PFaultPath _ _ => true
  end.

Section PF.
Variable cfg : config.
Variable m : mode.
Notation I := (Inv cfg m []).

Theorem pstep_Inv_f s o : I s -> pgopf m o = true -> I (snd (pstep cfg s o)).
Proof.
  intros H Hg. destruct o as [o|p|n p].
  - exact (step_Inv_f cfg m s o H Hg).
  - exact (pstep_Inv cfg m s (PPath p) H eq_refl).
  - unfold pstep. cbn [prun_op]. unfold bind, modify, finally. cbn [fst snd].
    set (s0 := with_fault (with_fault (with_log s []) None) (Some n)).
    assert (H0 : I s0) by (apply Inv_fault; apply Inv_fault; apply Inv_log; exact H).
    pose proof (run_path_spec cfg m p s0 H0) as R.
    destruct (run_path cfg p s0) as [x s1]. cbn [snd]. apply Inv_fault. exact R.
Qed.

Theorem preachable_Inv_f pops : forallb (pgopf m) pops = true -> I (prun cfg pops).
Proof.
  unfold prun. pose proof (Inv_init cfg m) as H.
  revert H. generalize init. induction pops as [|o r IH]; intros s Hs Hg; cbn [fold_left]; [exact Hs|].
  cbn in Hg. apply andb_true_iff in Hg. destruct Hg as (Hg1 & Hg2).
  apply IH; [|exact Hg2]. now apply pstep_Inv_f.
Qed.
End PF.

Lemma pgopf_M04 pops : forallb pguard04f pops = true -> forallb (pgopf M04) pops = true.
Proof.
  intros H. rewrite forallb_forall in *. intros o Ho. specialize (H o Ho). destruct o as [o|p|n p]; cbn in *; auto.
  unfold gopf, guard04f, gop in *. cbn. rewrite H. reflexivity.
Qed.
Lemma pgopf_MNU pops : forallb pguard04f pops = true -> forallb pno_unpickle_f pops = true -> forallb (pgopf MNU) pops = true.
Proof.
  intros H H2. rewrite forallb_forall in *. intros o Ho. specialize (H o Ho). specialize (H2 o Ho).
  destruct o as [o|p|n p]; cbn in *; auto.
  unfold gopf, guard04f, no_unpickle_f, gop in *. cbn. rewrite H. destruct (unfault o); cbn in *; auto.
Qed.

Theorem C04_paths_unique_faults_proof : C04_paths_unique_faults_stmt.
Proof.
  intros cfg pops o1 o2 k id Hg s H1 H2 C1 C2 (K1 & I1) (K2 & I2) Hrow.
  pose proof (preachable_Inv_f cfg M04 pops (pgopf_M04 pops Hg)) as H. fold s in H.
  apply (Inv_unique cfg M04 [] s o1 o2 H (held_live [] s o1 H1) (held_live [] s o2 H2)); [congruence|congruence|].
  rewrite K1, I1. exact Hrow.
Qed.

Theorem C04_paths_cached_is_current_faults_proof : C04_paths_cached_is_current_faults_stmt.
Proof.
  intros cfg pops k id o Hg s Hc.
  exact (proj1 (inv_X _ _ _ _ (preachable_Inv_f cfg M04 pops (pgopf_M04 pops Hg)) k id o Hc)).
Qed.

Theorem C06_paths_no_unregistered_rows_proof : C06_paths_no_unregistered_rows_stmt.
Proof.
  intros cfg pops k id o Hg Hnu s Hc.
  destruct (inv_X _ _ _ _ (preachable_Inv_f cfg MNU pops (pgopf_MNU pops Hg Hnu)) k id o Hc) as (A & B).
  split; [exact A|exact (B eq_refl)].
Qed.

Theorem C04_paths_get_returns_held_faults_proof : C04_paths_get_returns_held_faults_stmt.
Proof.
  intros cfg pops o k id id' tok s' Hg s Hh Hc Hr Hrow Hstep.
  exact (get_returns_held_Inv cfg s o k id id' tok s' (preachable_Inv_f cfg M04 pops (pgopf_M04 pops Hg)) Hh Hc Hr Hrow Hstep).
Qed.

Theorem C04_fk_returns_held_faults_proof : C04_fk_returns_held_faults_stmt.
Proof.
  intros cfg pops h k' o id' tok s' Hg s Hh Hc (Hk & Hi) Hrow Hstep.
  pose proof (preachable_Inv_f cfg M04 pops (pgopf_M04 pops Hg)) as H. fold s in H.
  destruct (fk_step cfg M04 s h k' id' tok s' H Hstep) as (x & s2 & (G1 & G2 & G3 & G4 & _) & Etok & _).
  pose proof (Inv_st0 cfg M04 s H) as H0.
  assert (R : registered s2 k' id' o) by (apply (held_registered cfg M04 [] (st0 s) s2 o k' id' H0 G1 G2 G3); assumption).
  assert (x = o) by (eapply registered_fun; eauto). subst x tok.
  destruct G2 as (Esl & _). split.
  - apply (slot_of_slots s s2 o). exact Esl.
  - apply slot_of_some. rewrite Esl. exact Hh.
Qed.

Theorem C04_index_returns_held_faults_proof : C04_index_returns_held_faults_stmt.
Proof.
  intros cfg pops k u o id' tok s' Hg s Hh Hc Hr Hstep.
  exact (index_returns_held_Inv cfg s k u o id' tok s' (preachable_Inv_f cfg M04 pops (pgopf_M04 pops Hg)) Hh Hc Hr Hstep).
Qed.

Theorem C04_fk_deleted_not_returned_faults_proof : C04_fk_deleted_not_returned_faults_stmt.
Proof.
  intros cfg pops h k' id' tok s' Hg Hnu s Hstep.
  pose proof (preachable_Inv_f cfg MNU pops (pgopf_MNU pops Hg Hnu)) as H. fold s in H.
  destruct (fk_step cfg MNU s h k' id' tok s' H Hstep) as (x & s2 & (G1 & G2 & G3 & G4 & _) & _ & Et).
  destruct (inv_X _ _ _ _ G1 k' id' x (registered_cached _ _ _ _ G4)) as (_ & Hrow).
  specialize (Hrow eq_refl). unfold row_exists, tbl in *. rewrite Et. exact Hrow.
Qed.

Theorem C04_join_returns_held_faults_proof : C04_join_returns_held_faults_stmt.
Proof.
  intros cfg pops h k' keep o id res tok s' Hg s Hh Hc (Hk & Hi) Hstep Hin.
  pose proof (preachable_Inv_f cfg M04 pops (pgopf_M04 pops Hg)) as H. fold s in H.
  pose proof (Inv_st0 cfg M04 s H) as H0.
  destruct (join_step cfg M04 s h k' keep res s' H Hstep) as (o0 & objs & s1 & Hn & J1 & J2 & J3 & J4 & Eres).
  subst res. apply in_map_iff in Hin. destruct Hin as (x & Ex & Hx). inversion Ex as [[Eid Etok]]. clear Ex.
  assert (Hx' : exists id0, In id0 (join_ids s k' (i_id (get_inst s o0))) /\ got_for k' s1 x id0).
  { clear - J4 Hx. induction J4 as [|y id0 l l' Hy F IH]; [destruct Hx|].
    destruct Hx as [->|Hx]; [exists id0; split; [left; reflexivity|exact Hy]|].
    destruct (IH Hx) as (id1 & Hi1 & Hg1). exists id1. split; [right; exact Hi1|exact Hg1]. }
  destruct Hx' as (id0 & Hin0 & (R & K1 & K2)).
  assert (E0 : id0 = id) by congruence. rewrite E0 in R, Hin0. clear E0.
  pose proof (join_ids_rows s k' _ id Hin0) as Hrow.
  assert (Ro : registered s1 k' id o) by (apply (held_registered cfg M04 objs (st0 s) s1 o k' id H0 J1 J2 J3); assumption).
  assert (x = o) by (eapply registered_fun; eauto). subst x.
  destruct J2 as (Esl & _). split.
  - apply (slot_of_slots s s1 o). exact Esl.
  - apply slot_of_some. rewrite Esl. exact Hh.
Qed.

(* ---------------------------------------------------------------- non-vacuity *)
Definition phistf : list pop :=
  [PBase (OCreate Eager [(1%nat, VInt 100)]);
   PBase (OCreate Lazy [(0%nat, VInt 1); (1%nat, VInt 200)]);
   PBase (OFault 1 (OCreate Lazy [(0%nat, VInt 1); (1%nat, VInt 201)]));   (* row stored, constructor raises *)
   PBase (OCull Eager); PBase (OCull Lazy);
   PFaultPath 0 (PJoin 0 Lazy (Some 1%nat));                              (* the join's SELECT fails *)
   PFaultPath 1 (PJoin 0 Lazy (Some 1%nat));                              (* child 1 is a cache hit, the SELECT of child 2 fails: half-way *)
   PFaultPath 2 (PJoin 0 Lazy (Some 1%nat));                              (* no third statement: runs to completion *)
   PFaultPath 0 (PFk 1 Eager)].                                           (* the parent is cached: no statement *)

Example phistf_guarded : forallb pguard04f phistf = true /\ forallb pno_unpickle_f phistf = true.
Proof. vm_compute. auto. Qed.

Example phistf_results :
  map (fun r => match r with Ret _ => true | Raise _ => false end)
      (snd (fold_left (fun acc o => (snd (pstep cfgC (fst acc) o), snd acc ++ [fst (pstep cfgC (fst acc) o)])) phistf (init, [])))
  = [true; true; false; true; true; false; false; true; true].
Proof. vm_compute. reflexivity. Qed.

Example phistf_then :
  let s := prun cfgC phistf in
  fst (pstep cfgC s (PPath (PFk 1 Eager))) = Ret (RObj 1 (Some 0%nat)) /\
  map fst (match fst (pstep cfgC s (PPath (PJoin 0 Lazy None))) with Ret (RObjs l) => l | _ => [] end) = [1; 2].
Proof. vm_compute. split; reflexivity. Qed.

Print Assumptions C04_paths_unique_faults_proof.
Print Assumptions C04_index_returns_held_faults_proof.
Print Assumptions C04_paths_get_returns_held_faults_proof.
Print Assumptions C04_fk_returns_held_faults_proof.
Print Assumptions C04_join_returns_held_faults_proof.
Print Assumptions C04_fk_deleted_not_returned_faults_proof.
Print Assumptions C04_paths_cached_is_current_faults_proof.
Print Assumptions C06_paths_no_unregistered_rows_proof.
