(* C15: the SQL side of a select -- the cartesian product of the tables of a
   chain, filtered by the id-joins, is the natural join: one environment per
   object that has a row in every table. *)
From Coq Require Import List ZArith Bool Lia.
From Model Require Import Inherit.
From Proofs Require Import InheritBase InheritOps.
Import ListNotations.
Open Scope Z_scope.

Lemma filter_flat_map : forall (X Y : Type) (P : Y -> bool) (f : X -> list Y) l,
  filter P (flat_map f l) = flat_map (fun x => filter P (f x)) l.
Proof. induction l as [|x l IH]; [reflexivity|]. cbn. rewrite filter_app, IH. reflexivity. Qed.
Lemma filter_map_comm : forall (X Y : Type) (P : Y -> bool) (g : X -> Y) l,
  filter P (map g l) = map g (filter (fun x => P (g x)) l).
Proof. induction l as [|x l IH]; [reflexivity|]. cbn. destruct (P (g x)); cbn; rewrite IH; reflexivity. Qed.
Lemma flat_map_ext_in : forall (X Y : Type) (f g : X -> list Y) l,
  (forall x, In x l -> f x = g x) -> flat_map f l = flat_map g l.
Proof.
  induction l as [|x l IH]; intro H; [reflexivity|]. cbn. rewrite H by (left; reflexivity). f_equal.
  apply IH. intros. apply H. right. assumption.
Qed.
Lemma flat_map_flat_map : forall (X Y W : Type) (g : Y -> list W) (h : X -> list Y) l,
  flat_map g (flat_map h l) = flat_map (fun x => flat_map g (h x)) l.
Proof. induction l as [|x l IH]; [reflexivity|]. cbn. rewrite flat_map_app, IH. reflexivity. Qed.
Lemma filter_and : forall (X : Type) (P Q : X -> bool) l,
  filter (fun x => P x && Q x) l = filter Q (filter P l).
Proof.
  induction l as [|x l IH]; [reflexivity|]. cbn. destruct (P x); cbn; [destruct (Q x)|]; rewrite IH; reflexivity.
Qed.
Lemma flat_map_filter_if : forall (X Y : Type) (c : X -> bool) (f : X -> list Y) l,
  flat_map (fun x => if c x then f x else []) l = flat_map f (filter c l).
Proof. induction l as [|x l IH]; [reflexivity|]. cbn. destruct (c x); cbn; rewrite IH; reflexivity. Qed.
Lemma filter_ext_in' : forall (X : Type) (P Q : X -> bool) l,
  (forall x, In x l -> P x = Q x) -> filter P l = filter Q l.
Proof.
  induction l as [|x l IH]; intro H; [reflexivity|]. cbn. rewrite H by (left; reflexivity).
  rewrite IH; [reflexivity|]. intros. apply H. right. assumption.
Qed.

Lemma filter_false : forall (X : Type) (l : list X), filter (fun _ => false) l = [].
Proof. induction l; [reflexivity|assumption]. Qed.

(* all rows of one id in a table *)
Lemma lookup_all_proj : forall l i os, NoDup (aids os) ->
  filter (fun y => rid y =? i) (proj l os) = match afind i os with Some o => pr1 l o | None => [] end.
Proof.
  induction os as [|o os IH]; intro Hnd; [reflexivity|].
  cbn in Hnd. inversion Hnd as [|? ? Hx Hnd']; subst.
  rewrite proj_cons, filter_app. cbn [afind List.find]. destruct (aid o =? i) eqn:E.
  - apply Z.eqb_eq in E. rewrite IH by exact Hnd'.
    assert (afind i os = None) as -> by (apply afind_none; rewrite <- E; exact Hx).
    rewrite app_nil_r. unfold pr1. destruct (memc l (chain (ak o))); [|reflexivity]. cbn. rewrite E, Z.eqb_refl. reflexivity.
  - rewrite IH by exact Hnd'. fold (afind i os).
    assert (filter (fun y => rid y =? i) (pr1 l o) = []) as ->; [|reflexivity].
    unfold pr1. destruct (memc l (chain (ak o))); [|reflexivity]. cbn. rewrite E. reflexivity.
Qed.

Definition ids_all (i : Z) (e : env) : bool := forallb (fun p => rid (snd p) =? i) e.
Definition oenv (ls : list cls) (o : aobj) : env := map (fun l => (l, arow l o)) ls.
Definition in_all (ls : list cls) (o : aobj) : bool := forallb (fun l => memc l (chain (ak o))) ls.

Lemma product_cons : forall s l r,
  product s (l :: r) = flat_map (fun x => map (cons (l, x)) (product s r)) (tab s l).
Proof. reflexivity. Qed.

(* the environments whose rows all carry the id i *)
Lemma product_one_id : forall s os i ls, repr s os ->
  filter (ids_all i) (product s ls) =
  match afind i os with
  | Some o => if in_all ls o then [oenv ls o] else []
  | None => match ls with [] => [[]] | _ => [] end
  end.
Proof.
  intros s os i ls Hr. assert (Hr' := Hr). destruct Hr' as [Hnd [Ht _]].
  induction ls as [|l r IH].
  - cbn. destruct (afind i os); reflexivity.
  - rewrite product_cons, filter_flat_map.
    rewrite (flat_map_ext_in _ _ _ (fun x => if rid x =? i then map (cons (l, x)) (filter (ids_all i) (product s r)) else [])).
    2:{ intros x _. rewrite filter_map_comm. cbn [ids_all forallb snd].
        destruct (rid x =? i); cbn [andb]; [reflexivity|].
        rewrite filter_false. reflexivity. }
    rewrite flat_map_filter_if, Ht, lookup_all_proj by exact Hnd. rewrite IH. clear IH.
    destruct (afind i os) as [o|]; [|reflexivity].
    unfold pr1, in_all. cbn [forallb]. destruct (memc l (chain (ak o))); cbn; [|reflexivity].
    fold (in_all r o). destruct (in_all r o); reflexivity.
Qed.

Lemma product_shape : forall s ls e, In e (product s ls) -> map fst e = ls.
Proof.
  induction ls as [|l r IH]; intros e H; cbn in H.
  - destruct H as [<-|[]]. reflexivity.
  - apply in_flat_map in H. destruct H as [x [_ H]]. apply in_map_iff in H. destruct H as [e' [<- He']].
    cbn. f_equal. apply IH. exact He'.
Qed.

(* the natural join: FROM root, t2, .. WHERE all ids equal AND Q *)
Lemma natural_join : forall s os r (Q : env -> bool), repr s os ->
  filter (fun e => match e with (_, x) :: e' => ids_all (rid x) e' | [] => true end && Q e) (product s (KA :: r)) =
  flat_map (fun o => if in_all (KA :: r) o && Q (oenv (KA :: r) o) then [oenv (KA :: r) o] else []) os.
Proof.
  intros s os r Q Hr. assert (Hr' := Hr). destruct Hr' as [Hnd [Ht _]].
  rewrite product_cons, filter_flat_map, Ht. unfold proj at 1. rewrite flat_map_flat_map.
  apply flat_map_ext_in. intros o Ho. unfold pr1 at 1. rewrite memc_root. cbn [flat_map]. rewrite app_nil_r.
  rewrite filter_map_comm. cbn [ids_all].
  rewrite filter_and. fold (ids_all (rid (arow KA o))). rewrite (product_one_id s os _ r Hr).
  cbn [arow rid]. rewrite (afind_in os o Hnd Ho).
  unfold in_all. cbn [forallb]. rewrite memc_root. cbn [andb]. fold (in_all r o).
  destruct (in_all r o); [|reflexivity]. cbn [filter oenv map].
  destruct (Q _); reflexivity.
Qed.
