(* C15: the property theorems over reachable states. *)
From Coq Require Import List ZArith Bool Lia.
From Model Require Import Inherit.
From Proofs Require Import InheritBase InheritOps InheritCreate InheritInv InheritJoin InheritSelect InheritSelectBy.
Import ListNotations.
Open Scope Z_scope.

Lemma reach_repr : forall auto s, reachable auto s -> exists os, repr s os.
Proof. intros auto s [ops [Hc ->]]. eapply run_repr; [apply repr_init|exact Hc]. Qed.

Theorem nesting_reach : forall auto s, reachable auto s -> nesting s.
Proof. intros auto s H. destruct (reach_repr auto s H) as [os Hr]. eapply repr_nesting. exact Hr. Qed.

Lemma born_in : forall s os id k, repr s os -> In (id, k) (born s) ->
  exists o, In o os /\ aid o = id /\ ak o = k /\ afind id os = Some o.
Proof.
  intros s os id k Hr H. assert (Hr' := Hr). destruct Hr' as [Hnd [_ [Hb _]]]. rewrite Hb in H. apply in_map_iff in H.
  destruct H as [o [He Ho]]. inversion He; subst. exists o. repeat split; try assumption. apply afind_in; assumption.
Qed.

(* ---- get *)
Theorem most_derived : forall auto s id k, reachable auto s -> In (id, k) (born s) ->
  (forall e, In e (chain k) -> get_obj s e id = inr (mkobj id k (map (fun l => val_of s l id) (chain k)))) /\
  (forall e, ~ In e (chain k) -> get_obj s e id = inl ENotFound).
Proof.
  intros auto s id k Hre Hb. destruct (reach_repr auto s Hre) as [os Hr].
  destruct (born_in s os id k Hr Hb) as [o [Ho [Hid [Hk Hf]]]]. subst id k. split.
  - intros e He. apply memc_In in He. rewrite (get_obj_repr s os e (aid o) o Hr Hf He).
    f_equal. apply (obj_of_vals s os o Hr Ho).
  - intros e He. apply (get_obj_wrong_entry s os e (aid o) o Hr Hf).
    destruct (memc e (chain (ak o))) eqn:E; [|reflexivity]. apply memc_In in E. tauto.
Qed.

Theorem get_sound : forall auto s e id ob, reachable auto s -> get_obj s e id = inr ob ->
  oid ob = id /\ In (id, ocls ob) (born s) /\ In e (chain (ocls ob)) /\
  ovals ob = map (fun l => val_of s l id) (chain (ocls ob)).
Proof.
  intros auto s e id ob Hre Hg. destruct (reach_repr auto s Hre) as [os Hr].
  destruct (get_obj_inv s os e id ob Hr Hg) as [o [Hf [Hm ->]]].
  destruct (afind_some _ _ _ Hf) as [Ho Hid]. subst id. cbn [oid ocls ovals obj_of]. repeat split.
  - destruct Hr as [_ [_ [Hb _]]]. rewrite Hb. apply in_map_iff. exists o. auto.
  - apply memc_In. exact Hm.
  - apply map_ext_in. intros l Hl. symmetry. apply (val_of_repr s os o l Hr Ho). apply memc_In. exact Hl.
Qed.

Theorem get_absent : forall auto s e id x, reachable auto s -> get_obj s e id = inl x -> x = ENotFound.
Proof. intros auto s e id x Hre Hg. destruct (reach_repr auto s Hre) as [os Hr]. eapply get_obj_err; eassumption. Qed.

(* ---- create *)
Theorem create_rows : forall auto s k a unk s' ob, reachable auto s ->
  step auto s (Create k a unk) = (s', RObj ob) ->
  oid ob = seq s + 1 /\ ocls ob = k /\ ovals ob = map (argval a) (chain k) /\
  (forall l, ~ In (oid ob) (ids (tab s l))) /\
  (forall l, tab s' l = tab s l ++ (if memc l (chain k) then [mkrow (oid ob) (argval a l) (tagof k l)] else [])) /\
  born s' = born s ++ [(oid ob, k)].
Proof.
  intros auto s k a unk s' ob Hre H. destruct (reach_repr auto s Hre) as [os Hr].
  cbn [step] in H. unfold do_create in H. destruct (creat auto (rev (chain k)) None a unk s) as [s1 [x|id]] eqn:Hc; [inversion H|].
  destruct (create_repr_ok _ _ _ _ _ _ _ _ Hr Hc) as [Hr1 [Hid Hrf]].
  pose proof (creat_ok _ _ _ _ _ _ _ Hc) as [_ [Hsq [_ [Hb Ht]]]].
  set (s2 := set_born s1 (born s1 ++ [(id, k)])) in *.
  assert (Hnd : NoDup (aids (os ++ [newo id k a]))) by (destruct Hr1; assumption).
  assert (Hf : afind id (os ++ [newo id k a]) = Some (newo id k a)).
  { apply (afind_in _ (newo id k a) Hnd). apply in_or_app. right. left. reflexivity. }
  rewrite (get_obj_repr s2 _ k id (newo id k a) Hr1 Hf (memc_self k)) in H. inversion H; subst s' ob; clear H.
  cbn [oid ocls ovals obj_of newo aid ak av]. repeat split; try assumption.
  - intros l Hin. unfold ids in Hin. apply in_map_iff in Hin. destruct Hin as [r [He Hin]].
    apply (repr_ids_le s os l r Hr) in Hin. lia.
  - unfold s2. cbn. rewrite Hb. reflexivity.
Qed.

Theorem failed_create_clean : forall auto s k a unk s' x, reachable auto s ->
  auto = true -> zmem (seq s + 1) (refs s) = false ->
  step auto s (Create k a unk) = (s', RErr x) ->
  (forall l, tab s' l = tab s l) /\ born s' = born s /\ refs s' = refs s.
Proof.
  intros auto s k a unk s' x Hre Ha Hz H. destruct (reach_repr auto s Hre) as [os Hr].
  cbn [step] in H. unfold do_create in H. destruct (creat auto (rev (chain k)) None a unk s) as [s1 [e|id]] eqn:Hc.
  - inversion H; subst s1 x; clear H.
    assert (Hle : forall l r, In r (tab s l) -> rid r <= seq s) by (intros l r; apply (repr_ids_le s os); exact Hr).
    pose proof (creat_err auto k a unk s s' e Hle Hc) as [Hrf [Hb [_ [_ T2]]]]. auto.
  - exfalso. destruct (create_repr_ok _ _ _ _ _ _ _ _ Hr Hc) as [Hr1 _].
    assert (Hnd : NoDup (aids (os ++ [newo id k a]))) by (destruct Hr1; assumption).
    assert (Hf : afind id (os ++ [newo id k a]) = Some (newo id k a)).
    { apply (afind_in _ (newo id k a) Hnd). apply in_or_app. right. left. reflexivity. }
    rewrite (get_obj_repr _ _ k id (newo id k a) Hr1 Hf (memc_self k)) in H. inversion H.
Qed.

(* ---- destroySelf *)
Lemma has_del : forall id t, has id (del id t) = false.
Proof.
  intros id t. unfold has. induction t as [|r t IH]; [reflexivity|]. cbn.
  destruct (rid r =? id) eqn:E; cbn; [exact IH|]. rewrite E. exact IH.
Qed.

Theorem destroy_all_levels : forall auto s id k e, reachable auto s -> In (id, k) (born s) -> In e (chain k) ->
  trig_destroy s e id = false ->
  exists s', step auto s (Destroy e id) = (s', ROk) /\
    (forall l, tab s' l = del id (tab s l)) /\ (forall l, has id (tab s' l) = false) /\
    born s' = filter (fun p => negb (fst p =? id)) (born s) /\ refs s' = refs s.
Proof.
  intros auto s id k e Hre Hb He Hg. destruct (reach_repr auto s Hre) as [os Hr].
  destruct (born_in s os id k Hr Hb) as [o [Ho [Hid [Hk Hf]]]]. subst id k.
  apply memc_In in He. unfold trig_destroy in Hg. cbn [step].
  rewrite (get_obj_repr s os e (aid o) o Hr Hf He) in *. cbn [ocls obj_of] in *.
  destruct (destroy_repr s os (aid o) o Hr Hf Hg) as [s' [H1 [H2 [H3 [H4 [H5 _]]]]]].
  rewrite H1. eexists. split; [reflexivity|]. repeat split.
  - intro l. rewrite tab_set_born. apply H2.
  - intro l. rewrite tab_set_born, H2. apply has_del.
  - cbn. rewrite H5. reflexivity.
  - cbn. exact H4.
Qed.

(* ---- attributes through every level *)
Theorem entry_independent : forall auto s id k e e', reachable auto s -> In (id, k) (born s) ->
  In e (chain k) -> In e' (chain k) ->
  get_obj s e id = get_obj s e' id /\
  (forall col v, step auto s (SetAttr e id col v) = step auto s (SetAttr e' id col v)) /\
  (forall kvs, step auto s (SetMany e id kvs) = step auto s (SetMany e' id kvs)) /\
  step auto s (Destroy e id) = step auto s (Destroy e' id).
Proof.
  intros auto s id k e e' Hre Hb He He'. destruct (most_derived auto s id k Hre Hb) as [M _].
  assert (G : get_obj s e id = get_obj s e' id) by (rewrite (M e He), (M e' He'); reflexivity).
  split; [exact G|]. cbn [step]. rewrite G. repeat split.
Qed.

Lemma get_entries_const : forall s es id ob, (forall e, In e es -> get_obj s e id = inr ob) ->
  get_entries s es id = inr (map (fun _ => ob) es).
Proof.
  induction es as [|e es IH]; intros id ob H; [reflexivity|]. cbn.
  rewrite (H e (or_introl eq_refl)), (IH id ob); [reflexivity|]. intros. apply H. right. assumption.
Qed.

Theorem attr_write : forall auto s id k e col v s' r, reachable auto s -> In (id, k) (born s) ->
  In e (chain k) -> In col (chain k) ->
  step auto s (SetAttr e id col v) = (s', r) ->
  (exists x, r = RErr x /\ s' = s) \/
  (exists ov, validate v = inr ov /\
     tab s' col = setv id ov (tab s col) /\ (forall l, l <> col -> tab s' l = tab s l) /\
     val_of s' col id = ov /\
     r = RSeen (map (fun _ => mkobj id k (map (fun c => val_of s' c id) (chain k))) (chain k))).
Proof.
  intros auto s id k e col v s' r Hre Hb He Hcol H. destruct (reach_repr auto s Hre) as [os Hr].
  destruct (born_in s os id k Hr Hb) as [o [Ho [Hid [Hk Hf]]]]. subst id k.
  apply memc_In in He. apply memc_In in Hcol. cbn [step] in H.
  rewrite (get_obj_repr s os e (aid o) o Hr Hf He) in H. cbn [ocls obj_of] in H. rewrite Hcol in H.
  destruct (write1 s (aid o) col v) as [x|s1] eqn:W.
  - left. inversion H. eauto.
  - right. inversion H; subst s1 r; clear H.
    destruct (write1_repr _ _ _ _ _ _ Hr W) as [ov [Hv [Hr1 _]]]. exists ov. split; [exact Hv|].
    unfold write1 in W. rewrite Hv in W. unfold sql_update in W.
    assert (Hh : has (aid o) (tab s col) = true).
    { destruct Hr as [Hnd [Ht _]]. rewrite Ht, has_proj, Hf by assumption. exact Hcol. }
    rewrite Hh in W. destruct (notnull col && isnone ov); [discriminate|].
    destruct (taken ov (Some (aid o)) (tab s col)); [discriminate|]. inversion W; subst s'; clear W.
    split; [apply tab_set_same|]. split; [intros l Hl; apply tab_set_other; exact Hl|].
    set (s1 := set_tab s col (setv (aid o) ov (tab s col))) in *.
    set (o' := aset1 (aid o) col ov o).
    assert (Ho' : In o' (aset (aid o) col ov os)) by (unfold aset; apply in_map; exact Ho).
    assert (Hid' : aid o' = aid o) by apply aset1_id.
    assert (Hk' : ak o' = ak o) by apply aset1_k.
    assert (Hnd1 : NoDup (aids (aset (aid o) col ov os))) by (destruct Hr1; assumption).
    pose proof (afind_in _ o' Hnd1 Ho') as Hf'. rewrite Hid' in Hf'.
    split.
    + pose proof (val_of_repr s1 _ o' col Hr1 Ho') as V. rewrite Hid', Hk' in V. rewrite (V Hcol).
      unfold o', aset1. rewrite Z.eqb_refl. cbn. unfold upd. rewrite cls_eqb_refl. reflexivity.
    + unfold seen. rewrite (get_entries_const s1 (chain (ak o)) (aid o) (obj_of o')).
      * f_equal. f_equal. rewrite (obj_of_vals s1 _ o' Hr1 Ho'), Hid', Hk'. reflexivity.
      * intros e' He'. apply (get_obj_repr s1 _ e' (aid o) o' Hr1 Hf'). rewrite Hk'. apply memc_In. exact He'.
Qed.

(* ---- select *)
Theorem select_own_kind : forall auto s k f, reachable auto s -> fvis k f = true ->
  exists objs from,
    step auto s (Select k f) = (s, RObjs objs (Z.of_nat (length objs)) from) /\
    map oid objs = filter (fun id => kind_of s k id && ftrue s f id) (ids (tA s)) /\
    forall ob, In ob objs ->
      born_as s (oid ob) = Some (ocls ob) /\ memc k (chain (ocls ob)) = true /\
      ovals ob = map (fun l => val_of s l (oid ob)) (chain (ocls ob)).
Proof.
  intros auto s k f Hre Hv. destruct (reach_repr auto s Hre) as [os Hr].
  destruct (select_own_kind_repr s os k f Hr Hv) as [objs [from [H1 [H2 H3]]]].
  exists objs, from. cbn [step]. rewrite H1. auto.
Qed.

Theorem select_by_own_kind : forall auto s k col v, reachable auto s ->
  match col with Some c => memc c (chain k) = true | None => True end ->
  exists objs from,
    step auto s (SelectBy k col v) = (s, RObjs objs (Z.of_nat (length objs)) from) /\
    map oid objs = filter (fun id => kind_of s k id && by_true s col v id) (ids (tA s)) /\
    forall ob, In ob objs ->
      born_as s (oid ob) = Some (ocls ob) /\ memc k (chain (ocls ob)) = true /\
      ovals ob = map (fun l => val_of s l (oid ob)) (chain (ocls ob)).
Proof.
  intros auto s k col v Hre Hc. destruct (reach_repr auto s Hre) as [os Hr].
  destruct (select_by_own_kind_repr s os k col v Hr Hc) as [objs [from [H1 [H2 H3]]]].
  exists objs, from. cbn [step]. rewrite H1.
  assert (match col with Some c => memc c (chain k) | None => true end = true) as -> by (destruct col; auto).
  auto.
Qed.

(* K.byX(v): the instance of kind K whose root column x equals v, or NotFound when there is none *)
Theorem by_alternate_id : forall auto s k v, reachable auto s ->
  (exists ob, step auto s (ByX k v) = (s, RObj ob) /\
     born_as s (oid ob) = Some (ocls ob) /\ memc k (chain (ocls ob)) = true /\
     val_of s KA (oid ob) = Some v /\
     ovals ob = map (fun l => val_of s l (oid ob)) (chain (ocls ob))) \/
  (step auto s (ByX k v) = (s, RErr ENotFound) /\
     forall id, In id (ids (tA s)) -> kind_of s k id = true -> val_of s KA id <> Some v).
Proof.
  intros auto s k v Hre. destruct (reach_repr auto s Hre) as [os Hr].
  destruct (select_by_own_kind_repr s os k (Some KA) (Some v) Hr (memc_root k)) as [objs [from [H1 [H2 H3]]]].
  cbn [step]. rewrite H1. destruct objs as [|ob objs].
  - right. split; [reflexivity|]. intros id Hin Hk Hv. cbn [map] in H2.
    assert (In id []) as [].
    rewrite H2. apply filter_In. split; [exact Hin|]. rewrite Hk. cbn [andb by_true]. rewrite Hv. cbn. rewrite Z.eqb_refl. reflexivity.
  - left. exists ob. split; [reflexivity|]. destruct (H3 ob (or_introl eq_refl)) as [A [B C]].
    repeat split; try assumption.
    assert (Hin : In (oid ob) (map oid (ob :: objs))) by (left; reflexivity).
    rewrite H2 in Hin. apply filter_In in Hin. destruct Hin as [_ Hin]. apply andb_true_iff in Hin. destruct Hin as [_ Hin].
    cbn [by_true] in Hin. destruct (val_of s KA (oid ob)) as [z|]; cbn in Hin; [|discriminate].
    destruct (z =? v) eqn:E; [|discriminate]. apply Z.eqb_eq in E. subst. reflexivity.
Qed.

(* born_as agrees with the ghost list, and the root table holds exactly the live ids *)
Theorem born_as_spec : forall auto s id k, reachable auto s -> (born_as s id = Some k <-> In (id, k) (born s)).
Proof.
  intros auto s id k Hre. destruct (reach_repr auto s Hre) as [os Hr]. split.
  - intro H. destruct (afind id os) as [o|] eqn:Hf.
    + destruct (afind_some _ _ _ Hf) as [Ho Hid]. subst id. rewrite (born_as_repr s os o Hr Ho) in H. inversion H; subst.
      destruct Hr as [_ [_ [Hb _]]]. rewrite Hb. apply in_map_iff. exists o. auto.
    + apply afind_none in Hf. rewrite (born_as_none s os id Hr Hf) in H. discriminate.
  - intro H. destruct (born_in s os id k Hr H) as [o [Ho [Hid [Hk _]]]]. subst. apply (born_as_repr s os o Hr Ho).
Qed.

Theorem root_ids_are_born : forall auto s, reachable auto s -> ids (tA s) = map fst (born s).
Proof.
  intros auto s Hre. destruct (reach_repr auto s Hre) as [os [Hnd [Ht [Hb _]]]].
  assert (tA s = tab s KA) as -> by reflexivity. rewrite Ht, proj_root_ids, Hb, map_map. reflexivity.
Qed.

(* reachable states stay reachable under any operation outside the trigger classes *)
Lemma run_app : forall auto a s b, run auto s (a ++ b) = run auto (run auto s a) b.
Proof. induction a as [|o a IH]; intros s b; [reflexivity|]. cbn. apply IH. Qed.
Lemma clean_app : forall auto a s b, clean auto s (a ++ b) = clean auto s a && clean auto (run auto s a) b.
Proof.
  induction a as [|o a IH]; intros s b; [reflexivity|]. cbn. rewrite IH, andb_assoc. reflexivity.
Qed.
Theorem reachable_step : forall auto s o, reachable auto s -> trigger auto s o = false ->
  reachable auto (fst (step auto s o)).
Proof.
  intros auto s o [ops [Hc ->]] Hg. exists (ops ++ [o]). rewrite clean_app, run_app, Hc. cbn. rewrite Hg. auto.
Qed.

(* ---- explicit ids *)
Theorem create_id_subclass : forall auto s k a unk i, parent k <> None ->
  step auto s (CreateId k a unk i) = step auto s (Create k a unk).
Proof. intros auto s k a unk i H. destruct k; try reflexivity. exfalso. apply H. reflexivity. Qed.

Theorem create_id_root : forall auto s a unk i s' r, reachable auto s ->
  step auto s (CreateId KA a unk i) = (s', r) ->
  (exists x, r = RErr x /\ s' = s) \/
  (r = RObj (mkobj i KA [argval a KA]) /\ has i (tab s KA) = false /\
   tab s' KA = tab s KA ++ [mkrow i (argval a KA) None] /\ (forall l, l <> KA -> tab s' l = tab s l) /\
   born s' = born s ++ [(i, KA)] /\ seq s' = Z.max (seq s) i /\ refs s' = refs s).
Proof.
  intros auto s a unk i s' r Hre H. destruct (reach_repr auto s Hre) as [os Hr].
  cbn [step parent] in H. destruct (root_create_id a unk i s) as [x|s1] eqn:Hc.
  - left. inversion H. eauto.
  - right. pose proof (root_create_repr KA a unk i s s1 os Hr eq_refl Hc) as Hr1.
    assert (Hnd : NoDup (aids (os ++ [newo i KA a]))) by (destruct Hr1; assumption).
    assert (Hf : afind i (os ++ [newo i KA a]) = Some (newo i KA a)).
    { apply (afind_in _ (newo i KA a) Hnd). apply in_or_app. right. left. reflexivity. }
    rewrite (get_obj_repr _ _ KA i (newo i KA a) Hr1 Hf eq_refl) in H. inversion H; subst s' r; clear H.
    unfold root_create_id in Hc. destruct unk; [discriminate|].
    assert (Ev : argval a KA = match validate (arg_of a KA) with inr v => v | inl _ => None end) by reflexivity.
    destruct (validate (arg_of a KA)) as [e|v]; [discriminate|]. unfold sql_insert in Hc.
    destruct (notnull KA && isnone v); [discriminate|].
    destruct (taken v None (tab s KA)); [discriminate|]. cbn [orb] in Hc.
    destruct (has i (tab s KA)) eqn:Hh; [discriminate|]. inversion Hc; subst s1; clear Hc.
    cbn in Ev. subst v. repeat split.
    intros l Hl. destruct l; try reflexivity. congruence.
Qed.
