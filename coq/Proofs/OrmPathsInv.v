(* The C04 invariant through the access paths of Model/OrmPaths.v (foreign-key
   attribute, MultipleJoin accessor): preserved by pstep, hence on every state
   reached by prun. *)
From Coq Require Import List ZArith Bool Lia ZifyBool.
From Model Require Import Orm OrmPaths.
From Proofs Require Import OrmBase OrmSpec OrmLazy OrmInvLists OrmInvTables OrmInvDefs OrmInvCoh OrmInvFrames OrmInvOC
  OrmInvCache OrmInvOps OrmInvOps2 OrmInvRun OrmInvC04 OrmPathsSpec.
Import ListNotations.
Open Scope Z_scope.

Arguments so_get : simpl never.
Arguments so_read : simpl never.

(* the histories of each mode, with access paths *)
Definition pgop (m : mode) (o : pop) : bool :=
  match o with
  | PBase o => gop m o
  | PPath _ => true
  | PFaultPath _ _ => false
  end.

(* a read leaves the tables alone *)
Lemma so_read_tables o c s : tables (snd (so_read o c s)) = tables s.
Proof.
  unfold so_read. unfold bind at 1, gets. cbn [fst snd].
  destruct (cache_values (i_k (get_inst s o))).
  - destruct (nth c (i_vals (get_inst s o)) None); [reflexivity|].
    unfold bind at 1, upd_inst, modify. cbn [fst snd]. unfold bind at 1.
    match goal with |- context [db_select_one ?k ?id ?cols ?st] => destruct (db_select_one_run k id cols st) as (l' & [Ed|Ed]); rewrite Ed end;
      [|reflexivity].
    match goal with |- context [match ?x with Some _ => _ | None => _ end] => destruct x end; reflexivity.
  - destruct (i_obsolete (get_inst s o)); [reflexivity|]. unfold bind at 1.
    match goal with |- context [db_select_one ?k ?id ?cols ?st] => destruct (db_select_one_run k id cols st) as (l' & [Ed|Ed]); rewrite Ed end;
      [|reflexivity].
    match goal with |- context [match ?x with Some _ => _ | None => _ end] => destruct x end; reflexivity.
Qed.

Section Paths.
Variable cfg : config.
Variable m : mode.
Notation I := (Inv cfg m []).

(* ---------------------------------------------------------------- the foreign key *)
Lemma so_fk_spec o k' s :
  I s -> In (Some o) (slots s) ->
  match so_fk cfg o k' s with
  | (Ret (Some x), s') => exists id, get_ok cfg m k' id [] s x s'
  | (Ret None, s') => I s' /\ ext s s' /\ tables s' = tables s
  | (Raise _, s') => I s' /\ ext s s' /\ tables s' = tables s
  end.
Proof.
  intros H Hh. unfold so_fk. unfold bind at 1.
  pose proof (so_read_spec cfg m [] s o 0%nat H Hh ltac:(intros; lia)) as R.
  pose proof (so_read_tables o 0%nat s) as T.
  destruct (so_read o 0%nat s) as [[v|e] s1]; cbn [snd] in T; destruct R as (H1 & E1); [|auto].
  destruct v as [|id|]; [unfold ret; auto| |unfold raise; auto].
  unfold bind at 1.
  pose proof (so_get_spec cfg m k' id None [] s1 H1 ltac:(discriminate)) as G.
  destruct (so_get cfg k' id None [] s1) as [[x|e] s2].
  - unfold ret. exists id. apply (get_ok_trans cfg m k' id [] s s1 x s2 E1 T G).
  - destruct G as (G1 & G2 & G3). split; [exact G1|]. split; [eapply ext_trans; eauto|congruence].
Qed.

(* ---------------------------------------------------------------- the join accessor *)
Definition got_for (k : kind) (s' : st) (x : nat) (id : Z) : Prop :=
  registered s' k id x /\ i_k (get_inst s' x) = k /\ i_id (get_inst s' x) = id.

Lemma get_each_spec k ids : forall acc s,
  Inv cfg m acc s -> (forall id, In id ids -> row_exists s k id) ->
  match get_each cfg k ids acc s with
  | (Ret objs, s') =>
      Inv cfg m objs s' /\ ext s s' /\ tables s' = tables s /\
      exists news, objs = acc ++ news /\ Forall2 (got_for k s') news ids
  | (Raise _, s') => I s' /\ ext s s' /\ tables s' = tables s
  end.
Proof.
  induction ids as [|id rest IH]; intros acc s H Hrows; cbn [get_each].
  - unfold ret. split; [exact H|]. split; [apply ext_refl|]. split; [reflexivity|].
    exists []. split; [now rewrite app_nil_r|constructor].
  - unfold bind at 1.
    pose proof (so_get_spec cfg m k id None acc s H ltac:(discriminate)) as G.
    destruct (so_get cfg k id None acc s) as [[o|e] s1].
    2:{ destruct G as (G1 & G2 & G3). split; [eapply Inv_roots_weaken; [exact G1|intros x []]|auto]. }
    destruct G as (G1 & G2 & G3 & G4 & G5 & G6 & G7).
    assert (H1 : Inv cfg m (acc ++ [o]) s1) by (apply Inv_roots_add; assumption).
    assert (Tb : forall k', tbl s1 k' = tbl s k') by (intros k'; unfold tbl; now rewrite G3).
    assert (Hrows1 : forall id', In id' rest -> row_exists s1 k id').
    { intros id' Hi. unfold row_exists. rewrite Tb. apply Hrows. right. exact Hi. }
    specialize (IH (acc ++ [o]) s1 H1 Hrows1).
    destruct (get_each cfg k rest (acc ++ [o]) s1) as [[objs|e] s2].
    2:{ destruct IH as (I1 & I2 & I3). split; [exact I1|]. split; [eapply ext_trans; eauto|congruence]. }
    destruct IH as (I1 & I2 & I3 & news & Eobjs & F).
    split; [exact I1|]. split; [eapply ext_trans; eauto|]. split; [congruence|].
    exists (o :: news). split; [rewrite Eobjs, <- app_assoc; reflexivity|].
    constructor; [|exact F].
    (* the object got at this step is still registered at the end *)
    destruct G5 as (Hlt & _).
    destruct I2 as (_ & _ & _ & Ekeys). destruct (Ekeys o Hlt) as (E1 & E2 & _).
    assert (Tb2 : tbl s2 k = tbl s k) by (unfold tbl; rewrite I3, G3; reflexivity).
    assert (Hrow : row_exists s k id) by (apply Hrows; left; reflexivity).
    assert (Hlo : live s2 objs o) by (left; rewrite Eobjs; apply in_or_app; left; apply in_or_app; right; left; reflexivity).
    destruct (inv_L _ _ _ _ I1 o Hlo) as (Hlt2 & _ & Ro). unfold ok_reg in Ro. rewrite E1, E2, G6, G7 in Ro.
    split; [|split; congruence].
    destruct (i_obsolete (get_inst s2 o)) eqn:Eob.
    + exfalso. destruct (inv_O _ _ _ _ I1 _ (get_inst_In s2 o Hlt2) Eob) as (Hn & _).
      rewrite E1, E2, G6, G7, Tb2 in Hn. exact (Hrow Hn).
    + apply Ro; [reflexivity|]. unfold row_exists. rewrite Tb2. exact Hrow.
Qed.

Lemma join_ids_rows s k' id : forall x, In x (join_ids s k' id) -> row_exists s k' x.
Proof.
  intros x Hx. unfold join_ids in Hx. apply in_map_iff in Hx. destruct Hx as ([x' r] & E & Hi). cbn in E. subst x'.
  apply (proj1 (In_sort_by_id _ _)) in Hi. apply filter_In in Hi. destruct Hi as (Hi & _).
  unfold row_exists. eapply In_not_none; eauto.
Qed.

Lemma so_join_spec o k' s :
  I s ->
  match so_join cfg o k' s with
  | (Ret objs, s') =>
      Inv cfg m objs s' /\ ext s s' /\ tables s' = tables s /\
      Forall2 (got_for k' s') objs (join_ids s k' (i_id (get_inst s o)))
  | (Raise _, s') => I s' /\ ext s s' /\ tables s' = tables s
  end.
Proof.
  intros H. unfold so_join. unfold bind at 1, gets. cbn [fst snd].
  unfold bind at 1. destruct (statement_run (SSelect k') s) as (l0 & [Es|Es]); rewrite Es.
  2:{ split; [apply Inv_log; exact H|]. split; [apply ext_core; reflexivity|reflexivity]. }
  set (s0 := with_log s _).
  assert (H0 : I s0) by (apply Inv_log; exact H).
  assert (E0 : ext s s0) by (apply ext_core; reflexivity).
  unfold bind at 1, gets. cbn [fst snd].
  change (join_ids s0 k' (i_id (get_inst s o))) with (join_ids s k' (i_id (get_inst s o))).
  pose proof (get_each_spec k' (join_ids s k' (i_id (get_inst s o))) [] s0 H0) as G.
  specialize (G (fun x Hx => join_ids_rows s k' _ x Hx)).
  destruct (get_each cfg k' (join_ids s k' (i_id (get_inst s o))) [] s0) as [[objs|e] s1].
  - destruct G as (G1 & G2 & G3 & news & En & F). cbn in En. subst news.
    split; [exact G1|]. split; [exact (ext_trans _ _ _ E0 G2)|]. split; [exact G3|exact F].
  - destruct G as (G1 & G2 & G3). split; [exact G1|]. split; [exact (ext_trans _ _ _ E0 G2)|exact G3].
Qed.

(* ---------------------------------------------------------------- the unique-index lookup *)
Lemma index_rows_In s k u id r : In (id, r) (index_rows s k u) ->
  In (id, r) (t_rows (tbl s k)) /\ val_eqb (nth 1%nat r VNull) (VInt u) = true.
Proof. unfold index_rows. intros Hi. apply filter_In in Hi. exact Hi. Qed.

(* what a successful lookup did: ONE row matched, and the object is what get(id, that row) hands out *)
Definition index_ok (k : kind) (u : Z) (s : st) (x : nat) (s' : st) : Prop :=
  exists id r, index_rows s k u = [(id, r)] /\ get_ok cfg m k id [] s x s'.

Lemma select_rows_ids k rows : forall acc s objs s',
  select_rows cfg k rows acc s = (Ret objs, s') ->
  exists news, objs = acc ++ news /\ length news = length rows.
Proof.
  induction rows as [|[id r] rest IH]; intros acc s objs s' E; cbn [select_rows] in E.
  - unfold ret in E. inversion E; subst. exists []. split; [now rewrite app_nil_r|reflexivity].
  - unfold bind at 1 in E. destruct (so_get cfg k id (Some r) acc s) as [[o|e] s1]; [|discriminate].
    destruct (IH _ _ _ _ E) as (news & En & Hl). exists (o :: news). split; [rewrite En, <- app_assoc; reflexivity|cbn; now rewrite Hl].
Qed.

Lemma so_index_spec k u s :
  I s ->
  match so_index cfg k u s with
  | (Ret (Some x), s') => index_ok k u s x s'
  | (Ret None, s') => False
  | (Raise _, s') => I s' /\ ext s s' /\ tables s' = tables s
  end.
Proof.
  intros H. unfold so_index.
  unfold bind at 1. destruct (statement_run (SSelect k) s) as (l0 & [Es|Es]); rewrite Es.
  2:{ split; [apply Inv_log; exact H|]. split; [apply ext_core; reflexivity|reflexivity]. }
  set (s0 := with_log s _).
  assert (H0 : I s0) by (apply Inv_log; exact H).
  assert (E0 : ext s s0) by (apply ext_core; reflexivity).
  unfold bind at 1, gets. cbn [fst snd].
  change (index_rows s0 k u) with (index_rows s k u).
  unfold index_ok.
  destruct (index_rows s k u) as [|[id0 r0] [|row2 more]] eqn:Er.
  - (* no row: not-found *)
    cbn [select_rows]. unfold bind at 1, ret, raise. split; [exact H0|]. split; [exact E0|reflexivity].
  - (* one row *)
    cbn [select_rows]. unfold bind at 1. unfold bind at 1.
    assert (Hi : In (id0, r0) (index_rows s k u)) by (rewrite Er; left; reflexivity).
    apply index_rows_In in Hi. destruct Hi as (Hi & _).
    pose proof (so_get_spec cfg m k id0 (Some r0) [] s0 H0) as G.
    assert (Hr : forall r', Some r0 = Some r' -> assoc id0 (t_rows (tbl s0 k)) = Some r').
    { intros r' E. inversion E; subst. apply (table_row cfg m s0 k id0 r' H0 Hi). }
    specialize (G Hr).
    destruct (so_get cfg k id0 (Some r0) [] s0) as [[o|e] s1].
    + unfold ret. cbn [app]. exists id0, r0. split; [reflexivity|].
      destruct G as (G1 & G2 & G3 & G4). split; [exact G1|]. split; [exact (ext_trans _ _ _ E0 G2)|]. split; [exact G3|exact G4].
    + destruct G as (G1 & G2 & G3). split; [exact G1|]. split; [exact (ext_trans _ _ _ E0 G2)|exact G3].
  - (* several rows (impossible under the UNIQUE constraint; the code would raise an integrity error) *)
    set (rows := (id0, r0) :: row2 :: more).
    assert (Hrows : forall id r, In (id, r) rows -> assoc id (t_rows (tbl s0 k)) = Some r).
    { intros id r Hi. unfold rows in Hi. rewrite <- Er in Hi. apply index_rows_In in Hi. destruct Hi as (Hi & _).
      apply (table_row cfg m s0 k id r H0 Hi). }
    unfold bind at 1.
    pose proof (select_rows_spec cfg m k rows [] s0 H0 Hrows) as S.
    pose proof (select_rows_ids k rows [] s0) as L.
    destruct (select_rows cfg k rows [] s0) as [[objs|e] s1].
    2:{ destruct S as (S1 & S2 & S3). split; [exact S1|]. split; [exact (ext_trans _ _ _ E0 S2)|exact S3]. }
    destruct S as (S1 & S2 & S3 & _).
    destruct (L objs s1 eq_refl) as (news & En & Hl). cbn in En. subst news.
    destruct objs as [|x [|y rest]]; [discriminate Hl|discriminate Hl|].
    unfold raise. split; [eapply Inv_roots_weaken; [exact S1|intros z []]|]. split; [exact (ext_trans _ _ _ E0 S2)|exact S3].
Qed.

(* ---------------------------------------------------------------- run_path keeps the invariant *)
Lemma handle_run h s : (exists o, handle h s = (Ret o, s) /\ nth h (slots s) None = Some o) \/ handle h s = (Raise EBadHandle, s).
Proof.
  unfold handle, bind, gets. cbn [fst snd]. destruct (nth h (slots s) None) as [o|]; [left; exists o; auto|right; reflexivity].
Qed.

Lemma run_path_spec p s : I s -> match run_path cfg p s with (_, s') => I s' end.
Proof.
  intros H. destruct p as [h k'|h k' keep|k u]; cbn [run_path].
  - unfold hold_opt. unfold bind at 1.
    destruct (handle_run h s) as [(o & Eh & Hn)|Eh]; rewrite Eh; [|now apply Inv_slot_none].
    pose proof (so_fk_spec o k' s H (nth_some_In _ _ _ Hn)) as F.
    destruct (so_fk cfg o k' s) as [[[x|]|e] s1].
    + destruct F as (id & (G1 & _ & _ & _ & G5 & _)). now apply hold_spec.
    + destruct F as (F1 & _). now apply Inv_slot_none.
    + destruct F as (F1 & _). now apply Inv_slot_none.
  - unfold or_empty_slot. unfold bind at 1.
    destruct (handle_run h s) as [(o & Eh & Hn)|Eh]; rewrite Eh; [|destruct keep; [now apply Inv_slot_none|exact H]].
    unfold bind at 1.
    pose proof (so_join_spec o k' s H) as J.
    destruct (so_join cfg o k' s) as [[objs|e] s1].
    2:{ destruct J as (J1 & _). destruct keep; [now apply Inv_slot_none|exact J1]. }
    destruct J as (S1 & _).
    unfold bind at 1, gets. cbn [fst snd].
    destruct keep as [n|].
    + destruct (nth_error objs n) as [ob|] eqn:En; unfold bind, modify, ret; cbn [fst snd].
      * apply nth_error_In in En.
        apply (Inv_live cfg m objs [] s1); auto.
        intros x [[]|[Hx|Hx]]; [|left; right; right; exact Hx].
        cbn in Hx. apply in_app_or in Hx. destruct Hx as [Hx|[Hx|[]]]; [left; right; left; exact Hx|].
        inversion Hx; subst. left. left. exact En.
      * apply Inv_slot_none. eapply Inv_roots_weaken; [exact S1|intros x []].
    + unfold ret. eapply Inv_roots_weaken; [exact S1|intros x []].
  - unfold hold_opt.
    pose proof (so_index_spec k u s H) as F.
    destruct (so_index cfg k u s) as [[[x|]|e] s1].
    + destruct F as (id & r & _ & (G1 & _ & _ & _ & G5 & _)). now apply hold_spec.
    + destruct F.
    + destruct F as (F1 & _). now apply Inv_slot_none.
Qed.

Theorem pstep_Inv s o : I s -> pgop m o = true -> I (snd (pstep cfg s o)).
Proof.
  intros H Hg. destruct o as [o|p|n p]; [exact (step_Inv cfg m s o H Hg)| |discriminate].
  unfold pstep. cbn [prun_op].
  pose proof (run_path_spec p (st0 s) (Inv_st0 cfg m s H)) as R.
  fold (st0 s). destruct (run_path cfg p (st0 s)) as [x s']. exact R.
Qed.

Theorem preachable_Inv pops : forallb (pgop m) pops = true -> I (prun cfg pops).
Proof.
  unfold prun. pose proof (Inv_init cfg m) as H.
  revert H. generalize init. induction pops as [|o r IH]; intros s Hs Hg; cbn [fold_left]; [exact Hs|].
  cbn in Hg. apply andb_true_iff in Hg. destruct Hg as (Hg1 & Hg2).
  apply IH; [|exact Hg2]. now apply pstep_Inv.
Qed.

End Paths.
