(* Sorting lemmas for C13: the stable single-key sort, the multi-key doSort
   (through the characterisation of the GENERATED statement order), and the
   uniqueness of a sorted permutation under a total ordering. *)
From Coq Require Import List ZArith Bool Permutation Sorted Lia.
From Gen Require Import Joins.
From Model Require Import Joins.
Import ListNotations.
Open Scope Z_scope.

(* ---- Tie A: the statement order of doSort's multi-key branch.  Swapping the
   two recursive calls in joins.py changes Gen/Joins.v and breaks this lemma. *)
Lemma gen_doSort_multi_char : gen_doSort_multi = [RecTail; SortHead].
Proof. reflexivity. Qed.

Lemma cmp_opt_antisym a b : cmp_opt b a = CompOpp (cmp_opt a b).
Proof. destruct a, b; cbn; auto. apply Z.compare_antisym. Qed.

Lemma cmp_opt_le_trans a b c :
  cmp_opt a b <> Gt -> cmp_opt b c <> Gt -> cmp_opt a c <> Gt.
Proof.
  destruct a, b, c; cbn; try congruence.
  rewrite !Z.compare_le_iff. lia.
Qed.

Lemma cmp_opt_ge_trans a b c :
  cmp_opt a b <> Lt -> cmp_opt b c <> Lt -> cmp_opt a c <> Lt.
Proof.
  destruct a, b, c; cbn; try congruence.
  rewrite !Z.compare_ge_iff. lia.
Qed.

Lemma cmp_opt_eq a b : cmp_opt a b = Eq <-> a = b.
Proof.
  destruct a as [x|], b as [y|]; cbn; split; intros H; try congruence; try discriminate.
  - apply Z.compare_eq in H. congruence.
  - inversion H. apply Z.compare_refl.
Qed.

Section SortProofs.
Context {A : Type} (val : col -> A -> option Z).

Definition lexR (ks : list skey) (x y : A) : Prop := lex_le val ks x y = true.

Lemma cmp_key_antisym k x y : cmp_key val k y x = CompOpp (cmp_key val k x y).
Proof.
  unfold cmp_key. rewrite (cmp_opt_antisym (val (k_col k) x)).
  destruct (k_desc k); reflexivity.
Qed.

Lemma le_key_trans k x y z :
  le_key val k x y = true -> le_key val k y z = true -> le_key val k x z = true.
Proof.
  unfold le_key, cmp_key. intros H1 H2.
  destruct (k_desc k).
  - assert (cmp_opt (val (k_col k) x) (val (k_col k) z) <> Lt).
    { apply cmp_opt_ge_trans with (b := val (k_col k) y).
      - destruct (cmp_opt (val (k_col k) x) (val (k_col k) y)); cbn in H1; congruence.
      - destruct (cmp_opt (val (k_col k) y) (val (k_col k) z)); cbn in H2; congruence. }
    destruct (cmp_opt (val (k_col k) x) (val (k_col k) z)); cbn; congruence.
  - assert (cmp_opt (val (k_col k) x) (val (k_col k) z) <> Gt).
    { apply cmp_opt_le_trans with (b := val (k_col k) y).
      - destruct (cmp_opt (val (k_col k) x) (val (k_col k) y)); congruence.
      - destruct (cmp_opt (val (k_col k) y) (val (k_col k) z)); congruence. }
    destruct (cmp_opt (val (k_col k) x) (val (k_col k) z)); congruence.
Qed.

Lemma le_key_false k x y : le_key val k x y = false -> cmp_key val k y x = Lt.
Proof.
  unfold le_key. rewrite (cmp_key_antisym k x y).
  destruct (cmp_key val k x y); cbn; congruence.
Qed.

Lemma lex_le_head k rest x y : lexR (k :: rest) x y -> le_key val k x y = true.
Proof. unfold lexR, le_key. cbn. destruct (cmp_key val k x y); congruence. Qed.

Lemma lex_le_cons k rest x y :
  le_key val k x y = true -> lexR rest x y -> lexR (k :: rest) x y.
Proof. unfold lexR, le_key. cbn. destruct (cmp_key val k x y); congruence. Qed.

Lemma lexR_nil l : StronglySorted (lexR []) l.
Proof. induction l; constructor; auto. apply Forall_forall. intros; reflexivity. Qed.

(* ---- the single-key sort is a permutation ... *)
Lemma insert_key_perm k x l : Permutation (x :: l) (insert_key val k x l).
Proof.
  induction l as [|y l IH]; cbn; auto.
  destruct (le_key val k x y); auto.
  eapply perm_trans; [apply perm_swap|]. constructor. exact IH.
Qed.

Lemma sort_key_perm k l : Permutation l (sort_key val k l).
Proof.
  induction l as [|x l IH]; cbn; auto.
  eapply perm_trans; [|apply insert_key_perm]. constructor. exact IH.
Qed.

(* ---- ... and, being stable, refines an order that is already there: a list
   sorted by the keys `rest` comes out sorted lexicographically by k :: rest *)
Lemma insert_key_sorted rest k x l :
  StronglySorted (lexR (k :: rest)) l ->
  Forall (fun z => lexR rest x z) l ->
  StronglySorted (lexR (k :: rest)) (insert_key val k x l).
Proof.
  induction l as [|y l IH]; intros Hs Hf; cbn.
  - constructor; constructor.
  - inversion Hs as [|? ? Hs' Hy]; subst. inversion Hf as [|? ? Hxy Hf']; subst.
    destruct (le_key val k x y) eqn:E.
    + constructor; [exact Hs|].
      constructor.
      * apply lex_le_cons; assumption.
      * rewrite Forall_forall in *. intros z Hz.
        apply lex_le_cons; [|apply Hf'; exact Hz].
        eapply le_key_trans; [exact E|]. eapply lex_le_head. apply Hy; exact Hz.
    + constructor; [apply IH; assumption|].
      eapply Permutation_Forall; [apply insert_key_perm|].
      constructor; [|exact Hy].
      unfold lexR. cbn. rewrite (le_key_false _ _ _ E). reflexivity.
Qed.

Lemma sort_key_sorted rest k l :
  StronglySorted (lexR rest) l -> StronglySorted (lexR (k :: rest)) (sort_key val k l).
Proof.
  induction l as [|x l IH]; intros Hs; cbn.
  - constructor.
  - inversion Hs as [|? ? Hs' Hx]; subst.
    apply insert_key_sorted; [apply IH; exact Hs'|].
    eapply Permutation_Forall; [apply sort_key_perm|]. exact Hx.
Qed.

(* ---- successive stable sorts, last key first *)
Definition multi_sort (ks : list skey) (l : list A) : list A :=
  fold_right (fun k acc => sort_key val k acc) l ks.

Lemma multi_sort_perm ks l : Permutation l (multi_sort ks l).
Proof.
  induction ks as [|k ks IH]; cbn; auto.
  eapply perm_trans; [exact IH|apply sort_key_perm].
Qed.

Lemma multi_sort_sorted ks l : StronglySorted (lexR ks) (multi_sort ks l).
Proof.
  induction ks as [|k ks IH]; cbn.
  - apply lexR_nil.
  - apply sort_key_sorted. exact IH.
Qed.

(* ---- doSort as coded (generated statement order) is multi_sort *)
Lemma doSort_char ks : forall l fuel,
  ks <> [] -> (length ks < fuel)%nat -> doSort val fuel ks l = Some (multi_sort ks l).
Proof.
  induction ks as [|k ks IH]; intros l fuel Hne Hf; [congruence|].
  destruct fuel as [|f]; [inversion Hf|].
  destruct ks as [|k2 ks].
  - reflexivity.
  - cbn [doSort]. rewrite gen_doSort_multi_char. cbn [fold_left tl].
    rewrite IH; [reflexivity|congruence|cbn in *; lia].
Qed.

Lemma doSort_empty_diverges fuel l : doSort val fuel [] l = None.
Proof.
  revert l. induction fuel as [|f IH]; intros l; [reflexivity|].
  cbn [doSort]. rewrite gen_doSort_multi_char. cbn [fold_left tl]. rewrite IH. reflexivity.
Qed.

Lemma doSort_spec ks l :
  ks <> [] ->
  exists l', doSort val (S (length ks)) ks l = Some l' /\
             Permutation l l' /\ StronglySorted (lexR ks) l'.
Proof.
  intros Hne. exists (multi_sort ks l). split; [|split].
  - apply doSort_char; [exact Hne|lia].
  - apply multi_sort_perm.
  - apply multi_sort_sorted.
Qed.

Lemma apply_order_spec o l :
  order_ok o = true ->
  exists l', apply_order val o l = Some l' /\
             Permutation l l' /\ StronglySorted (lexR (order_keys o)) l'.
Proof.
  destruct o as [|k|ks]; intros Hok; cbn.
  - exists l. split; [reflexivity|split; [apply Permutation_refl|apply lexR_nil]].
  - exists (sort_key val k l). split; [reflexivity|split; [apply sort_key_perm|]].
    apply sort_key_sorted. apply lexR_nil.
  - apply doSort_spec. destruct ks; [discriminate|congruence].
Qed.

(* ---- two sorted permutations of the same list coincide when no two distinct
   elements tie *)
Lemma sorted_perm_unique (R : A -> A -> Prop) l1 : forall l2,
  StronglySorted R l1 -> StronglySorted R l2 -> Permutation l1 l2 ->
  (forall x y, In x l1 -> In y l1 -> R x y -> R y x -> x = y) ->
  l1 = l2.
Proof.
  induction l1 as [|x l1 IH]; intros l2 H1 H2 HP Hanti.
  - apply Permutation_nil in HP. congruence.
  - destruct l2 as [|y l2]; [apply Permutation_sym, Permutation_nil in HP; discriminate|].
    inversion H1 as [|? ? H1' Hx]; subst. inversion H2 as [|? ? H2' Hy]; subst.
    assert (x = y) as ->.
    { assert (In x (y :: l2)) as Hin1 by (eapply Permutation_in; [exact HP|left; reflexivity]).
      assert (In y (x :: l1)) as Hin2 by (eapply Permutation_in; [apply Permutation_sym; exact HP|left; reflexivity]).
      destruct Hin1 as [->|Hin1]; [reflexivity|].
      destruct Hin2 as [->|Hin2]; [reflexivity|].
      rewrite Forall_forall in Hx, Hy.
      apply Hanti; [left; reflexivity|right; exact Hin2|apply Hx; exact Hin2|apply Hy; exact Hin1]. }
    f_equal. apply IH; auto.
    + eapply Permutation_cons_inv; exact HP.
    + intros; apply Hanti; auto; right; assumption.
Qed.


(* ------------------------------------------------------------------ *)
(* stability, uniqueness of the stable sorted arrangement, key forms    *)
(* ------------------------------------------------------------------ *)
Lemma cmp_key_eq k x y : cmp_key val k x y = Eq <-> val (k_col k) x = val (k_col k) y.
Proof.
  unfold cmp_key. rewrite <- cmp_opt_eq.
  destruct (k_desc k); [|tauto].
  destruct (cmp_opt (val (k_col k) x) (val (k_col k) y)); cbn; split; congruence.
Qed.

Lemma lex_eq_refl ks x : lex_eq val ks x x = true.
Proof.
  induction ks as [|k ks IH]; cbn; [reflexivity|].
  assert (cmp_key val k x x = Eq) as -> by (apply cmp_key_eq; reflexivity). exact IH.
Qed.

Lemma lex_eq_head k ks x y : lex_eq val (k :: ks) x y = true -> cmp_key val k x y = Eq.
Proof. cbn. destruct (cmp_key val k x y); congruence. Qed.

Lemma lex_le_antisym_eq ks x y :
  lex_le val ks x y = true -> lex_le val ks y x = true -> lex_eq val ks x y = true.
Proof.
  induction ks as [|k ks IH]; cbn; [reflexivity|].
  rewrite (cmp_key_antisym k x y).
  destruct (cmp_key val k x y); cbn; try congruence. exact IH.
Qed.

(* the single-key sort keeps the relative order of elements that tie on the key *)
Lemma insert_key_filter (P : A -> bool) k a l x :
  (forall y, P y = true -> cmp_key val k x y = Eq) ->
  filter P (insert_key val k a l) = filter P (a :: l).
Proof.
  intros HP. induction l as [|y r IH]; [reflexivity|].
  cbn [insert_key]. destruct (le_key val k a y) eqn:E; [reflexivity|].
  cbn [filter] in *. rewrite IH.
  destruct (P a) eqn:Pa, (P y) eqn:Py; try reflexivity.
  exfalso. apply HP in Pa. apply HP in Py. rewrite cmp_key_eq in Pa, Py.
  assert (cmp_key val k a y = Eq) as Hc by (apply cmp_key_eq; congruence).
  unfold le_key in E. rewrite Hc in E. discriminate.
Qed.

Lemma sort_key_filter (P : A -> bool) k l x :
  (forall y, P y = true -> cmp_key val k x y = Eq) ->
  filter P (sort_key val k l) = filter P l.
Proof.
  intros HP. induction l as [|a l IH]; [reflexivity|].
  change (sort_key val k (a :: l)) with (insert_key val k a (sort_key val k l)).
  rewrite (insert_key_filter P k a _ x HP). cbn [filter]. rewrite IH. reflexivity.
Qed.

Lemma filter_lex_eq_cons k ks x m :
  filter (lex_eq val (k :: ks) x) m =
  filter (fun y => match cmp_key val k x y with Eq => true | _ => false end) (filter (lex_eq val ks x) m).
Proof.
  induction m as [|a m IH]; [reflexivity|].
  cbn [filter].
  change (lex_eq val (k :: ks) x a) with (match cmp_key val k x a with Eq => lex_eq val ks x a | _ => false end).
  destruct (lex_eq val ks x a) eqn:E.
  - cbn [filter]. destruct (cmp_key val k x a); rewrite IH; reflexivity.
  - destruct (cmp_key val k x a); exact IH.
Qed.

Lemma multi_sort_stable ks l : stable_wrt val ks l (multi_sort ks l).
Proof.
  unfold stable_wrt. induction ks as [|k ks IH]; intros x; [reflexivity|].
  cbn [multi_sort fold_right].
  rewrite (sort_key_filter _ k _ x) by (intros y; apply lex_eq_head).
  rewrite !filter_lex_eq_cons. fold (multi_sort ks l). rewrite IH. reflexivity.
Qed.

Lemma doSort_stable ks l :
  ks <> [] ->
  exists l', doSort val (S (length ks)) ks l = Some l' /\ stable_wrt val ks l l'.
Proof.
  intros Hne. exists (multi_sort ks l). split; [apply doSort_char; [exact Hne|lia]|apply multi_sort_stable].
Qed.

Lemma apply_order_stable o l :
  order_ok o = true ->
  exists l', apply_order val o l = Some l' /\ stable_wrt val (order_keys o) l l'.
Proof.
  destruct o as [|k|ks]; intros Hok; cbn.
  - exists l. split; [reflexivity|intros x; reflexivity].
  - exists (sort_key val k l). split; [reflexivity|]. apply (multi_sort_stable [k] l).
  - apply doSort_stable. destruct ks; [discriminate|congruence].
Qed.

(* sorted by the keys + stable pins the arrangement down: two lists that are
   both sorted and agree on the order inside every tie class are equal *)
Lemma stable_sorted_unique ks l1 : forall l2,
  StronglySorted (lexR ks) l1 -> StronglySorted (lexR ks) l2 ->
  (forall x, filter (lex_eq val ks x) l1 = filter (lex_eq val ks x) l2) ->
  l1 = l2.
Proof.
  induction l1 as [|x1 t1 IH]; intros l2 S1 S2 H.
  - destruct l2 as [|y t]; [reflexivity|]. specialize (H y). cbn in H. rewrite lex_eq_refl in H. discriminate.
  - destruct l2 as [|x2 t2].
    { specialize (H x1). cbn in H. rewrite lex_eq_refl in H. discriminate. }
    inversion S1 as [|? ? S1' F1]; subst. inversion S2 as [|? ? S2' F2]; subst.
    rewrite Forall_forall in F1, F2.
    assert (Hin2 : In x2 (x1 :: t1)).
    { pose proof (H x2) as H2. cbn [filter] in H2. rewrite (lex_eq_refl ks x2) in H2.
      assert (In x2 (if lex_eq val ks x2 x1 then x1 :: filter (lex_eq val ks x2) t1 else filter (lex_eq val ks x2) t1))
        as Hi by (rewrite H2; left; reflexivity).
      destruct (lex_eq val ks x2 x1); [destruct Hi as [->|Hi]; [left; reflexivity|]|];
        right; apply filter_In in Hi; tauto. }
    assert (Hin1 : In x1 (x2 :: t2)).
    { pose proof (H x1) as H1. cbn [filter] in H1. rewrite (lex_eq_refl ks x1) in H1.
      assert (In x1 (if lex_eq val ks x1 x2 then x2 :: filter (lex_eq val ks x1) t2 else filter (lex_eq val ks x1) t2))
        as Hi by (rewrite <- H1; left; reflexivity).
      destruct (lex_eq val ks x1 x2); [destruct Hi as [->|Hi]; [left; reflexivity|]|];
        right; apply filter_In in Hi; tauto. }
    assert (x1 = x2) as ->.
    { destruct Hin2 as [->|Hin2]; [reflexivity|]. destruct Hin1 as [->|Hin1]; [reflexivity|].
      pose proof (lex_le_antisym_eq ks x1 x2 (F1 _ Hin2) (F2 _ Hin1)) as He.
      pose proof (H x1) as H1. cbn [filter] in H1. rewrite (lex_eq_refl ks x1), He in H1. congruence. }
    f_equal. apply IH; auto.
    intros x. specialize (H x). cbn [filter] in H. destruct (lex_eq val ks x x2); congruence.
Qed.

Lemma doSort_determined ks l l2 :
  ks <> [] ->
  StronglySorted (lexR ks) l2 -> stable_wrt val ks l l2 ->
  doSort val (S (length ks)) ks l = Some l2.
Proof.
  intros Hne S2 St. rewrite doSort_char by (auto; lia). f_equal.
  apply (stable_sorted_unique ks); [apply multi_sort_sorted|exact S2|].
  intros x. rewrite (multi_sort_stable ks l x). symmetry. apply St.
Qed.

(* how a key is written does not matter to the Python-side sort *)
Lemma le_key_form k k' x y : same_key k k' -> le_key val k x y = le_key val k' x y.
Proof. intros [Hc Hd]. unfold le_key, cmp_key. rewrite Hc, Hd. reflexivity. Qed.

Lemma sort_key_form k k' l : same_key k k' -> sort_key val k l = sort_key val k' l.
Proof.
  intros Hk. induction l as [|a l IH]; [reflexivity|].
  change (insert_key val k a (sort_key val k l) = insert_key val k' a (sort_key val k' l)).
  rewrite IH. generalize (sort_key val k' l) as m. induction m as [|y m IHm]; [reflexivity|].
  cbn [insert_key]. rewrite (le_key_form k k' a y Hk), IHm. reflexivity.
Qed.

Lemma multi_sort_form ks ks' l : Forall2 same_key ks ks' -> multi_sort ks l = multi_sort ks' l.
Proof.
  induction 1 as [|k k' ks ks' Hk Hks IH]; [reflexivity|].
  cbn [multi_sort fold_right]. fold (multi_sort ks l) (multi_sort ks' l).
  rewrite IH. apply sort_key_form. exact Hk.
Qed.

Lemma apply_order_form o o' l : same_order o o' -> apply_order val o l = apply_order val o' l.
Proof.
  destruct o as [|k|ks], o' as [|k'|ks']; cbn [same_order apply_order]; try contradiction; intros H.
  - reflexivity.
  - f_equal. apply sort_key_form. exact H.
  - destruct ks as [|k ks].
    + inversion H; subst. reflexivity.
    + destruct ks' as [|k' ks']; [inversion H|].
      rewrite !doSort_char by (try congruence; lia). f_equal. apply multi_sort_form. exact H.
Qed.

Lemma lex_le_form ks ks' x y : Forall2 same_key ks ks' -> lex_le val ks x y = lex_le val ks' x y.
Proof.
  induction 1 as [|k k' ks ks' [Hc Hd] Hks IH]; [reflexivity|].
  cbn [lex_le]. unfold cmp_key. rewrite Hc, Hd, IH. reflexivity.
Qed.

Lemma ssorted_b_sound (le : A -> A -> bool) l :
  ssorted_b le l = true -> StronglySorted (fun x y => le x y = true) l.
Proof.
  induction l as [|x l IH]; cbn; intros H; constructor.
  - apply IH. apply andb_true_iff in H. tauto.
  - apply andb_true_iff in H. destruct H as [H _]. rewrite forallb_forall in H.
    apply Forall_forall. exact H.
Qed.

End SortProofs.
