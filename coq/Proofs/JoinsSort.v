(* Sorting lemmas for C13: the stable single-key sort, the multi-key doSort
   (through the characterisation of the GENERATED statement order), and the
   uniqueness of a sorted permutation under a total ordering. *)
From Coq Require Import List ZArith Bool Permutation Sorted Lia.
From Gen Require Import Joins.
From Model Require Import Joins.
Import ListNotations.
Open Scope Z_scope.

(* ---- Tie A: the statement order of doSort's multi-key branch.  Swapping the
   two recursive calls in joins.py changes Gen/Joins.v and breaks this lemma. *)
Lemma gen_doSort_multi_char : gen_doSort_multi = [RecTail; SortHead].
Proof. reflexivity. Qed.

Lemma cmp_opt_antisym a b : cmp_opt b a = CompOpp (cmp_opt a b).
Proof. destruct a, b; cbn; auto. apply Z.compare_antisym. Qed.

Lemma cmp_opt_le_trans a b c :
  cmp_opt a b <> Gt -> cmp_opt b c <> Gt -> cmp_opt a c <> Gt.
Proof.
  destruct a, b, c; cbn; try congruence.
  rewrite !Z.compare_le_iff. lia.
Qed.

Lemma cmp_opt_ge_trans a b c :
  cmp_opt a b <> Lt -> cmp_opt b c <> Lt -> cmp_opt a c <> Lt.
Proof.
  destruct a, b, c; cbn; try congruence.
  rewrite !Z.compare_ge_iff. lia.
Qed.

Section SortProofs.
Context {A : Type} (val : col -> A -> option Z).

Definition lexR (ks : list skey) (x y : A) : Prop := lex_le val ks x y = true.

Lemma cmp_key_antisym k x y : cmp_key val k y x = CompOpp (cmp_key val k x y).
Proof.
  unfold cmp_key. rewrite (cmp_opt_antisym (val (k_col k) x)).
  destruct (k_desc k); reflexivity.
Qed.

Lemma le_key_trans k x y z :
  le_key val k x y = true -> le_key val k y z = true -> le_key val k x z = true.
Proof.
  unfold le_key, cmp_key. intros H1 H2.
  destruct (k_desc k).
  - assert (cmp_opt (val (k_col k) x) (val (k_col k) z) <> Lt).
    { apply cmp_opt_ge_trans with (b := val (k_col k) y).
      - destruct (cmp_opt (val (k_col k) x) (val (k_col k) y)); cbn in H1; congruence.
      - destruct (cmp_opt (val (k_col k) y) (val (k_col k) z)); cbn in H2; congruence. }
    destruct (cmp_opt (val (k_col k) x) (val (k_col k) z)); cbn; congruence.
  - assert (cmp_opt (val (k_col k) x) (val (k_col k) z) <> Gt).
    { apply cmp_opt_le_trans with (b := val (k_col k) y).
      - destruct (cmp_opt (val (k_col k) x) (val (k_col k) y)); congruence.
      - destruct (cmp_opt (val (k_col k) y) (val (k_col k) z)); congruence. }
    destruct (cmp_opt (val (k_col k) x) (val (k_col k) z)); congruence.
Qed.

Lemma le_key_false k x y : le_key val k x y = false -> cmp_key val k y x = Lt.
Proof.
  unfold le_key. rewrite (cmp_key_antisym k x y).
  destruct (cmp_key val k x y); cbn; congruence.
Qed.

Lemma lex_le_head k rest x y : lexR (k :: rest) x y -> le_key val k x y = true.
Proof. unfold lexR, le_key. cbn. destruct (cmp_key val k x y); congruence. Qed.

Lemma lex_le_cons k rest x y :
  le_key val k x y = true -> lexR rest x y -> lexR (k :: rest) x y.
Proof. unfold lexR, le_key. cbn. destruct (cmp_key val k x y); congruence. Qed.

Lemma lexR_nil l : StronglySorted (lexR []) l.
Proof. induction l; constructor; auto. apply Forall_forall. intros; reflexivity. Qed.

(* ---- the single-key sort is a permutation ... *)
Lemma insert_key_perm k x l : Permutation (x :: l) (insert_key val k x l).
Proof.
  induction l as [|y l IH]; cbn; auto.
  destruct (le_key val k x y); auto.
  eapply perm_trans; [apply perm_swap|]. constructor. exact IH.
Qed.

Lemma sort_key_perm k l : Permutation l (sort_key val k l).
Proof.
  induction l as [|x l IH]; cbn; auto.
  eapply perm_trans; [|apply insert_key_perm]. constructor. exact IH.
Qed.

(* ---- ... and, being stable, refines an order that is already there: a list
   sorted by the keys `rest` comes out sorted lexicographically by k :: rest *)
Lemma insert_key_sorted rest k x l :
  StronglySorted (lexR (k :: rest)) l ->
  Forall (fun z => lexR rest x z) l ->
  StronglySorted (lexR (k :: rest)) (insert_key val k x l).
Proof.
  induction l as [|y l IH]; intros Hs Hf; cbn.
  - constructor; constructor.
  - inversion Hs as [|? ? Hs' Hy]; subst. inversion Hf as [|? ? Hxy Hf']; subst.
    destruct (le_key val k x y) eqn:E.
    + constructor; [exact Hs|].
      constructor.
      * apply lex_le_cons; assumption.
      * rewrite Forall_forall in *. intros z Hz.
        apply lex_le_cons; [|apply Hf'; exact Hz].
        eapply le_key_trans; [exact E|]. eapply lex_le_head. apply Hy; exact Hz.
    + constructor; [apply IH; assumption|].
      eapply Permutation_Forall; [apply insert_key_perm|].
      constructor; [|exact Hy].
      unfold lexR. cbn. rewrite (le_key_false _ _ _ E). reflexivity.
Qed.

Lemma sort_key_sorted rest k l :
  StronglySorted (lexR rest) l -> StronglySorted (lexR (k :: rest)) (sort_key val k l).
Proof.
  induction l as [|x l IH]; intros Hs; cbn.
  - constructor.
  - inversion Hs as [|? ? Hs' Hx]; subst.
    apply insert_key_sorted; [apply IH; exact Hs'|].
    eapply Permutation_Forall; [apply sort_key_perm|]. exact Hx.
Qed.

(* ---- successive stable sorts, last key first *)
Definition multi_sort (ks : list skey) (l : list A) : list A :=
  fold_right (fun k acc => sort_key val k acc) l ks.

Lemma multi_sort_perm ks l : Permutation l (multi_sort ks l).
Proof.
  induction ks as [|k ks IH]; cbn; auto.
  eapply perm_trans; [exact IH|apply sort_key_perm].
Qed.

Lemma multi_sort_sorted ks l : StronglySorted (lexR ks) (multi_sort ks l).
Proof.
  induction ks as [|k ks IH]; cbn.
  - apply lexR_nil.
  - apply sort_key_sorted. exact IH.
Qed.

(* ---- doSort as coded (generated statement order) is multi_sort *)
Lemma doSort_char ks : forall l fuel,
  ks <> [] -> (length ks < fuel)%nat -> doSort val fuel ks l = Some (multi_sort ks l).
Proof.
  induction ks as [|k ks IH]; intros l fuel Hne Hf; [congruence|].
  destruct fuel as [|f]; [inversion Hf|].
  destruct ks as [|k2 ks].
  - reflexivity.
  - cbn [doSort]. rewrite gen_doSort_multi_char. cbn [fold_left tl].
    rewrite IH; [reflexivity|congruence|cbn in *; lia].
Qed.

Lemma doSort_empty_diverges fuel l : doSort val fuel [] l = None.
Proof.
  revert l. induction fuel as [|f IH]; intros l; [reflexivity|].
  cbn [doSort]. rewrite gen_doSort_multi_char. cbn [fold_left tl]. rewrite IH. reflexivity.
Qed.

Lemma doSort_spec ks l :
  ks <> [] ->
  exists l', doSort val (S (length ks)) ks l = Some l' /\
             Permutation l l' /\ StronglySorted (lexR ks) l'.
Proof.
  intros Hne. exists (multi_sort ks l). split; [|split].
  - apply doSort_char; [exact Hne|lia].
  - apply multi_sort_perm.
  - apply multi_sort_sorted.
Qed.

Lemma apply_order_spec o l :
  order_ok o = true ->
  exists l', apply_order val o l = Some l' /\
             Permutation l l' /\ StronglySorted (lexR (order_keys o)) l'.
Proof.
  destruct o as [|k|ks]; intros Hok; cbn.
  - exists l. split; [reflexivity|split; [apply Permutation_refl|apply lexR_nil]].
  - exists (sort_key val k l). split; [reflexivity|split; [apply sort_key_perm|]].
    apply sort_key_sorted. apply lexR_nil.
  - apply doSort_spec. destruct ks; [discriminate|congruence].
Qed.

(* ---- two sorted permutations of the same list coincide when no two distinct
   elements tie *)
Lemma sorted_perm_unique (R : A -> A -> Prop) l1 : forall l2,
  StronglySorted R l1 -> StronglySorted R l2 -> Permutation l1 l2 ->
  (forall x y, In x l1 -> In y l1 -> R x y -> R y x -> x = y) ->
  l1 = l2.
Proof.
  induction l1 as [|x l1 IH]; intros l2 H1 H2 HP Hanti.
  - apply Permutation_nil in HP. congruence.
  - destruct l2 as [|y l2]; [apply Permutation_sym, Permutation_nil in HP; discriminate|].
    inversion H1 as [|? ? H1' Hx]; subst. inversion H2 as [|? ? H2' Hy]; subst.
    assert (x = y) as ->.
    { assert (In x (y :: l2)) as Hin1 by (eapply Permutation_in; [exact HP|left; reflexivity]).
      assert (In y (x :: l1)) as Hin2 by (eapply Permutation_in; [apply Permutation_sym; exact HP|left; reflexivity]).
      destruct Hin1 as [->|Hin1]; [reflexivity|].
      destruct Hin2 as [->|Hin2]; [reflexivity|].
      rewrite Forall_forall in Hx, Hy.
      apply Hanti; [left; reflexivity|right; exact Hin2|apply Hx; exact Hin2|apply Hy; exact Hin1]. }
    f_equal. apply IH; auto.
    + eapply Permutation_cons_inv; exact HP.
    + intros; apply Hanti; auto; right; assumption.
Qed.

Lemma ssorted_b_sound (le : A -> A -> bool) l :
  ssorted_b le l = true -> StronglySorted (fun x y => le x y = true) l.
Proof.
  induction l as [|x l IH]; cbn; intros H; constructor.
  - apply IH. apply andb_true_iff in H. tauto.
  - apply andb_true_iff in H. destruct H as [H _]. rewrite forallb_forall in H.
    apply Forall_forall. exact H.
Qed.

End SortProofs.
