(* C14, the per-call `connection=` argument of the schema methods (definitions only).

   Every schema method of main.py starts with `conn = connection or cls._connection` and must do
   ALL its work -- the class table, the link tables of its RelatedJoins, the indexes, the existence
   tests behind ifNotExists / ifExists -- on `conn`.  Here: several databases (a `world`), one of
   them addressed per call; the single-database state machine of Model/Ddl.v does the work. *)
From Coq Require Import List ZArith NArith Bool String.
From Model Require Import Ddl.
Import ListNotations.
Open Scope list_scope.
Open Scope N_scope.

(* ---------- engine: DELETE FROM n (fails when the table is absent) *)
Definition eng_clear (db : dbstate) (n : str) : eres :=
  if eng_has db n
  then ({| db_tables := map (fun t => if same_name_ci (t_name t) n
                                      then {| t_name := t_name t; t_cols := t_cols t; t_rows := [] |}
                                      else t) (db_tables db);
           db_indexes := db_indexes db |}, false)
  else (db, true).

(* main.clearTable(clearJoinTables=...): the class table, then the link tables of _getJoinsToCreate *)
Definition clear_table_full (dc : decl) (cj : bool) (db : dbstate) : eres :=
  ebind (eng_clear db (table_of dc)) (fun db1 =>
    if cj then efold (fun db j => eng_clear db (inter_table dc j)) (joins_to_create dc) db1
    else (db1, false)).

(* out of band: one more row (every cell = k) in every table of the database *)
Definition fill_all (k : Z) (db : dbstate) : dbstate :=
  {| db_tables := map (fun t => {| t_name := t_name t; t_cols := t_cols t;
                                   t_rows := t_rows t ++ [map (fun _ => k) (t_cols t)] |}) (db_tables db);
     db_indexes := db_indexes db |}.

(* ---------- one schema call on ONE database *)
Inductive sch_op :=
| OCreate (if_not_exists create_joins create_indexes : bool)   (* createTable *)
| ODrop (if_exists drop_joins : bool)                          (* dropTable *)
| ORawDrop                                                     (* out of band: DROP TABLE <class table> *)
| OJoins (if_not_exists : bool)                                (* createJoinTables *)
| OIndexes                                                     (* createIndexes *)
| ODropJoins (if_exists : bool)                                (* dropJoinTables *)
| OExists                                                      (* tableExists: answers, changes nothing *)
| OClear (clear_joins : bool)                                  (* clearTable *)
| OFill (k : Z)                                                (* out of band: a row in every table *)
| ORawDropLink (i : nat).                                      (* out of band: DROP TABLE <i-th link table the class owns> *)

(* state left behind, "a statement failed", the answer of tableExists *)
Definition sch_step (dc : decl) (op : sch_op) (db : dbstate) : eres * option bool :=
  match op with
  | OCreate ine cj ci => (create_table_full dc ine cj ci db, None)
  | ODrop ie dj => (drop_table_full dc ie dj db, None)
  | ORawDrop => (eng_drop db (table_of dc), None)
  | OJoins ine => (create_join_tables dc ine db, None)
  | OIndexes => (create_indexes dc db, None)
  | ODropJoins ie => (drop_join_tables dc ie db, None)
  | OExists => ((db, false), Some (table_exists db (table_of dc)))
  | OClear cj => (clear_table_full dc cj db, None)
  | OFill k => ((fill_all k db, false), None)
  | ORawDropLink i => (match nth_error (joins_to_create dc) i with
                       | Some j => eng_drop db (inter_table dc j)
                       | None => (db, true)
                       end, None)
  end.

(* ---------- several databases *)
Inductive connid := Home | Second.
Definition connid_eqb (a b : connid) : bool :=
  match a, b with Home, Home | Second, Second => true | _, _ => false end.

Record world := { w_home : dbstate; w_second : dbstate }.
Definition get (c : connid) (w : world) : dbstate :=
  match c with Home => w_home w | Second => w_second w end.
Definition put (c : connid) (db : dbstate) (w : world) : world :=
  match c with
  | Home => {| w_home := db; w_second := w_second w |}
  | Second => {| w_home := w_home w; w_second := db |}
  end.

(* `conn = connection or cls._connection`; cc = the connection the classes are bound to *)
Definition route (cc : connid) (arg : option connid) : connid :=
  match arg with Some c => c | None => cc end.

(* a call: the connection= argument (None = not given), which of the two classes, the method *)
Record call := { c_arg : option connid; c_who : bool; c_op : sch_op }.

Definition call_decl (a b : decl) (cl : call) : decl := if c_who cl then a else b.

Definition world_step (cc : connid) (a b : decl) (cl : call) (w : world) : world * bool * option bool :=
  let c := route cc (c_arg cl) in
  let r := sch_step (call_decl a b cl) (c_op cl) (get c w) in
  (put c (fst (fst r)) w, snd (fst r), snd r).

Fixpoint world_run (cc : connid) (a b : decl) (cls : list call) (w : world) : world :=
  match cls with
  | [] => w
  | cl :: r => world_run cc a b r (fst (fst (world_step cc a b cl w)))
  end.

(* the same calls on one database alone *)
Fixpoint db_run (a b : decl) (cls : list call) (db : dbstate) : dbstate :=
  match cls with
  | [] => db
  | cl :: r => db_run a b r (fst (fst (sch_step (call_decl a b cl) (c_op cl) db)))
  end.

(* the calls of a history that address database c *)
Definition routed_to (cc c : connid) (cls : list call) : list call :=
  filter (fun cl => connid_eqb (route cc (c_arg cl)) c) cls.

(* ---------- schema evolution through the argument: sqlmeta.addColumn / delColumn(changeSchema, connection=...).
   ONE class (its column list changes with every accepted step), several databases; the ALTER TABLE / table
   rebuild goes to `route cc arg` *)
Record evo_world := { ew_decl : decl; ew_dbs : world }.
Definition evo_world_step (cc : connid) (arg : option connid) (op : evo_op) (w : evo_world) : evo_world * bool :=
  let c := route cc arg in
  let r := evo_step {| e_decl := ew_decl w; e_db := get c (ew_dbs w) |} op in
  ({| ew_decl := e_decl (fst r); ew_dbs := put c (e_db (fst r)) (ew_dbs w) |}, snd r).
Fixpoint evo_world_run (cc : connid) (ops : list (option connid * evo_op)) (w : evo_world) : evo_world :=
  match ops with
  | [] => w
  | (arg, op) :: r => evo_world_run cc r (fst (evo_world_step cc arg op w))
  end.

(* ---------- SQL text rendered for a given connection's dialect:
   0 createTableSQL(createJoinTables=f1, createIndexes=f2) / 1 createJoinTablesSQL / 2 createIndexesSQL;
   statements and (method 0) the constraint list *)
Definition render_sql (d : dialect) (cp : caps) (dc : decl) (m : nat) (f1 f2 : bool)
  : option (list (list tok) * list (list tok)) :=
  let joins := map (join_table_stmt d dc) (joins_to_create dc) in
  match m with
  | 0%nat =>
      match create_table d cp dc, all_some (map (index_stmt d dc) (d_indexes dc)) with
      | Some ct, Some ixs =>
          Some (ct :: (if f1 then joins else []) ++ (if f2 then ixs else []), constraints d dc)
      | Some ct, None => if f2 then None else Some (ct :: (if f1 then joins else []), constraints d dc)
      | None, _ => None
      end
  | 1%nat => Some (joins, [])
  | _ => match all_some (map (index_stmt d dc) (d_indexes dc)) with
         | Some ixs => Some (ixs, [])
         | None => None
         end
  end.
