(* Columns -- C01: how a Python value travels from an attribute write to the
   sqlite row and back, for every column type.  DEFINITIONS ONLY.

   value --from_python--> db value --literal--> SQL text --sqlite--> stored
   value (storage class by the literal and the column's affinity)
   --driver--> Python value --to_python--> what an attribute read returns.

   What SQLObject itself does (validator dispatch on the Python type,
   normalisations, converter choice, format strings, microsecond fix-up, order
   of validation / statement / caching on every write path) is modelled
   concretely.  So are sqlite's string and integer literal rules, type
   affinity, and Decimal's text functions.  The stdlib / engine codecs that
   SQLObject merely calls are fields of a `codecs` record: the theorems assume
   round-trip properties of them by name (Proofs/ColumnsCodec.v), the
   correspondence instantiates them with tables observed on the stdlib and a
   raw sqlite3 connection (Corr/C01.v). *)
From Coq Require Import List NArith ZArith Bool.
From Lib Require Import Str Lex ColumnsTpl.
From Gen Require Import Columns.
Import ListNotations.
Open Scope N_scope.

(* ================================================================ values *)
(* floats are IEEE-754 binary64 bit patterns; never any rounding arithmetic *)
Definition fl := N.

Inductive pyval :=
| PNone
| PBool (b : bool)
| PInt (z : Z)
| PFloat (f : fl)
| PStr (s : str)
| PBytes (b : list N)
| PDate (y m d : N)
| PTime (h mi s us : N) (tz : bool)                 (* tz: tzinfo is set (aware) *)
| PDateTime (y m d h mi s us : N) (tz : bool)
| PDelta (days : Z) (secs us : N)                    (* normalised timedelta *)
| PDec (neg : bool) (coeff : N) (exp : Z)            (* finite Decimal: (-1)^neg * coeff * 10^exp *)
| PDecSpecial (neg : bool) (nan : bool)              (* Decimal Infinity / NaN *)
| PUuid (n : N)
| PList (l : list pyval)
| PTuple (l : list pyval)
| PDict (l : list (pyval * pyval))                   (* insertion order *)
| PObj (id : Z)                                      (* an instance of the referenced SQLObject class (integer id) *)
| PObjS (id : str).                                  (* an instance of the referenced class with sqlmeta.idType = str *)

(* what a sqlite row holds *)
Inductive sval := SNull | SInt (z : Z) | SReal (f : fl) | SText (s : str) | SBlob (b : list N).

Inductive exn :=
| E_Invalid            (* formencode.Invalid: the validator refused *)
| E_Value | E_Type | E_Assertion | E_Overflow | E_UnicodeEncode | E_InvalidOperation
| E_Operational | E_Programming    (* dberrors raised for the engine / the driver *)
| E_Unmodelled                      (* the model does not cover this input; theorem statements exclude it *)
| E_Other.                          (* any other exception class seen on the implementation; the model never predicts it *)

Inductive res (A : Type) := Ok (a : A) | Raise (e : exn).
Arguments Ok {A} a.
Arguments Raise {A} e.
Definition rbind {A B} (m : res A) (f : A -> res B) : res B :=
  match m with Ok a => f a | Raise e => Raise e end.
Notation "x <- m ;; k" := (rbind m (fun x => k)) (at level 61, m at next level, right associativity).

Inductive affinity := ATEXT | ANUMERIC | AINTEGER | AREAL | ABLOB.

(* ================================================================ codecs *)
(* Behaviour of the Python stdlib and of the engine's floating-point paths.
   Every field is total; where the real function can fail on an input the
   model can reach, the result type says so. *)
Record codecs := {
  frepr : fl -> str;                                  (* repr(float) == str(float) *)
  num_store : affinity -> str -> res sval;            (* sqlite: INSERT of a numeric literal that is not a plain int64
                                                         integer, or of any numeric literal into a REAL column *)
  float_of_dec : pyval -> fl;                         (* float(Decimal) *)
  float_of_int : Z -> option fl;                      (* float(int); None = OverflowError *)
  b64enc : list N -> str;                             (* base64.b64encode(b).decode('ascii') *)
  b64dec : str -> list N;                             (* base64.b64decode *)
  pdumps : pyval -> list N;                           (* pickle.dumps(v, HIGHEST_PROTOCOL) *)
  ploads : list N -> pyval;                           (* pickle.loads *)
  jdumps : pyval -> res str;                          (* json.dumps (TypeError for unserialisable content) *)
  jloads : str -> pyval;                              (* json.loads *)
  uuid_str : N -> str;                                (* str(UUID(int=n)) *)
  uuid_parse : str -> res N;                          (* UUID(text).int *)
  py_str : pyval -> str                               (* str(v), for the kinds not rendered concretely *)
}.

(* ================================================================ small string helpers *)
Definition s_of (l : list N) : str := l.
Definition c_dot : ch := 46.
Definition c_colon : ch := 58.
Definition c_zero : ch := 48.
Definition c_plus : ch := 43.
Definition c_e : ch := 101.

Fixpoint has_sub (p s : str) : bool :=
  match s with
  | [] => match p with [] => true | _ => false end
  | _ :: r => starts_with p s || has_sub p r
  end.

(* s.split('.') -> (everything before the last dot, the last part) when a dot occurs *)
Fixpoint split_last_dot (s : str) : option (str * str) :=
  match s with
  | [] => None
  | c :: r =>
      match split_last_dot r with
      | Some (pre, last) => Some (c :: pre, last)
      | None => if c =? c_dot then Some ([], r) else None
      end
  end.

Definition all_digits (s : str) : bool := forallb is_digit s.
Definition nonempty {A} (l : list A) : bool := match l with [] => false | _ => true end.

(* ================================================================ floats: exact decoding only *)
Definition f_sign (f : fl) : bool := 9223372036854775808 <=? f.                     (* bit 63 *)
Definition f_expo (f : fl) : N := (f / 4503599627370496) mod 2048.                  (* bits 52..62 *)
Definition f_mant (f : fl) : N := f mod 4503599627370496.                           (* bits 0..51 *)
Definition f_is_nan (f : fl) : bool := (f_expo f =? 2047) && negb (f_mant f =? 0).
Definition f_is_inf (f : fl) : bool := (f_expo f =? 2047) && (f_mant f =? 0).
Definition f_is_zero (f : fl) : bool := (f_expo f =? 0) && (f_mant f =? 0).
Definition f_finite (f : fl) : bool := negb (f_expo f =? 2047).
(* finite f = (-1)^sign * m * 2^(e): significand and exponent *)
Definition f_sig (f : fl) : N := if f_expo f =? 0 then f_mant f else 4503599627370496 + f_mant f.
Definition f_exp2 (f : fl) : Z := if f_expo f =? 0 then (-1074)%Z else (Z.of_N (f_expo f) - 1075)%Z.
Definition z_signed (neg : bool) (n : N) : Z := if neg then (- Z.of_N n)%Z else Z.of_N n.
(* int(f): truncation toward zero (exact); None for inf / nan *)
Definition f_trunc (f : fl) : option Z :=
  if f_finite f then
    Some (z_signed (f_sign f)
            (match f_exp2 f with
             | Zneg p => N.shiftr (f_sig f) (Npos p)
             | Z0 => f_sig f
             | Zpos p => N.shiftl (f_sig f) (Npos p)
             end))
  else None.
(* the integer f is exactly equal to, if any *)
Definition f_int_value (f : fl) : option Z :=
  if f_finite f then
    match f_exp2 f with
    | Zneg p => if N.shiftl (N.shiftr (f_sig f) (Npos p)) (Npos p) =? f_sig f
                then Some (z_signed (f_sign f) (N.shiftr (f_sig f) (Npos p))) else None
    | Z0 => Some (z_signed (f_sign f) (f_sig f))
    | Zpos p => Some (z_signed (f_sign f) (N.shiftl (f_sig f) (Npos p)))
    end
  else None.
Definition f_truthy (f : fl) : bool := negb (f_is_zero f).    (* bool(f): nan and inf are true *)
(* Python == on two floats, extended with nan == nan (``the same value'') *)
Definition f_eqb (a b : fl) : bool :=
  (f_is_zero a && f_is_zero b) || (a =? b).

(* ================================================================ Decimal (finite), exactly *)
Definition pow10 (n : N) : N := 10 ^ n.
Definition ndigits (c : N) : N := N.of_nat (length (dec_N c)).
Definition sign_str (neg : bool) : str := if neg then [c_minus] else [].
Definition zeros (n : N) : str := repeat c_zero (N.to_nat n).
(* "%+d" % z *)
Definition plus_d (z : Z) : str := match z with Zneg _ => dec_Z z | _ => c_plus :: dec_Z z end.

(* Decimal.__str__(eng=True) == to_eng_string(), default context (capitals=1) *)
Definition dec_eng_string (neg : bool) (coeff : N) (exp : Z) : str :=
  let ds := dec_N coeff in
  let nd := Z.of_nat (length ds) in
  let leftdigits := (exp + nd)%Z in
  let dotplace :=
    if (exp <=? 0)%Z && (-6 <? leftdigits)%Z then leftdigits
    else if coeff =? 0 then ((leftdigits + 1) mod 3 - 1)%Z
    else ((leftdigits - 1) mod 3 + 1)%Z in
  let body :=
    if (dotplace <=? 0)%Z then [c_zero; c_dot] ++ zeros (Z.to_N (- dotplace)) ++ ds
    else if (nd <=? dotplace)%Z then ds ++ zeros (Z.to_N (dotplace - nd))
    else firstn (Z.to_nat dotplace) ds ++ [c_dot] ++ skipn (Z.to_nat dotplace) ds in
  let e := if (leftdigits =? dotplace)%Z then [] else c_E :: plus_d (leftdigits - dotplace) in
  sign_str neg ++ body ++ e.

Definition dec_special_string (neg nan : bool) : str :=
  sign_str neg ++ (if nan then [78; 97; 78] else [73; 110; 102; 105; 110; 105; 116; 121]).   (* NaN / Infinity *)

(* Decimal(text): surrounding whitespace stripped, underscores ignored, then
   [sign] digits [. digits] [(e|E) [sign] digits] with at least one digit, or Inf / Infinity /
   NaN in any case.  Outside the model: non-ASCII digits, sNaN, NaN with a payload. *)
Definition take_sign (s : str) : bool * str :=
  match s with
  | c :: r => if c =? c_minus then (true, r) else if c =? c_plus then (false, r) else (false, s)
  | [] => (false, [])
  end.
Definition parse_exp (s : str) : option Z :=
  match s with
  | [] => Some 0%Z
  | c :: r =>
      if (c =? c_e) || (c =? c_E) then
        let '(neg, ds) := take_sign r in
        if nonempty ds && all_digits ds then Some (z_signed neg (digits_val ds)) else None
      else None
  end.
(* str.strip(): Python's Unicode whitespace; bytes / int(bytes): ASCII whitespace *)
Definition py_isspace (c : ch) : bool :=
  ((9 <=? c) && (c <=? 13)) || ((28 <=? c) && (c <=? 32)) || (c =? 133) || (c =? 160) || (c =? 5760) ||
  ((8192 <=? c) && (c <=? 8202)) || (c =? 8232) || (c =? 8233) || (c =? 8239) || (c =? 8287) || (c =? 12288).
Definition ascii_isspace (c : ch) : bool := ((9 <=? c) && (c <=? 13)) || (c =? 32).
(* int(str) skips ASCII whitespace and the non-ASCII Unicode spaces, not the ASCII separators 28..31 *)
Definition int_isspace (c : ch) : bool := py_isspace c && negb ((28 <=? c) && (c <=? 31)).
Fixpoint lstrip (p : ch -> bool) (s : str) : str :=
  match s with c :: r => if p c then lstrip p r else s | [] => [] end.
Definition strip (p : ch -> bool) (s : str) : str := rev (lstrip p (rev (lstrip p s))).

Definition dec_of_text (s0 : str) : option pyval :=
  let s := filter (fun c => negb (c =? c_us)) (strip py_isspace s0) in
  let '(neg, r) := take_sign s in
  if str_eqb (upper r) [73; 78; 70] || str_eqb (upper r) [73; 78; 70; 73; 78; 73; 84; 89]
  then Some (PDecSpecial neg false)                                          (* inf / infinity, any case *)
  else if str_eqb (upper r) [78; 65; 78] then Some (PDecSpecial neg true)    (* nan, any case *)
  else
    let '(ip, r1) := span is_digit r in
    let '(fp, r2) := match r1 with
                     | c :: r' => if c =? c_dot then span is_digit r' else ([], r1)
                     | [] => ([], [])
                     end in
    if nonempty ip || nonempty fp then
      match parse_exp r2 with
      | Some e => Some (PDec neg (digits_val (ip ++ fp)) (e - Z.of_nat (length fp))%Z)
      | None => None
      end
    else None.

(* d.quantize(Decimal(10) ** -prec), ROUND_HALF_EVEN, context precision 28:
   None = InvalidOperation (the result would need more than 28 digits) *)
Definition dec_quantize (coeff : N) (exp : Z) (prec : N) : option (N * Z) :=
  let target := (- Z.of_N prec)%Z in
  let c' :=
    if (target <=? exp)%Z then coeff * pow10 (Z.to_N (exp - target))
    else
      let k := pow10 (Z.to_N (target - exp)) in
      let q := coeff / k in
      let r := coeff mod k in
      if 2 * r <? k then q
      else if k <? 2 * r then q + 1
      else if N.even q then q else q + 1 in
  if 28 <? ndigits c' then None else Some (c', target).

(* Decimal < 10^k *)
Definition dec_lt_pow10 (neg : bool) (coeff : N) (exp : Z) (k : Z) : bool :=
  if coeff =? 0 then true
  else if neg then true
  else
    (* coeff * 10^exp < 10^k *)
    match (exp ?= k)%Z with
    | Lt => coeff <? pow10 (Z.to_N (k - exp))
    | _ => false
    end.

(* int(Decimal): truncation toward zero *)
Definition dec_trunc (neg : bool) (coeff : N) (exp : Z) : Z :=
  z_signed neg (match exp with
                | Zneg p => coeff / pow10 (Npos p)
                | Z0 => coeff
                | Zpos p => coeff * pow10 (Npos p)
                end).

(* ================================================================ dates *)
Definition is_leap (y : N) : bool :=
  ((y mod 4 =? 0) && negb (y mod 100 =? 0)) || (y mod 400 =? 0).
Definition days_in_month (y m : N) : N :=
  if m =? 2 then (if is_leap y then 29 else 28)
  else if (m =? 4) || (m =? 6) || (m =? 9) || (m =? 11) then 30 else 31.
Definition valid_date (y m d : N) : bool :=
  (1 <=? y) && (y <=? 9999) && (1 <=? m) && (m <=? 12) && (1 <=? d) && (d <=? days_in_month y m).
Definition valid_time (h mi s us : N) : bool :=
  (h <? 24) && (mi <? 60) && (s <? 60) && (us <? 1000000).

Record stamp := { st_y : N; st_m : N; st_d : N; st_h : N; st_mi : N; st_s : N; st_us : N }.
Definition stamp_get (t : stamp) (f : dfield) : N :=
  match f with
  | FYear => st_y t | FMonth => st_m t | FDay => st_d t
  | FHour => st_h t | FMinute => st_mi t | FSecond => st_s t | FMicro => st_us t
  end.

(* "template" % args : the converters of converters.py *)
Fixpoint render_tpl (tpl : list tpiece) (args : list N) : str :=
  match tpl with
  | [] => []
  | TLit s :: r => s ++ render_tpl r args
  | TInt w :: r =>
      match args with
      | a :: args' => fixed w a ++ render_tpl r args'
      | [] => []
      end
  end.
Definition conv_datetime (t : stamp) : str := render_tpl gen_tpl_datetime (map (stamp_get t) gen_args_datetime).
Definition conv_date (t : stamp) : str := render_tpl gen_tpl_date (map (stamp_get t) gen_args_date).
Definition conv_time (t : stamp) : str := render_tpl gen_tpl_time (map (stamp_get t) gen_args_time).

(* ---- reference datetime.strptime for formats made of %Y %m %d %H %M %S %f,
   single spaces and other literal characters; every numeric directive is
   followed by a non-digit literal or the end of the format, so a field is the
   maximal run of digits (see docs/notes/C01.md) *)
Inductive directive := DY | Dm | Dd | DH | DM | DS | Df | DSpace | DLit (c : ch).
Fixpoint parse_format (f : str) : option (list directive) :=
  match f with
  | [] => Some []
  | c :: r =>
      if c =? c_pct then
        match r with
        | k :: r' =>
            match (if k =? 89 then Some DY else if k =? 109 then Some Dm else if k =? 100 then Some Dd
                   else if k =? 72 then Some DH else if k =? 77 then Some DM else if k =? 83 then Some DS
                   else if k =? 102 then Some Df else None), parse_format r' with
            | Some d, Some ds => Some (d :: ds)
            | _, _ => None
            end
        | [] => None
        end
      else
        match parse_format r with
        | Some ds => Some ((if c =? c_space then DSpace else DLit c) :: ds)
        | None => None
        end
  end.

Definition is_ws (c : ch) : bool := (c =? 32) || ((9 <=? c) && (c <=? 13)).
Fixpoint skip_ws (s : str) : str := match s with c :: r => if is_ws c then skip_ws r else s | [] => [] end.
(* a numeric field: between lo and hi digits, the whole maximal run *)
Definition take_field (lo hi : nat) (s : str) : option (N * nat * str) :=
  let '(ds, rest) := span is_digit s in
  let n := length ds in
  if (Nat.leb lo n) && (Nat.leb n hi) then Some (digits_val ds, n, rest) else None.

Fixpoint strptime_run (ds : list directive) (s : str) (t : stamp) : option stamp :=
  match ds with
  | [] => match s with [] => Some t | _ => None end
  | d :: ds' =>
      match d with
      | DLit c => match s with
                  | x :: r => if x =? c then strptime_run ds' r t else None
                  | [] => None
                  end
      | DSpace => match s with
                  | x :: r => if is_ws x then strptime_run ds' (skip_ws r) t else None
                  | [] => None
                  end
      | DY => match take_field 4 4 s with
              | Some (v, _, r) => strptime_run ds' r {| st_y := v; st_m := st_m t; st_d := st_d t; st_h := st_h t;
                                                         st_mi := st_mi t; st_s := st_s t; st_us := st_us t |}
              | None => None
              end
      | Dm => match take_field 1 2 s with
              | Some (v, _, r) => if (1 <=? v) && (v <=? 12) then
                                    strptime_run ds' r {| st_y := st_y t; st_m := v; st_d := st_d t; st_h := st_h t;
                                                          st_mi := st_mi t; st_s := st_s t; st_us := st_us t |}
                                  else None
              | None => None
              end
      | Dd => match take_field 1 2 s with
              | Some (v, _, r) => if (1 <=? v) && (v <=? 31) then
                                    strptime_run ds' r {| st_y := st_y t; st_m := st_m t; st_d := v; st_h := st_h t;
                                                          st_mi := st_mi t; st_s := st_s t; st_us := st_us t |}
                                  else None
              | None => None
              end
      | DH => match take_field 1 2 s with
              | Some (v, _, r) => if v <=? 23 then
                                    strptime_run ds' r {| st_y := st_y t; st_m := st_m t; st_d := st_d t; st_h := v;
                                                          st_mi := st_mi t; st_s := st_s t; st_us := st_us t |}
                                  else None
              | None => None
              end
      | DM => match take_field 1 2 s with
              | Some (v, _, r) => if v <=? 59 then
                                    strptime_run ds' r {| st_y := st_y t; st_m := st_m t; st_d := st_d t; st_h := st_h t;
                                                          st_mi := v; st_s := st_s t; st_us := st_us t |}
                                  else None
              | None => None
              end
      | DS => match take_field 1 2 s with
              | Some (v, _, r) => if v <=? 61 then
                                    strptime_run ds' r {| st_y := st_y t; st_m := st_m t; st_d := st_d t; st_h := st_h t;
                                                          st_mi := st_mi t; st_s := v; st_us := st_us t |}
                                  else None
              | None => None
              end
      | Df => match take_field 1 6 s with
              | Some (v, n, r) => strptime_run ds' r {| st_y := st_y t; st_m := st_m t; st_d := st_d t; st_h := st_h t;
                                                         st_mi := st_mi t; st_s := st_s t;
                                                         st_us := v * pow10 (N.of_nat (6 - n)) |}
              | None => None
              end
      end
  end.
Definition stamp0 : stamp := {| st_y := 1900; st_m := 1; st_d := 1; st_h := 0; st_mi := 0; st_s := 0; st_us := 0 |}.
(* datetime.strptime(s, fmt): None = ValueError *)
Definition strptime (fmt s : str) : option stamp :=
  match parse_format fmt with
  | Some ds =>
      match strptime_run ds s stamp0 with
      | Some t => if valid_date (st_y t) (st_m t) (st_d t) && valid_time (st_h t) (st_mi t) (st_s t) (st_us t)
                  then Some t else None
      | None => None
      end
  | None => None
  end.

(* the microsecond fix-up of DateTimeValidator.to_python (col.py), applied when
   the format contains ".%f" *)
Definition dot_f : str := [46; 37; 102].
Definition fixup_micro (s : str) : str :=
  if contains c_dot s then
    match split_last_dot s with
    | Some (pre, last) =>
        let l := length last in
        if Nat.ltb l 6 then pre ++ [c_dot] ++ last ++ repeat c_zero (6 - l)
        else if Nat.ltb 6 l then pre ++ [c_dot] ++ firstn 6 last
        else s
    | None => s
    end
  else s ++ [c_dot; c_zero].

(* ================================================================ column types *)
Inductive coltype :=
| TString (len : option N)
| TUnicode (len : option N)
| TInt | TTinyInt | TSmallInt | TMediumInt | TBigInt
| TBool
| TFloat
| TDateTime | TDate | TTime | TTimestamp
| TDecimal (size prec : N)
| TCurrency
| TDecStr (size prec : N) (quant : bool)
| TEnum (vals : list str)
| TBlob
| TPickle
| TUuid
| TJson
| TForeignKey                       (* to a class with integer ids *)
| TForeignKeyStr.                   (* to a class with sqlmeta.idType = str *)

(* ---- the type name handed to sqlite (col.py _sqliteType / _sqlType) *)
Fixpoint render_type (t : list typiece) (size prec len : N) : str :=
  match t with
  | [] => []
  | YLit s :: r => s ++ render_type r size prec len
  | YParam CSize :: r => dec_N size ++ render_type r size prec len
  | YParam CPrecision :: r => dec_N prec ++ render_type r size prec len
  | YParam CLength :: r => dec_N len ++ render_type r size prec len
  end.
Definition s_TEXT : str := [84; 69; 88; 84].
Definition varchar_of (n : N) : str := [86; 65; 82; 67; 72; 65; 82; 40] ++ dec_N n ++ [41].
Definition maxlen (vals : list str) : N := fold_right (fun s a => N.max (N.of_nat (length s)) a) 0 vals.
Definition sqlite_type (T : coltype) : str :=
  match T with
  | TString None | TUnicode None | TBlob | TPickle | TJson => s_TEXT
  | TString (Some n) | TUnicode (Some n) => varchar_of n
  | TInt => render_type gen_type_Int 0 0 0
  | TTinyInt => render_type gen_type_TinyInt 0 0 0
  | TSmallInt => render_type gen_type_SmallInt 0 0 0
  | TMediumInt => render_type gen_type_MediumInt 0 0 0
  | TBigInt => render_type gen_type_BigInt 0 0 0
  | TBool => render_type gen_type_Bool 0 0 0
  | TFloat => render_type gen_type_Float 0 0 0
  | TDateTime => render_type gen_type_DateTime 0 0 0
  | TDate => render_type gen_type_Date 0 0 0
  | TTime => render_type gen_type_Time 0 0 0
  | TTimestamp => render_type gen_type_Timestamp 0 0 0
  | TDecimal size prec => render_type gen_type_Decimal size prec 0
  | TCurrency => render_type gen_type_Currency 10 2 0
  | TDecStr size prec _ => varchar_of (size + prec)
  | TEnum vals => varchar_of (maxlen vals)
  | TUuid => render_type gen_type_Uuid 0 0 0
  | TForeignKey => render_type gen_type_ForeignKeyInt 0 0 0
  | TForeignKeyStr => render_type gen_type_ForeignKeyStr 0 0 0
  end.

(* sqlite: "Determination Of Column Affinity", rules 1-5 in order, on the upper-cased type name *)
Definition affinity_of_decl (d : str) : affinity :=
  let u := upper d in
  if has_sub [73; 78; 84] u then AINTEGER                                                       (* INT *)
  else if has_sub [67; 72; 65; 82] u || has_sub [67; 76; 79; 66] u || has_sub s_TEXT u then ATEXT   (* CHAR CLOB TEXT *)
  else if has_sub [66; 76; 79; 66] u || negb (nonempty u) then ABLOB                             (* BLOB / none *)
  else if has_sub [82; 69; 65; 76] u || has_sub [70; 76; 79; 65] u || has_sub [68; 79; 85; 66] u then AREAL
  else ANUMERIC.
Definition col_affinity (T : coltype) : affinity := affinity_of_decl (sqlite_type T).

(* ================================================================ validators (col.py, Python 3, sqlite) *)
Definition stamp_of_dt (y m d h mi s us : N) : stamp :=
  {| st_y := y; st_m := m; st_d := d; st_h := h; st_mi := mi; st_s := s; st_us := us |}.

(* StringValidator.to_python == from_python; dataType is Decimal for DecimalStringCol *)
Definition v_string (dec_ok : bool) (v : pyval) : res pyval :=
  match v with
  | PNone | PStr _ | PBytes _ => Ok v
  | PDec _ _ _ | PDecSpecial _ _ => if dec_ok then Ok v else Raise E_Invalid
  | _ => Raise E_Invalid
  end.

(* UnicodeStringValidator, both directions *)
Definition v_unicode (v : pyval) : res pyval :=
  match v with
  | PNone | PStr _ => Ok v
  | _ => Raise E_Invalid
  end.

(* IntValidator.to_python == from_python: int/bool as they are; else int(value) through __int__ *)
Definition v_int (v : pyval) : res pyval :=
  match v with
  | PNone | PInt _ | PBool _ => Ok v
  | PFloat f => match f_trunc f with Some z => Ok (PInt z) | None => Raise E_Invalid end
  | PDec neg c e => Ok (PInt (dec_trunc neg c e))
  | PDecSpecial _ _ => Raise E_Invalid
  | PUuid n => Ok (PInt (Z.of_N n))
  | _ => Raise E_Invalid
  end.

(* BoolValidator: bool as it is; anything with __bool__ through bool() *)
Definition v_bool (v : pyval) : res pyval :=
  match v with
  | PNone | PBool _ => Ok v
  | PInt z => Ok (PBool (negb (Z.eqb z 0)))
  | PFloat f => Ok (PBool (f_truthy f))
  | PDec _ c _ => Ok (PBool (negb (c =? 0)))
  | PDecSpecial _ _ => Ok (PBool true)
  | PDelta d s us => Ok (PBool (negb (Z.eqb d 0 && (s =? 0) && (us =? 0))))
  | _ => Raise E_Invalid
  end.

(* FloatValidator: a float as it is; an int (bool) becomes float(value), Invalid when too large;
   then float(value.__float__()), float(value.__int__()) *)
Definition float_int (C : codecs) (z : Z) : res pyval :=
  match float_of_int C z with Some f => Ok (PFloat f) | None => Raise E_Invalid end.
Definition v_float (C : codecs) (v : pyval) : res pyval :=
  match v with
  | PNone | PFloat _ => Ok v
  | PInt z => float_int C z
  | PBool b => float_int C (if b then 1 else 0)%Z
  | PDec _ _ _ | PDecSpecial _ _ => Ok (PFloat (float_of_dec C v))
  | PUuid n => float_int C (Z.of_N n)
  | _ => Raise E_Invalid
  end.

(* DateTimeValidator.from_python *)
Definition v_datetime_from (v : pyval) : res pyval :=
  match v with
  | PNone | PDateTime _ _ _ _ _ _ _ _ => Ok v
  | PDate y m d => Ok (PDateTime y m d 0 0 0 0 false)      (* midnight of that day *)
  | _ => Raise E_Invalid                                   (* a time has strftime but is refused *)
  end.
(* DateTimeValidator.to_python with the column's format *)
Definition v_datetime_to (fmt : str) (v : pyval) : res pyval :=
  match v with
  | PNone | PDateTime _ _ _ _ _ _ _ _ | PDate _ _ _ | PTime _ _ _ _ _ => Ok v
  | PStr s =>
      let s' := if has_sub dot_f fmt then fixup_micro s else s in
      match strptime fmt s' with
      | Some t => Ok (PDateTime (st_y t) (st_m t) (st_d t) (st_h t) (st_mi t) (st_s t) (st_us t) false)
      | None => Raise E_Invalid
      end
  | _ => Raise E_Invalid
  end.
(* DateValidator.to_python == from_python *)
Definition v_date (v : pyval) : res pyval :=
  match v with
  | PDateTime y m d _ _ _ _ _ => Ok (PDate y m d)
  | PDate _ _ _ => Ok v
  | _ =>
      r <- v_datetime_to gen_format_date v ;;
      match r with
      | PDateTime y m d _ _ _ _ _ => Ok (PDate y m d)
      | PTime _ _ _ _ _ => Raise E_Invalid
      | _ => Ok r
      end
  end.
(* TimeValidator.to_python == from_python *)
Definition v_time (v : pyval) : res pyval :=
  match v with
  | PTime _ _ _ _ _ => Ok v
  | PDelta days secs us =>
      if Z.eqb days 0 then Ok (PTime (secs / 3600) ((secs / 60) mod 60) (secs mod 60) us false)
      else Raise E_Invalid
  | _ =>
      r <- v_datetime_to gen_format_time v ;;
      match r with
      | PDateTime _ _ _ h mi s us _ => Ok (PTime h mi s us false)
      | PDate _ _ _ => Raise E_Invalid
      | _ => Ok r
      end
  end.

(* DecimalValidator *)
Definition decimal_of_str (s : str) : res pyval :=
  match dec_of_text s with Some d => Ok d | None => Raise E_Invalid end.
Definition v_decimal_from (C : codecs) (v : pyval) : res pyval :=
  match v with
  | PNone | PInt _ | PBool _ | PDec _ _ _ | PDecSpecial _ _ => Ok v
  | PFloat f => decimal_of_str (frepr C f)
  | PStr s => decimal_of_str s
  | _ => Raise E_Invalid
  end.
Definition dec_of_int (z : Z) : pyval := PDec (Z.ltb z 0) (Z.abs_N z) 0.      (* Decimal(int) *)
Definition v_decimal_to (C : codecs) (v : pyval) : res pyval :=
  match v with
  | PNone | PDec _ _ _ | PDecSpecial _ _ => Ok v
  | PInt z => Ok (dec_of_int z)                   (* sqlite holds an integral DECIMAL as INTEGER *)
  | PBool b => Ok (dec_of_int (if b then 1 else 0))
  | PFloat f => decimal_of_str (frepr C f)
  | PStr s => decimal_of_str s
  | _ => Raise E_Invalid
  end.

(* DecimalStringValidator: the assert / quantize pair, used in both directions *)
Definition dsv_quantize (size prec : N) (v : pyval) : res pyval :=
  match v with
  | PDec neg c e =>
      if dec_lt_pow10 neg c e (Z.of_N size - Z.of_N prec)%Z then
        match dec_quantize c e prec with
        | Some (c', e') => Ok (PDec neg c' e')
        | None => Raise E_InvalidOperation
        end
      else Raise E_Assertion
  | PDecSpecial neg nan =>
      if nan then Raise E_InvalidOperation              (* NaN < max signals *)
      else if neg then Raise E_InvalidOperation         (* -Infinity passes the assert, quantize signals *)
      else Raise E_Assertion
  | _ => Ok v
  end.
Definition s_True : str := [84; 114; 117; 101].
Definition s_False : str := [70; 97; 108; 115; 101].
Definition decstr_render (size prec : N) (quant : bool) (v1 : pyval) : res pyval :=
  match v1 with
  | PDec _ _ _ | PDecSpecial _ _ =>
      q <- (if quant then dsv_quantize size prec v1 else Ok v1) ;;
      match q with
      | PDec neg c e => Ok (PStr (dec_eng_string neg c e))
      | PDecSpecial neg nan => Ok (PStr (dec_special_string neg nan))
      | _ => Ok q
      end
  | PInt z => Ok (PStr (dec_Z z))
  | PBool b => Ok (PStr (if b then s_True else s_False))
  | _ => Ok v1
  end.
Definition v_decstr_from (C : codecs) (size prec : N) (quant : bool) (v : pyval) : res pyval :=
  v1 <- v_decimal_from C v ;;
  v2 <- decstr_render size prec quant v1 ;;
  v_string true v2.
Definition v_decstr_to (C : codecs) (size prec : N) (quant : bool) (v : pyval) : res pyval :=
  v1 <- v_string true v ;;
  v2 <- v_decimal_to C v1 ;;
  if quant then dsv_quantize size prec v2 else Ok v2.

(* EnumValidator: `value in enumValues` *)
Definition v_enum (vals : list str) (v : pyval) : res pyval :=
  match v with
  | PNone => Ok v
  | PStr s => if existsb (str_eqb s) vals then Ok v else Raise E_Invalid
  | _ => Raise E_Invalid
  end.

(* BinaryValidator on sqlite: createBinary = sqlite3.Binary(base64.b64encode(value)) -> ascii str *)
Definition is_ascii (s : str) : bool := forallb (fun c => c <? 128) s.
Definition v_binary_from (C : codecs) (v : pyval) : res pyval :=
  match v with
  | PNone => Ok v
  | PBytes b => Ok (PStr (b64enc C b))
  | _ => Raise E_Type
  end.
Definition v_binary_to (C : codecs) (v : pyval) : res pyval :=
  match v with
  | PNone | PBytes _ => Ok v
  | PStr s => if is_ascii s then Ok (PBytes (b64dec C s)) else Raise E_UnicodeEncode
  | _ => Raise E_Invalid
  end.

(* PickleValidator *)
Definition v_pickle_from (C : codecs) (v : pyval) : res pyval :=
  match v with
  | PNone => Ok v
  | _ => Ok (PBytes (pdumps C v))
  end.
Definition v_pickle_to (C : codecs) (v : pyval) : res pyval :=
  match v with
  | PNone => Ok v
  | PBytes b => Ok (ploads C b)
  | PStr s => if is_ascii s then Ok (ploads C s) else Raise E_UnicodeEncode
  | _ => Raise E_Invalid
  end.

(* UuidValidator *)
Definition v_uuid_from (C : codecs) (v : pyval) : res pyval :=
  match v with
  | PNone => Ok v
  | PUuid n => Ok (PStr (uuid_str C n))
  | _ => Raise E_Invalid
  end.
Definition v_uuid_to (C : codecs) (v : pyval) : res pyval :=
  match v with
  | PNone | PUuid _ => Ok v
  | PStr s => n <- uuid_parse C s ;; Ok (PUuid n)
  | _ => Raise E_Invalid
  end.

(* JSONValidator *)
Definition v_json_from (C : codecs) (v : pyval) : res pyval :=
  match v with
  | PNone => Ok v
  | PBool _ | PInt _ | PFloat _ | PDict _ | PList _ | PStr _ => t <- jdumps C v ;; Ok (PStr t)
  | _ => Raise E_Invalid
  end.
Definition v_json_to (C : codecs) (v : pyval) : res pyval :=
  match v with
  | PNone | PBool _ | PInt _ | PFloat _ | PDict _ | PList _ => Ok v
  | PStr s => Ok (jloads C s)
  | _ => Raise E_Invalid
  end.

(* ForeignKeyValidator.from_python for an int-keyed class: instances pass, else int(value);
   only ValueError / TypeError become Invalid.  int(str): whitespace stripped, [sign], ASCII digits
   with single underscores between them. *)
(* digits with single underscores between them (PEP 515) *)
Fixpoint int_digits (s : str) (acc : N) (need_digit : bool) : option N :=
  match s with
  | [] => if need_digit then None else Some acc
  | c :: r =>
      if is_digit c then int_digits r (acc * 10 + (c - 48)) false
      else if (c =? c_us) && negb need_digit then int_digits r acc true
      else None
  end.
Definition int_of_text_ws (ws : ch -> bool) (s : str) : option Z :=
  let '(neg, ds) := take_sign (strip ws s) in
  match int_digits ds 0 true with
  | Some n => Some (z_signed neg n)
  | None => None
  end.
(* the spelling of an integer literal in a statement: [-] digits *)
Definition int_of_text (s : str) : option Z :=
  let '(neg, ds) := match s with c :: r => if c =? c_minus then (true, r) else (false, s) | [] => (false, []) end in
  if nonempty ds && all_digits ds then Some (z_signed neg (digits_val ds)) else None.
Definition v_fk_from (v : pyval) : res pyval :=
  match v with
  | PNone | PObj _ | PInt _ => Ok v
  | PBool b => Ok (PInt (if b then 1 else 0)%Z)
  | PFloat f => match f_trunc f with
                | Some z => Ok (PInt z)
                | None => if f_is_nan f then Raise E_Invalid else Raise E_Overflow
                end
  | PDec neg c e => Ok (PInt (dec_trunc neg c e))
  | PDecSpecial _ nan => if nan then Raise E_Invalid else Raise E_Overflow
  | PUuid n => Ok (PInt (Z.of_N n))
  | PStr s => match int_of_text_ws int_isspace s with Some z => Ok (PInt z) | None => Raise E_Invalid end
  | PBytes s => match int_of_text_ws ascii_isspace s with Some z => Ok (PInt z) | None => Raise E_Invalid end
  | _ => Raise E_Invalid
  end.

(* ForeignKeyValidator.from_python for a string-keyed class: instances pass, else str(value),
   which never fails *)
Definition v_fks_from (C : codecs) (v : pyval) : res pyval :=
  match v with
  | PNone | PStr _ | PObjS _ => Ok v
  | PInt z | PObj z => Ok (PStr (dec_Z z))
  | PBool b => Ok (PStr (if b then s_True else s_False))
  | _ => Ok (PStr (py_str C v))
  end.

(* ---- the validator chain of each column type (createValidators; compound.All runs
   from_python left to right and to_python right to left) *)
Definition from_python (C : codecs) (T : coltype) (v : pyval) : res pyval :=
  match T with
  | TString _ => v_string false v
  | TUnicode _ => v_unicode v
  | TInt | TTinyInt | TSmallInt | TMediumInt | TBigInt => v_int v
  | TBool => v_bool v
  | TFloat => v_float C v
  | TDateTime | TTimestamp => v_datetime_from v
  | TDate => v_date v
  | TTime => v_time v
  | TDecimal _ _ | TCurrency => v_decimal_from C v
  | TDecStr size prec q => v_decstr_from C size prec q v
  | TEnum vals => v_enum vals v
  | TBlob => b <- v_binary_from C v ;; v_string false b
  | TPickle => p <- v_pickle_from C v ;; b <- v_binary_from C p ;; v_string false b
  | TUuid => v_uuid_from C v
  | TJson => v_json_from C v
  | TForeignKey => v_fk_from v
  | TForeignKeyStr => v_fks_from C v
  end.
Definition to_python (C : codecs) (T : coltype) (v : pyval) : res pyval :=
  match T with
  | TString _ => v_string false v
  | TUnicode _ => v_unicode v
  | TInt | TTinyInt | TSmallInt | TMediumInt | TBigInt => v_int v
  | TBool => v_bool v
  | TFloat => v_float C v
  | TDateTime | TTimestamp => v_datetime_to gen_format_datetime v
  | TDate => v_date v
  | TTime => v_time v
  | TDecimal _ _ | TCurrency => v_decimal_to C v
  | TDecStr size prec q => v_decstr_to C size prec q v
  | TEnum vals => v_enum vals v
  | TBlob => s <- v_string false v ;; v_binary_to C s
  | TPickle => s <- v_string false v ;; b <- v_binary_to C s ;; v_pickle_to C b
  | TUuid => v_uuid_to C v
  | TJson => v_json_to C v
  | TForeignKey | TForeignKeyStr => Ok v
  end.

(* ================================================================ converters: db value -> sqlite literal *)
Definition sq_quote (s : str) : str := [c_q] ++ flat_map (fun c => if c =? c_q then [c_q; c_q] else [c]) s ++ [c_q].
Definition s_NULL : str := [78; 85; 76; 76].
(* sqlrepr(v, 'sqlite'): converter looked up by the exact class; __sqlrepr__ of an instance is its id *)
Definition literal (C : codecs) (v : pyval) : res str :=
  match v with
  | PNone => Ok s_NULL
  | PBool b => Ok (if b then [49] else [48])
  | PInt z => Ok (dec_Z z)
  | PFloat f => Ok (frepr C f)
  | PStr s => Ok (sq_quote s)
  | PDateTime y m d h mi s us _ => Ok (conv_datetime (stamp_of_dt y m d h mi s us))
  | PDate y m d => Ok (conv_date (stamp_of_dt y m d 0 0 0 0))
  | PTime h mi s us _ => Ok (conv_time (stamp_of_dt 0 0 0 h mi s us))
  | PDec neg c e => Ok (dec_eng_string neg c e)
  | PDecSpecial neg nan => Ok (dec_special_string neg nan)
  | PObj id => Ok (dec_Z id)
  | PObjS id => Ok (sq_quote id)                      (* SQLObject.__sqlrepr__ = sqlrepr(self.id): a quoted string *)
  | PBytes _ | PUuid _ => Raise E_Value              (* Unknown SQL builtin type *)
  | PDelta _ _ _ | PList _ | PTuple _ | PDict _ => Raise E_Unmodelled   (* no validator hands these on *)
  end.

(* ================================================================ sqlite: literal -> stored value *)
Definition int64_ok (z : Z) : bool := ((-9223372036854775808 <=? z) && (z <=? 9223372036854775807))%Z.
Definition is_surrogate (c : ch) : bool := (55296 <=? c) && (c <=? 57343).

(* would sqlite's numeric affinity convert this TEXT?  [ws] [sign] digits [. digits] [e [sign] digits] [ws],
   or [ws] [sign] . digits ... *)
Definition looks_numeric (s : str) : bool :=
  let s1 := skip_ws s in
  let s2 := match s1 with c :: r => if (c =? c_minus) || (c =? c_plus) then r else s1 | [] => [] end in
  let '(ip, r1) := span is_digit s2 in
  let '(fp, r2) := match r1 with
                   | c :: r' => if c =? c_dot then span is_digit r' else ([], r1)
                   | [] => ([], [])
                   end in
  if nonempty ip || nonempty fp then
    let r3 := match r2 with
              | c :: r' =>
                  if (c =? c_e) || (c =? c_E) then
                    let r'' := match r' with x :: y => if (x =? c_minus) || (x =? c_plus) then y else r' | [] => [] end in
                    let '(ed, r4) := span is_digit r'' in
                    if nonempty ed then r4 else r2
                  else r2
              | [] => []
              end in
    match skip_ws r3 with [] => true | _ => false end
  else false.

Definition apply_affinity (C : codecs) (a : affinity) (v : sval) : res sval :=
  match v with
  | SText s =>
      match a with
      | ATEXT | ABLOB => Ok v
      | _ => if looks_numeric s then Raise E_Unmodelled else Ok v
      end
  | SInt z =>
      match a with
      | ATEXT => Ok (SText (dec_Z z))
      | AREAL => num_store C AREAL (dec_Z z)
      | _ => Ok v
      end
  | _ => Ok v
  end.

(* a numeric literal's spelling: what the statement scanner takes for a number *)
Definition numeric_start (s : str) : bool :=
  match (match s with c :: r => if c =? c_minus then r else s | [] => [] end) with
  | c :: _ => is_digit c || (c =? c_dot)
  | [] => false
  end.

(* INSERT / UPDATE of one literal into a column of affinity a, through the sqlite3 module *)
Definition sqlite_store (C : codecs) (a : affinity) (lit : str) : res sval :=
  if contains c_nul lit then Raise E_Programming                   (* "the query contains a null character" *)
  else if existsb is_surrogate lit then Raise E_UnicodeEncode      (* the statement cannot be encoded as UTF-8 *)
  else if str_eqb lit s_NULL then Ok SNull
  else
    match lit with
    | c :: _ =>
        if c =? c_q then
          match lex_ansi lit with
          | Some (s, []) => apply_affinity C a (SText s)
          | _ => Raise E_Operational
          end
        else
          match int_of_text lit with
          | Some z => if int64_ok z then apply_affinity C a (SInt z) else num_store C a lit
          | None => if numeric_start lit then num_store C a lit else Raise E_Operational   (* e.g. inf, nan: no such column *)
          end
    | [] => Raise E_Operational
    end.

(* what sqlite3 (text_factory = str) hands back *)
Definition driver (v : sval) : pyval :=
  match v with
  | SNull => PNone
  | SInt z => PInt z
  | SReal f => PFloat f
  | SText s => PStr s
  | SBlob b => PBytes b
  end.

(* the `=` of a WHERE clause between a stored value and the (affinity-converted) literal *)
Definition sval_sqleq (a b : sval) : bool :=
  match a, b with
  | SInt x, SInt y => Z.eqb x y
  | SReal x, SReal y => f_eqb x y && negb (f_is_nan x)
  | SInt x, SReal y | SReal y, SInt x => match f_int_value y with Some z => Z.eqb x z | None => false end
  | SText x, SText y => str_eqb x y
  | SBlob x, SBlob y => str_eqb x y
  | _, _ => false
  end.

(* ================================================================ the pipeline *)
(* the value the statement carries for column T when v is assigned *)
Definition db_store (C : codecs) (T : coltype) (dbv : pyval) : res sval :=
  lit <- literal C dbv ;; sqlite_store C (col_affinity T) lit.
(* every read that goes to the database: _SO_selectInit / _SO_getValue *)
Definition read_db (C : codecs) (T : coltype) (s : sval) : res pyval := to_python C T (driver s).

Inductive wpath := WCreate | WSetattr | WSet.
Inductive variant := VEager | VNoCache | VLazy.

(* assigning an instance to the foreign-key attribute stores its id (main.py: the
   generated setter calls getID) *)
Definition fk_unwrap (T : coltype) (v : pyval) : pyval :=
  match T, v with
  | TForeignKey, PObj id => PInt id
  | TForeignKeyStr, PObjS id => PStr id
  | _, _ => v
  end.

Record outcome := {
  o_write : res unit;                 (* did the write (incl. syncUpdate) return *)
  o_row : bool;                       (* a row for the object exists afterwards *)
  o_stored : sval;                    (* what the row holds in the column (SNull if never written) *)
  o_cache_pre : option (res pyval);   (* lazy: the writer's attribute before syncUpdate *)
  o_cache : option (res pyval);       (* the writer's attribute after a successful write *)
  o_db : option (res pyval);          (* any read that loads the row: expire+attribute, fresh get, select row *)
  o_found : option (res bool)         (* select(col == v) / selectBy(col=v) yields the row *)
}.

(* the right-hand side of `col = <literal>`: the literal's own value; the column's
   affinity is applied to it only across the text / number divide *)
Definition compare_operand (C : codecs) (a : affinity) (lit : str) : res sval :=
  rhs <- sqlite_store C ABLOB lit ;;
  match a, rhs with
  | (ANUMERIC | AINTEGER | AREAL), SText s => if looks_numeric s then Raise E_Unmodelled else Ok rhs
  | ATEXT, SInt z => Ok (SText (dec_Z z))
  | ATEXT, SReal _ => Raise E_Unmodelled
  | _, _ => Ok rhs
  end.

(* select(q.col == v): None -> IS NULL; the instances of matching rows are built, which loads the row *)
Definition query_finds (C : codecs) (T : coltype) (v : pyval) (stored : sval) : res bool :=
  match v with
  | PNone => match stored with
             | SNull => _ <- read_db C T stored ;; Ok true
             | _ => Ok false
             end
  | _ =>
      dbv <- from_python C T v ;;
      lit <- literal C dbv ;;
      rhs <- compare_operand C (col_affinity T) lit ;;
      if sval_sqleq stored rhs then (_ <- read_db C T stored ;; Ok true) else Ok false
  end.

Definition failed (e : exn) (row : bool) (pre : option (res pyval)) : outcome :=
  {| o_write := Raise e; o_row := row; o_stored := SNull; o_cache_pre := pre; o_cache := None;
     o_db := if row then Some (Ok PNone) else None; o_found := None |}.

Definition run (C : codecs) (T : coltype) (v0 : pyval) (w : wpath) (var : variant) : outcome :=
  let v := fk_unwrap T v0 in
  match from_python C T v with
  | Raise e => failed e (match w with WCreate => false | _ => true end) None
  | Ok dbv =>
    match to_python C T dbv with
    | Raise e => failed e (match w with WCreate => false | _ => true end) None
    | Ok py =>
      let pre := match w, var with
                 | WCreate, _ => None
                 | _, VLazy => Some (Ok py)
                 | _, _ => None
                 end in
      match db_store C T dbv with
      | Raise e => failed e (match w with WCreate => false | _ => true end) pre
      | Ok s =>
        let db := read_db C T s in
        match w, db with
        | WCreate, Raise e =>
            (* _init re-reads the inserted row: the constructor raises, the row stays *)
            {| o_write := Raise e; o_row := true; o_stored := s; o_cache_pre := None; o_cache := None;
               o_db := Some db; o_found := None |}
        | _, _ =>
            {| o_write := Ok tt; o_row := true; o_stored := s; o_cache_pre := pre;
               o_cache := Some (match w, var with
                                | WCreate, _ => db               (* _init loaded the row *)
                                | _, VNoCache => db              (* _SO_getValue *)
                                | _, _ => Ok py                  (* to_python(from_python(v)), never the database *)
                                end);
               o_db := Some db;
               o_found := Some (query_finds C T v0 s) |}
        end
      end
    end
  end.

(* ================================================================ equality and types of Python values *)
Inductive pytag := KNone | KBool | KInt | KFloat | KStr | KBytes | KDate | KTime | KDateTime | KDelta
                 | KDecimal | KUuid | KList | KTuple | KDict | KObj.
Definition pytype (v : pyval) : pytag :=
  match v with
  | PNone => KNone | PBool _ => KBool | PInt _ => KInt | PFloat _ => KFloat | PStr _ => KStr
  | PBytes _ => KBytes | PDate _ _ _ => KDate | PTime _ _ _ _ _ => KTime
  | PDateTime _ _ _ _ _ _ _ _ => KDateTime | PDelta _ _ _ => KDelta
  | PDec _ _ _ | PDecSpecial _ _ => KDecimal | PUuid _ => KUuid | PList _ => KList
  | PTuple _ => KTuple | PDict _ => KDict | PObj _ | PObjS _ => KObj
  end.
Definition pytag_eqb (a b : pytag) : bool :=
  match a, b with
  | KNone, KNone | KBool, KBool | KInt, KInt | KFloat, KFloat | KStr, KStr | KBytes, KBytes
  | KDate, KDate | KTime, KTime | KDateTime, KDateTime | KDelta, KDelta | KDecimal, KDecimal
  | KUuid, KUuid | KList, KList | KTuple, KTuple | KDict, KDict | KObj, KObj => true
  | _, _ => false
  end.

(* numeric value of an int-like *)
Definition as_int (v : pyval) : option Z :=
  match v with
  | PBool b => Some (if b then 1 else 0)%Z
  | PInt z => Some z
  | PFloat f => f_int_value f
  | PDec neg c e => match e with
                    | Zneg p => if (c mod pow10 (Npos p)) =? 0 then Some (z_signed neg (c / pow10 (Npos p))) else None
                    | Z0 => Some (z_signed neg c)
                    | Zpos p => Some (z_signed neg (c * pow10 (Npos p)))
                    end
  | _ => None
  end.
(* Decimal == Decimal: compare after bringing both to the smaller exponent *)
Definition dec_eqb (n1 : bool) (c1 : N) (e1 : Z) (n2 : bool) (c2 : N) (e2 : Z) : bool :=
  if (c1 =? 0) && (c2 =? 0) then true
  else Bool.eqb n1 n2 &&
       (if (e1 <=? e2)%Z then c1 =? c2 * pow10 (Z.to_N (e2 - e1)) else c1 * pow10 (Z.to_N (e1 - e2)) =? c2).

Definition is_numlike (v : pyval) : bool :=
  match v with PBool _ | PInt _ | PFloat _ | PDec _ _ _ => true | _ => false end.

(* Python ==, extended so that a NaN equals itself; a Decimal is never compared with a
   non-integral float in the modelled pipeline (such a pair is reported unequal) *)
Fixpoint pyeq (a b : pyval) {struct a} : bool :=
  let fix all2 (l1 l2 : list pyval) {struct l1} : bool :=
      match l1, l2 with
      | [], [] => true
      | x :: r1, y :: r2 => pyeq x y && all2 r1 r2
      | _, _ => false
      end in
  (* dict equality: same size and every pair of the first occurs in the second *)
  let fix sub (l1 : list (pyval * pyval)) (l2 : list (pyval * pyval)) {struct l1} : bool :=
      match l1 with
      | [] => true
      | (k, x) :: r1 =>
          (let fix find (l : list (pyval * pyval)) : bool :=
               match l with
               | [] => false
               | (k2, y) :: r2 => (pyeq k k2 && pyeq x y) || find r2
               end in find l2) && sub r1 l2
      end in
  match a, b with
  | PNone, PNone => true
  | PFloat x, PFloat y => f_eqb x y
  | PDec n1 c1 e1, PDec n2 c2 e2 => dec_eqb n1 c1 e1 n2 c2 e2
  | PDecSpecial n1 k1, PDecSpecial n2 k2 => Bool.eqb k1 k2 && (k1 || Bool.eqb n1 n2)
  | PStr x, PStr y => str_eqb x y
  | PBytes x, PBytes y => str_eqb x y
  | PDate y1 m1 d1, PDate y2 m2 d2 => (y1 =? y2) && (m1 =? m2) && (d1 =? d2)
  | PTime h1 i1 s1 u1 z1, PTime h2 i2 s2 u2 z2 =>
      (h1 =? h2) && (i1 =? i2) && (s1 =? s2) && (u1 =? u2) && Bool.eqb z1 z2
  | PDateTime y1 m1 d1 h1 i1 s1 u1 z1, PDateTime y2 m2 d2 h2 i2 s2 u2 z2 =>
      (y1 =? y2) && (m1 =? m2) && (d1 =? d2) && (h1 =? h2) && (i1 =? i2) && (s1 =? s2) && (u1 =? u2) && Bool.eqb z1 z2
  | PDelta d1 s1 u1, PDelta d2 s2 u2 => Z.eqb d1 d2 && (s1 =? s2) && (u1 =? u2)
  | PUuid x, PUuid y => x =? y
  | PList x, PList y => all2 x y
  | PTuple x, PTuple y => all2 x y
  | PDict x, PDict y => Nat.eqb (length x) (length y) && sub x y
  | PObj x, PObj y => Z.eqb x y
  | PObjS x, PObjS y => str_eqb x y
  | _, _ =>
      if is_numlike a && is_numlike b then
        match as_int a, as_int b with
        | Some x, Some y => Z.eqb x y
        | _, _ => false
        end
      else false
  end.

(* structural identity (type-exact, field-exact): what the correspondence compares *)
Fixpoint pyval_eqb (a b : pyval) {struct a} : bool :=
  let fix all2 (l1 l2 : list pyval) {struct l1} : bool :=
      match l1, l2 with
      | [], [] => true
      | x :: r1, y :: r2 => pyval_eqb x y && all2 r1 r2
      | _, _ => false
      end in
  let fix allp (l1 l2 : list (pyval * pyval)) {struct l1} : bool :=
      match l1, l2 with
      | [], [] => true
      | (k1, x) :: r1, (k2, y) :: r2 => pyval_eqb k1 k2 && pyval_eqb x y && allp r1 r2
      | _, _ => false
      end in
  match a, b with
  | PNone, PNone => true
  | PBool x, PBool y => Bool.eqb x y
  | PInt x, PInt y => Z.eqb x y
  | PFloat x, PFloat y => x =? y
  | PStr x, PStr y => str_eqb x y
  | PBytes x, PBytes y => str_eqb x y
  | PDate y1 m1 d1, PDate y2 m2 d2 => (y1 =? y2) && (m1 =? m2) && (d1 =? d2)
  | PTime h1 i1 s1 u1 z1, PTime h2 i2 s2 u2 z2 =>
      (h1 =? h2) && (i1 =? i2) && (s1 =? s2) && (u1 =? u2) && Bool.eqb z1 z2
  | PDateTime y1 m1 d1 h1 i1 s1 u1 z1, PDateTime y2 m2 d2 h2 i2 s2 u2 z2 =>
      (y1 =? y2) && (m1 =? m2) && (d1 =? d2) && (h1 =? h2) && (i1 =? i2) && (s1 =? s2) && (u1 =? u2) && Bool.eqb z1 z2
  | PDelta d1 s1 u1, PDelta d2 s2 u2 => Z.eqb d1 d2 && (s1 =? s2) && (u1 =? u2)
  | PDec n1 c1 e1, PDec n2 c2 e2 => Bool.eqb n1 n2 && (c1 =? c2) && Z.eqb e1 e2
  | PDecSpecial n1 k1, PDecSpecial n2 k2 => Bool.eqb n1 n2 && Bool.eqb k1 k2
  | PUuid x, PUuid y => x =? y
  | PList x, PList y => all2 x y
  | PTuple x, PTuple y => all2 x y
  | PDict x, PDict y => allp x y
  | PObj x, PObj y => Z.eqb x y
  | PObjS x, PObjS y => str_eqb x y
  | _, _ => false
  end.

Definition sval_eqb (a b : sval) : bool :=
  match a, b with
  | SNull, SNull => true
  | SInt x, SInt y => Z.eqb x y
  | SReal x, SReal y => x =? y
  | SText x, SText y => str_eqb x y
  | SBlob x, SBlob y => str_eqb x y
  | _, _ => false
  end.

(* ================================================================ vocabulary of the theorems *)
(* a text sqlite3 can carry in a statement and sqlite can hold: no NUL, no lone surrogate *)
Definition text_ok (s : str) : bool := negb (contains c_nul s) && negb (existsb is_surrogate s).

(* Python objects are always well-formed: a datetime has a valid calendar date, ... *)
Definition wf (v : pyval) : bool :=
  match v with
  | PDate y m d => valid_date y m d
  | PTime h mi s us _ => valid_time h mi s us
  | PDateTime y m d h mi s us _ => valid_date y m d && valid_time h mi s us
  | PDelta _ secs us => (secs <? 86400) && (us <? 1000000)
  | PUuid n => n <? 340282366920938463463374607431768211456
  | _ => true
  end.

(* column declarations the theorems speak about *)
Definition coltype_ok (T : coltype) : bool :=
  match T with
  | TDecStr size prec _ => (prec <=? 6) && (prec <=? size) && (1 <=? size) && (size <=? 28)
  | TDecimal size prec => prec <=? size
  | _ => true
  end.

(* JSON's own data model: what json.loads(json.dumps(v)) returns unchanged *)
Fixpoint json_domain (v : pyval) : bool :=
  let fix all (l : list pyval) : bool :=
      match l with [] => true | x :: r => json_domain x && all r end in
  let fix allp (l : list (pyval * pyval)) : bool :=
      match l with
      | [] => true
      | (k, x) :: r => (match k with PStr _ => true | _ => false end) && json_domain x && allp r
      end in
  match v with
  | PNone | PBool _ | PInt _ | PStr _ => true
  | PFloat f => f_finite f
  | PList l => all l
  | PDict l => allp l
  | _ => false
  end.

(* a finite Decimal within DECIMAL(size, prec), written without exponent: at most prec digits
   after the point, at most size digits in all, magnitude below 10^(size-prec) *)
Definition dec_fits (size prec : N) (c : N) (e : Z) : bool :=
  ((- Z.of_N prec <=? e)%Z) && (e <=? 0)%Z && (ndigits c <=? size) &&
  dec_lt_pow10 false c e (Z.of_N size - Z.of_N prec)%Z.

(* the documented domain of each column type (None belongs to all of them: the columns are nullable) *)
Definition in_domain (T : coltype) (v : pyval) : bool :=
  match v with
  | PNone => true
  | _ =>
    match T, v with
    | TString len, PStr s | TUnicode len, PStr s =>
        text_ok s && match len with Some n => N.of_nat (length s) <=? n | None => true end
    | (TInt | TTinyInt | TSmallInt | TMediumInt | TBigInt), PInt z => int64_ok z
    | TBool, PBool _ => true
    | TFloat, PFloat f => f_finite f
    | (TDateTime | TTimestamp), PDateTime _ _ _ _ _ _ _ tz => negb tz
    | TDate, PDate _ _ _ => true
    | TTime, PTime _ _ _ _ tz => negb tz
    | TDecimal size prec, PDec _ c e | TDecStr size prec _, PDec _ c e => dec_fits size prec c e
    | TCurrency, PDec _ c e => dec_fits 10 2 c e
    | TEnum vals, PStr s => existsb (str_eqb s) vals && text_ok s
    | TBlob, PBytes _ => true
    | TPickle, _ => true
    | TUuid, PUuid _ => true
    | TJson, _ => json_domain v
    | TForeignKey, PInt z | TForeignKey, PObj z => int64_ok z
    | TForeignKeyStr, PStr s | TForeignKeyStr, PObjS s => text_ok s
    | _, _ => false
    end
  end.

(* ---- the trigger classes of the known findings (guards of the _partial theorems) *)
(* a timezone-aware datetime / time handed to a column whose converter drops tzinfo (finding tzinfo_dropped) *)
Definition kind_ok (T : coltype) (v : pyval) : bool :=
  match T, v with
  | (TDateTime | TTimestamp), PDateTime _ _ _ _ _ _ _ tz => negb tz
  | TTime, PTime _ _ _ _ tz => negb tz
  | _, _ => true
  end.

(* columns whose values travel as numbers that sqlite may hold as REAL *)
Definition real_prone (T : coltype) : bool :=
  match T with TFloat | TDecimal _ _ | TCurrency => true | _ => false end.
Definition int_like (T : coltype) : bool :=
  match T with TInt | TTinyInt | TSmallInt | TMediumInt | TBigInt | TForeignKey => true | _ => false end.

(* The per-value ORACLE for everything that goes through sqlite's floating point: the number
   the statement carries is stored, loaded and compared without loss.  It speaks only about
   the db value dbv = from_python(v), the converters' literal for it, the engine and the
   stdlib text<->number codecs; the harness evaluates it by asking sqlite (the known findings
   float_literal_misrounded, int_beyond_int64_stored_as_real, decimal_stored_as_real are exactly
   the values on which it is false). *)
Definition engine_exact (C : codecs) (T : coltype) (dbv : pyval) : bool :=
  match literal C dbv with
  | Ok lit =>
      match sqlite_store C (col_affinity T) lit with
      | Ok s =>
          match read_db C T s, to_python C T dbv with
          | Ok d, Ok c => pyeq c d
          | Raise _, _ => false
          | _, Raise _ => true
          end &&
          match compare_operand C (col_affinity T) lit with
          | Ok r => sval_sqleq s r
          | Raise _ => false
          end
      | Raise _ => true
      end
  | Raise _ => true
  end.
(* where the oracle is needed: REAL-prone columns, and integers beyond int64 in integer columns *)
Definition needs_oracle (T : coltype) (dbv : pyval) : bool :=
  real_prone T ||
  (int_like T && match dbv with PInt z | PObj z => negb (int64_ok z) | _ => false end).
Definition guard_engine (C : codecs) (T : coltype) (v : pyval) : bool :=
  match from_python C T (fk_unwrap T v) with
  | Ok dbv => if needs_oracle T dbv then engine_exact C T dbv else true
  | Raise _ => true
  end.

(* the value an in-domain write is expected to read back *)
Definition expected (T : coltype) (v : pyval) : pyval := fk_unwrap T v.

(* ---- what the round-trip theorem assumes of the stdlib codecs, for the value at hand *)
Definition b64_law (C : codecs) (b : list N) : Prop :=
  b64dec C (b64enc C b) = b /\ is_ascii (b64enc C b) = true /\ text_ok (b64enc C b) = true.
Definition codec_law (C : codecs) (T : coltype) (v : pyval) : Prop :=
  match T with
  | TBlob => match v with PBytes b => b64_law C b | _ => True end
  | TPickle => match v with
               | PNone => True
               | _ => b64_law C (pdumps C v) /\ ploads C (pdumps C v) = v
               end
  | TUuid => match v with
             | PUuid n => uuid_parse C (uuid_str C n) = Ok n /\ text_ok (uuid_str C n) = true
             | _ => True
             end
  | TJson => match v with
             | PNone => True
             | _ => exists t, jdumps C v = Ok t /\ jloads C t = v /\ text_ok t = true
             end
  | _ => True
  end.
(* ... and of the engine, for REAL-prone columns: the ORACLE "this value survives sqlite's
   floating point with its type" (false exactly on the findings float_literal_misrounded and
   decimal_stored_as_real) *)
Definition engine_roundtrip (C : codecs) (T : coltype) (v : pyval) : bool :=
  if real_prone T then
    match v with
    | PNone => true
    | _ =>
      match db_store C T v with
      | Ok s => match read_db C T s with
                | Ok d => pyeq v d && pytag_eqb (pytype d) (pytype v)
                | Raise _ => false
                end
      | Raise _ => false
      end
    end
  else true.

(* ---- the documented normalisation of the alternative input types of the date/time columns:
   what every read must return (Ok e), or that the value must be refused (Raise), or None = not specified here *)
Definition norm_spec (T : coltype) (v : pyval) : option (res pyval) :=
  match T, v with
  | TTime, PDelta days secs us =>
      (* a timedelta is a time of day only from 0:00 up to 24:00; Python keeps a negative one as days = -1, ... *)
      if Z.eqb days 0 then Some (Ok (PTime (secs / 3600) ((secs / 60) mod 60) (secs mod 60) us false))
      else Some (Raise E_Invalid)
  | TTime, PDateTime _ _ _ h mi s us _ => Some (Ok (PTime h mi s us false))
  | TDate, PDateTime y m d _ _ _ _ _ => Some (Ok (PDate y m d))
  | (TDateTime | TTimestamp), PDate y m d => Some (Ok (PDateTime y m d 0 0 0 0 false))
  | _, _ => None
  end.
