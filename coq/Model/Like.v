(* Model for C17: the LIKE pattern the startswith / endswith / contains
   helpers produce (GENERATED pieces of Gen/Like.v glued together), a
   reference LIKE matcher, and the literal string predicates the property
   compares with.  Definitions only. *)
From Coq Require Import List NArith Bool.
From Lib Require Import Str Lex.
From Gen Require Import Lit Like.
From Model Require Import Lit.
Import ListNotations.
Open Scope N_scope.

Inductive kind := KStarts | KEnds | KContains.

Definition k_prefix (k : kind) : str :=
  match k with KStarts => gen_startswith_prefix | KEnds => gen_endswith_prefix | KContains => gen_contains_prefix end.
Definition k_postfix (k : kind) : str :=
  match k with KStarts => gen_startswith_postfix | KEnds => gen_endswith_postfix | KContains => gen_contains_postfix end.
Definition k_escape (k : kind) : str :=
  match k with KStarts => gen_startswith_escape | KEnds => gen_endswith_escape | KContains => gen_contains_escape end.

(* the SQL text of the pattern operand: sqlrepr(_LikeQuoted(s) with its prefix/postfix, db) *)
Definition pattern_literal (d : dialect) (k : kind) (s : str) : option str :=
  gen_LikeQuoted d (k_prefix k) (k_postfix k) s.

(* col.startswith(s) etc. rendered: (col LIKE (pattern) ESCAPE esc) *)
Definition like_sql (d : dialect) (col : str) (k : kind) (s : str) : option str :=
  obind (pattern_literal d k s) (fun p =>
  obind (render d (VStr (k_escape k))) (fun e =>
  gen_LIKE col p false e)).

(* ---------------------------------------------------------------- reference LIKE *)
(* SQL LIKE with `%` (any run), `_` (any one character) and an optional escape
   character after which the next pattern character is literal.  eqc is the
   character comparison of the column's collation (sqlite, MySQL: ASCII
   case-insensitive by default).  A pattern ending in a lone escape character
   matches nothing (sqlite's rule; the helpers never produce one). *)
Definition is_esc (esc : option ch) (c : ch) : bool :=
  match esc with Some e => c =? e | None => false end.

Fixpoint like_match (eqc : ch -> ch -> bool) (esc : option ch) (p : str) (t : str) {struct p} : bool :=
  match p with
  | [] => match t with [] => true | _ :: _ => false end
  | c :: p' =>
      if is_esc esc c then
        match p' with
        | c2 :: p'' => match t with x :: t' => eqc c2 x && like_match eqc esc p'' t' | [] => false end
        | [] => false
        end
      else if c =? c_pct then
        (fix star (t : str) : bool :=
           like_match eqc esc p' t || match t with [] => false | _ :: t' => star t' end) t
      else if c =? c_us then
        match t with _ :: t' => like_match eqc esc p' t' | [] => false end
      else
        match t with x :: t' => eqc c x && like_match eqc esc p' t' | [] => false end
  end.

(* ---------------------------------------------------------------- the literal predicates *)
(* s is a prefix of t / equals t / is a suffix of t / occurs in t, characters compared with eqc *)
Fixpoint prefix_eqc (eqc : ch -> ch -> bool) (s t : str) : bool :=
  match s, t with
  | [], _ => true
  | c :: s', x :: t' => eqc c x && prefix_eqc eqc s' t'
  | _ :: _, [] => false
  end.
Fixpoint equal_eqc (eqc : ch -> ch -> bool) (s t : str) : bool :=
  match s, t with
  | [], [] => true
  | c :: s', x :: t' => eqc c x && equal_eqc eqc s' t'
  | _, _ => false
  end.
Fixpoint suffix_eqc (eqc : ch -> ch -> bool) (s t : str) : bool :=
  equal_eqc eqc s t || match t with [] => false | _ :: t' => suffix_eqc eqc s t' end.
Fixpoint infix_eqc (eqc : ch -> ch -> bool) (s t : str) : bool :=
  prefix_eqc eqc s t || match t with [] => false | _ :: t' => infix_eqc eqc s t' end.

Definition literal_pred (eqc : ch -> ch -> bool) (k : kind) (s t : str) : bool :=
  match k with
  | KStarts => prefix_eqc eqc s t
  | KEnds => suffix_eqc eqc s t
  | KContains => infix_eqc eqc s t
  end.

(* the argument with the LIKE metacharacters escaped: what the decoded pattern must be *)
Definition like_escape_char (c : ch) : str :=
  if (c =? c_bsl) || (c =? c_pct) || (c =? c_us) then [c_bsl; c] else [c].
Definition like_escape (s : str) : str := flat_map like_escape_char s.
Definition wanted_pattern (k : kind) (s : str) : str := k_prefix k ++ like_escape s ++ k_postfix k.

(* ---------------------------------------------------------------- guard *)
(* Since the repair fbe34cd the pattern operand is the ordinary rendering of the wanted
   pattern, so the only arguments excluded are those whose PATTERN the literal round trip
   of C02 excludes:
     postgres      -- the pattern holds a NUL (C02 pg_nul_octal: rejected, or altered when an octal digit follows);
     sybase, mssql -- the pattern holds backslash + line break (Transact-SQL line continuation);
     sqlite, mysql, firebird, maxdb -- nothing. *)
Definition like_ok (d : dialect) (k : kind) (s : str) : bool := str_ok d (wanted_pattern k s).

(* ---------------------------------------------------------------- Transact-SQL LIKE *)
(* T-SQL (mssql, sybase) additionally reads `[...]` in a pattern as a character
   class: members, ranges x-y, leading ^ for negation.  Transcribed from the
   manuals (no server in the sandbox).  An unterminated `[` matches nothing. *)
Fixpoint class_split (p : str) (acc : str) : option (str * str) :=
  match p with
  | [] => None
  | c :: r => if c =? 93 then Some (rev acc, r) else class_split r (c :: acc)
  end.
Fixpoint class_has (eqc : ch -> ch -> bool) (cls : str) (x : ch) : bool :=
  match cls with
  | [] => false
  | a :: r =>
      match r with
      | m :: r2 =>
          if m =? c_minus then
            match r2 with
            | b :: r3 => ((a <=? x) && (x <=? b)) || class_has eqc r3 x
            | [] => eqc a x || eqc m x
            end
          else eqc a x || class_has eqc r x
      | [] => eqc a x
      end
  end.
Definition class_match (eqc : ch -> ch -> bool) (cls : str) (x : ch) : bool :=
  match cls with
  | c :: r => if c =? 94 then negb (class_has eqc r x) else class_has eqc cls x
  | [] => false
  end.

Fixpoint tsql_like_fuel (f : nat) (eqc : ch -> ch -> bool) (esc : option ch) (p t : str) : option bool :=
  match f with
  | O => None
  | S f' =>
      match p with
      | [] => Some (match t with [] => true | _ :: _ => false end)
      | c :: p' =>
          if is_esc esc c then
            match p' with
            | c2 :: p'' => match t with
                           | x :: t' => if eqc c2 x then tsql_like_fuel f' eqc esc p'' t' else Some false
                           | [] => Some false
                           end
            | [] => Some false
            end
          else if c =? c_pct then
            (fix star (t : str) : option bool :=
               match tsql_like_fuel f' eqc esc p' t with
               | None => None
               | Some true => Some true
               | Some false => match t with [] => Some false | _ :: t' => star t' end
               end) t
          else if c =? c_us then
            match t with _ :: t' => tsql_like_fuel f' eqc esc p' t' | [] => Some false end
          else if c =? c_lbr then
            match class_split p' [] with
            | Some (cls, p'') =>
                match t with
                | x :: t' => if class_match eqc cls x then tsql_like_fuel f' eqc esc p'' t' else Some false
                | [] => Some false
                end
            | None => Some false
            end
          else
            match t with
            | x :: t' => if eqc c x then tsql_like_fuel f' eqc esc p' t' else Some false
            | [] => Some false
            end
      end
  end.
Definition tsql_like (eqc : ch -> ch -> bool) (esc : option ch) (p t : str) : option bool :=
  tsql_like_fuel (S (length p)) eqc esc p t.
