(* Access paths that reach a row through another object (C04): a foreign-key
   attribute and a MultipleJoin accessor.  Both funnel into SQLObject.get, and
   the model says so: they are compositions of the operations of Model/Orm.v.

     obj.<fk>        main.py _SO_foreignKey:   value = obj.<fk>ID (an attribute read);
                                               None -> None, else joinClass.get(value)
     obj.<join>      joins.py SOMultipleJoin.performJoin:
                                               ids = SELECT id FROM other WHERE col = obj.id
                                               [otherClass.get(id) for id in ids]

     Cls.<idx>.get(v)  index.py SODatabaseIndex.get (a unique DatabaseIndex):
                                               Cls.selectBy(u=v).getOne(): ONE select (no ORDER BY), every row through
                                               get(id, selectResults=row); 0 rows -> not-found, 2+ -> integrity error

   The fixture uses column a (index 0) as the referencing column of every class
   and declares the unique index on column u (index 1). *)
From Coq Require Import List ZArith Bool.
From Model Require Import Orm.
Import ListNotations.
Open Scope Z_scope.

Inductive path :=
| PFk (h : nat) (k' : kind)                        (* slots[h].a followed to class k' -> new slot *)
| PJoin (h : nat) (k' : kind) (keep : option nat)  (* the k' rows whose a = slots[h].id; keep the n-th in a new slot *)
| PIndex (k : kind) (u : Z).                       (* k.uIdx.get(u): the row of k whose u = u -> new slot *)

Inductive pop :=
| PBase (o : op)
| PPath (p : path)
| PFaultPath (n : nat) (p : path).                 (* run p with the n-th statement failing *)

Section WithConfig.
Variable cfg : config.

Definition so_fk (o : nat) (k' : kind) : M (option nat) :=
  v <- so_read o 0%nat ;;
  match v with
  | VNull => ret None
  | VInt id => x <- so_get cfg k' id None [] ;; ret (Some x)
  | VBad => raise EValue
  end.

(* the list being built keeps the objects fetched so far alive *)
Fixpoint get_each (k : kind) (ids : list Z) (acc : list nat) : M (list nat) :=
  match ids with
  | [] => ret acc
  | id :: rest => o <- so_get cfg k id None acc ;; get_each k rest (acc ++ [o])
  end.

Definition join_ids (s : st) (k' : kind) (id : Z) : list Z :=
  map fst (sort_by_id (filter (fun e => val_eqb (nth 0%nat (snd e) VNull) (VInt id)) (t_rows (tbl s k')))).

Definition so_join (o : nat) (k' : kind) : M (list nat) :=
  i <- gets (fun s => get_inst s o) ;;
  statement (SSelect k') ;;;
  ids <- gets (fun s => join_ids s k' (i_id i)) ;;
  get_each k' ids [].

(* the unique-index lookup: selectBy(u = v).getOne() *)
Definition index_rows (s : st) (k : kind) (u : Z) : list (Z * row) :=
  filter (fun e => val_eqb (nth 1%nat (snd e) VNull) (VInt u)) (t_rows (tbl s k)).

Definition so_index (k : kind) (u : Z) : M (option nat) :=
  statement (SSelect k) ;;;
  rows <- gets (fun s => index_rows s k u) ;;
  objs <- select_rows cfg k rows [] ;;
  match objs with
  | [] => raise ENotFound
  | [o] => ret (Some o)
  | _ => raise EIntegrity          (* SQLObjectIntegrityError: more than one result *)
  end.

(* a slot-creating operation always creates its slot *)
Definition hold_opt (m : M (option nat)) : M outv :=
  fun s => match m s with
           | (Ret (Some o), s') => hold o s'
           | (Ret None, s') => (Ret RNone, with_slots s' (slots s' ++ [None]))
           | (Raise e, s') => (Raise e, with_slots s' (slots s' ++ [None]))
           end.

Definition run_path (p : path) : M outv :=
  match p with
  | PFk h k' =>
      hold_opt (o <- handle h ;; so_fk o k')
  | PIndex k u => hold_opt (so_index k u)
  | PJoin h k' keep =>
      or_empty_slot (match keep with Some _ => true | None => false end) (
      o <- handle h ;;
      objs <- so_join o k' ;;
      s <- gets (fun s => s) ;;
      let out := map (fun x => (i_id (get_inst s x), slot_of s x)) objs in
      match keep with
      | Some n => match nth_error objs n with
                  | Some x => modify (fun s => with_slots s (slots s ++ [Some x])) ;;; ret (RObjs out)
                  | None => modify (fun s => with_slots s (slots s ++ [None])) ;;; ret (RObjs out)
                  end
      | None => ret (RObjs out)
      end)
  end.

Definition prun_op (o : pop) : M outv :=
  match o with
  | PBase o => run_op cfg 2 o
  | PPath p => run_path p
  | PFaultPath n p => modify (fun s => with_fault s (Some n)) ;;; finally (run_path p) (fun s => with_fault s None)
  end.

Definition pstep (s : st) (o : pop) : res outv * st :=
  prun_op o (with_fault (with_log s []) None).

Definition prun (ops : list pop) : st := fold_left (fun s o => snd (pstep s o)) ops init.

End WithConfig.
