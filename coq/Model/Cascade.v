(* C12 -- destroySelf and the cascade policy.  Definitions only.

   Part 1: schema graph and database state.
   Part 2: `destroy`, written after SQLObject.destroySelf (main.py), statement
           for statement, with the SQL statements it issues as primitive
           operations on the state.
   Part 3: the specification `destroy_spec` (closure of the victim under
           cascade=True references, refusal rule, null-outs, link cleanup),
           written without looking at the code's control flow.
   Part 4: the boolean guards used by the theorems. *)
From Coq Require Import List ZArith NArith Bool.
Import ListNotations.
Open Scope Z_scope.

(* ------------------------------------------------------------------ *)
(* Part 1: schema and state                                            *)

(* ForeignKey(..., cascade=True | False | 'null' | None) *)
Inductive policy := Cascade | Restrict | SetNull | NoAction.

Record fkcol := { fk_target : N; fk_policy : policy }.

(* RelatedJoin declared on a class: the other class, the intermediate table,
   and which of the link table's two columns is this join's joinColumn
   (false = first column, true = second); otherColumn is the opposite one. *)
Record joindef := { j_other : N; j_table : N; j_side : bool }.

Record classdef := { c_name : N; c_fks : list fkcol; c_joins : list joindef }.

(* classes in registry order (classregistry allClasses() = creation order) *)
Definition graph := list classdef.

(* a row: primary key and the foreign-key values, positionally parallel to c_fks *)
Record row := { r_id : Z; r_vals : list (option Z) }.

Definition node := (N * Z)%type.       (* class name, id *)

Record state := {
  s_tabs : list (N * list row);        (* class table, rows in rowid order *)
  s_links : list (N * list (Z * Z));   (* intermediate tables *)
  s_cache : list node                  (* instances the identity map can still hand out *)
}.

Definition is_cascade (p : policy) := match p with Cascade => true | _ => false end.
Definition is_restrict (p : policy) := match p with Restrict => true | _ => false end.
Definition is_setnull (p : policy) := match p with SetNull => true | _ => false end.
Definition is_noaction (p : policy) := match p with NoAction => true | _ => false end.

Definition is_nil {A} (l : list A) : bool := match l with [] => true | _ => false end.

Definition node_eqb (a b : node) : bool := N.eqb (fst a) (fst b) && Z.eqb (snd a) (snd b).
Definition mem (p : node) (l : list node) : bool := existsb (node_eqb p) l.

Definition val_is (v : option Z) (x : Z) : bool :=
  match v with Some y => Z.eqb y x | None => false end.

Definition find_class (g : graph) (n : N) : option classdef :=
  find (fun k => N.eqb (c_name k) n) g.
Definition cols_of (g : graph) (n : N) : list fkcol :=
  match find_class g n with Some k => c_fks k | None => [] end.
Definition joins_of (g : graph) (n : N) : list joindef :=
  match find_class g n with Some k => c_joins k | None => [] end.

Definition table (st : state) (n : N) : list row :=
  match find (fun e => N.eqb (fst e) n) (s_tabs st) with Some e => snd e | None => [] end.
Definition link_table (st : state) (n : N) : list (Z * Z) :=
  match find (fun e => N.eqb (fst e) n) (s_links st) with Some e => snd e | None => [] end.

Definition map_tabs (f : N -> list row -> list row) (st : state) : state :=
  {| s_tabs := map (fun e => (fst e, f (fst e) (snd e))) (s_tabs st);
     s_links := s_links st; s_cache := s_cache st |}.
Definition map_links (f : N -> list (Z * Z) -> list (Z * Z)) (st : state) : state :=
  {| s_tabs := s_tabs st;
     s_links := map (fun e => (fst e, f (fst e) (snd e))) (s_links st);
     s_cache := s_cache st |}.

Definition link_side (s : bool) (p : Z * Z) : Z := if s then snd p else fst p.

(* ------------------------------------------------------------------ *)
(* Part 2: the code                                                    *)

(* "DELETE FROM <t> WHERE <column s>=<x>" *)
Definition sql_delete_links (t : N) (s : bool) (x : Z) (st : state) : state :=
  map_links (fun t' ls => if N.eqb t' t then filter (fun p => negb (Z.eqb (link_side s p) x)) ls else ls) st.

(* _SO_delete: "DELETE FROM <k> WHERE id=<x>" *)
Definition sql_delete_row (k : N) (x : Z) (st : state) : state :=
  map_tabs (fun k' rs => if N.eqb k' k then filter (fun r => negb (Z.eqb (r_id r) x)) rs else rs) st.

(* cache.purge(id, cls): CacheFactory.purge drops the strong entry (kept when
   doCache) and the weak entry (kept in either mode): whatever the connection's
   cache= setting, the instance can no longer be handed out *)
Definition cache_purge (doCache : bool) (p : node) (st : state) : state :=
  {| s_tabs := s_tabs st; s_links := s_links st;
     s_cache := filter (fun q => negb (node_eqb q p)) (s_cache st) |}.

(* findDependantColumns(name, klass) *)
Definition collected (name : N) (c : fkcol) : bool :=
  N.eqb (fk_target c) name && negb (is_noaction (fk_policy c)).
Definition dep_cols (name : N) (k : classdef) : list fkcol := filter (collected name) (c_fks k).

(* findDependencies(name, registry) *)
Definition is_dependent (name : N) (k : classdef) : bool :=
  negb (is_nil (dep_cols name k)) || existsb (fun j => N.eqb (j_other j) name) (c_joins k).
Definition find_dependencies (name : N) (g : graph) : list classdef := filter (is_dependent name) g.

(* k.select(OR(col_1 == id, ..., col_n == id)) over the collected columns *)
Definition row_matches (name : N) (x : Z) (k : classdef) (r : row) : bool :=
  existsb (fun cv => collected name (fst cv) && val_is (snd cv) x) (combine (c_fks k) (r_vals r)).
Definition select_matching (name : N) (x : Z) (k : classdef) (st : state) : list row :=
  filter (row_matches name x k) (table st (c_name k)).

(* k.select(OR(col == id for the cascade=False columns)) *)
Definition row_restricts (name : N) (x : Z) (k : classdef) (r : row) : bool :=
  existsb (fun cv => is_restrict (fk_policy (fst cv)) && N.eqb (fk_target (fst cv)) name && val_is (snd cv) x)
          (combine (c_fks k) (r_vals r)).
Definition select_restricting (name : N) (x : Z) (k : classdef) (st : state) : list row :=
  filter (row_restricts name x k) (table st (c_name k)).

(* Values after setting to NULL every SetNull column c whose current value y
   satisfies P (fk_target c) y. *)
Fixpoint null_vals (P : N -> Z -> bool) (cols : list fkcol) (vals : list (option Z)) {struct vals}
  : list (option Z) :=
  match vals with
  | [] => []
  | v :: vs =>
      match cols with
      | [] => v :: vs
      | c :: cs =>
          (match v with
           | Some y => if is_setnull (fk_policy c) && P (fk_target c) y then None else v
           | None => None
           end) :: null_vals P cs vs
      end
  end.
Definition null_row (P : N -> Z -> bool) (cols : list fkcol) (r : row) : row :=
  {| r_id := r_id r; r_vals := null_vals P cols (r_vals r) |}.

(* row.set of the dict `clear`, clear = the cascade='null' columns of the row that hold
   self.id: "UPDATE <k> SET ... = NULL WHERE id = <i>" *)
Definition sql_null_row (k : classdef) (name : N) (x : Z) (i : Z) (st : state) : state :=
  map_tabs (fun n rs =>
    if N.eqb n (c_name k)
    then map (fun r => if Z.eqb (r_id r) i
                       then null_row (fun t y => N.eqb t name && Z.eqb y x) (c_fks k) r else r) rs
    else rs) st.

Inductive result := Done (st : state) | Raised (st : state) | OutOfFuel.

(* a `for` loop whose body may raise *)
Fixpoint run_list {A : Type} (body : A -> state -> result) (l : list A) (st : state) : result :=
  match l with
  | [] => Done st
  | a :: rest =>
      match body a st with
      | Done st' => run_list body rest st'
      | other => other
      end
  end.

(* body of `for k in depends:`; `rec` is row.destroySelf() *)
Definition dep_step (rec : state -> node -> result) (name : N) (x : Z) (k : classdef) (st : state) : result :=
  (* free related joins *)
  let st1 := fold_left (fun s j => if N.eqb (j_other j) name
                                   then sql_delete_links (j_table j) (negb (j_side j)) x s else s)
                       (c_joins k) st in
  let cols := dep_cols name k in
  if is_nil cols then Done st1
  else
    let restrict := existsb (fun c => is_restrict (fk_policy c)) cols in
    (* results = k.select(query);
       if restrict and k.select(OR of restrict).count(): raise *)
    if restrict && negb (is_nil (select_restricting name x k st1)) then Raised st1
    else
      let st2 :=
        if existsb (fun c => is_setnull (fk_policy c)) cols
        then fold_left (fun s r => sql_null_row k name x (r_id r) s) (select_matching name x k st1) st1
        else st1 in
      if existsb (fun c => is_cascade (fk_policy c)) cols
      then (* `for row in results` materialises the second SELECT, then destroys each *)
           run_list (fun i s => rec s (c_name k, i)) (map r_id (select_matching name x k st2)) st2
      else Done st2.

Fixpoint destroy (doCache : bool) (fuel : nat) (g : graph) (st : state) (p : node) : result :=
  match fuel with
  | O => OutOfFuel
  | S f =>
      let name := fst p in
      let x := snd p in
      (* free related joins on the base class *)
      let st1 := fold_left (fun s j => sql_delete_links (j_table j) (j_side j) x s) (joins_of g name) st in
      match run_list (dep_step (destroy doCache f g) name x) (find_dependencies name g) st1 with
      | Done st2 => Done (cache_purge doCache p (sql_delete_row name x st2))
      | other => other
      end
  end.

(* Class.get(id) afterwards: a cached instance is handed out without looking
   at the database; otherwise the row is selected. *)
Definition row_exists (st : state) (p : node) : bool :=
  existsb (fun r => Z.eqb (r_id r) (snd p)) (table st (fst p)).
Definition get_found (st : state) (p : node) : bool := mem p (s_cache st) || row_exists st p.

(* ------------------------------------------------------------------ *)
(* Part 3: the specification                                           *)

(* row r of class k references (name, x) through a column with policy test *)
Definition refs_by (test : policy -> bool) (name : N) (x : Z) (k : classdef) (r : row) : bool :=
  existsb (fun cv => test (fk_policy (fst cv)) && N.eqb (fk_target (fst cv)) name && val_is (snd cv) x)
          (combine (c_fks k) (r_vals r)).

(* the rows that reference p through a cascade=True foreign key *)
Definition children (g : graph) (st : state) (p : node) : list node :=
  flat_map (fun k => map (fun r => (c_name k, r_id r))
                         (filter (refs_by is_cascade (fst p) (snd p) k) (table st (c_name k)))) g.

Definition all_nodes (g : graph) (st : state) : list node :=
  flat_map (fun k => map (fun r => (c_name k, r_id r)) (table st (c_name k))) g.

Definition add_new (acc : list node) (q : node) : list node := if mem q acc then acc else acc ++ [q].
Definition grow (g : graph) (st : state) (s : list node) : list node :=
  fold_left add_new (flat_map (children g st) s) s.
Fixpoint iter_grow (n : nat) (g : graph) (st : state) (s : list node) : list node :=
  match n with O => s | S m => iter_grow m g st (grow g st s) end.

(* D: the victim and everything that references it, transitively, through cascade=True *)
Definition closure (g : graph) (st : state) (p : node) : list node :=
  iter_grow (length (all_nodes g st)) g st [p].

(* some row of D is referenced through a cascade=False foreign key (by any row) *)
Definition restricted (g : graph) (st : state) (D : list node) : bool :=
  existsb (fun d => existsb (fun k => existsb (refs_by is_restrict (fst d) (snd d) k) (table st (c_name k))) g) D.

(* the accumulated effect of deletions: which rows go, which SetNull
   references are nulled (per holder class), which link rows go (per table and side) *)
Record sigma := {
  sg_del : N -> Z -> bool;
  sg_null : N -> N -> Z -> bool;
  sg_link : N -> bool -> Z -> bool
}.

Definition apply (doCache : bool) (g : graph) (sg : sigma) (st : state) : state :=
  {| s_tabs := map (fun e => (fst e, map (null_row (sg_null sg (fst e)) (cols_of g (fst e)))
                                         (filter (fun r => negb (sg_del sg (fst e) (r_id r))) (snd e))))
                   (s_tabs st);
     s_links := map (fun e => (fst e, filter (fun p => negb (sg_link sg (fst e) false (fst p)
                                                         || sg_link sg (fst e) true (snd p))) (snd e)))
                    (s_links st);
     s_cache := filter (fun q => negb (sg_del sg (fst q) (snd q))) (s_cache st) |}.

(* class `name` sits on side s of link table t in some declared RelatedJoin
   (as the declaring class or as the other class) *)
Definition hitb (g : graph) (name : N) (t : N) (s : bool) : bool :=
  existsb (fun a => existsb (fun j =>
     N.eqb (j_table j) t &&
     ((N.eqb (c_name a) name && Bool.eqb (j_side j) s) ||
      (N.eqb (j_other j) name && Bool.eqb (negb (j_side j)) s))) (c_joins a)) g.

Definition full (g : graph) (D : list node) : sigma :=
  {| sg_del := fun k i => mem (k, i) D;
     sg_null := fun _ t y => mem (t, y) D;
     sg_link := fun t s y => existsb (fun q => Z.eqb (snd q) y && hitb g (fst q) t s) D |}.

Definition destroy_spec (doCache : bool) (g : graph) (st : state) (p : node) : result :=
  let D := closure g st p in
  if restricted g st D then Raised st else Done (apply doCache g (full g D) st).

(* ------------------------------------------------------------------ *)
(* Part 4: guards                                                      *)

Fixpoint nodup_N (l : list N) : bool :=
  match l with [] => true | a :: r => negb (existsb (N.eqb a) r) && nodup_N r end.
(* class names are unique in a registry (addClass raises otherwise);
   table names are unique *)
Definition wf_graph (g : graph) : bool := nodup_N (map c_name g).
Definition wf_state (st : state) : bool := nodup_N (map fst (s_tabs st)).

(* every chain of cascade=True references below p is shorter than f *)
Fixpoint boundedb (f : nat) (g : graph) (st : state) (p : node) : bool :=
  match f with
  | O => false
  | S f' => forallb (boundedb f' g st) (children g st p)
  end.
(* no row-level cascade cycle can be reached from p *)
Definition acyclicb (g : graph) (st : state) (p : node) : bool :=
  boundedb (S (length (all_nodes g st))) g st p.

(* no link row mentions p on a side where a declared join puts p's class *)
Definition no_links_of (g : graph) (st : state) (p : node) : bool :=
  forallb (fun e => forallb (fun l =>
     negb ((hitb g (fst p) (fst e) false && Z.eqb (fst l) (snd p)) ||
           (hitb g (fst p) (fst e) true && Z.eqb (snd l) (snd p)))) (snd e)) (s_links st).
(* a refusal that is noticed before anything was written: the victim has no
   link rows, some row references it through a cascade=False column, and every
   class holding a row that references the victim through a collected column
   holds one that does so through a cascade=False column *)
Definition immediate_refusal (g : graph) (st : state) (p : node) : bool :=
  no_links_of g st p &&
  existsb (fun k => negb (is_nil (select_restricting (fst p) (snd p) k st))) g &&
  forallb (fun k => is_nil (select_matching (fst p) (snd p) k st) ||
                    negb (is_nil (select_restricting (fst p) (snd p) k st))) g.

Definition guard_ok (g : graph) (st : state) (p : node) : bool :=
  acyclicb g st p &&
  (negb (restricted g st (closure g st p)) || immediate_refusal g st p).

(* ------------------------------------------------------------------ *)
(* Part 5: class options on the dependent classes                      *)
(* sqlmeta.lazyUpdate / sqlmeta.cacheValues per class; the options are part
   of the schema.  A class that is not listed has the defaults. *)
Record copts := { o_lazy : bool; o_cachevals : bool }.
Definition options := list (N * copts).
Definition opts_of (os : options) (n : N) : copts :=
  match find (fun e => N.eqb (fst e) n) os with
  | Some e => snd e
  | None => {| o_lazy := false; o_cachevals := true |}
  end.
Definition lazy_of (os : options) (n : N) : bool := o_lazy (opts_of os n).
Definition cachevals_of (os : options) (n : N) : bool := o_cachevals (opts_of os n).

(* _SO_createValues of a live instance of a lazyUpdate class, positionally
   parallel to c_fks: None = nothing queued for the column, Some v = the
   assignment `column = v` is queued (not written) *)
Definition qentry := list (option (option Z)).
Definition queue := list (node * qentry).
Definition qfind (q : queue) (p : node) : option qentry :=
  match find (fun e => node_eqb (fst e) p) q with Some e => Some (snd e) | None => None end.

(* what the instance answers for its columns: the row with the queued values on top *)
Fixpoint overlay (vals : list (option Z)) (qs : qentry) {struct vals} : list (option Z) :=
  match vals with
  | [] => []
  | v :: vs =>
      match qs with
      | [] => v :: vs
      | Some w :: ws => w :: overlay vs ws
      | None :: ws => v :: overlay vs ws
      end
  end.
(* getattr(row, name): with cacheValues the cached attribute (a dirty instance is not
   refreshed by a select, main.py get()); without it a SELECT of the stored value *)
Definition view (os : options) (q : queue) (p : node) (vals : list (option Z)) : list (option Z) :=
  if cachevals_of os (fst p)
  then match qfind q p with Some qs => overlay vals qs | None => vals end
  else vals.

(* the dict `clear`: the cascade='null' columns to `name` whose attribute equals self.id *)
Fixpoint clear_flags (name : N) (x : Z) (cols : list fkcol) (vw : list (option Z)) {struct cols} : list bool :=
  match cols with
  | [] => []
  | c :: cs =>
      match vw with
      | [] => []
      | v :: vs => (is_setnull (fk_policy c) && N.eqb (fk_target c) name && val_is v x) :: clear_flags name x cs vs
      end
  end.
Fixpoint qmerge (flags : list bool) (qs : qentry) {struct flags} : qentry :=
  match flags with
  | [] => qs
  | f :: fs =>
      (if f then Some None else match qs with [] => None | h :: _ => h end)
        :: qmerge fs (match qs with [] => [] | _ :: t => t end)
  end.
(* row.set of the dict `clear` on a lazyUpdate instance: _SO_createValues.update(clear), nothing written *)
Definition qupd (q : queue) (p : node) (flags : list bool) : queue :=
  if existsb (fun b => b) flags
  then (p, qmerge flags (match qfind q p with Some e => e | None => [] end))
         :: filter (fun e => negb (node_eqb (fst e) p)) q
  else q.

(* the SetNull pass over a lazyUpdate class: every selected row's instance gets the NULLs
   queued; an instance nobody holds on a cache=False connection is dropped with its queue *)
Definition lazy_null_pass (os : options) (doCache : bool) (name : N) (x : Z) (k : classdef)
           (st : state) (q : queue) : queue :=
  fold_left (fun q r =>
               let p := (c_name k, r_id r) in
               if doCache || mem p (s_cache st)
               then qupd q p (clear_flags name x (c_fks k) (view os q p (r_vals r)))
               else q)
            (select_matching name x k st) q.

(* --- the stored state alone (what the database and the identity map see) --- *)
Definition dep_stepL (os : options) (rec : state -> node -> result) (name : N) (x : Z) (k : classdef)
           (st : state) : result :=
  let st1 := fold_left (fun s j => if N.eqb (j_other j) name
                                   then sql_delete_links (j_table j) (negb (j_side j)) x s else s)
                       (c_joins k) st in
  let cols := dep_cols name k in
  if is_nil cols then Done st1
  else
    let restrict := existsb (fun c => is_restrict (fk_policy c)) cols in
    if restrict && negb (is_nil (select_restricting name x k st1)) then Raised st1
    else
      let st2 :=
        if existsb (fun c => is_setnull (fk_policy c)) cols && negb (lazy_of os (c_name k))
        then fold_left (fun s r => sql_null_row k name x (r_id r) s) (select_matching name x k st1) st1
        else st1 in
      if existsb (fun c => is_cascade (fk_policy c)) cols
      then run_list (fun i s => rec s (c_name k, i)) (map r_id (select_matching name x k st2)) st2
      else Done st2.

Fixpoint destroyL (os : options) (doCache : bool) (fuel : nat) (g : graph) (st : state) (p : node) : result :=
  match fuel with
  | O => OutOfFuel
  | S f =>
      let name := fst p in
      let x := snd p in
      let st1 := fold_left (fun s j => sql_delete_links (j_table j) (j_side j) x s) (joins_of g name) st in
      match run_list (dep_stepL os (destroyL os doCache f g) name x) (find_dependencies name g) st1 with
      | Done st2 => Done (cache_purge doCache p (sql_delete_row name x st2))
      | other => other
      end
  end.

(* --- the same with the queues of the live instances --- *)
Inductive xresult := XDone (st : state) (q : queue) | XRaised (st : state) (q : queue) | XOutOfFuel.
Definition xproj (r : xresult) : result :=
  match r with XDone st _ => Done st | XRaised st _ => Raised st | XOutOfFuel => OutOfFuel end.

Fixpoint run_listX {A : Type} (body : A -> state -> queue -> xresult) (l : list A) (st : state) (q : queue)
  : xresult :=
  match l with
  | [] => XDone st q
  | a :: rest =>
      match body a st q with
      | XDone st' q' => run_listX body rest st' q'
      | other => other
      end
  end.

Definition dep_stepX (os : options) (doCache : bool) (rec : state -> queue -> node -> xresult)
           (name : N) (x : Z) (k : classdef) (st : state) (q : queue) : xresult :=
  let st1 := fold_left (fun s j => if N.eqb (j_other j) name
                                   then sql_delete_links (j_table j) (negb (j_side j)) x s else s)
                       (c_joins k) st in
  let cols := dep_cols name k in
  if is_nil cols then XDone st1 q
  else
    let restrict := existsb (fun c => is_restrict (fk_policy c)) cols in
    if restrict && negb (is_nil (select_restricting name x k st1)) then XRaised st1 q
    else
      let hasnull := existsb (fun c => is_setnull (fk_policy c)) cols in
      let st2 :=
        if hasnull && negb (lazy_of os (c_name k))
        then fold_left (fun s r => sql_null_row k name x (r_id r) s) (select_matching name x k st1) st1
        else st1 in
      let q2 :=
        if hasnull && lazy_of os (c_name k)
        then lazy_null_pass os doCache name x k st1 q
        else q in
      if existsb (fun c => is_cascade (fk_policy c)) cols
      then run_listX (fun i s q' => rec s q' (c_name k, i)) (map r_id (select_matching name x k st2)) st2 q2
      else XDone st2 q2.

Fixpoint destroyX (os : options) (doCache : bool) (fuel : nat) (g : graph) (st : state) (q : queue) (p : node)
  : xresult :=
  match fuel with
  | O => XOutOfFuel
  | S f =>
      let name := fst p in
      let x := snd p in
      let st1 := fold_left (fun s j => sql_delete_links (j_table j) (j_side j) x s) (joins_of g name) st in
      match run_listX (dep_stepX os doCache (destroyX os doCache f g) name x) (find_dependencies name g) st1 q with
      | XDone st2 q2 => XDone (cache_purge doCache p (sql_delete_row name x st2))
                              (filter (fun e => negb (node_eqb (fst e) p)) q2)
      | other => other
      end
  end.

(* syncUpdate() of every live instance: "UPDATE <k> SET <queued columns> WHERE id = <i>"
   (no row, no effect) *)
Definition flush (q : queue) (st : state) : state :=
  fold_left (fun s e =>
     map_tabs (fun n rs =>
        if N.eqb n (fst (fst e))
        then map (fun r => if Z.eqb (r_id r) (snd (fst e))
                           then {| r_id := r_id r; r_vals := overlay (r_vals r) (snd e) |} else r) rs
        else rs) s) q st.

(* some lazyUpdate class has a cascade='null' column *)
Definition lazy_nulls (os : options) (g : graph) : bool :=
  existsb (fun k => lazy_of os (c_name k) && existsb (fun c => is_setnull (fk_policy c)) (c_fks k)) g.

(* ------------------------------------------------------------------ *)
(* Part 6: destroySelf of an instance bound to a Transaction            *)
(* The classes' connection (the parent) holds s_cache; the victim is fetched through
   the transaction, whose own cache starts empty.  Normal return: commit() --
   Transaction.commit calls expire() on the parent's instance of every id in the
   transaction's cache or in _deletedCache; CacheFactory.expire drops the entry only
   when the parent caches (doCache).  Exception: rollback(). *)
Definition with_cache (st : state) (c : list node) : state :=
  {| s_tabs := s_tabs st; s_links := s_links st; s_cache := c |}.
Definition commit_parent (doCache : bool) (st0 st' : state) : list node :=
  if doCache then filter (row_exists st') (s_cache st0) else s_cache st0.
Definition destroy_txn (os : options) (doCache : bool) (fuel : nat) (g : graph) (st : state) (p : node) : result :=
  match destroyX os doCache fuel g (with_cache st []) [] p with
  | XDone st' _ => Done (with_cache st' (commit_parent doCache st st'))
  | XRaised _ _ => Raised st
  | XOutOfFuel => OutOfFuel
  end.
