(* Model/Orm.v -- object life-cycle, identity-map cache and row storage of one
   SQLObject connection, transcribed operation by operation from
   sqlobject/main.py (get/_init/_SO_loadValue/_SO_getValue/_SO_setValue/set/
   sync/syncUpdate/expire/_create/_SO_finishCreate/destroySelf/__getstate__/
   __setstate__), sqlobject/cache.py (CacheFactory/CacheSet) and
   dbconnection.Iteration.  Definitions only.

   Fixture: three classes of identical shape (columns a : Int default None,
   u : Int alternateID (unique, NOT NULL, no default), n : Int notNone default 0)
   differing in sqlmeta: Eager, Lazy (lazyUpdate), NoCV (cacheValues=False). *)
From Coq Require Import List ZArith Bool.
Import ListNotations.
Open Scope Z_scope.

(* ------------------------------------------------------------------ values *)
Inductive val := VNull | VInt (z : Z) | VBad.   (* VBad: a Python value the validator rejects *)
Definition val_eqb (a b : val) : bool :=
  match a, b with
  | VNull, VNull => true | VInt x, VInt y => x =? y | VBad, VBad => true | _, _ => false end.

Inductive kind := Eager | Lazy | NoCV.
Definition kind_idx (k : kind) : nat := match k with Eager => 0 | Lazy => 1 | NoCV => 2 end%nat.
Definition kind_eqb (a b : kind) : bool := Nat.eqb (kind_idx a) (kind_idx b).
Definition is_lazy (k : kind) := match k with Lazy => true | _ => false end.
Definition cache_values (k : kind) := match k with NoCV => false | _ => true end.

(* columns by creation order: 0 = a, 1 = u, 2 = n *)
Definition ncols : nat := 3.
Definition col_notnull (c : nat) : bool := match c with 0%nat => false | _ => true end.
Definition col_unique (c : nat) : bool := match c with 1%nat => true | _ => false end.
Definition col_default (c : nat) : option val :=
  match c with 0%nat => Some VNull | 1%nat => None | _ => Some (VInt 0) end.

Definition row := list val.

(* ------------------------------------------------------------------ exceptions, statements *)
Inductive exc :=
| ENotFound | EInvalid | EDuplicate | EIntegrity | EOperational (* injected fault *)
| EAssertion | EValue | ETypeError | EAttribute | EKey | EBadHandle.

Inductive stmt :=
| SSelectOne (k : kind) (id : Z) (cols : list nat)
| SSelect (k : kind)                       (* select over the class, any filter *)
| SSelectAlt (k : kind)
| SInsert (k : kind) (cols : list nat)
| SUpdate (k : kind) (id : Z) (cols : list nat)
| SDelete (k : kind) (id : Z).

(* one component per class *)
Record triple (X : Type) := { xE : X; xL : X; xN : X }.
Arguments xE {X}. Arguments xL {X}. Arguments xN {X}.
Definition tget {X} (k : kind) (t : triple X) : X := match k with Eager => xE t | Lazy => xL t | NoCV => xN t end.
Definition tset {X} (k : kind) (x : X) (t : triple X) : triple X :=
  match k with
  | Eager => {| xE := x; xL := xL t; xN := xN t |}
  | Lazy => {| xE := xE t; xL := x; xN := xN t |}
  | NoCV => {| xE := xE t; xL := xL t; xN := x |}
  end.
Definition tlist {X} (t : triple X) : list X := [xE t; xL t; xN t].
Definition tmap {X Y} (f : X -> Y) (t : triple X) : triple Y := {| xE := f (xE t); xL := f (xL t); xN := f (xN t) |}.

(* ------------------------------------------------------------------ state *)
Record table := { t_rows : list (Z * row); t_next : Z }.

Record inst := {
  i_k : kind; i_id : Z;
  i_vals : list (option val);        (* the _SO_val_<col> attributes; None = attribute absent *)
  i_dirty : bool; i_expired : bool; i_obsolete : bool;
  i_pending : list (nat * val);      (* _SO_createValues, in dict order *)
  i_cv : bool                        (* the _SO_createValues attribute exists *)
}.

Record cachef := {
  c_present : bool;                  (* a CacheFactory exists for the class *)
  c_strong : list (Z * nat);         (* CacheFactory.cache, dict order *)
  c_weak : list (Z * nat);           (* CacheFactory.expiredCache (weak references) *)
  c_count : Z; c_offset : Z
}.

Record config := { doCache : bool; cullFreq : Z; cullFrac : Z }.

Record pickled := { p_k : kind; p_id : Z; p_vals : list (option val) }.

Record st := {
  heap : list inst;                  (* object reference = index *)
  slots : list (option nat);         (* references the application holds *)
  tables : triple table;
  caches : triple cachef;
  pickles : list pickled;
  log : list stmt;                   (* statements of the current operation, newest first *)
  fault : option nat                 (* fail the statement whose 0-based index in this operation is ... *)
}.

Definition empty_table := {| t_rows := []; t_next := 1 |}.
Definition empty_cache := {| c_present := false; c_strong := []; c_weak := []; c_count := 0; c_offset := 0 |}.
Definition init : st :=
  {| heap := []; slots := [];
     tables := {| xE := empty_table; xL := empty_table; xN := empty_table |};
     caches := {| xE := empty_cache; xL := empty_cache; xN := empty_cache |};
     pickles := []; log := []; fault := None |}.

(* ------------------------------------------------------------------ small list helpers *)
Fixpoint set_nth {X} (n : nat) (x : X) (l : list X) : list X :=
  match l, n with
  | [], _ => []
  | _ :: r, O => x :: r
  | y :: r, S n' => y :: set_nth n' x r
  end.
Fixpoint assoc {X} (id : Z) (l : list (Z * X)) : option X :=
  match l with [] => None | (k, v) :: r => if k =? id then Some v else assoc id r end.
Fixpoint assoc_remove {X} (id : Z) (l : list (Z * X)) : list (Z * X) :=
  match l with [] => [] | (k, v) :: r => if k =? id then assoc_remove id r else (k, v) :: assoc_remove id r end.
(* dict assignment: keep the position of an existing key, append a new one *)
Fixpoint assoc_set {X} (id : Z) (x : X) (l : list (Z * X)) : list (Z * X) :=
  match l with
  | [] => [(id, x)]
  | (k, v) :: r => if k =? id then (k, x) :: r else (k, v) :: assoc_set id x r
  end.
Fixpoint nassoc {X} (c : nat) (l : list (nat * X)) : option X :=
  match l with [] => None | (k, v) :: r => if Nat.eqb k c then Some v else nassoc c r end.
Fixpoint nassoc_set {X} (c : nat) (x : X) (l : list (nat * X)) : list (nat * X) :=
  match l with
  | [] => [(c, x)]
  | (k, v) :: r => if Nat.eqb k c then (k, x) :: r else (k, v) :: nassoc_set c x r
  end.
Fixpoint mem_nat (n : nat) (l : list nat) : bool :=
  match l with [] => false | x :: r => Nat.eqb x n || mem_nat n r end.
Fixpoint insert_sorted (c : nat) (l : list nat) : list nat :=
  match l with [] => [c] | x :: r => if Nat.leb c x then (if Nat.eqb c x then l else c :: l) else x :: insert_sorted c r end.
Definition sort_cols (l : list nat) : list nat := fold_right insert_sorted [] l.

(* ------------------------------------------------------------------ the result monad *)
Inductive res (A : Type) := Ret (a : A) | Raise (e : exc).
Arguments Ret {A}. Arguments Raise {A}.
Definition M (A : Type) := st -> res A * st.
Definition ret {A} (a : A) : M A := fun s => (Ret a, s).
Definition raise {A} (e : exc) : M A := fun s => (Raise e, s).
Definition bind {A B} (m : M A) (f : A -> M B) : M B :=
  fun s => match m s with (Ret a, s') => f a s' | (Raise e, s') => (Raise e, s') end.
Notation "x <- m ;; k" := (bind m (fun x => k)) (at level 61, m at next level, right associativity).
Notation "m ;;; k" := (bind m (fun _ => k)) (at level 61, right associativity).
Definition gets {A} (f : st -> A) : M A := fun s => (Ret (f s), s).
Definition modify (f : st -> st) : M unit := fun s => (Ret tt, f s).
(* try ... finally-like: run m, then always run cleanup (which cannot raise) *)
Definition finally {A} (m : M A) (cleanup : st -> st) : M A :=
  fun s => match m s with (r, s') => (r, cleanup s') end.

(* ------------------------------------------------------------------ state accessors *)
Definition tbl (s : st) (k : kind) : table := tget k (tables s).
Definition cch (s : st) (k : kind) : cachef := tget k (caches s).
Definition with_tables (s : st) t := {| heap := heap s; slots := slots s; tables := t; caches := caches s; pickles := pickles s; log := log s; fault := fault s |}.
Definition with_caches (s : st) c := {| heap := heap s; slots := slots s; tables := tables s; caches := c; pickles := pickles s; log := log s; fault := fault s |}.
Definition with_heap (s : st) h := {| heap := h; slots := slots s; tables := tables s; caches := caches s; pickles := pickles s; log := log s; fault := fault s |}.
Definition with_slots (s : st) x := {| heap := heap s; slots := x; tables := tables s; caches := caches s; pickles := pickles s; log := log s; fault := fault s |}.
Definition with_pickles (s : st) x := {| heap := heap s; slots := slots s; tables := tables s; caches := caches s; pickles := x; log := log s; fault := fault s |}.
Definition with_log (s : st) x := {| heap := heap s; slots := slots s; tables := tables s; caches := caches s; pickles := pickles s; log := x; fault := fault s |}.
Definition with_fault (s : st) x := {| heap := heap s; slots := slots s; tables := tables s; caches := caches s; pickles := pickles s; log := log s; fault := x |}.
Definition set_tbl (k : kind) (t : table) : M unit := modify (fun s => with_tables s (tset k t (tables s))).
Definition set_cch (k : kind) (c : cachef) : M unit := modify (fun s => with_caches s (tset k c (caches s))).

Definition blank_inst (k : kind) (id : Z) : inst :=
  {| i_k := k; i_id := id; i_vals := [None; None; None]; i_dirty := false; i_expired := false;
     i_obsolete := false; i_pending := []; i_cv := true |}.
Definition get_inst (s : st) (o : nat) : inst := nth o (heap s) (blank_inst Eager 0).
Definition upd_inst (o : nat) (f : inst -> inst) : M unit :=
  modify (fun s => with_heap s (set_nth o (f (get_inst s o)) (heap s))).
Definition new_inst (i : inst) : M nat :=
  fun s => (Ret (length (heap s)), with_heap s (heap s ++ [i])).

Definition i_with_vals (i : inst) v := {| i_k := i_k i; i_id := i_id i; i_vals := v; i_dirty := i_dirty i; i_expired := i_expired i; i_obsolete := i_obsolete i; i_pending := i_pending i; i_cv := i_cv i |}.
Definition i_with_dirty (i : inst) v := {| i_k := i_k i; i_id := i_id i; i_vals := i_vals i; i_dirty := v; i_expired := i_expired i; i_obsolete := i_obsolete i; i_pending := i_pending i; i_cv := i_cv i |}.
Definition i_with_expired (i : inst) v := {| i_k := i_k i; i_id := i_id i; i_vals := i_vals i; i_dirty := i_dirty i; i_expired := v; i_obsolete := i_obsolete i; i_pending := i_pending i; i_cv := i_cv i |}.
Definition i_with_obsolete (i : inst) v := {| i_k := i_k i; i_id := i_id i; i_vals := i_vals i; i_dirty := i_dirty i; i_expired := i_expired i; i_obsolete := v; i_pending := i_pending i; i_cv := i_cv i |}.
Definition i_with_pending (i : inst) v := {| i_k := i_k i; i_id := i_id i; i_vals := i_vals i; i_dirty := i_dirty i; i_expired := i_expired i; i_obsolete := i_obsolete i; i_pending := v; i_cv := i_cv i |}.
Definition i_with_cv (i : inst) v := {| i_k := i_k i; i_id := i_id i; i_vals := i_vals i; i_dirty := i_dirty i; i_expired := i_expired i; i_obsolete := i_obsolete i; i_pending := i_pending i; i_cv := v |}.
Definition i_with_id (i : inst) v := {| i_k := i_k i; i_id := v; i_vals := i_vals i; i_dirty := i_dirty i; i_expired := i_expired i; i_obsolete := i_obsolete i; i_pending := i_pending i; i_cv := i_cv i |}.

(* ------------------------------------------------------------------ liveness (CPython refcounting) *)
Definition slot_refs (s : st) : list nat :=
  flat_map (fun x => match x with Some o => [o] | None => [] end) (slots s).
Definition strong_refs (s : st) : list nat :=
  flat_map (fun c => map snd (c_strong c)) (tlist (caches s)).
(* alive = referenced by the application, a strong cache, or a frame of the running operation *)
Definition alive (s : st) (roots : list nat) (o : nat) : bool :=
  mem_nat o roots || mem_nat o (slot_refs s) || mem_nat o (strong_refs s).

(* ------------------------------------------------------------------ the database *)
(* every statement passes here: log it, and fail it if the injected fault points at it *)
Definition statement (q : stmt) : M unit :=
  fun s =>
    let idx := length (log s) in
    let s' := with_log s (q :: log s) in
    match fault s with
    | Some n => if Nat.eqb n idx then (Raise EOperational, s') else (Ret tt, s')
    | None => (Ret tt, s')
    end.

Definition db_select_one (k : kind) (id : Z) (cols : list nat) : M (option row) :=
  statement (SSelectOne k id cols) ;;;
  gets (fun s => assoc id (t_rows (tbl s k))).

(* constraint check of a candidate row against the other rows of the table *)
Fixpoint unique_clash (c : nat) (v : val) (rows : list (Z * row)) (self : Z) : bool :=
  match rows with
  | [] => false
  | (id, r) :: rest =>
      (negb (id =? self) && val_eqb (nth c r VNull) v && negb (val_eqb v VNull)) || unique_clash c v rest self
  end.
Definition all_cols : list nat := [0; 1; 2]%nat.
Definition notnull_violation (cols : list nat) (r : row) : bool :=
  existsb (fun c => col_notnull c && val_eqb (nth c r VNull) VNull) cols.
Definition unique_violation (cols : list nat) (r : row) rows self : bool :=
  existsb (fun c => col_unique c && unique_clash c (nth c r VNull) rows self) cols.
Definition constraint_error (cols : list nat) (r : row) rows self : option exc :=
  if notnull_violation cols r then Some EIntegrity
  else if unique_violation cols r rows self then Some EDuplicate else None.

Fixpoint apply_updates (upd : list (nat * val)) (r : row) : row :=
  match upd with [] => r | (c, v) :: rest => apply_updates rest (set_nth c v r) end.

Definition db_update (k : kind) (id : Z) (upd : list (nat * val)) : M unit :=
  statement (SUpdate k id (sort_cols (map fst upd))) ;;;
  t <- gets (fun s => tbl s k) ;;
  match assoc id (t_rows t) with
  | None => ret tt                                  (* UPDATE of an absent row changes nothing *)
  | Some r =>
      let r' := apply_updates upd r in
      match constraint_error (map fst upd) r' (t_rows t) id with
      | Some e => raise e
      | None => set_tbl k {| t_rows := assoc_set id r' (t_rows t); t_next := t_next t |}
      end
  end.

(* INSERT with the given columns; the others get NULL (no SQL default is declared
   except the library-side ones, which the library always passes) *)
Definition db_insert (k : kind) (vals : list (nat * val)) : M Z :=
  statement (SInsert k (sort_cols (map fst vals))) ;;;
  t <- gets (fun s => tbl s k) ;;
  let r := apply_updates vals [VNull; VNull; VNull] in
  match constraint_error all_cols r (t_rows t) (-1) with
  | Some e => raise e
  | None =>
      let id := t_next t in
      set_tbl k {| t_rows := t_rows t ++ [(id, r)]; t_next := id + 1 |} ;;;
      ret id
  end.

Definition db_delete (k : kind) (id : Z) : M unit :=
  statement (SDelete k id) ;;;
  t <- gets (fun s => tbl s k) ;;
  set_tbl k {| t_rows := assoc_remove id (t_rows t); t_next := t_next t |}.

(* ------------------------------------------------------------------ CacheFactory / CacheSet *)
Section WithConfig.
Variable cfg : config.

Definition ensure_factory (k : kind) : M unit :=
  c <- gets (fun s => cch s k) ;;
  if c_present c then ret tt
  else set_cch k {| c_present := true; c_strong := c_strong c; c_weak := c_weak c; c_count := c_count c; c_offset := c_offset c |}.

Definition c_with (c : cachef) strong weak cnt off :=
  {| c_present := c_present c; c_strong := strong; c_weak := weak; c_count := cnt; c_offset := off |}.

(* positions cullOffset, cullOffset+cullFraction, ... of the key list *)
Fixpoint pick_every (frac : nat) (skip : nat) (l : list (Z * nat)) : list (Z * nat) :=
  match l with
  | [] => []
  | x :: r => match skip with
              | O => x :: pick_every frac (Nat.pred frac) r
              | S n => pick_every frac n r
              end
  end.

Definition cull (k : kind) (roots : list nat) : M unit :=
  s <- gets (fun s => s) ;;
  let c := cch s k in
  (* drop dead weak references *)
  let weak1 := filter (fun e => alive s roots (snd e)) (c_weak c) in
  let frac := Z.to_nat (cullFrac cfg) in
  let victims := pick_every frac (Z.to_nat (c_offset c)) (c_strong c) in
  let strong' := filter (fun e => negb (existsb (fun v => fst v =? fst e) victims)) (c_strong c) in
  (* an evicted object keeps a weak entry only if something else still references it *)
  let s1 := with_caches s (tset k (c_with c strong' weak1 (c_count c) (c_offset c)) (caches s)) in
  let weak2 := fold_left (fun w e => if alive s1 roots (snd e) then assoc_set (fst e) (snd e) w else w) victims weak1 in
  set_cch k (c_with c strong' weak2 (c_count c) ((c_offset c + 1) mod (cullFrac cfg))).

(* the counter bookkeeping at the head of CacheFactory.get / .created *)
Definition cull_tick (k : kind) (roots : list nat) : M unit :=
  c <- gets (fun s => cch s k) ;;
  if c_count c >? cullFreq cfg then
    set_cch k (c_with c (c_strong c) (c_weak c) 0 (c_offset c)) ;;; cull k roots
  else set_cch k (c_with c (c_strong c) (c_weak c) (c_count c + 1) (c_offset c)).

(* CacheSet.get: Some o = hit; None = miss (the caller must create and put) *)
Definition cache_get (k : kind) (id : Z) (roots : list nat) : M (option nat) :=
  ensure_factory k ;;;
  if doCache cfg then
    cull_tick k roots ;;;
    s <- gets (fun s => s) ;;
    let c := cch s k in
    match assoc id (c_strong c) with
    | Some o => ret (Some o)
    | None =>
        match assoc id (c_weak c) with
        | None => ret None
        | Some o =>
            let weak' := assoc_remove id (c_weak c) in
            if alive s roots o then
              set_cch k (c_with c (assoc_set id o (c_strong c)) weak' (c_count c) (c_offset c)) ;;; ret (Some o)
            else
              set_cch k (c_with c (c_strong c) weak' (c_count c) (c_offset c)) ;;; ret None
        end
    end
  else
    s <- gets (fun s => s) ;;
    let c := cch s k in
    match assoc id (c_weak c) with
    | None => ret None
    | Some o =>
        if alive s roots o then ret (Some o)
        else set_cch k (c_with c (c_strong c) (assoc_remove id (c_weak c)) (c_count c) (c_offset c)) ;;; ret None
    end.

Definition cache_put (k : kind) (id : Z) (o : nat) : M unit :=
  c <- gets (fun s => cch s k) ;;
  if doCache cfg then set_cch k (c_with c (assoc_set id o (c_strong c)) (c_weak c) (c_count c) (c_offset c))
  else set_cch k (c_with c (c_strong c) (assoc_set id o (c_weak c)) (c_count c) (c_offset c)).

Definition cache_created (k : kind) (id : Z) (o : nat) : M unit :=
  ensure_factory k ;;;
  if doCache cfg then
    cull_tick k [o] ;;;
    c <- gets (fun s => cch s k) ;;
    set_cch k (c_with c (assoc_set id o (c_strong c)) (c_weak c) (c_count c) (c_offset c))
  else
    c <- gets (fun s => cch s k) ;;
    set_cch k (c_with c (c_strong c) (assoc_set id o (c_weak c)) (c_count c) (c_offset c)).

Definition cache_expire (k : kind) (id : Z) : M unit :=
  c <- gets (fun s => cch s k) ;;
  if negb (c_present c) then ret tt
  else if negb (doCache cfg) then ret tt
  else set_cch k (c_with c (assoc_remove id (c_strong c)) (assoc_remove id (c_weak c)) (c_count c) (c_offset c)).

(* CacheSet.purge (used by destroySelf): forget the entry whatever the caching mode *)
Definition cache_purge (k : kind) (id : Z) : M unit :=
  c <- gets (fun s => cch s k) ;;
  if negb (c_present c) then ret tt
  else set_cch k (c_with c (assoc_remove id (c_strong c)) (assoc_remove id (c_weak c)) (c_count c) (c_offset c)).

Definition cache_try_get (k : kind) (id : Z) (roots : list nat) : M (option nat) :=
  s <- gets (fun s => s) ;;
  let c := cch s k in
  if negb (c_present c) then ret None
  else match (match assoc id (c_weak c) with Some o => if alive s roots o then Some o else None | None => None end) with
       | Some o => ret (Some o)
       | None => if doCache cfg then ret (assoc id (c_strong c)) else ret None
       end.

(* ------------------------------------------------------------------ SQLObject *)
Definition row_vals (r : row) : list (option val) := map Some r.

(* _SO_selectInit *)
Definition select_init (o : nat) (r : row) : M unit :=
  upd_inst o (fun i => i_with_vals i (row_vals r)).

(* SQLObject.get *)
Definition so_get (k : kind) (id : Z) (sel : option row) (roots : list nat) : M nat :=
  hit <- cache_get k id roots ;;
  match hit with
  | Some o =>
      match sel with
      | Some r =>
          i <- gets (fun s => get_inst s o) ;;
          if i_dirty i then ret o
          else select_init o r ;;; upd_inst o (fun i => i_with_expired i false) ;;; ret o
      | None => ret o
      end
  | None =>
      (* cls(_SO_fetch_no_create=1); _init; put -- finishPut only releases the lock *)
      o <- new_inst (blank_inst k id) ;;
      match sel with
      | Some r => select_init o r ;;; cache_put k id o ;;; ret o
      | None =>
          r <- db_select_one k id all_cols ;;
          match r with
          | None => raise ENotFound
          | Some r => select_init o r ;;; cache_put k id o ;;; ret o
          end
      end
  end.

Definition validate (v : val) : M val :=
  match v with VBad => raise EInvalid | _ => ret v end.
Fixpoint validate_all (kvs : list (nat * val)) : M unit :=
  match kvs with [] => ret tt | (_, v) :: r => validate v ;;; validate_all r end.

Definition set_val (c : nat) (v : val) (i : inst) : inst := i_with_vals i (set_nth c (Some v) (i_vals i)).
Fixpoint pending_update (kvs : list (nat * val)) (p : list (nat * val)) : list (nat * val) :=
  match kvs with [] => p | (c, v) :: r => pending_update r (nassoc_set c v p) end.
(* kw dict of a call: later duplicates overwrite, first position kept *)
Definition as_dict (kvs : list (nat * val)) : list (nat * val) := pending_update kvs [].
Definition sorted_pending (p : list (nat * val)) : list (nat * val) :=
  flat_map (fun c => match nassoc c p with Some v => [(c, v)] | None => [] end) (sort_cols (map fst p)).

(* _SO_setValue *)
Definition so_setattr (o : nat) (c : nat) (v : val) : M unit :=
  i <- gets (fun s => get_inst s o) ;;
  v <- validate v ;;
  if is_lazy (i_k i) then
    upd_inst o (fun i => set_val c v (i_with_pending (i_with_dirty i true) (nassoc_set c v (i_pending i))))
  else
    db_update (i_k i) (i_id i) [(c, v)] ;;;
    (* no caching into an expired instance: the next read reloads the whole row *)
    if cache_values (i_k i) && negb (i_expired i) then upd_inst o (set_val c v) else ret tt.

(* the multi-column set method *)
(* keywords that name no column go to `extra`; the only one the harness uses (index >= ncols) is unknown to the class:
   TypeError -- raised before anything is cached or queued on a lazy object (fix 6e79cab), after the validation of the
   column values on a direct one *)
Definition is_col (c : nat) : bool := Nat.ltb c ncols.
(* keywords that are not columns: 4 is a property of the class whose setter refuses a bad value with ValueError and
   otherwise stores nothing the model tracks; any other one (3 in the harness) is unknown to the class.  They are handed
   to setattr in dict order AFTER every column value is validated and BEFORE anything is cached, queued or written
   (since 71eb426 also on a lazy class); a lazy class refuses an unknown keyword before it validates anything. *)
Definition px_kw : nat := 4.
Definition unknown_kw (c : nat) : bool := negb (is_col c) && negb (Nat.eqb c px_kw).
Fixpoint run_extras (kvs : list (nat * val)) : option exc :=
  match kvs with
  | [] => None
  | (c, v) :: r =>
      if is_col c then run_extras r
      else if Nat.eqb c px_kw then match v with VBad => Some EValue | _ => run_extras r end
      else Some ETypeError
  end.
Definition so_set (o : nat) (kvs : list (nat * val)) : M unit :=
  i <- gets (fun s => get_inst s o) ;;
  let kw := filter (fun cv => is_col (fst cv)) (as_dict kvs) in
  let unknown := existsb (fun cv => unknown_kw (fst cv)) kvs in
  (if is_lazy (i_k i) && unknown then raise ETypeError else ret tt) ;;;
  validate_all kw ;;;
  (match run_extras (as_dict kvs) with Some e => raise e | None => ret tt end) ;;;
  if is_lazy (i_k i) then
    upd_inst o (fun i => i_with_dirty (i_with_pending (fold_left (fun i cv => set_val (fst cv) (snd cv) i) kw i)
                                                     (pending_update kw (i_pending i)))
                                      (match kw with [] => i_dirty i | _ => true end))
  else
    (match kw with [] => ret tt | _ => db_update (i_k i) (i_id i) (sorted_pending kw) end) ;;;
    if cache_values (i_k i) && negb (i_expired i) then upd_inst o (fun i => fold_left (fun i cv => set_val (fst cv) (snd cv) i) kw i) else ret tt.

(* syncUpdate *)
Definition so_sync_update (o : nat) : M unit :=
  i <- gets (fun s => get_inst s o) ;;
  if negb (i_cv i) then raise EAttribute else
  match i_pending i with
  | [] => ret tt
  | p => db_update (i_k i) (i_id i) (sorted_pending p) ;;;
         upd_inst o (fun i => i_with_pending (i_with_dirty i false) [])
  end.

(* sync *)
Definition so_sync (o : nat) : M unit :=
  i <- gets (fun s => get_inst s o) ;;
  (if is_lazy (i_k i) then match i_pending i with [] => ret tt | _ => so_sync_update o end else ret tt) ;;;
  r <- db_select_one (i_k i) (i_id i) all_cols ;;
  match r with
  | None => raise ENotFound
  | Some r => select_init o r ;;; upd_inst o (fun i => i_with_expired i false)
  end.

(* expire: drop whatever cached attributes are there -- also on an instance that is expired already
   (a lazy assignment made since then has cached and queued a value) *)
Definition so_expire (o : nat) : M unit :=
  i <- gets (fun s => get_inst s o) ;;
  upd_inst o (fun i => i_with_vals i (map (fun _ => None) (i_vals i))) ;;;
  (* the cache entry of the row is dropped on the first expiry only: an instance that is expired already left the
     cache then, and the entry of its id may be another instance's by now *)
  (if i_expired i then ret tt
   else upd_inst o (fun i => i_with_expired i true) ;;; cache_expire (i_k i) (i_id i)) ;;;
  upd_inst o (fun i => i_with_cv (i_with_dirty (i_with_pending i []) false) true).

(* attribute read *)
Definition so_read (o : nat) (c : nat) : M val :=
  i <- gets (fun s => get_inst s o) ;;
  if cache_values (i_k i) then
    match nth c (i_vals i) None with
    | Some v => ret v
    | None =>
        upd_inst o (fun i => i_with_expired i false) ;;;
        r <- db_select_one (i_k i) (i_id i) all_cols ;;
        match r with
        | None => raise ENotFound
        | Some r =>
            (* a lazy object keeps showing its unwritten assignments *)
            let r' := if is_lazy (i_k i) then apply_updates (i_pending i) r else r in
            select_init o r' ;;; ret (nth c r' VNull)
        end
    end
  else
    if i_obsolete i then raise EAssertion
    else
      r <- db_select_one (i_k i) (i_id i) [c] ;;
      match r with
      | None => raise EAssertion
      | Some r => ret (nth c r VNull)
      end.

(* destroySelf (no dependents, no joins in this fixture) *)
Definition so_destroy (o : nat) : M unit :=
  i <- gets (fun s => get_inst s o) ;;
  db_delete (i_k i) (i_id i) ;;;
  upd_inst o (fun i => i_with_obsolete i true) ;;;
  cache_purge (i_k i) (i_id i).

(* __init__ / _create / _SO_finishCreate; kvs are the keyword arguments by column *)
Fixpoint fill_defaults (cols : list nat) (kw : list (nat * val)) : option (list (nat * val)) :=
  match cols with
  | [] => Some kw
  | c :: r =>
      match nassoc c kw with
      | Some _ => fill_defaults r kw
      | None => match col_default c with
                | Some d => fill_defaults r (nassoc_set c d kw)
                | None => None
                end
      end
  end.

Definition so_create (k : kind) (kvs : list (nat * val)) : M nat :=
  match fill_defaults all_cols (as_dict kvs) with
  | None => raise ETypeError
  | Some kw =>
      validate_all kw ;;;
      id <- db_insert k (sorted_pending kw) ;;
      o <- new_inst (blank_inst k 0) ;;
      (* an eager class deletes _SO_createValues in _SO_finishCreate; _init re-creates it *)
      upd_inst o (fun i => i_with_cv (i_with_id (fold_left (fun i cv => set_val (fst cv) (snd cv) i) kw i) id) (is_lazy k)) ;;;
      cache_created k id o ;;;
      (* _init(id): reload every column *)
      r <- db_select_one k id all_cols ;;
      match r with
      | None => raise ENotFound
      | Some r => select_init o r ;;; upd_inst o (fun i => i_with_cv (i_with_dirty (i_with_pending i []) false) true) ;;; ret o
      end
  end.

(* __getstate__ / __setstate__ *)
Definition so_pickle (o : nat) : M nat :=
  i <- gets (fun s => get_inst s o) ;;
  (if is_lazy (i_k i) then match i_pending i with [] => ret tt | _ => so_sync_update o end else ret tt) ;;;
  i <- gets (fun s => get_inst s o) ;;
  if negb (i_cv i) then raise EKey else
  fun s => (Ret (length (pickles s)),
            with_pickles s (pickles s ++ [{| p_k := i_k i; p_id := i_id i; p_vals := i_vals i |}])).

Definition so_unpickle (p : nat) : M nat :=
  ps <- gets pickles ;;
  match nth_error ps p with
  | None => raise EBadHandle
  | Some pk =>
      o <- new_inst (i_with_vals (blank_inst (p_k pk) (p_id pk)) (p_vals pk)) ;;
      other <- cache_try_get (p_k pk) (p_id pk) [o] ;;
      match other with
      | Some _ => raise EValue
      | None => cache_created (p_k pk) (p_id pk) o ;;; ret o
      end
  end.

(* sqlmeta.expireAll *)
Definition so_expire_all (k : kind) : M unit :=
  s <- gets (fun s => s) ;;
  let c := cch s k in
  if negb (c_present c) then ret tt
  else
    (* weakrefAll: every strong entry becomes a weak one (CacheFactory.expireAll returns early without caching) *)
    (if doCache cfg then
       set_cch k (c_with c [] (fold_left (fun w e => assoc_set (fst e) (snd e) w) (c_strong c) (c_weak c)) (c_count c) (c_offset c))
     else ret tt) ;;;
    s1 <- gets (fun s => s) ;;
    (* getAll: strong values (none left when caching) + live weak values; the list keeps them alive *)
    let c1 := cch s1 k in
    let items := (if doCache cfg then map snd (c_strong c1) else []) ++
                 map snd (filter (fun e => alive s1 [] (snd e)) (c_weak c1)) in
    fold_left (fun m o => m ;;; so_expire o) items (ret tt).

(* ------------------------------------------------------------------ operations of the harness *)
Inductive op :=
| OCreate (k : kind) (kvs : list (nat * val))          (* -> new slot *)
| OGet (k : kind) (id : Z)                             (* -> new slot *)
| OSelect (k : kind) (flt : option Z) (keep : option nat)  (* rows with a = flt (or all), by id; keep the n-th result in a new slot *)
| OByAlt (k : kind) (u : Z)                            (* byU -> new slot *)
| ORead (h : nat) (c : nat)
| OSetAttr (h : nat) (c : nat) (v : val)
| OSet (h : nat) (kvs : list (nat * val))
| OSyncUpdate (h : nat)
| OSync (h : nat)
| OExpire (h : nat)
| ODestroy (h : nat)
| ODrop (h : nat)
| OCull (k : kind)
| OExpireAll (k : kind)
| OClear
| OPickle (h : nat)
| OUnpickle (p : nat)
| ORawUpdate (k : kind) (id : Z) (c : nat) (v : val)
| ORawDelete (k : kind) (id : Z)
| OFault (n : nat) (o : op).                           (* run o with the n-th statement failing *)

(* what an operation hands back *)
Inductive outv :=
| RNone
| RObj (id : Z) (same_as : option nat)    (* an object: its row id, and the slot that already held this very object *)
| RObjs (l : list (Z * option nat))
| RVal (v : val)
| RIdx (n : nat).

Definition slot_of (s : st) (o : nat) : option nat :=
  (fix go (l : list (option nat)) (n : nat) : option nat :=
     match l with
     | [] => None
     | Some x :: r => if Nat.eqb x o then Some n else go r (S n)
     | None :: r => go r (S n)
     end) (slots s) 0%nat.

Definition hold (o : nat) : M outv :=
  s <- gets (fun s => s) ;;
  let tok := slot_of s o in
  modify (fun s => with_slots s (slots s ++ [Some o])) ;;;
  ret (RObj (i_id (get_inst s o)) tok).

(* a slot-creating operation always creates its slot; a failed one leaves it empty *)
Definition hold_or_none (m : M nat) : M outv :=
  fun s => match m s with
           | (Ret o, s') => hold o s'
           | (Raise e, s') => (Raise e, with_slots s' (slots s' ++ [None]))
           end.
Definition or_empty_slot {A} (keep : bool) (m : M A) : M A :=
  fun s => match m s with
           | (Ret a, s') => (Ret a, s')
           | (Raise e, s') => (Raise e, if keep then with_slots s' (slots s' ++ [None]) else s')
           end.

Definition handle (h : nat) : M nat :=
  s <- gets (fun s => s) ;;
  match nth h (slots s) None with Some o => ret o | None => raise EBadHandle end.

Definition matches (flt : option Z) (r : row) : bool :=
  match flt with None => true | Some z => val_eqb (nth 0 r VNull) (VInt z) end.

(* Iteration.next over the fetched rows: get() each with its row; the result list keeps the objects alive *)
Fixpoint select_rows (k : kind) (rows : list (Z * row)) (acc : list nat) : M (list nat) :=
  match rows with
  | [] => ret acc
  | (id, r) :: rest => o <- so_get k id (Some r) acc ;; select_rows k rest (acc ++ [o])
  end.

Fixpoint insert_by_id (x : Z * row) (l : list (Z * row)) : list (Z * row) :=
  match l with [] => [x] | y :: r => if fst x <=? fst y then x :: l else y :: insert_by_id x r end.
Definition sort_by_id (l : list (Z * row)) := fold_right insert_by_id [] l.

Fixpoint run_op (fuel : nat) (o : op) : M outv :=
  match o with
  | OCreate k kvs => hold_or_none (so_create k kvs)
  | OGet k id => hold_or_none (so_get k id None [])
  | OSelect k flt keep =>
      or_empty_slot (match keep with Some _ => true | None => false end) (
      statement (SSelect k) ;;;
      rows <- gets (fun s => sort_by_id (filter (fun e => matches flt (snd e)) (t_rows (tbl s k)))) ;;
      objs <- select_rows k rows [] ;;
      s <- gets (fun s => s) ;;
      let out := map (fun o => (i_id (get_inst s o), slot_of s o)) objs in
      match keep with
      | Some n => match nth_error objs n with
                  | Some o => modify (fun s => with_slots s (slots s ++ [Some o])) ;;; ret (RObjs out)
                  | None => modify (fun s => with_slots s (slots s ++ [None])) ;;; ret (RObjs out)
                  end
      | None => ret (RObjs out)
      end)
  | OByAlt k u =>
      hold_or_none (
      statement (SSelectAlt k) ;;;
      found <- gets (fun s => find (fun e => val_eqb (nth 1 (snd e) VNull) (VInt u)) (t_rows (tbl s k))) ;;
      match found with
      | None => raise ENotFound
      | Some (id, r) => so_get k id (Some r) []
      end)
  | ORead h c => o <- handle h ;; v <- so_read o c ;; ret (RVal v)
  | OSetAttr h c v => o <- handle h ;; so_setattr o c v ;;; ret RNone
  | OSet h kvs => o <- handle h ;; so_set o kvs ;;; ret RNone
  | OSyncUpdate h => o <- handle h ;; so_sync_update o ;;; ret RNone
  | OSync h => o <- handle h ;; so_sync o ;;; ret RNone
  | OExpire h => o <- handle h ;; so_expire o ;;; ret RNone
  | ODestroy h => o <- handle h ;; so_destroy o ;;; ret RNone
  | ODrop h => modify (fun s => with_slots s (set_nth h None (slots s))) ;;; ret RNone
  | OCull k => c <- gets (fun s => cch s k) ;; (if c_present c && doCache cfg then cull k [] else ret tt) ;;; ret RNone
  | OExpireAll k => so_expire_all k ;;; ret RNone
  | OClear =>
      modify (fun s => with_caches s (tmap (fun c => c_with c [] [] (c_count c) (c_offset c)) (caches s))) ;;; ret RNone
  | OPickle h => o <- handle h ;; p <- so_pickle o ;; ret (RIdx p)
  | OUnpickle p => hold_or_none (so_unpickle p)
  | ORawUpdate k id c v =>
      t <- gets (fun s => tbl s k) ;;
      match assoc id (t_rows t) with
      | None => ret RNone
      | Some r => set_tbl k {| t_rows := assoc_set id (set_nth c v r) (t_rows t); t_next := t_next t |} ;;; ret RNone
      end
  | ORawDelete k id =>
      t <- gets (fun s => tbl s k) ;;
      set_tbl k {| t_rows := assoc_remove id (t_rows t); t_next := t_next t |} ;;; ret RNone
  | OFault n o' =>
      match fuel with
      | O => raise EBadHandle
      | S f => modify (fun s => with_fault s (Some n)) ;;; finally (run_op f o') (fun s => with_fault s None)
      end
  end.

(* one step of a history: fresh statement log, run, result *)
Definition step (s : st) (o : op) : res outv * st :=
  run_op 2 o (with_fault (with_log s []) None).

End WithConfig.
