(* Model for C18 (connection URIs round-trip).  Definitions only.

   - the builders DBConnection.uri / SQLiteConnection.uri and sqlite's
     _connectionFromParams are the GENERATED functions of Gen/Uri.v, wrapped
     with typed arguments;
   - DBConnection._parseURI and the scheme dispatch of
     ConnectionURIOpener.connectionForURI are transcribed by hand here, over
     the urllib.parse reference model of Lib/UriPy.v (tied to the code by the
     correspondence);
   - clean_* are the closed forms that Proofs/UriChar.v proves equal to the
     generated functions;
   - the validity predicates of the theorems. *)
From Coq Require Import String Ascii List NArith ZArith Bool.
From Lib Require Import UriPy.
From Gen Require Import Uri.
Import ListNotations.
Open Scope N_scope.

(* ------------------------------------------------------------------ builders (generated) *)
Definition oport (p : option Z) : uv := match p with Some z => UInt z | None => UNone end.
Definition as_str (r : ures uv) : ures str :=
  match r with
  | ROk (UStr s) => ROk s
  | ROk _ => RErr X_Other
  | RErr e => RErr e
  | RUnm => RUnm
  end.

(* DBConnection.uri() of a connection with dbName = name and these components
   (an absent user / password / host is the empty string or None: uri() cannot
   tell them apart) *)
Definition build_uri (name user pw host : str) (port : option Z) (db : str) : ures str :=
  as_str (gen_uri (UStr name) (UStr user) (UStr pw) (UStr host) (oport port) (UStr db)).

(* SQLiteConnection.uri() of a connection with this filename *)
Definition sqlite_uri (filename : str) : ures str := as_str (gen_sqlite_uri (UStr filename)).

(* ------------------------------------------------------------------ DBConnection._parseURI *)
Record pres := { r_user : option str; r_pw : option str; r_host : option str;
                 r_port : option N; r_path : str; r_args : list (str * str) }.

Definition unquote_if_truthy (o : option str) : option str :=
  match o with
  | Some (c :: r) => Some (unquote (c :: r))
  | _ => None
  end.

(* the os.name == 'nt' block: /C|/x -> C:/x ; /C:/x -> C:/x *)
Definition nt_path (path : str) : str :=
  match path with
  | c0 :: c1 :: c2 :: rest =>
      let path1 := if c2 =? 124 then c0 :: c1 :: 58 :: rest else path in
      match path1 with
      | d0 :: d1 :: d2 :: rest1 => if (d0 =? 47) && (d2 =? 58) then d1 :: d2 :: rest1 else path1
      | _ => path1
      end
  | _ => path
  end.

(* `if parsed.port is not None: port = int(parsed.port); if not (1 <= port <= 65535): raise ValueError` *)
Definition checked_port (netloc : str) : ures (option N) :=
  po <~ port_of netloc ;;
  match po with
  | None => ROk None
  | Some n => if (1 <=? n) && (n <=? 65535) then ROk (Some n) else RErr X_Value
  end.

Definition parse_uri (nt : bool) (uri : str) : ures pres :=
  p <~ urlparse uri ;;
  let host := hostname (p_netloc p) in
  let ui := userinfo (p_netloc p) in
  let user := unquote_if_truthy (fst ui) in
  let password := unquote_if_truthy (snd ui) in
  port <~ checked_port (p_netloc p) ;;
  let path0 := unquote (p_path p) in
  let path := if nt then nt_path path0 else path0 in
  let args := if is_nil (p_query p) then [] else dict_of_pairs (parse_qsl (p_query p)) in
  ROk {| r_user := user; r_pw := password; r_host := host; r_port := port; r_path := path; r_args := args |}.

(* ------------------------------------------------------------------ opening a sqlite URI *)
Definition ostr (o : option str) : uv := match o with Some s => UStr s | None => UNone end.
Definition oN (o : option N) : uv := match o with Some n => UInt (Z.of_N n) | None => UNone end.

(* the filename of SQLiteConnection._connectionFromParams applied to the tuple of _parseURI; keyword
   arguments do not influence the filename (they may make the constructor
   raise; the model then still answers the filename, and the correspondence
   only uses keywords the constructor accepts) *)
Definition sqlite_from_params (r : pres) : ures str :=
  as_str (gen_sqlite_from_params (ostr (r_user r)) (ostr (r_pw r)) (ostr (r_host r)) (oN (r_port r))
            (UStr (r_path r))).

Definition sqlite_scheme : str := lit "sqlite".

(* connectionForURI(uri).filename for a URI text with a scheme: the scheme is
   uri.split(':', 1)[0], compared verbatim with the registered names; only the
   sqlite builder is modelled (any other scheme answers RUnm, a text without
   ':' is looked up as an instance name and fails the assert) *)
Definition open_uri (nt : bool) (uri : str) : ures str :=
  match partition_at 58 uri with
  | None => RErr X_Assert
  | Some (scheme, _) =>
      if str_eqb scheme sqlite_scheme then r <~ parse_uri nt uri ;; sqlite_from_params r
      else RUnm
  end.

(* ------------------------------------------------------------------ sequences of opens *)
(* ConnectionURIOpener.cachedURIs: keyed by the URI text exactly as given (after
   `uri += '?' + urlencode(args)` for keyword arguments, which the harness
   applies); a connection is stored only when the open did not raise.  The
   cached connection is represented by its filename. *)
Fixpoint cache_lookup (uri : str) (cache : list (str * str)) : option str :=
  match cache with
  | [] => None
  | (k, v) :: r => if str_eqb k uri then Some v else cache_lookup uri r
  end.
(* the filename (or exception) of every connectionForURI call of a sequence *)
Fixpoint open_seq (nt : bool) (cache : list (str * str)) (uris : list str) : list (ures str) :=
  match uris with
  | [] => []
  | u :: r =>
      match cache_lookup u cache with
      | Some fn => ROk fn :: open_seq nt cache r
      | None =>
          match open_uri nt u with
          | ROk fn => ROk fn :: open_seq nt ((u, fn) :: cache) r
          | x => x :: open_seq nt cache r
          end
      end
  end.

(* ------------------------------------------------------------------ closed forms of the builders *)
Definition strip1 (db : str) : str :=
  match db with
  | d :: r => if d =? 47 then r else db
  | [] => []
  end.

Definition clean_auth (user pw : str) : ures str :=
  match user with
  | [] => if is_nil pw then ROk [] else RErr X_Assert
  | _ :: _ =>
      if valid_text user then
        match pw with
        | [] => ROk (quote [] user ++ [64])
        | _ :: _ => if valid_text pw then ROk (quote [] user ++ 58 :: quote [] pw ++ [64])
                    else RErr X_UnicodeEncode
        end
      else RErr X_UnicodeEncode
  end.

(* the host as uri() writes it: an address with ':' (IPv6) gets brackets *)
Definition host_text (host : str) : str :=
  match host with
  | [] => []
  | ch :: _ => if chr_in 58 host && negb (ch =? 91) then 91 :: host ++ [93] else host
  end.
(* `if self.port is not None: uri += ':%d' % self.port` *)
Definition port_part (port : option Z) : str :=
  match port with
  | None => []
  | Some z => 58 :: dec_of_Z z
  end.
Definition clean_hostport (host : str) (port : option Z) : str := host_text host ++ port_part port.

Definition clean_uri (name user pw host : str) (port : option Z) (db : str) : ures str :=
  a <~ clean_auth user pw ;;
  if valid_text (strip1 db)
  then ROk (name ++ [58; 47; 47] ++ a ++ clean_hostport host port ++ 47 :: quote [47] (strip1 db))
  else RErr X_UnicodeEncode.

Definition is_abs (p : str) : bool := match p with d :: _ => d =? 47 | [] => false end.
Definition memory_name : str := [58; 109; 101; 109; 111; 114; 121; 58].            (* ":memory:" *)
Definition sqlite_prefix : str := [115; 113; 108; 105; 116; 101; 58].             (* "sqlite:" *)
Definition clean_sqlite_uri (filename : str) : ures str :=
  if str_eqb filename memory_name then ROk (sqlite_prefix ++ 47 :: memory_name)
  else if valid_text filename then
    ROk (sqlite_prefix ++ quote [47] ((if is_abs filename then [47; 47] else [47; 47; 47]) ++ filename))
  else RErr X_UnicodeEncode.

(* ------------------------------------------------------------------ domains of the theorems *)
(* a dbName urlsplit recognises as a scheme *)
Definition valid_scheme (name : str) : bool :=
  match name with
  | c :: r => is_alpha c && forallb scheme_char (c :: r)
  | [] => false
  end.

(* what a host may consist of: uri() writes it verbatim, so it cannot contain
   a delimiter of the authority ( / ? # @ : [ ] ), a character urlsplit deletes
   (tab, CR, LF), or -- limit of the model, not of the code -- a non-ASCII
   character *)
Definition host_char (c : N) : bool :=
  is_ascii c && negb (is_netloc_end c) && negb (c =? 64) && negb (c =? 58) && negb (c =? 91)
  && negb (c =? 93) && negb (is_tcn c).
Definition valid_host (h : str) : bool := forallb host_char h.
(* or an IPv6 address as the ipaddress module accepts it, without zone:
   hex digits, ':' and '.' only *)
Definition ip6_char (c : N) : bool := is_hex c || (c =? 58) || (c =? 46).
Definition valid_host6 (h : str) : bool := chr_in 58 h && forallb ip6_char h && valid_ipv6 h.

(* urlparse's normalisation of the host: lower-cased up to a '%' *)
Definition norm_host (h : str) : str :=
  match partition_at 37 h with
  | Some (a, z) => lower_ascii a ++ 37 :: z
  | None => lower_ascii h
  end.

Definition opt_ne (s : str) : option str := match s with [] => None | _ => Some s end.

Record comps := { c_user : str; c_pw : str; c_host : str; c_port : option Z; c_db : str;
                  c_args : list (str * str) }.

(* the domain of the property: any texts without lone surrogates, a host that
   is a host name or an IPv6 address, any integer port *)
Definition in_domain (name : str) (c : comps) : bool :=
  valid_scheme name && valid_text (c_user c) && valid_text (c_pw c) && valid_text (c_db c)
  && (valid_host (c_host c) || valid_host6 (c_host c)).

(* trigger classes of the findings / explicit refusals *)
Definition port_in_range (c : comps) : bool :=
  match c_port c with None => true | Some z => (1 <=? z)%Z && (z <=? 65535)%Z end.
Definition pw_has_user (c : comps) : bool := negb (is_nil (c_user c)) || is_nil (c_pw c).
Definition no_args (c : comps) : bool := is_nil (c_args c).
(* what is still excluded: extra parameters (open finding) and a password
   without a user name (uri() refuses it with an assert) *)
Definition guard (c : comps) : bool := pw_has_user c && no_args c.

Definition build_comps (name : str) (c : comps) : ures str :=
  build_uri name (c_user c) (c_pw c) (c_host c) (c_port c) (c_db c).

Definition expected (c : comps) : pres :=
  {| r_user := opt_ne (c_user c); r_pw := opt_ne (c_pw c); r_host := opt_ne (norm_host (c_host c));
     r_port := match c_port c with Some z => Some (Z.to_N z) | None => None end;
     r_path := 47 :: strip1 (c_db c); r_args := c_args c |}.

(* round trip: the URI is built and parses back to the expected components *)
Definition roundtrips (name : str) (c : comps) : Prop :=
  exists u, build_comps name c = ROk u /\ parse_uri false u = ROk (expected c).

(* sqlite *)
Definition sqlite_roundtrips (path : str) : Prop :=
  exists u, sqlite_uri path = ROk u /\ open_uri false u = ROk path.

(* ------------------------------------------------------------------ port texts *)
(* the value of a port text made of ASCII digits *)
Definition port_value (p : str) : option N :=
  match digits_uint p with Some u => Some (N.of_uint u) | None => None end.
(* the property's range (the one _parseOldURI enforces): 1..65535 *)
Definition port_text_in_range (p : str) : bool :=
  match port_value p with Some n => (1 <=? n) && (n <=? 65535) | None => false end.

(* characters that do not change where the network location ends and that the
   model of urlsplit covers: ASCII, none of / ? # [ ] tab CR LF *)
Definition netloc_char (c : N) : bool :=
  is_ascii c && negb (is_netloc_end c) && negb (c =? 91) && negb (c =? 93) && negb (is_tcn c).
(* a port text may additionally not contain '@' (it would move the userinfo cut) *)
Definition port_char (c : N) : bool := netloc_char c && negb (c =? 64).
(* what follows the network location: nothing, or something starting with / ? # *)
Definition tail_ok (t : str) : bool := match t with [] => true | c :: _ => is_netloc_end c end.

(* scheme://[userinfo@]host:porttext tail *)
Definition uri_with_port (name : str) (ui : option str) (host ptxt tail : str) : str :=
  name ++ [58; 47; 47] ++ match ui with Some a => a ++ [64] | None => [] end ++ host ++ 58 :: ptxt ++ tail.
