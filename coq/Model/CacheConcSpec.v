(* C09 -- specification side of the model: static classification of the program points (tied to
   the AST-derived table Gen/CacheConc.v by Proofs/CacheConcSkel.v), the guard that excludes the
   racing steps, the invariant.  Definitions only. *)
From Coq Require Import List ZArith Bool Arith String.
From Gen Require Import CacheConc.
From Model Require Import CacheConc.
Import ListNotations.

Definition all_pcs : list pc := [
  SG301; SG302; SG303; SG306; SG308; F93; F94; F99; F100; F102; F104; F105; F106; F107; F108; F109; F110; F111; F112; F114; F115; F116; F117; F118; F119; F121; F122; F123; F124; F125; F126; M951; M954; SP311; P152; P153; M956; SQ314; Q162; C1397; C1400; SK317; SK318; SK319; SK320; SK322; K171; K172; K177; K178; K180; K181a; K181t; K181; K181r; U192; U193; U195; U196; U197; U198; U200; U201; U202; U204; U205; U209; U210; U214; U216; X1072; X1074; X1078; X1079; SE325; SE326; SE327; SE328; E232; E234; E235; E236; E237; E238; E239; E241; X1083; SW364; SW367; SW368; A248; A250; A251; A252; A253; A254; A256; Z681; Z682; Z683; SL375; SL380; SL381; SL383; L272; L273; L275; L276; L279; L280; L280n; L281; L283; L282;
  F129; F130; F131; F132; F133; F134; F135; F136; F137; F138; F139; F141; F142; F143; F144; F145; P155; K183a; K183t; K183; K183r; E233; A249; L278].

Definition pc_name (p : pc) : string :=
  match p with
  | Idle => "Idle"
  | SG301 => "SG301"
  | SG302 => "SG302"
  | SG303 => "SG303"
  | SG306 => "SG306"
  | SG308 => "SG308"
  | F93 => "F93"
  | F94 => "F94"
  | F99 => "F99"
  | F100 => "F100"
  | F102 => "F102"
  | F104 => "F104"
  | F105 => "F105"
  | F106 => "F106"
  | F107 => "F107"
  | F108 => "F108"
  | F109 => "F109"
  | F110 => "F110"
  | F111 => "F111"
  | F112 => "F112"
  | F114 => "F114"
  | F115 => "F115"
  | F116 => "F116"
  | F117 => "F117"
  | F118 => "F118"
  | F119 => "F119"
  | F121 => "F121"
  | F122 => "F122"
  | F123 => "F123"
  | F124 => "F124"
  | F125 => "F125"
  | F126 => "F126"
  | M951 => "M951"
  | M954 => "M954"
  | SP311 => "SP311"
  | P152 => "P152"
  | P153 => "P153"
  | M956 => "M956"
  | SQ314 => "SQ314"
  | Q162 => "Q162"
  | C1397 => "C1397"
  | C1400 => "C1400"
  | SK317 => "SK317"
  | SK318 => "SK318"
  | SK319 => "SK319"
  | SK320 => "SK320"
  | SK322 => "SK322"
  | K171 => "K171"
  | K172 => "K172"
  | K177 => "K177"
  | K178 => "K178"
  | K180 => "K180"
  | K181a => "K181a"
  | K181t => "K181t"
  | K181 => "K181"
  | K181r => "K181r"
  | U192 => "U192"
  | U193 => "U193"
  | U195 => "U195"
  | U196 => "U196"
  | U197 => "U197"
  | U198 => "U198"
  | U200 => "U200"
  | U201 => "U201"
  | U202 => "U202"
  | U204 => "U204"
  | U205 => "U205"
  | U209 => "U209"
  | U210 => "U210"
  | U214 => "U214"
  | U216 => "U216"
  | X1072 => "X1072"
  | X1074 => "X1074"
  | X1078 => "X1078"
  | X1079 => "X1079"
  | SE325 => "SE325"
  | SE326 => "SE326"
  | SE327 => "SE327"
  | SE328 => "SE328"
  | E232 => "E232"
  | E234 => "E234"
  | E235 => "E235"
  | E236 => "E236"
  | E237 => "E237"
  | E238 => "E238"
  | E239 => "E239"
  | E241 => "E241"
  | X1083 => "X1083"
  | SW364 => "SW364"
  | SW367 => "SW367"
  | SW368 => "SW368"
  | A248 => "A248"
  | A250 => "A250"
  | A251 => "A251"
  | A252 => "A252"
  | A253 => "A253"
  | A254 => "A254"
  | A256 => "A256"
  | Z681 => "Z681"
  | Z682 => "Z682"
  | Z683 => "Z683"
  | SL375 => "SL375"
  | SL380 => "SL380"
  | SL381 => "SL381"
  | SL383 => "SL383"
  | L272 => "L272"
  | L273 => "L273"
  | L275 => "L275"
  | L276 => "L276"
  | L279 => "L279"
  | L280 => "L280"
  | L280n => "L280n"
  | L281 => "L281"
  | L283 => "L283"
  | L282 => "L282"
  | F129 => "F129"
  | F130 => "F130"
  | F131 => "F131"
  | F132 => "F132"
  | F133 => "F133"
  | F134 => "F134"
  | F135 => "F135"
  | F136 => "F136"
  | F137 => "F137"
  | F138 => "F138"
  | F139 => "F139"
  | F141 => "F141"
  | F142 => "F142"
  | F143 => "F143"
  | F144 => "F144"
  | F145 => "F145"
  | P155 => "P155"
  | K183a => "K183a"
  | K183t => "K183t"
  | K183 => "K183"
  | K183r => "K183r"
  | E233 => "E233"
  | A249 => "A249"
  | L278 => "L278"
  end%string.

(* what the statement at a program point does to the lock and the two dicts, as the model's step
   function treats it *)
Definition pc_kind (p : pc) : skind :=
  match p with
  | F105 => KReadStrong
  | F108 => KAcquire
  | F110 => KReadStrong
  | F114 => KRelease
  | F117 => KReadWeak
  | F121 => KWriteWeak
  | F124 => KWriteStrong
  | F125 => KRelease
  | P153 => KWriteStrong
  | Q162 => KRelease
  | K181a => KAcquire
  | K181 => KWriteStrong
  | K181r => KRelease
  | U192 => KAcquire
  | U195 => KReadWeak
  | U197 => KReadWeak
  | U198 => KWriteWeak
  | U200 => KReadStrong
  | U204 => KReadStrong
  | U205 => KWriteStrong
  | U210 => KWriteWeak
  | U216 => KRelease
  | X1072 => KWAcquire
  | E234 => KAcquire
  | E236 => KReadStrong
  | E237 => KWriteStrong
  | E238 => KReadWeak
  | E239 => KWriteWeak
  | E241 => KRelease
  | X1083 => KWRelease
  | A250 => KAcquire
  | A252 => KReadStrong
  | A253 => KWriteWeak
  | A254 => KWriteStrong
  | A256 => KRelease
  | L272 => KAcquire
  | L276 => KReadStrong
  | L283 => KRelease
  | L279 => KReadWeak
  | F130 => KReadWeak
  | F135 => KAcquire
  | F137 => KReadWeak
  | F142 => KWriteWeak
  | F144 => KRelease
  | P155 => KWriteWeak
  | K183a => KAcquire
  | K183 => KWriteWeak
  | K183r => KRelease
  | _ => KOther
  end.

(* ------------------------------------------------------------------ static regions *)
(* the thread holds the cache lock when it is about to execute the statement *)
Definition holds (p : pc) : bool :=
  match p with
  | F109 | F110 | F111 | F112 | F114 | F116 | F117 | F118 | F119 | F121 | F122 | F123 | F124 | F125
  | M951 | M954 | SP311 | P152 | P153 | M956 | SQ314 | Q162
  | K181t | K181 | K181r
  | F136 | F137 | F138 | F139 | F141 | F142 | F143 | F144 | P155 | K183t | K183 | K183r | L278
  | L273 | L275 | L276 | L279 | L280 | L280n | L281 | L283
  | U193 | U195 | U196 | U197 | U198 | U200 | U201 | U202 | U204 | U205 | U209 | U210 | U214 | U216
  | E235 | E236 | E237 | E238 | E239 | E241
  | A251 | A252 | A253 | A254 | A256 => true
  | _ => false
  end.
(* the thread holds the write lock of its `self` *)
Definition wholds (p : pc) : bool :=
  match p with
  | X1074 | X1078 | X1079 | SE325 | SE326 | SE327 | SE328
  | E232 | E233 | E234 | E235 | E236 | E237 | E238 | E239 | E241 | X1083 => true
  | _ => false
  end.
(* after a miss under the lock: the strong dict has no entry for the thread's id *)
Definition sabs (p : pc) : bool :=
  match p with
  | F111 | F112 | F116 | F117 | F118 | F119 | F121 | F122 | F123 | F124 | M951 | M954 | SP311 | P152 | P153 | P155 => true
  | _ => false
  end.
(* ... and the weak dict has none either (I5) *)
Definition wabs (p : pc) : bool :=
  match p with
  | F118 | F119 | F122 | F123 | F124 | M951 | M954 | SP311 | P152 | P153 | F138 | F139 | F143 | P155 => true
  | _ => false
  end.
(* `val` is the outcome of the lookup (or put) the ghost epoch t_ep belongs to *)
Definition tagged (p : pc) : bool :=
  match p with
  | F114 | F115 | F121 | F122 | F124 | F125 | F126 | M956 | SQ314 | Q162 | K181r
  | F131 | F132 | F141 | F144 | F145 | K183r => true
  | _ => false
  end.
(* `val` cannot be None *)
Definition valdef (p : pc) : bool :=
  match p with
  | F114 | F115 | F124 | F125 | F126 | M954 | SP311 | P152 | P153 | K181r | F132 | F144 | F145 | P155 | K183r => true
  | _ => false
  end.
(* `self` is an object *)
Definition selfdef (p : pc) : bool :=
  match p with
  | C1400 | SK317 | SK318 | SK319 | SK320 | SK322 | K171 | K172 | K177 | K178 | K180 | K181a | K181t | K181
  | K183a | K183t | K183
  | X1072 | X1074 | X1078 | X1079 | SE325 | SE326 | SE327 | SE328
  | E232 | E233 | E234 | E235 | E236 | E237 | E238 | E239 | E241 | X1083 | Z683 => true
  | _ => false
  end.

(* between the INSERT and the registration of a new instance: `self` is the new instance, `id` its id *)
Definition creating (p : pc) : bool :=
  match p with
  | C1400 | SK317 | SK318 | SK319 | SK320 | SK322 | K171 | K172 | K177 | K178 | K180 | K181a | K181t | K181
  | K183a | K183t | K183 => true
  | _ => false
  end.

(* ---- cull *)
Definition cullpc (p : pc) : bool :=
  match p with
  | U192 | U193 | U195 | U196 | U197 | U198 | U200 | U201 | U202 | U204 | U205 | U209 | U210 | U214 | U216 => true
  | _ => false
  end.
(* between `del self.cache[id]` and `self.expiredCache[id] = obj`: the key is in neither dict *)
Definition kabs (p : pc) : bool := match p with U209 | U210 => true | _ => false end.
(* `obj` is a weak reference to the object that was strong[id] *)
Definition cobjdef (p : pc) : bool := match p with U205 | U209 | U210 => true | _ => false end.
(* iterating over the snapshot of the weak keys / of the selected strong keys *)
Definition wkeys (p : pc) : bool := match p with U196 | U197 | U198 => true | _ => false end.
Definition wcur (p : pc) : bool := match p with U197 | U198 => true | _ => false end.
Definition skeys (p : pc) : bool := match p with U201 | U202 | U204 | U205 | U209 | U210 => true | _ => false end.
Definition scur (p : pc) : bool := match p with U202 | U204 | U205 => true | _ => false end.
Definition skeyout (p : pc) : bool := match p with U202 | U204 | U205 | U209 | U210 => true | _ => false end.

(* the id a lock holder knows to be absent from the dicts *)
Definition absent_key (th : thread) : option Z :=
  if sabs (t_pc th) then Some (t_id th) else if kabs (t_pc th) then Some (t_key th) else None.
(* the weak entry a lock holder has seen dead and is about to delete *)
Definition deadw (th : thread) : option Z :=
  match t_pc th with
  | F121 => match t_val th with None => Some (t_id th) | Some _ => None end
  | U198 => Some (t_key th)
  | _ => None
  end.

(* the object a lock holder has taken out of one dict and not yet put into the other (I3) *)
Definition mov_of (th : thread) : option (Z * nat) :=
  match t_pc th with
  | F122 | F124 => match t_val th with Some o => Some (t_id th, o) | None => None end
  | U209 | U210 => match t_cobj th with Some o => Some (t_key th, o) | None => None end
  | _ => None
  end.
(* the result a thread already carries in its frame *)
Definition inflight (th : thread) : option (Z * nat * nat) :=
  if tagged (t_pc th) then
    match t_exc th with
    | None => match t_val th with Some o => Some (t_id th, o, t_ep th) | None => None end
    | Some _ => None            (* an exception is on its way out: nothing will be returned *)
    end
  else None.

(* thread t, or the application on its behalf, holds object o as the result of a lookup of
   row i made in purge-epoch e *)
Definition holder (s : state) (i : Z) (o : nat) (e : nat) : Prop :=
  exists t, t < s_n s /\ (In (RObj o i e) (t_slots (s_thr s t)) \/ inflight (s_thr s t) = Some (i, o, e)).
(* o is the registered object of row i *)
Definition registered (s : state) (i : Z) (o : nat) : Prop :=
  dget (s_strong s) i = Some o \/ dget (s_weak s) i = Some o \/
  exists t, t < s_n s /\ mov_of (s_thr s t) = Some (i, o).

(* ---- the two expireAll *)
(* the window of CacheFactory.expireAll in which an id may be in both dicts (with the same object) *)
Definition xwinpc (p : pc) : bool := match p with A252 | A253 | A254 => true | _ => false end.
(* the first n entries of the strong dict have been copied to the weak dict *)
Definition copied (strong weak : dict) (n : nat) : Prop :=
  forall j k o, j < n -> nth_error strong j = Some (k, o) -> dget weak k = Some o.
(* what the lock holder iterating over a dict knows (expireAll over the strong dict, getAll over the weak one) *)
Definition iter_ok (strong weak : dict) (sver wver : nat) (th : thread) : Prop :=
  (t_pc th = A252 -> match t_iter th with
                     | None => True
                     | Some (pos, size, ver) => size = List.length strong /\ ver = sver /\ copied strong weak pos
                     end) /\
  (t_pc th = A253 -> exists pos size ver o,
       t_iter th = Some (S pos, size, ver) /\ size = List.length strong /\ ver = sver /\ copied strong weak pos /\
       nth_error strong pos = Some (t_key th, o) /\ t_val th = Some o) /\
  (t_pc th = A254 -> copied strong weak (List.length strong)) /\
  (t_pc th = L279 \/ t_pc th = L280 \/ t_pc th = L280n \/ t_pc th = L281 ->
       match t_iter th with
       | None => t_pc th = L279
       | Some (pos, size, ver) => size = List.length weak /\ ver = wver
       end) /\
  (t_pc th = L280 -> t_cobj th <> None) /\
  (t_pc th = L281 -> t_val th <> None).

(* what a thread inside cull knows *)
Definition cull_ok (strong weak : dict) (heap : nat -> obj) (th : thread) : Prop :=
  (kabs (t_pc th) = true -> dget strong (t_key th) = None /\ dget weak (t_key th) = None) /\
  (cobjdef (t_pc th) = true ->
     exists o, t_cobj th = Some o /\ o_key (heap o) = t_key th /\ (t_pc th = U205 -> dget strong (t_key th) = Some o)) /\
  (wkeys (t_pc th) = true ->
     NoDup (t_keys th) /\ (forall k, In k (t_keys th) -> dget weak k <> None) /\
     (wcur (t_pc th) = true -> dget weak (t_key th) <> None /\ ~ In (t_key th) (t_keys th))) /\
  (skeys (t_pc th) = true ->
     NoDup (t_keys th) /\ (forall k, In k (t_keys th) -> dget strong k <> None) /\
     (scur (t_pc th) = true -> dget strong (t_key th) <> None) /\
     (skeyout (t_pc th) = true -> ~ In (t_key th) (t_keys th))) /\
  (cullpc (t_pc th) = true -> t_cret th = RetCreated ->
     exists o, t_self th = Some o /\ o_key (heap o) = t_id th).

(* ------------------------------------------------------------------ the operation set of the proved theorem *)
(* every program point of the model is inside the proved operation set *)
Definition core_pc (p : pc) : bool := true.
Definition core_op (o : op) : bool := true.

(* created() (now under the lock) is excluded when the cache already has an entry for the new id: that
   happens exactly when a get of that id missed between the creator's INSERT and its created() and
   registered an instance of its own (finding created_overwrites_get_miss) *)
Definition created_race (s : state) (t : nat) : bool :=
  let i := t_id (s_thr s t) in
  match dget (s_strong s) i, dget (s_weak s) i with
  | None, None => false
  | _, _ => true
  end.

(* cache=False, get: `del self.expiredCache[id]` (line "F142", under the lock) after the lock holder has seen the
   referent of the entry dead at line "F137".  The partial theorems take from the guard that the entry is still there
   and its referent still dead (nobody but the lock holder writes the weak dict, and a dead referent never comes
   back to life -- both true of every run replayed so far, the replay checks this conjunct; not proved) *)
Definition seen_dead_still (s : state) (t : nat) : bool :=
  match dget (s_weak s) (t_id (s_thr s t)) with
  | Some o => negb (aliveb s o)
  | None => false
  end.

(* the steps the partial theorem is about: operations of the core set, no cull triggered, and not
   the racing created() *)
Definition guard (s : state) (t : nat) : bool :=
  let th := s_thr s t in
  match t_pc th with
  | Idle => match t_prog th with
            | Drop t' _ :: _ => Nat.eqb t' t       (* the application forgets its own results *)
            | Expire t' _ :: _ => Nat.ltb t' (s_n s)   (* ... expires a result of an existing thread *)
            | _ => true
            end
  | K181 => negb (created_race s t)
  | K183 => negb (created_race s t)              (* the same write when caching is off *)
  | F142 => seen_dead_still s t
  | X1072 => o_init (s_heap s (self_of th))     (* expire() of an instance still under construction elsewhere *)
  | _ => true
  end.

Inductive greach (g : state -> nat -> bool) (s0 : state) : state -> Prop :=
| greach_refl : greach g s0 s0
| greach_step : forall s t s', greach g s0 s -> g s t = true -> step s t = Some s' -> greach g s0 s'.
Definition reach := greach (fun _ _ => true).

(* ------------------------------------------------------------------ the invariant *)
Definition ref_ok (s : state) (o : option nat) : Prop := forall x, o = Some x -> x < s_nextobj s.

Record Inv (s : state) : Prop := {
  (* references point to allocated instances *)
  inv_w_strong : forall k o, dget (s_strong s) k = Some o -> o < s_nextobj s;
  inv_w_weak : forall k o, dget (s_weak s) k = Some o -> o < s_nextobj s;
  inv_w_thr : forall t, t < s_n s -> ref_ok s (t_val (s_thr s t)) /\ ref_ok s (t_self (s_thr s t)) /\
                forall o i e, In (RObj o i e) (t_slots (s_thr s t)) -> o < s_nextobj s;
  inv_w_cobj : forall t, t < s_n s -> ref_ok s (t_cobj (s_thr s t));
  inv_w_all : forall t o, t < s_n s -> In o (t_all (s_thr s t)) \/ In o (t_items (s_thr s t)) -> o < s_nextobj s;
  (* I1: entries are well keyed *)
  inv_key_strong : forall k o, dget (s_strong s) k = Some o -> o_key (s_heap s o) = k;
  inv_key_weak : forall k o, dget (s_weak s) k = Some o -> o_key (s_heap s o) = k;
  (* I4: lock discipline *)
  inv_lock : forall t, t < s_n s -> (s_lock s = Some t <-> holds (t_pc (s_thr s t)) = true);
  inv_lock_dom : forall t, s_lock s = Some t -> t < s_n s;
  inv_wlock : forall t o, t < s_n s -> o < s_nextobj s ->
                (o_wlock (s_heap s o) = Some t <-> (wholds (t_pc (s_thr s t)) = true /\ t_self (s_thr s t) = Some o));
  inv_wlock_dom : forall t o, o_wlock (s_heap s o) = Some t -> t < s_n s /\ o < s_nextobj s;
  (* I5: after a miss under the lock nobody has an entry for the id *)
  inv_sabs : forall t, t < s_n s -> sabs (t_pc (s_thr s t)) = true -> dget (s_strong s) (t_id (s_thr s t)) = None;
  inv_wabs : forall t, t < s_n s -> wabs (t_pc (s_thr s t)) = true -> dget (s_weak s) (t_id (s_thr s t)) = None;
  (* a dict has no duplicate keys; an id is in one dict at most, except inside expireAll's copying *)
  inv_nodup_strong : NoDup (dkeys (s_strong s));
  inv_nodup_weak : NoDup (dkeys (s_weak s));
  inv_disj : forall k o, dget (s_strong s) k = Some o ->
               dget (s_weak s) k = None \/
               (dget (s_weak s) k = Some o /\ exists t, t < s_n s /\ xwinpc (t_pc (s_thr s t)) = true);
  (* locals *)
  inv_valdef : forall t, t < s_n s -> valdef (t_pc (s_thr s t)) = true -> t_val (s_thr s t) <> None;
  inv_valkey : forall t o, t < s_n s -> (valdef (t_pc (s_thr s t)) || tagged (t_pc (s_thr s t))) = true ->
                 t_val (s_thr s t) = Some o -> o_key (s_heap s o) = t_id (s_thr s t);
  inv_selfkey : forall t o, t < s_n s -> creating (t_pc (s_thr s t)) = true ->
                  t_self (s_thr s t) = Some o -> o_key (s_heap s o) = t_id (s_thr s t);
  inv_selfdef : forall t, t < s_n s -> selfdef (t_pc (s_thr s t)) = true -> t_self (s_thr s t) <> None;
  inv_exc : forall t, t < s_n s ->
              t_exc (s_thr s t) = None \/
              (t_exc (s_thr s t) = Some NotFound /\
               (t_pc (s_thr s t) = M956 \/ t_pc (s_thr s t) = SQ314 \/ t_pc (s_thr s t) = Q162));
  (* I2 / I3: identity per purge-epoch, and the registered object is reachable *)
  inv_ep_le : forall i o e, holder s i o e -> e <= s_epoch s i;
  inv_ident : forall i o o' e, holder s i o e -> holder s i o' e -> o = o';
  inv_reg : forall i o, holder s i o (s_epoch s i) -> registered s i o;
  (* between the look at the weak dict and the removal of the entry (get, line 117 -> 121; cull,
     line 197 -> 198): a live referent is the entry; of a dead one nobody holds a result *)
  inv_f121 : forall t o, t < s_n s -> t_pc (s_thr s t) = F121 -> t_val (s_thr s t) = Some o ->
               dget (s_weak s) (t_id (s_thr s t)) = Some o;
  inv_deadw : forall t k, t < s_n s -> deadw (s_thr s t) = Some k ->
               dget (s_weak s) k <> None /\ forall o, ~ holder s k o (s_epoch s k);
  (* cull: the assertions of the lock holder inside cull (and of a cull called from created) *)
  inv_cull : forall t, t < s_n s -> cull_ok (s_strong s) (s_weak s) (s_heap s) (s_thr s t);
  inv_iter : forall t, t < s_n s -> iter_ok (s_strong s) (s_weak s) (s_sver s) (s_wver s) (s_thr s t);
  (* no exception other than the documented not-found; the run is inside the model *)
  inv_noexc : forall t x, t < s_n s -> In (RExc x) (t_slots (s_thr s t)) -> x = NotFound;
  inv_unmod : s_unmod s = false;
  (* scope of the partial theorem *)
  inv_scope : forall t, t < s_n s -> core_pc (t_pc (s_thr s t)) = true
}.

(* ------------------------------------------------------------------ the two modes *)
(* statements inside a branch taken only when doCache is true / false *)
Definition doc_only (p : pc) : bool :=
  match p with
  | F94 | F99 | F100 | F102 | F104 | F105 | F106 | F107 | F108 | F109 | F110 | F111 | F112 | F114 | F115 | F116 | F117
  | F118 | F119 | F121 | F122 | F123 | F124 | F125 | F126 | P153
  | K172 | K177 | K178 | K180 | K181a | K181t | K181 | K181r
  | U192 | U193 | U195 | U196 | U197 | U198 | U200 | U201 | U202 | U204 | U205 | U209 | U210 | U214 | U216
  | E234 | E235 | E236 | E237 | E238 | E239 | E241
  | A250 | A251 | A252 | A253 | A254 | A256 | L276 => true
  | _ => false
  end.
Definition noc_only (p : pc) : bool :=
  match p with
  | F129 | F130 | F131 | F132 | F133 | F134 | F135 | F136 | F137 | F138 | F139 | F141 | F142 | F143 | F144 | F145
  | P155 | K183a | K183t | K183 | K183r | E233 | A249 | L278 => true
  | _ => false
  end.
(* every thread is inside the branches of the connection's mode; without caching the strong dict does not exist *)
Record Aux (s : state) : Prop := {
  aux_doc : forall t, t < s_n s -> doc_only (t_pc (s_thr s t)) = true -> s_docache s = true;
  aux_noc : forall t, t < s_n s -> noc_only (t_pc (s_thr s t)) = true -> s_docache s = false;
  aux_strong : s_docache s = false -> s_strong s = []
}.

(* ------------------------------------------------------------------ what the property asks of every state *)
(* a result kept by the application *)
Definition result_of (s : state) (t : nat) (r : res) : Prop := t < s_n s /\ In r (t_slots (s_thr s t)).

Record Safe (s : state) : Prop := {
  (* lock discipline: the lock is held exactly by a thread inside a critical region *)
  safe_lock : forall t, t < s_n s -> (s_lock s = Some t <-> holds (t_pc (s_thr s t)) = true);
  (* all threads that asked for the same row (in the same purge epoch) hold the same object *)
  safe_ident : forall t t' i o o' e, result_of s t (RObj o i e) -> result_of s t' (RObj o' i e) -> o = o';
  (* a still referenced, unpurged object is the one the cache has for its row *)
  safe_reach : forall t i o, result_of s t (RObj o i (s_epoch s i)) -> registered s i o;
  (* no exception other than the documented not-found *)
  safe_noexc : forall t x, result_of s t (RExc x) -> x = NotFound
}.

Definition all_finished (s : state) : Prop := forall t, t < s_n s -> finished (s_thr s t) = true.

(* the full statements (false for the unchanged code: see the refuted witnesses) *)
Definition C09_inv_full : Prop :=
  forall freq frac rows progs s, reach (init freq frac rows progs) s -> Safe s.
(* the same two for a cache=False connection *)
Definition C09_inv_nocache_full : Prop :=
  forall freq frac rows progs s, reach (initc false freq frac rows progs) s -> Safe s.
Definition C09_quiescent_nocache_full : Prop :=
  forall freq frac rows progs s, reach (initc false freq frac rows progs) s -> all_finished s ->
    s_lock s = None /\
    (forall t x, result_of s t (RExc x) -> x = NotFound) /\
    (forall t t' i o o' e, result_of s t (RObj o i e) -> result_of s t' (RObj o' i e) -> o = o') /\
    (forall t i o, result_of s t (RObj o i (s_epoch s i)) ->
       dget (s_strong s) i = Some o \/ dget (s_weak s) i = Some o).
Definition C09_quiescent_full : Prop :=
  forall freq frac rows progs s, reach (init freq frac rows progs) s -> all_finished s ->
    s_lock s = None /\
    (forall t x, result_of s t (RExc x) -> x = NotFound) /\
    (forall t t' i o o' e, result_of s t (RObj o i e) -> result_of s t' (RObj o' i e) -> o = o') /\
    (forall t i o, result_of s t (RObj o i (s_epoch s i)) ->
       dget (s_strong s) i = Some o \/ dget (s_weak s) i = Some o).

(* computable detectors used by the witnesses *)
Definition res_list (s : state) : list res := flat_map (fun t => t_slots (s_thr s t)) (seq 0 (s_n s)).
Definition two_objects (s : state) : bool :=
  existsb (fun a => existsb (fun b =>
    match a, b with
    | RObj o i e, RObj o' i' e' => Z.eqb i i' && Nat.eqb e e' && negb (Nat.eqb o o')
    | _, _ => false
    end) (res_list s)) (res_list s).
Definition bad_exception (s : state) : bool :=
  existsb (fun a => match a with RExc x => negb (exn_eqb x NotFound) | _ => false end) (res_list s).
Definition lost_object (s : state) : bool :=
  existsb (fun a => match a with
                    | RObj o i e => Nat.eqb e (s_epoch s i) &&
                                    negb (match dget (s_strong s) i with Some o' => Nat.eqb o o' | None => false end) &&
                                    negb (match dget (s_weak s) i with Some o' => Nat.eqb o o' | None => false end)
                    | _ => false end) (res_list s).
Definition all_finished_b (s : state) : bool := forallb (fun t => finished (s_thr s t)) (seq 0 (s_n s)).

(* a run all of whose steps pass the guard *)
Fixpoint grun (s : state) (sched : list nat) : option state :=
  match sched with
  | [] => Some s
  | t :: r => if guard s t then match step s t with Some s' => grun s' r | None => None end else None
  end.
(* the object results of the threads, as (thread, object, row, epoch) *)
Definition obj_results (s : state) : list (nat * nat * Z * nat) :=
  flat_map (fun t => flat_map (fun r => match r with RObj o i e => [(t, o, i, e)] | _ => [] end) (t_slots (s_thr s t)))
           (seq 0 (s_n s)).
