(* Model/Hub.v -- ConnectionHub.getConnection / doInTransaction
   (sqlobject/dbconnection.py) with several threads, each running one
   doInTransaction(body) against the hub, interleaved at the granularity of
   one body step.  Definitions only.

   hub = one thread-local slot per thread + one process-level slot;
   getConnection resolves the thread's slot first, then the process slot.
   doInTransaction: old := the thread's slot if set (else the process slot);
   conn := old.transaction(); conn is installed in the SAME slot; the body
   runs; on an exception conn.rollback() and re-raise, else
   conn.commit(close=True); finally the slot gets `old` back.

   The body is a list of steps against the hub (create a row / update a column
   of the row with an id / delete the row with an id / raise) executed through
   an eager class with columns a, b and a UNIQUE column u; Cls.get(id) of a row not yet in the
   transaction's cache SELECTs it (not-found if absent).  Database: as in
   Model/Txn.v -- one committed table; a transaction's first write takes
   sqlite's write lock until its commit/rollback; a write while another
   transaction holds the lock raises OperationalError at once (timeout 0). *)
From Coq Require Import List ZArith Bool.
From Model Require Import Txn.
Import ListNotations.
Open Scope Z_scope.

(* what a hub slot holds: a DBConnection, or the Transaction that thread t's doInTransaction opened *)
Inductive cref := CDb (n : nat) | CTx (t : nat).
Definition cref_eqb (a b : cref) : bool :=
  match a, b with CDb x, CDb y | CTx x, CTx y => Nat.eqb x y | _, _ => false end.

Inductive bstep :=
| BCreate (a b : val)
| BUpdate (id : Z) (c : nat) (v : val)     (* o = Cls.get(id); o.<c> = v *)
| BDelete (id : Z)                         (* Cls.get(id).destroySelf() *)
| BWrite (id : Z) (c : nat) (v : val)      (* p.<c> = v on an instance p of row id that was loaded BEFORE the call (through the
                                              hub, i.e. through the connection then bound): its UPDATE goes through the hub, hence
                                              through the transaction; nothing is fetched, nothing enters the transaction's cache *)
| BErase (id : Z)                          (* p.destroySelf() on such an instance: DELETE through the transaction; the
                                              transaction's cache entry of that id, if any, is purged *)
| BDeleteMany (id : Z)                     (* Cls.deleteMany(Cls.q.id == id): a class-level DELETE, no instance involved *)
(* steps on the third column u, which is UNIQUE (the steps above leave it NULL / alone).  A statement that would make two rows
   carry the same non-NULL u is refused by the database (DuplicateEntryError): nothing is written, but the statement was sent --
   inside a transaction it has taken the write lock, and everything the transaction did before stays.  guard = true: the body
   catches that exception and carries on (try: ... except DuplicateEntryError: pass); guard = false: it propagates *)
| BCreateU (guard : bool) (a b u : val)    (* Cls(a=, b=, u=) *)
| BUpdateU (guard : bool) (id : Z) (u : val)   (* o = Cls.get(id); o.u = u *)
| BWriteU (guard : bool) (id : Z) (u : val)    (* p.u = u on an instance loaded before the call *)
| BFail (n : nat).                         (* raise the n-th exception object of the program *)

Inductive hexc :=
| XUser (n : nat)         (* raised by the body itself *)
| XNotFound               (* SQLObjectNotFound from get *)
| XLocked                 (* OperationalError: database is locked *)
| XDuplicate              (* DuplicateEntryError: the UNIQUE column *)
| XNoConnection           (* AttributeError: the hub has nothing for this thread *)
| XNested.                (* outside the model: the slot already held a Transaction *)

(* what doInTransaction hands back: the body's value (here: the ids it created), or the exception
   together with the index of the body step that raised it (its identity) *)
Inductive result := Return (created : list Z) | Raised (e : hexc) (k : nat).

Record txinfo := { x_obsolete : bool; x_released : bool }.   (* Transaction._obsolete; low-level connection handed back *)

Inductive phase :=
| PIdle (body : list bstep)                                   (* has not called doInTransaction yet *)
| PRun (old : cref) (is_thr : bool) (view : option table)     (* inside: the saved connection, which slot, private view once it wrote *)
       (cached : list Z)                                      (* ids the transaction's cache holds *)
       (rest : list bstep) (k : nat) (created : list Z)
| PDone (r : result) (x : option txinfo).                     (* returned / raised; the transaction it used, if one was opened *)

Record tstate := { ts_slot : option cref; ts_phase : phase }.

Record gst := {
  g_committed : table;
  g_lock : option nat;                 (* the thread whose transaction holds the write lock *)
  g_proc : option cref;                (* hub.processConnection *)
  g_threads : list tstate
}.

Definition idle_thread : tstate := {| ts_slot := None; ts_phase := PIdle [] |}.
Definition thread (g : gst) (t : nat) : tstate := nth t (g_threads g) idle_thread.

(* hub.getConnection() called in thread t *)
Definition resolve (g : gst) (t : nat) : option cref :=
  match ts_slot (thread g t) with Some c => Some c | None => g_proc g end.

Definition set_thread (g : gst) (t : nat) (slot : option cref) (ph : phase) : gst :=
  {| g_committed := g_committed g; g_lock := g_lock g; g_proc := g_proc g;
     g_threads := set_nth t {| ts_slot := slot; ts_phase := ph |} (g_threads g) |}.
Definition with_gcommitted (g : gst) (c : table) : gst :=
  {| g_committed := c; g_lock := g_lock g; g_proc := g_proc g; g_threads := g_threads g |}.
Definition with_glock (g : gst) (l : option nat) : gst :=
  {| g_committed := g_committed g; g_lock := l; g_proc := g_proc g; g_threads := g_threads g |}.
Definition with_gproc (g : gst) (p : option cref) : gst :=
  {| g_committed := g_committed g; g_lock := g_lock g; g_proc := p; g_threads := g_threads g |}.

(* assignment to the slot doInTransaction took the connection from *)
Definition install (g : gst) (t : nat) (is_thr : bool) (c : cref) (ph : phase) : gst :=
  if is_thr then set_thread g t (Some c) ph
  else with_gproc (set_thread g t (ts_slot (thread g t)) ph) (Some c).

Definition locked_by_other (g : gst) (t : nat) : bool :=
  match g_lock g with Some t' => negb (Nat.eqb t' t) | None => false end.
Definition release_lock (g : gst) (t : nat) : gst :=
  match g_lock g with
  | Some t' => if Nat.eqb t' t then with_glock g None else g
  | None => g
  end.

Definition finished : txinfo := {| x_obsolete := true; x_released := true |}.

(* except Exception: conn.rollback(); raise -- finally: restore the slot *)
Definition exit_raise (g : gst) (t : nat) (old : cref) (is_thr : bool) (e : hexc) (k : nat) : gst :=
  install (release_lock g t) t is_thr old (PDone (Raised e k) (Some finished)).

(* else: conn.commit(close=True); return value -- finally: restore the slot *)
Definition exit_return (g : gst) (t : nat) (old : cref) (is_thr : bool) (view : option table) (created : list Z) : gst :=
  let g1 := match view with Some v => with_gcommitted g v | None => g end in
  install (release_lock g1 t) t is_thr old (PDone (Return created) (Some finished)).

(* what the transaction reads *)
Definition tview (g : gst) (view : option table) : table :=
  match view with Some v => v | None => g_committed g end.

(* Cls.get(id) inside the body: a cached instance, or a SELECT *)
Definition get_ok (v : table) (cached : list Z) (id : Z) : bool :=
  mem_z id cached || match tbl_lookup v id with Some _ => true | None => false end.
Definition add_id (id : Z) (l : list Z) : list Z := if mem_z id l then l else l ++ [id].
Definition remove_id (id : Z) (l : list Z) : list Z := filter (fun x => negb (x =? id)) l.

Definition ucol : nat := 2.              (* the UNIQUE column *)

(* one scheduling step of thread t *)
Definition tick (g : gst) (t : nat) : gst :=
  let ts := thread g t in
  match ts_phase ts with
  | PDone _ _ => g
  | PIdle body =>
      (* doInTransaction up to the first step of the body *)
      match (match ts_slot ts with
             | Some c => Some (c, true)
             | None => match g_proc g with Some c => Some (c, false) | None => None end
             end) with
      | None => set_thread g t (ts_slot ts) (PDone (Raised XNoConnection 0) None)
      | Some (CTx _, _) => set_thread g t (ts_slot ts) (PDone (Raised XNested 0) None)
      | Some (CDb n, is_thr) => install g t is_thr (CTx t) (PRun (CDb n) is_thr None [] body 0 [])
      end
  | PRun old is_thr view cached [] k created => exit_return g t old is_thr view created
  | PRun old is_thr view cached (st :: rest) k created =>
      let v := tview g view in
      let go (view' : table) (cached' : list Z) (created' : list Z) : gst :=
        set_thread (with_glock g (Some t)) t (ts_slot ts) (PRun old is_thr (Some view') cached' rest (S k) created') in
      match st with
      | BFail n => exit_raise g t old is_thr (XUser n) k
      | BCreate a b =>
          if locked_by_other g t then exit_raise g t old is_thr XLocked k
          else let '(id, v') := tbl_insert [a; b; None] v in go v' (add_id id cached) (created ++ [id])
      | BUpdate id c x =>
          if negb (get_ok v cached id) then exit_raise g t old is_thr XNotFound k
          else if locked_by_other g t then exit_raise g t old is_thr XLocked k
          else go (tbl_update id c x v) (add_id id cached) created
      | BDelete id =>
          if negb (get_ok v cached id) then exit_raise g t old is_thr XNotFound k
          else if locked_by_other g t then exit_raise g t old is_thr XLocked k
          else go (tbl_delete id v) (remove_id id cached) created
      | BWrite id c x =>
          if locked_by_other g t then exit_raise g t old is_thr XLocked k
          else go (tbl_update id c x v) cached created
      | BErase id =>
          if locked_by_other g t then exit_raise g t old is_thr XLocked k
          else go (tbl_delete id v) (remove_id id cached) created
      | BDeleteMany id =>
          if locked_by_other g t then exit_raise g t old is_thr XLocked k
          else go (tbl_delete id v) cached created
      | BCreateU gd a b u =>
          if locked_by_other g t then exit_raise g t old is_thr XLocked k
          else if clash ucol v None u then
                 (if gd then go v cached created else exit_raise g t old is_thr XDuplicate k)
          else let '(id, v') := tbl_insert [a; b; u] v in go v' (add_id id cached) (created ++ [id])
      | BUpdateU gd id u =>
          if negb (get_ok v cached id) then exit_raise g t old is_thr XNotFound k
          else if locked_by_other g t then exit_raise g t old is_thr XLocked k
          else if upd_clash ucol v id u then
                 (if gd then go v (add_id id cached) created else exit_raise g t old is_thr XDuplicate k)
          else go (tbl_update id ucol u v) (add_id id cached) created
      | BWriteU gd id u =>
          if locked_by_other g t then exit_raise g t old is_thr XLocked k
          else if upd_clash ucol v id u then
                 (if gd then go v cached created else exit_raise g t old is_thr XDuplicate k)
          else go (tbl_update id ucol u v) cached created
      end
  end.

Fixpoint run_sched (g : gst) (sched : list nat) : gst :=
  match sched with [] => g | t :: rest => run_sched (tick g t) rest end.

(* ------------------------------------------------------------------ the body on its own (what the function does) *)
(* outcome and final table of the body run against table v, nobody else writing *)
Fixpoint body_run (v : table) (cached : list Z) (steps : list bstep) (k : nat) (created : list Z) : result * table :=
  match steps with
  | [] => (Return created, v)
  | BFail n :: _ => (Raised (XUser n) k, v)
  | BCreate a b :: rest =>
      let '(id, v') := tbl_insert [a; b; None] v in body_run v' (add_id id cached) rest (S k) (created ++ [id])
  | BUpdate id c x :: rest =>
      if get_ok v cached id then body_run (tbl_update id c x v) (add_id id cached) rest (S k) created
      else (Raised XNotFound k, v)
  | BDelete id :: rest =>
      if get_ok v cached id then body_run (tbl_delete id v) (remove_id id cached) rest (S k) created
      else (Raised XNotFound k, v)
  | BWrite id c x :: rest => body_run (tbl_update id c x v) cached rest (S k) created
  | BErase id :: rest => body_run (tbl_delete id v) (remove_id id cached) rest (S k) created
  | BDeleteMany id :: rest => body_run (tbl_delete id v) cached rest (S k) created
  | BCreateU gd a b u :: rest =>
      if clash ucol v None u then (if gd then body_run v cached rest (S k) created else (Raised XDuplicate k, v))
      else let '(id, v') := tbl_insert [a; b; u] v in body_run v' (add_id id cached) rest (S k) (created ++ [id])
  | BUpdateU gd id u :: rest =>
      if get_ok v cached id then
        if upd_clash ucol v id u then (if gd then body_run v (add_id id cached) rest (S k) created else (Raised XDuplicate k, v))
        else body_run (tbl_update id ucol u v) (add_id id cached) rest (S k) created
      else (Raised XNotFound k, v)
  | BWriteU gd id u :: rest =>
      if upd_clash ucol v id u then (if gd then body_run v cached rest (S k) created else (Raised XDuplicate k, v))
      else body_run (tbl_update id ucol u v) cached rest (S k) created
  end.
Definition body_result (v : table) (body : list bstep) : result := fst (body_run v [] body 0 []).
Definition body_table (v : table) (body : list bstep) : table := snd (body_run v [] body 0 []).

(* ------------------------------------------------------------------ vocabulary of the theorems *)
Definition is_done (ph : phase) : bool := match ph with PDone _ _ => true | _ => false end.
Definition is_idle (ph : phase) : bool := match ph with PIdle _ => true | _ => false end.
Definition all_done (g : gst) : bool := forallb (fun ts => is_done (ts_phase ts)) (g_threads g).
Definition slot_is_db (o : option cref) : bool := match o with Some (CDb _) => true | _ => false end.

(* thread-level binding: every thread has its own DBConnection in its slot and has not started *)
Definition start_threads (g : gst) : bool :=
  forallb (fun ts => slot_is_db (ts_slot ts) && is_idle (ts_phase ts)) (g_threads g) &&
  match g_lock g with None => true | Some _ => false end.

(* process-level binding: no thread has a slot of its own, the process slot holds a DBConnection,
   nobody has started *)
Definition start_process (g : gst) : bool :=
  forallb (fun ts => match ts_slot ts with None => true | Some _ => false end && is_idle (ts_phase ts)) (g_threads g) &&
  slot_is_db (g_proc g) &&
  match g_lock g with None => true | Some _ => false end.

(* thread t's own slot holds DBConnection n (is_thr = true), or it has no slot of its own and the process
   slot holds DBConnection n *)
Definition caller_bound (g : gst) (t : nat) (n : nat) (is_thr : bool) : Prop :=
  if is_thr return Prop then ts_slot (thread g t) = Some (CDb n)
  else ts_slot (thread g t) = None /\ g_proc g = Some (CDb n).

Definition body_of (g : gst) (t : nat) : list bstep :=
  match ts_phase (thread g t) with PIdle b => b | _ => [] end.

(* ------------------------------------------------------------------ histories: several calls per thread, ordinary writes in between *)
(* what a thread does, in order: a hub.doInTransaction(body), or one ordinary write through the hub outside any
   doInTransaction (the connection the hub resolves to is in autocommit mode: the write is durable at once).  Ordinary
   writes are the steps that do not depend on the parent connection's instance cache: Cls(...), an assignment to /
   destroySelf of an instance loaded at the start, Cls.deleteMany *)
Inductive item := ICall (body : list bstep) | IPlain (st : bstep).

Definition plain_step (g : gst) (t : nat) (st : bstep) : gst * result :=
  match resolve g t with
  | None => (g, Raised XNoConnection 0)
  | Some (CTx _) => (g, Raised XNested 0)               (* outside the model: the hub resolves to somebody's transaction *)
  | Some (CDb _) =>
      match g_lock g with
      | Some _ => (g, Raised XLocked 0)                 (* a transaction holds sqlite's write lock *)
      | None =>
          let v := g_committed g in
          match st with
          | BCreate a b => let '(id, v') := tbl_insert [a; b; None] v in (with_gcommitted g v', Return [id])
          | BCreateU gd a b u =>
              if clash ucol v None u then (with_gcommitted g v, if gd then Return [] else Raised XDuplicate 0)
              else let '(id, v') := tbl_insert [a; b; u] v in (with_gcommitted g v', Return [id])
          | BWriteU gd id u =>
              if upd_clash ucol v id u then (with_gcommitted g v, if gd then Return [] else Raised XDuplicate 0)
              else (with_gcommitted g (tbl_update id ucol u v), Return [])
          | BWrite id c x => (with_gcommitted g (tbl_update id c x v), Return [])
          | BErase id => (with_gcommitted g (tbl_delete id v), Return [])
          | BDeleteMany id => (with_gcommitted g (tbl_delete id v), Return [])
          | _ => (g, Raised XNested 0)                  (* not an ordinary write of this model *)
          end
      end
  end.

Record hst := {
  h_g : gst;
  h_todo : list (list item);           (* per thread: what is still to do *)
  h_plain : list (option result)       (* per thread: the outcome of its last ordinary write *)
}.

(* a thread that is between calls shows the result of its last call; before its first one: nothing yet *)
Definition nothing_yet : phase := PDone (Return []) None.

Definition htick (h : hst) (t : nat) : hst :=
  let g := h_g h in
  match ts_phase (thread g t) with
  | PRun _ _ _ _ _ _ _ | PIdle _ =>
      {| h_g := tick g t; h_todo := h_todo h; h_plain := h_plain h |}
  | PDone _ _ =>
      match nth t (h_todo h) [] with
      | [] => h
      | ICall body :: rest =>
          let g1 := set_thread g t (ts_slot (thread g t)) (PIdle body) in
          {| h_g := tick g1 t; h_todo := set_nth t rest (h_todo h); h_plain := h_plain h |}
      | IPlain st :: rest =>
          let '(g1, r) := plain_step g t st in
          {| h_g := g1; h_todo := set_nth t rest (h_todo h); h_plain := set_nth t (Some r) (h_plain h) |}
      end
  end.

Fixpoint hrun (h : hst) (sched : list nat) : hst :=
  match sched with [] => h | t :: rest => hrun (htick h t) rest end.
