(* Model/Hub.v -- ConnectionHub.getConnection / doInTransaction
   (sqlobject/dbconnection.py) with several threads, each running one
   doInTransaction(body) against the hub, interleaved at the granularity of
   one body step.  Definitions only.

   hub = one thread-local slot per thread + one process-level slot;
   getConnection resolves the thread's slot first, then the process slot.
   doInTransaction: old := the thread's slot if set (else the process slot);
   conn := old.transaction(); conn is installed in the SAME slot; the body
   runs; on an exception conn.rollback() and re-raise, else
   conn.commit(close=True); finally the slot gets `old` back.

   The body is a list of steps against the hub (create a row / update a column
   of the row with an id / delete the row with an id / raise) executed through
   an eager class with columns a, b and a UNIQUE column u; Cls.get(id) of a row not yet in the
   transaction's cache SELECTs it (not-found if absent).  Database: as in
   Model/Txn.v -- one committed table; a transaction's first write takes
   sqlite's write lock until its commit/rollback; a write while another
   transaction holds the lock raises OperationalError at once (timeout 0). *)
From Coq Require Import List ZArith Bool.
From Model Require Import Txn.
Import ListNotations.
Open Scope Z_scope.

(* what a hub slot holds: a DBConnection, or the Transaction that thread t's doInTransaction opened *)
Inductive cref := CDb (n : nat) | CTx (t : nat).
Definition cref_eqb (a b : cref) : bool :=
  match a, b with CDb x, CDb y | CTx x, CTx y => Nat.eqb x y | _, _ => false end.

Inductive bstep :=
| BCreate (a b : val)
| BUpdate (id : Z) (c : nat) (v : val)     (* o = Cls.get(id); o.<c> = v *)
| BDelete (id : Z)                         (* Cls.get(id).destroySelf() *)
| BWrite (id : Z) (c : nat) (v : val)      (* p.<c> = v on an instance p of row id that was loaded BEFORE the call (through the
                                              hub, i.e. through the connection then bound): its UPDATE goes through the hub, hence
                                              through the transaction; nothing is fetched, nothing enters the transaction's cache *)
| BErase (id : Z)                          (* p.destroySelf() on such an instance: DELETE through the transaction; the
                                              transaction's cache entry of that id, if any, is purged *)
| BDeleteMany (id : Z)                     (* Cls.deleteMany(Cls.q.id == id): a class-level DELETE, no instance involved *)
(* steps on the third column u, which is UNIQUE (the steps above leave it NULL / alone).  A statement that would make two rows
   carry the same non-NULL u is refused by the database (DuplicateEntryError): nothing is written, but the statement was sent --
   inside a transaction it has taken the write lock, and everything the transaction did before stays.  guard = true: the body
   catches that exception and carries on (try: ... except DuplicateEntryError: pass); guard = false: it propagates *)
| BCreateU (guard : bool) (a b u : val)    (* Cls(a=, b=, u=) *)
| BUpdateU (guard : bool) (id : Z) (u : val)   (* o = Cls.get(id); o.u = u *)
| BWriteU (guard : bool) (id : Z) (u : val)    (* p.u = u on an instance loaded before the call *)
| BFail (n : nat).                         (* raise the n-th exception object of the program *)

Inductive hexc :=
| XUser (n : nat)         (* raised by the body itself *)
| XNotFound               (* SQLObjectNotFound from get *)
| XLocked                 (* OperationalError: database is locked *)
| XDuplicate              (* DuplicateEntryError: the UNIQUE column *)
| XNoConnection           (* AttributeError: the hub has nothing for this thread *)
| XNested                 (* outside the model: the slot already held a Transaction *)
(* only produced by the nested model at the end of this file: *)
| XBase (n : nat)         (* a BaseException that is not an Exception (KeyboardInterrupt, SystemExit, GeneratorExit): the n-th of the program *)
| XAssert                 (* AssertionError: "This transaction has already gone through ROLLBACK" (Transaction.assertActive) *)
| XRecursion.             (* RecursionError: Transaction._SO_delete of a transaction whose parent is a transaction calls itself *)

(* what doInTransaction hands back: the body's value (here: the ids it created), or the exception
   together with the index of the body step that raised it (its identity) *)
Inductive result := Return (created : list Z) | Raised (e : hexc) (k : nat).

Record txinfo := { x_obsolete : bool; x_released : bool }.   (* Transaction._obsolete; low-level connection handed back *)

Inductive phase :=
| PIdle (body : list bstep)                                   (* has not called doInTransaction yet *)
| PRun (old : cref) (is_thr : bool) (view : option table)     (* inside: the saved connection, which slot, private view once it wrote *)
       (cached : list Z)                                      (* ids the transaction's cache holds *)
       (rest : list bstep) (k : nat) (created : list Z)
| PDone (r : result) (x : option txinfo).                     (* returned / raised; the transaction it used, if one was opened *)

Record tstate := { ts_slot : option cref; ts_phase : phase }.

Record gst := {
  g_committed : table;
  g_lock : option nat;                 (* the thread whose transaction holds the write lock *)
  g_proc : option cref;                (* hub.processConnection *)
  g_threads : list tstate
}.

Definition idle_thread : tstate := {| ts_slot := None; ts_phase := PIdle [] |}.
Definition thread (g : gst) (t : nat) : tstate := nth t (g_threads g) idle_thread.

(* hub.getConnection() called in thread t *)
Definition resolve (g : gst) (t : nat) : option cref :=
  match ts_slot (thread g t) with Some c => Some c | None => g_proc g end.

Definition set_thread (g : gst) (t : nat) (slot : option cref) (ph : phase) : gst :=
  {| g_committed := g_committed g; g_lock := g_lock g; g_proc := g_proc g;
     g_threads := set_nth t {| ts_slot := slot; ts_phase := ph |} (g_threads g) |}.
Definition with_gcommitted (g : gst) (c : table) : gst :=
  {| g_committed := c; g_lock := g_lock g; g_proc := g_proc g; g_threads := g_threads g |}.
Definition with_glock (g : gst) (l : option nat) : gst :=
  {| g_committed := g_committed g; g_lock := l; g_proc := g_proc g; g_threads := g_threads g |}.
Definition with_gproc (g : gst) (p : option cref) : gst :=
  {| g_committed := g_committed g; g_lock := g_lock g; g_proc := p; g_threads := g_threads g |}.

(* assignment to the slot doInTransaction took the connection from *)
Definition install (g : gst) (t : nat) (is_thr : bool) (c : cref) (ph : phase) : gst :=
  if is_thr then set_thread g t (Some c) ph
  else with_gproc (set_thread g t (ts_slot (thread g t)) ph) (Some c).

Definition locked_by_other (g : gst) (t : nat) : bool :=
  match g_lock g with Some t' => negb (Nat.eqb t' t) | None => false end.
Definition release_lock (g : gst) (t : nat) : gst :=
  match g_lock g with
  | Some t' => if Nat.eqb t' t then with_glock g None else g
  | None => g
  end.

Definition finished : txinfo := {| x_obsolete := true; x_released := true |}.

(* except Exception: conn.rollback(); raise -- finally: restore the slot *)
Definition exit_raise (g : gst) (t : nat) (old : cref) (is_thr : bool) (e : hexc) (k : nat) : gst :=
  install (release_lock g t) t is_thr old (PDone (Raised e k) (Some finished)).

(* else: conn.commit(close=True); return value -- finally: restore the slot *)
Definition exit_return (g : gst) (t : nat) (old : cref) (is_thr : bool) (view : option table) (created : list Z) : gst :=
  let g1 := match view with Some v => with_gcommitted g v | None => g end in
  install (release_lock g1 t) t is_thr old (PDone (Return created) (Some finished)).

(* what the transaction reads *)
Definition tview (g : gst) (view : option table) : table :=
  match view with Some v => v | None => g_committed g end.

(* Cls.get(id) inside the body: a cached instance, or a SELECT *)
Definition get_ok (v : table) (cached : list Z) (id : Z) : bool :=
  mem_z id cached || match tbl_lookup v id with Some _ => true | None => false end.
Definition add_id (id : Z) (l : list Z) : list Z := if mem_z id l then l else l ++ [id].
Definition remove_id (id : Z) (l : list Z) : list Z := filter (fun x => negb (x =? id)) l.

Definition ucol : nat := 2.              (* the UNIQUE column *)

(* one scheduling step of thread t *)
Definition tick (g : gst) (t : nat) : gst :=
  let ts := thread g t in
  match ts_phase ts with
  | PDone _ _ => g
  | PIdle body =>
      (* doInTransaction up to the first step of the body *)
      match (match ts_slot ts with
             | Some c => Some (c, true)
             | None => match g_proc g with Some c => Some (c, false) | None => None end
             end) with
      | None => set_thread g t (ts_slot ts) (PDone (Raised XNoConnection 0) None)
      | Some (CTx _, _) => set_thread g t (ts_slot ts) (PDone (Raised XNested 0) None)
      | Some (CDb n, is_thr) => install g t is_thr (CTx t) (PRun (CDb n) is_thr None [] body 0 [])
      end
  | PRun old is_thr view cached [] k created => exit_return g t old is_thr view created
  | PRun old is_thr view cached (st :: rest) k created =>
      let v := tview g view in
      let go (view' : table) (cached' : list Z) (created' : list Z) : gst :=
        set_thread (with_glock g (Some t)) t (ts_slot ts) (PRun old is_thr (Some view') cached' rest (S k) created') in
      match st with
      | BFail n => exit_raise g t old is_thr (XUser n) k
      | BCreate a b =>
          if locked_by_other g t then exit_raise g t old is_thr XLocked k
          else let '(id, v') := tbl_insert [a; b; None] v in go v' (add_id id cached) (created ++ [id])
      | BUpdate id c x =>
          if negb (get_ok v cached id) then exit_raise g t old is_thr XNotFound k
          else if locked_by_other g t then exit_raise g t old is_thr XLocked k
          else go (tbl_update id c x v) (add_id id cached) created
      | BDelete id =>
          if negb (get_ok v cached id) then exit_raise g t old is_thr XNotFound k
          else if locked_by_other g t then exit_raise g t old is_thr XLocked k
          else go (tbl_delete id v) (remove_id id cached) created
      | BWrite id c x =>
          if locked_by_other g t then exit_raise g t old is_thr XLocked k
          else go (tbl_update id c x v) cached created
      | BErase id =>
          if locked_by_other g t then exit_raise g t old is_thr XLocked k
          else go (tbl_delete id v) (remove_id id cached) created
      | BDeleteMany id =>
          if locked_by_other g t then exit_raise g t old is_thr XLocked k
          else go (tbl_delete id v) cached created
      | BCreateU gd a b u =>
          if locked_by_other g t then exit_raise g t old is_thr XLocked k
          else if clash ucol v None u then
                 (if gd then go v cached created else exit_raise g t old is_thr XDuplicate k)
          else let '(id, v') := tbl_insert [a; b; u] v in go v' (add_id id cached) (created ++ [id])
      | BUpdateU gd id u =>
          if negb (get_ok v cached id) then exit_raise g t old is_thr XNotFound k
          else if locked_by_other g t then exit_raise g t old is_thr XLocked k
          else if upd_clash ucol v id u then
                 (if gd then go v (add_id id cached) created else exit_raise g t old is_thr XDuplicate k)
          else go (tbl_update id ucol u v) (add_id id cached) created
      | BWriteU gd id u =>
          if locked_by_other g t then exit_raise g t old is_thr XLocked k
          else if upd_clash ucol v id u then
                 (if gd then go v cached created else exit_raise g t old is_thr XDuplicate k)
          else go (tbl_update id ucol u v) cached created
      end
  end.

Fixpoint run_sched (g : gst) (sched : list nat) : gst :=
  match sched with [] => g | t :: rest => run_sched (tick g t) rest end.

(* ------------------------------------------------------------------ the body on its own (what the function does) *)
(* outcome and final table of the body run against table v, nobody else writing *)
Fixpoint body_run (v : table) (cached : list Z) (steps : list bstep) (k : nat) (created : list Z) : result * table :=
  match steps with
  | [] => (Return created, v)
  | BFail n :: _ => (Raised (XUser n) k, v)
  | BCreate a b :: rest =>
      let '(id, v') := tbl_insert [a; b; None] v in body_run v' (add_id id cached) rest (S k) (created ++ [id])
  | BUpdate id c x :: rest =>
      if get_ok v cached id then body_run (tbl_update id c x v) (add_id id cached) rest (S k) created
      else (Raised XNotFound k, v)
  | BDelete id :: rest =>
      if get_ok v cached id then body_run (tbl_delete id v) (remove_id id cached) rest (S k) created
      else (Raised XNotFound k, v)
  | BWrite id c x :: rest => body_run (tbl_update id c x v) cached rest (S k) created
  | BErase id :: rest => body_run (tbl_delete id v) (remove_id id cached) rest (S k) created
  | BDeleteMany id :: rest => body_run (tbl_delete id v) cached rest (S k) created
  | BCreateU gd a b u :: rest =>
      if clash ucol v None u then (if gd then body_run v cached rest (S k) created else (Raised XDuplicate k, v))
      else let '(id, v') := tbl_insert [a; b; u] v in body_run v' (add_id id cached) rest (S k) (created ++ [id])
  | BUpdateU gd id u :: rest =>
      if get_ok v cached id then
        if upd_clash ucol v id u then (if gd then body_run v (add_id id cached) rest (S k) created else (Raised XDuplicate k, v))
        else body_run (tbl_update id ucol u v) (add_id id cached) rest (S k) created
      else (Raised XNotFound k, v)
  | BWriteU gd id u :: rest =>
      if upd_clash ucol v id u then (if gd then body_run v cached rest (S k) created else (Raised XDuplicate k, v))
      else body_run (tbl_update id ucol u v) cached rest (S k) created
  end.
Definition body_result (v : table) (body : list bstep) : result := fst (body_run v [] body 0 []).
Definition body_table (v : table) (body : list bstep) : table := snd (body_run v [] body 0 []).

(* ------------------------------------------------------------------ vocabulary of the theorems *)
Definition is_done (ph : phase) : bool := match ph with PDone _ _ => true | _ => false end.
Definition is_idle (ph : phase) : bool := match ph with PIdle _ => true | _ => false end.
Definition all_done (g : gst) : bool := forallb (fun ts => is_done (ts_phase ts)) (g_threads g).
Definition slot_is_db (o : option cref) : bool := match o with Some (CDb _) => true | _ => false end.

(* thread-level binding: every thread has its own DBConnection in its slot and has not started *)
Definition start_threads (g : gst) : bool :=
  forallb (fun ts => slot_is_db (ts_slot ts) && is_idle (ts_phase ts)) (g_threads g) &&
  match g_lock g with None => true | Some _ => false end.

(* process-level binding: no thread has a slot of its own, the process slot holds a DBConnection,
   nobody has started *)
Definition start_process (g : gst) : bool :=
  forallb (fun ts => match ts_slot ts with None => true | Some _ => false end && is_idle (ts_phase ts)) (g_threads g) &&
  slot_is_db (g_proc g) &&
  match g_lock g with None => true | Some _ => false end.

(* thread t's own slot holds DBConnection n (is_thr = true), or it has no slot of its own and the process
   slot holds DBConnection n *)
Definition caller_bound (g : gst) (t : nat) (n : nat) (is_thr : bool) : Prop :=
  if is_thr return Prop then ts_slot (thread g t) = Some (CDb n)
  else ts_slot (thread g t) = None /\ g_proc g = Some (CDb n).

Definition body_of (g : gst) (t : nat) : list bstep :=
  match ts_phase (thread g t) with PIdle b => b | _ => [] end.

(* ------------------------------------------------------------------ histories: several calls per thread, ordinary writes in between *)
(* what a thread does, in order: a hub.doInTransaction(body), or one ordinary write through the hub outside any
   doInTransaction (the connection the hub resolves to is in autocommit mode: the write is durable at once).  Ordinary
   writes are the steps that do not depend on the parent connection's instance cache: Cls(...), an assignment to /
   destroySelf of an instance loaded at the start, Cls.deleteMany *)
Inductive item := ICall (body : list bstep) | IPlain (st : bstep).

Definition plain_step (g : gst) (t : nat) (st : bstep) : gst * result :=
  match resolve g t with
  | None => (g, Raised XNoConnection 0)
  | Some (CTx _) => (g, Raised XNested 0)               (* outside the model: the hub resolves to somebody's transaction *)
  | Some (CDb _) =>
      match g_lock g with
      | Some _ => (g, Raised XLocked 0)                 (* a transaction holds sqlite's write lock *)
      | None =>
          let v := g_committed g in
          match st with
          | BCreate a b => let '(id, v') := tbl_insert [a; b; None] v in (with_gcommitted g v', Return [id])
          | BCreateU gd a b u =>
              if clash ucol v None u then (with_gcommitted g v, if gd then Return [] else Raised XDuplicate 0)
              else let '(id, v') := tbl_insert [a; b; u] v in (with_gcommitted g v', Return [id])
          | BWriteU gd id u =>
              if upd_clash ucol v id u then (with_gcommitted g v, if gd then Return [] else Raised XDuplicate 0)
              else (with_gcommitted g (tbl_update id ucol u v), Return [])
          | BWrite id c x => (with_gcommitted g (tbl_update id c x v), Return [])
          | BErase id => (with_gcommitted g (tbl_delete id v), Return [])
          | BDeleteMany id => (with_gcommitted g (tbl_delete id v), Return [])
          | _ => (g, Raised XNested 0)                  (* not an ordinary write of this model *)
          end
      end
  end.

Record hst := {
  h_g : gst;
  h_todo : list (list item);           (* per thread: what is still to do *)
  h_plain : list (option result)       (* per thread: the outcome of its last ordinary write *)
}.

(* a thread that is between calls shows the result of its last call; before its first one: nothing yet *)
Definition nothing_yet : phase := PDone (Return []) None.

Definition htick (h : hst) (t : nat) : hst :=
  let g := h_g h in
  match ts_phase (thread g t) with
  | PRun _ _ _ _ _ _ _ | PIdle _ =>
      {| h_g := tick g t; h_todo := h_todo h; h_plain := h_plain h |}
  | PDone _ _ =>
      match nth t (h_todo h) [] with
      | [] => h
      | ICall body :: rest =>
          let g1 := set_thread g t (ts_slot (thread g t)) (PIdle body) in
          {| h_g := tick g1 t; h_todo := set_nth t rest (h_todo h); h_plain := h_plain h |}
      | IPlain st :: rest =>
          let '(g1, r) := plain_step g t st in
          {| h_g := g1; h_todo := set_nth t rest (h_todo h); h_plain := set_nth t (Some r) (h_plain h) |}
      end
  end.

Fixpoint hrun (h : hst) (sched : list nat) : hst :=
  match sched with [] => h | t :: rest => hrun (htick h t) rest end.

(* ================================================================== nested calls, BaseExceptions, bodies that touch the hub *)
(* ONE caller (one thread), big-step.  What is new against the machine above:
   * a body step may itself be  try: hub.doInTransaction(inner) except <nothing | Exception | BaseException>: pass ;
     doInTransaction takes whatever the hub slot holds as `old_conn` -- inside a call that is the caller's TRANSACTION --, and
     old_conn.transaction() is DBConnection.transaction re-bound (Transaction.__getattr__): a NEW Transaction whose
     _dbConnection is the outer transaction and whose DB-API connection is another one from the pool.  The two are independent
     for the database: the inner commit is durable at once; an inner write after the outer wrote meets the outer's write lock;
   * a body may raise a BaseException that is not an Exception: since e6ce2b8 doInTransaction catches BaseException, so it is
     rolled back and re-raised like any other exception (before, `except Exception` let it through: the transaction stayed open,
     holding the write lock, until the exception object was garbage);
   * a body may assign / delete hub.threadConnection, and call commit() / commit(close=True) / rollback() on the transaction it
     runs in (tx = hub.getConnection() taken when the body starts).
   Transactions are numbered in the order they are opened (CTx id). *)
Inductive ncatch := KNone | KExc | KAll.       (* no except clause / except Exception / except BaseException *)

Inductive nbody :=
| NEnd                                              (* return the ids created (own ones and those the inner calls returned) *)
| NStep (st : bstep) (rest : nbody)                 (* a statement through the hub (whatever it resolves to NOW) / raise *)
| NCall (catch : ncatch) (inner rest : nbody)       (* try: v = hub.doInTransaction(inner) except <catch>: pass *)
| NBase (n : nat)                                   (* raise the n-th BaseException that is not an Exception *)
| NSetThread (c : nat) (rest : nbody)               (* hub.threadConnection = DBConnection c *)
| NDelThread (rest : nbody)                         (* del hub.threadConnection *)
| NCommit (close : bool) (rest : nbody)             (* tx.commit(close) *)
| NRollback (rest : nbody).                         (* tx.rollback() *)

Record ntx := { nx_parent : cref;                   (* Transaction._dbConnection *)
                nx_view : option table;             (* its private view once it wrote *)
                nx_cached : list Z;                 (* ids its cache holds *)
                nx_open : bool }.                   (* not _obsolete, DB-API connection not handed back *)

(* what the program notes down while it runs: before every step what hub.getConnection() answers; when a doInTransaction
   that had entered its body is left: whose it was, is that transaction still open, does anybody hold the write lock *)
Inductive nev := EStep (r : option cref) | EExit (id : nat) (still_open : bool) (locked : bool).

Record nst := {
  n_committed : table;
  n_lock : option nat;                 (* the transaction holding the write lock *)
  n_slot : option cref;                (* the caller's hub.threadingLocal.connection *)
  n_proc : option cref;                (* hub.processConnection *)
  n_txs : list ntx;
  n_log : list nev
}.

Definition dead_tx : ntx := {| nx_parent := CDb 0; nx_view := None; nx_cached := []; nx_open := false |}.
Definition ntx_at (s : nst) (id : nat) : ntx := nth id (n_txs s) dead_tx.
Definition nresolve (s : nst) : option cref := match n_slot s with Some c => Some c | None => n_proc s end.

Definition nwith_committed (s : nst) (c : table) : nst :=
  {| n_committed := c; n_lock := n_lock s; n_slot := n_slot s; n_proc := n_proc s; n_txs := n_txs s; n_log := n_log s |}.
Definition nwith_lock (s : nst) (l : option nat) : nst :=
  {| n_committed := n_committed s; n_lock := l; n_slot := n_slot s; n_proc := n_proc s; n_txs := n_txs s; n_log := n_log s |}.
Definition nwith_slot (s : nst) (c : option cref) : nst :=
  {| n_committed := n_committed s; n_lock := n_lock s; n_slot := c; n_proc := n_proc s; n_txs := n_txs s; n_log := n_log s |}.
Definition nwith_proc (s : nst) (c : option cref) : nst :=
  {| n_committed := n_committed s; n_lock := n_lock s; n_slot := n_slot s; n_proc := c; n_txs := n_txs s; n_log := n_log s |}.
Definition nwith_txs (s : nst) (l : list ntx) : nst :=
  {| n_committed := n_committed s; n_lock := n_lock s; n_slot := n_slot s; n_proc := n_proc s; n_txs := l; n_log := n_log s |}.
Definition nlog (s : nst) (e : nev) : nst :=
  {| n_committed := n_committed s; n_lock := n_lock s; n_slot := n_slot s; n_proc := n_proc s; n_txs := n_txs s; n_log := n_log s ++ [e] |}.
Definition nset_tx (s : nst) (id : nat) (x : ntx) : nst := nwith_txs s (set_nth id x (n_txs s)).

Definition ninstall (s : nst) (is_thr : bool) (c : cref) : nst := if is_thr then nwith_slot s (Some c) else nwith_proc s (Some c).
Definition nlocked_by_other (s : nst) (id : nat) : bool :=
  match n_lock s with Some i => negb (Nat.eqb i id) | None => false end.
Definition nrelease (s : nst) (id : nat) : nst :=
  match n_lock s with Some i => if Nat.eqb i id then nwith_lock s None else s | None => s end.
Definition is_some {X} (o : option X) : bool := match o with Some _ => true | None => false end.
Definition is_ctx (c : cref) : bool := match c with CTx _ => true | CDb _ => false end.
Definition is_exception (e : hexc) : bool := match e with XBase _ => false | _ => true end.
Definition catches (k : ncatch) (e : hexc) : bool :=
  match k with KNone => false | KExc => is_exception e | KAll => true end.

Inductive sres := SOk (created : list Z) | SRaise (e : hexc).

(* Transaction.commit(close): nothing if it is obsolete; else the DB-API commit (its view becomes the committed table, the write
   lock is free), and with close the transaction is obsolete and its connection handed back *)
Definition tx_commit (s : nst) (id : nat) (close : bool) : nst :=
  let x := ntx_at s id in
  if nx_open x then
    let s1 := match nx_view x with Some v => nwith_committed s v | None => s end in
    nset_tx (nrelease s1 id) id {| nx_parent := nx_parent x; nx_view := None; nx_cached := nx_cached x; nx_open := negb close |}
  else s.
(* Transaction.rollback(): nothing if it is obsolete; else its view is gone, the lock free, the transaction obsolete *)
Definition tx_rollback (s : nst) (id : nat) : nst :=
  let x := ntx_at s id in
  if nx_open x then
    nset_tx (nrelease s id) id {| nx_parent := nx_parent x; nx_view := None; nx_cached := nx_cached x; nx_open := false |}
  else s.

(* a statement through Transaction id *)
Definition tx_stmt (s : nst) (id : nat) (st : bstep) : nst * sres :=
  let x := ntx_at s id in
  let cached := nx_cached x in
  let nested := is_ctx (nx_parent x) in
  if negb (nx_open x) then
    (* an obsolete transaction: whatever reaches the database goes through assertActive -- but destroySelf() of an instance that
       is at hand (loaded before, or in this transaction's cache) enters Transaction._SO_delete, which asserts nothing and, with a
       transaction as parent, calls itself *)
    (s, SRaise (match st with
                | BErase _ => if nested then XRecursion else XAssert
                | BDelete i => if nested && mem_z i cached then XRecursion else XAssert
                | _ => XAssert
                end))
  else
  let v := match nx_view x with Some v => v | None => n_committed s end in
  let lk := nlocked_by_other s id in
  let go (v' : table) (c' : list Z) : nst :=
    nset_tx (nwith_lock s (Some id)) id {| nx_parent := nx_parent x; nx_view := Some v'; nx_cached := c'; nx_open := nx_open x |} in
  match st with
  | BFail n => (s, SRaise (XUser n))
  | BCreate a b =>
      if lk then (s, SRaise XLocked)
      else let '(i, v') := tbl_insert [a; b; None] v in (go v' (add_id i cached), SOk [i])
  | BUpdate i c xv =>
      if negb (get_ok v cached i) then (s, SRaise XNotFound)
      else if lk then (s, SRaise XLocked)
      else (go (tbl_update i c xv v) (add_id i cached), SOk [])
  | BDelete i =>
      if negb (get_ok v cached i) then (s, SRaise XNotFound)
      else if nested then (s, SRaise XRecursion)
      else if lk then (s, SRaise XLocked)
      else (go (tbl_delete i v) (remove_id i cached), SOk [])
  | BWrite i c xv =>
      if lk then (s, SRaise XLocked) else (go (tbl_update i c xv v) cached, SOk [])
  | BErase i =>
      if nested then (s, SRaise XRecursion)
      else if lk then (s, SRaise XLocked) else (go (tbl_delete i v) (remove_id i cached), SOk [])
  | BDeleteMany i =>
      if lk then (s, SRaise XLocked) else (go (tbl_delete i v) cached, SOk [])
  | BCreateU gd a b u =>
      if lk then (s, SRaise XLocked)
      else if clash ucol v None u then (go v cached, if gd then SOk [] else SRaise XDuplicate)
      else let '(i, v') := tbl_insert [a; b; u] v in (go v' (add_id i cached), SOk [i])
  | BUpdateU gd i u =>
      if negb (get_ok v cached i) then (s, SRaise XNotFound)
      else if lk then (s, SRaise XLocked)
      else if upd_clash ucol v i u then (go v (add_id i cached), if gd then SOk [] else SRaise XDuplicate)
      else (go (tbl_update i ucol u v) (add_id i cached), SOk [])
  | BWriteU gd i u =>
      if lk then (s, SRaise XLocked)
      else if upd_clash ucol v i u then (go v cached, if gd then SOk [] else SRaise XDuplicate)
      else (go (tbl_update i ucol u v) cached, SOk [])
  end.

(* a statement through a DBConnection (autocommit), as plain_step: only the writes that do not depend on that connection's
   instance cache are modelled *)
Definition db_stmt (s : nst) (st : bstep) : nst * sres :=
  let v := n_committed s in
  let w (v' : table) (cr : list Z) : nst * sres :=
    match n_lock s with Some _ => (s, SRaise XLocked) | None => (nwith_committed s v', SOk cr) end in
  match st with
  | BFail n => (s, SRaise (XUser n))
  | BCreate a b => let '(i, v') := tbl_insert [a; b; None] v in w v' [i]
  | BCreateU gd a b u =>
      match n_lock s with Some _ => (s, SRaise XLocked) | None =>
        if clash ucol v None u then (s, if gd then SOk [] else SRaise XDuplicate)
        else let '(i, v') := tbl_insert [a; b; u] v in (nwith_committed s v', SOk [i])
      end
  | BWriteU gd i u =>
      match n_lock s with Some _ => (s, SRaise XLocked) | None =>
        if upd_clash ucol v i u then (s, if gd then SOk [] else SRaise XDuplicate)
        else (nwith_committed s (tbl_update i ucol u v), SOk [])
      end
  | BWrite i c xv => w (tbl_update i c xv v) []
  | BErase i => w (tbl_delete i v) []
  | BDeleteMany i => w (tbl_delete i v) []
  | _ => (s, SRaise XNested)                         (* not modelled: a fetch through a DBConnection *)
  end.

Definition nstmt (s : nst) (st : bstep) : nst * sres :=
  match st with
  | BFail n => (s, SRaise (XUser n))
  | _ => match nresolve s with
         | None => (s, SRaise XNoConnection)
         | Some (CDb _) => db_stmt s st
         | Some (CTx id) => tx_stmt s id st
         end
  end.

(* hub.doInTransaction(f) where `run s1 id` is f running in the state s1 with the transaction id just opened *)
Definition ncall_with (run : nst -> nat -> nst * result) (s : nst) : nst * result :=
  match (match n_slot s with
         | Some c => Some (c, true)
         | None => match n_proc s with Some c => Some (c, false) | None => None end
         end) with
  | None => (s, Raised XNoConnection 0)
  | Some (old, is_thr) =>
      (* old_conn.transaction(): on a Transaction this goes through __getattr__, which asserts that it is active *)
      if (match old with CTx p => negb (nx_open (ntx_at s p)) | CDb _ => false end) then (s, Raised XAssert 0)
      else
        let id := length (n_txs s) in
        let s1 := ninstall (nwith_txs s (n_txs s ++ [{| nx_parent := old; nx_view := None; nx_cached := []; nx_open := true |}]))
                           is_thr (CTx id) in
        let '(s2, r) := run s1 id in
        let s3 := match r with
                  | Return _ => tx_commit s2 id true                                     (* else: conn.commit(close=True) *)
                  | Raised _ _ => tx_rollback s2 id                                      (* except BaseException: conn.rollback() *)
                  end in
        let s4 := ninstall s3 is_thr old in                                              (* finally *)
        (nlog s4 (EExit id (nx_open (ntx_at s4 id)) (is_some (n_lock s4))), r)
  end.

(* the body running in transaction `me`; k = index of the step, created = ids so far *)
Fixpoint nexec (s : nst) (me : nat) (b : nbody) (k : nat) (created : list Z) : nst * result :=
  match b with
  | NEnd => (s, Return created)
  | NStep st rest =>
      let '(s1, r) := nstmt (nlog s (EStep (nresolve s))) st in
      match r with
      | SOk cr => nexec s1 me rest (S k) (created ++ cr)
      | SRaise e => (s1, Raised e k)
      end
  | NCall catch inner rest =>
      let s0 := nlog s (EStep (nresolve s)) in
      let '(s1, r) := ncall_with (fun s1 id => nexec s1 id inner 0 []) s0 in
      match r with
      | Return v => nexec s1 me rest (S k) (created ++ v)
      | Raised e _ => if catches catch e then nexec s1 me rest (S k) created else (s1, Raised e k)
      end
  | NBase n => (nlog s (EStep (nresolve s)), Raised (XBase n) k)
  | NSetThread c rest => nexec (nwith_slot (nlog s (EStep (nresolve s))) (Some (CDb c))) me rest (S k) created
  | NDelThread rest =>
      let s0 := nlog s (EStep (nresolve s)) in
      match n_slot s0 with
      | None => (s0, Raised XNoConnection k)
      | Some _ => nexec (nwith_slot s0 None) me rest (S k) created
      end
  | NCommit close rest => nexec (tx_commit (nlog s (EStep (nresolve s))) me close) me rest (S k) created
  | NRollback rest => nexec (tx_rollback (nlog s (EStep (nresolve s))) me) me rest (S k) created
  end.

Definition ncall (s : nst) (body : nbody) : nst * result := ncall_with (fun s1 id => nexec s1 id body 0 []) s.

(* the old bodies are bodies of the new language *)
Fixpoint flat (l : list bstep) : nbody := match l with [] => NEnd | st :: r => NStep st (flat r) end.

(* vocabulary of the theorems *)
Fixpoint hub_pure (b : nbody) : bool :=               (* the body never assigns / deletes hub.threadConnection *)
  match b with
  | NEnd | NBase _ => true
  | NStep _ r | NCommit _ r | NRollback r => hub_pure r
  | NCall _ i r => hub_pure i && hub_pure r
  | NSetThread _ _ | NDelThread _ => false
  end.
Fixpoint quiet (b : nbody) : bool :=                  (* no nested call, no commit of its own, hub left alone *)
  match b with
  | NEnd | NBase _ => true
  | NStep _ r | NRollback r => quiet r
  | _ => false
  end.
Fixpoint commit_free (b : nbody) : bool :=            (* the function never calls commit() on its transaction, at any depth *)
  match b with
  | NEnd | NBase _ => true
  | NCommit _ _ => false
  | NStep _ r | NRollback r | NSetThread _ r | NDelThread r => commit_free r
  | NCall _ i r => commit_free i && commit_free r
  end.
(* the write lock is held by a transaction that is open (true of every state the calls produce from one without a lock) *)
Definition lock_open (s : nst) : Prop := forall j, n_lock s = Some j -> nx_open (ntx_at s j) = true.
(* the transactions opened from the i-th on are all obsolete and released *)
Definition closed_from (i : nat) (s : nst) : Prop := forall j, (i <= j)%nat -> nx_open (ntx_at s j) = false.
