(* C19 -- row events.  Definitions only.

   Part 1: values, columns, keyword-argument dicts, signals, listeners,
           the event/write trace.
   Part 2: delivery (PyDispatcher: receivers of one (sender, signal) pair are
           called in registration order) and the listener programs.
   Part 3: plain classes (an eager one and a lazyUpdate one): `step`, written
           after main.py __init__/_create/_SO_finishCreate/_SO_setValue/set/
           syncUpdate/destroySelf/get, statement for statement (including the
           delegation of _SO_setValue to set() under row_update_sig_suppress
           when a listener changed the key set of the one-entry dict; since
           480ba65 _SO_setValue returns after that set() and the flag is
           cleared in a finally, so it never outlives the call).
   Part 4: the specification `spec_events` of a successful operation, written
           from the documentation of the signals.
   Part 5: the three-level InheritableSQLObject chain: listener propagation
           to subclasses (events.listen / _makeSubclassConnectionsPost) and
           `chain_create` after inheritance/__init__.py _create with the
           per-thread list of postponed RowCreatedSignals.
   Listeners and callbacks may raise (once each): the operation ends there as
   the code does; see "receivers and callbacks that raise" in Part 2. *)
From Coq Require Import List ZArith NArith Bool.
Import ListNotations.
Open Scope Z_scope.

(* ------------------------------------------------------------------ *)
(* Part 1                                                               *)

Inductive val := VNull | VInt (z : Z) | VStr (s : list N).
Inductive ty := TInt | TStr.

(* the fixture columns: a = IntCol() (no default), b = StringCol(default=None),
   c = IntCol(default=7); all_cols is creationOrder *)
Inductive col := CA | CB | CC.
Definition all_cols : list col := [CA; CB; CC].
Definition col_ty (c : col) : ty := match c with CA => TInt | CB => TStr | CC => TInt end.
(* None = NoDefault *)
Definition col_default (c : col) : option val :=
  match c with CA => None | CB => Some VNull | CC => Some (VInt 7) end.

Definition col_eqb (a b : col) : bool :=
  match a, b with CA, CA | CB, CB | CC, CC => true | _, _ => false end.

(* IntValidator / StringValidator from_python: None passes, an int for an
   IntCol, a str for a StringCol; anything else raises Invalid *)
Definition val_ok (t : ty) (v : val) : bool :=
  match t, v with
  | _, VNull => true
  | TInt, VInt _ => true
  | TStr, VStr _ => true
  | _, _ => false
  end.

(* a Python dict with column-name keys, in insertion order *)
Definition kwargs := list (col * val).

Fixpoint kw_get (c : col) (kw : kwargs) : option val :=
  match kw with
  | [] => None
  | (c', v) :: r => if col_eqb c c' then Some v else kw_get c r
  end.
Definition kw_has (c : col) (kw : kwargs) : bool :=
  match kw_get c kw with Some _ => true | None => false end.
(* d[c] = v : an existing key keeps its position *)
Fixpoint kw_set (c : col) (v : val) (kw : kwargs) : kwargs :=
  match kw with
  | [] => [(c, v)]
  | (c', v') :: r => if col_eqb c c' then (c, v) :: r else (c', v') :: kw_set c v r
  end.
(* d.pop(c, None) *)
Definition kw_del (c : col) (kw : kwargs) : kwargs :=
  filter (fun p => negb (col_eqb c (fst p))) kw.
(* base.update(new) *)
Definition kw_update (base new : kwargs) : kwargs :=
  fold_left (fun k p => kw_set (fst p) (snd p) k) new base.
(* dict(pairs) *)
Definition mk_kw (l : list (col * val)) : kwargs := kw_update [] l.
(* sorted(d.items(), key=creationOrder) *)
Definition sort_cols (kw : kwargs) : kwargs :=
  flat_map (fun c => match kw_get c kw with Some v => [(c, v)] | None => [] end) all_cols.
Definition validate (kw : kwargs) : bool :=
  forallb (fun p => val_ok (col_ty (fst p)) (snd p)) kw.
Definition is_nil {A} (l : list A) : bool := match l with [] => true | _ => false end.

Inductive sig := SCreate | SCreated | SUpdate | SUpdated | SDestroy | SDestroyed.
Definition sig_eqb (a b : sig) : bool :=
  match a, b with
  | SCreate, SCreate | SCreated, SCreated | SUpdate, SUpdate
  | SUpdated, SUpdated | SDestroy, SDestroy | SDestroyed, SDestroyed => true
  | _, _ => false
  end.

(* listener programs: every listener records its call; then
   ALog does nothing more, ASet c v does kwargs[c] = v, ADel c does
   kwargs.pop(c, None), APost t appends a callback (which records `t`) to
   post_funcs; ARaise raises -- once: the first time it is called, later it
   only records; APostRaise t appends a callback that records `t` and, the
   first time one of this listener's callbacks runs, raises *)
Inductive act := ALog | ASet (c : col) (v : val) | ADel (c : col) | APost (tag : Z)
               | ARaise | APostRaise (tag : Z)
               | AMake | APostMake (tag : Z).
(* AMake: the listener creates a row of a third ("audit") class; APostMake t:
   it appends a callback that records `t` and creates such a row.  The audit
   class, its rows and its own events are OUTSIDE this model (the harness
   strips them from the observed trace; the oracle of tools/props/c19.py judges
   them directly): here AMake is ALog and APostMake t is APost t. *)
Definition listener := (sig * act)%type.

Inductive write (K : Type) :=
| WInsert (k : K) (id : Z) (row : kwargs)
| WUpdate (k : K) (id : Z) (upd : kwargs)
| WDelete (k : K) (id : Z).
Arguments WInsert {K}. Arguments WUpdate {K}. Arguments WDelete {K}.

(* one entry of the ordered trace of an operation *)
Inductive ev (K : Type) :=
| ESig (s : sig) (k : K) (id : option Z) (kw : kwargs) (li : Z)
    (* signal s of class k delivered to listener li; id = the instance's id
       (None while it has none); kw = the keyword dict as this listener
       found it (column keys only; [] for signals that carry none) *)
| EPost (s : sig) (tag : Z) (k : K) (id : Z)
    (* a callback appended to the post_funcs of signal s ran *)
| EWrite (w : write K).
Arguments ESig {K}. Arguments EPost {K}. Arguments EWrite {K}.

(* ------------------------------------------------------------------ *)
(* Part 2: delivery                                                     *)

Fixpoint number {A} (i : Z) (l : list A) : list (Z * A) :=
  match l with [] => [] | x :: r => (i, x) :: number (i + 1) r end.

(* the receivers connected for (class, s), in registration order *)
Definition sel (s : sig) (tab : list (Z * listener)) : list (Z * act) :=
  flat_map (fun p => if sig_eqb s (fst (snd p)) then [(fst p, snd (snd p))] else []) tab.

(* signals whose receivers get a kwargs dict / a post_funcs list *)
Definition has_kw (s : sig) : bool :=
  match s with SCreate | SCreated | SUpdate => true | _ => false end.
Definition has_posts (s : sig) : bool :=
  match s with SUpdate => false | _ => true end.

Definition apply_act (s : sig) (a : act) (kw : kwargs) : kwargs :=
  if has_kw s then
    match a with ASet c v => kw_set c v kw | ADel c => kw_del c kw | _ => kw end
  else kw.

(* the dict after all receivers have run *)
Definition final_kw (s : sig) (L : list (Z * act)) (kw : kwargs) : kwargs :=
  fold_left (fun k l => apply_act s (snd l) k) L kw.

(* one ESig per receiver, each with the dict as the earlier ones left it *)
Fixpoint sig_events {K} (s : sig) (k : K) (id : option Z) (L : list (Z * act)) (kw : kwargs) : list (ev K) :=
  match L with
  | [] => []
  | l :: r => ESig s k id kw (fst l) :: sig_events s k id r (apply_act s (snd l) kw)
  end.

(* the callbacks appended to post_funcs, in order: tag, appending listener,
   "raises when it runs for the first time" *)
Definition post_items (s : sig) (L : list (Z * act)) : list (Z * Z * bool) :=
  flat_map (fun l => if has_posts s
                     then match snd l with
                          | APost t => [(t, fst l, false)]
                          | APostRaise t => [(t, fst l, true)]
                          | APostMake t => [(t, fst l, false)]
                          | _ => []
                          end
                     else []) L.
Definition item_tag (it : Z * Z * bool) : Z := fst (fst it).
(* their tags *)
Definition posts (s : sig) (L : list (Z * act)) : list Z := map item_tag (post_items s L).

Definition run_posts {K} (s : sig) (k : K) (id : Z) (ts : list Z) : list (ev K) :=
  map (fun t => EPost s t k id) ts.

(* send(s, instance, post_funcs) followed by `for f in post_funcs: f(instance)` *)
Definition after_part {K} (tab : list (Z * listener)) (s : sig) (k : K) (id : Z) : list (ev K) :=
  let L := sel s tab in
  sig_events s k (Some id) L [] ++ run_posts s k id (posts s L).

(* --- receivers and callbacks that raise ------------------------------ *)
(* PyDispatcher's send() does not catch: a raising receiver ends the delivery
   (the later receivers are not called) and the exception leaves the
   operation at that point; `for f in post_funcs: f(obj)` likewise.
   `fired` = the one-shot listeners that have already raised. *)
Definition is_raise (a : act) : bool := match a with ARaise => true | _ => false end.
Definition live (fired : list Z) (i : Z) : bool := negb (existsb (Z.eqb i) fired).
Definition is_some {A} (o : option A) : bool := match o with Some _ => true | None => false end.
Definition fire (fired : list Z) (o : option Z) : list Z :=
  match o with Some i => i :: fired | None => fired end.

(* the receiver that raises in this delivery, if any; the receivers reached *)
Fixpoint raiser (fired : list Z) (L : list (Z * act)) : option Z :=
  match L with
  | [] => None
  | l :: r => if is_raise (snd l) && live fired (fst l) then Some (fst l) else raiser fired r
  end.
Fixpoint cut (fired : list Z) (L : list (Z * act)) : list (Z * act) :=
  match L with
  | [] => []
  | l :: r => if is_raise (snd l) && live fired (fst l) then [l] else l :: cut fired r
  end.
Fixpoint praiser (fired : list Z) (items : list (Z * Z * bool)) : option Z :=
  match items with
  | [] => None
  | it :: r => if snd it && live fired (snd (fst it)) then Some (snd (fst it)) else praiser fired r
  end.
Fixpoint pcut (fired : list Z) (items : list (Z * Z * bool)) : list (Z * Z * bool) :=
  match items with
  | [] => []
  | it :: r => if snd it && live fired (snd (fst it)) then [it] else it :: pcut fired r
  end.

(* a phase of an operation: what it added to the trace, the fired set
   afterwards, whether it ended in an exception *)
Record phase (K : Type) := { p_tr : list (ev K); p_fired : list Z; p_raised : bool }.
Arguments p_tr {K}. Arguments p_fired {K}. Arguments p_raised {K}.

(* `for f in post_funcs: f(obj)` *)
Definition posts_x {K} (fired : list Z) (s : sig) (k : K) (id : Z) (L : list (Z * act)) : phase K :=
  let items := post_items s L in
  {| p_tr := run_posts s k id (map item_tag (pcut fired items));
     p_fired := fire fired (praiser fired items);
     p_raised := is_some (praiser fired items) |}.

(* send(s, instance, post_funcs); for f in post_funcs: f(instance) *)
Definition after_x {K} (tab : list (Z * listener)) (fired : list Z) (s : sig) (k : K) (id : Z) : phase K :=
  let L := sel s tab in
  match raiser fired L with
  | Some i => {| p_tr := sig_events s k (Some id) (cut fired L) []; p_fired := i :: fired; p_raised := true |}
  | None =>
      let b := posts_x fired s k id L in
      {| p_tr := sig_events s k (Some id) L [] ++ p_tr b; p_fired := p_fired b; p_raised := p_raised b |}
  end.

(* ------------------------------------------------------------------ *)
(* Part 3: plain classes                                                *)

Inductive cls := KEager | KLazy.
Definition is_lazy (k : cls) : bool := match k with KLazy => true | KEager => false end.
Definition cls_eqb (a b : cls) : bool :=
  match a, b with KEager, KEager | KLazy, KLazy => true | _, _ => false end.

Record cfg := { lis_e : list listener; lis_l : list listener }.
Definition tab (g : cfg) (k : cls) : list (Z * listener) :=
  number 0 (match k with KEager => lis_e g | KLazy => lis_l g end).

(* what the application's reference to an instance carries besides the row:
   _SO_createValues of a lazy instance (sqlmeta.row_update_sig_suppress exists
   only while _SO_setValue runs its delegated set()) *)
Record hstate := { h_pend : kwargs }.

Record kstate := {
  k_tbl : list (Z * kwargs);     (* rows in rowid order; a row lists all columns in creationOrder *)
  k_next : Z;                    (* next AUTOINCREMENT id *)
  k_hs : list (Z * hstate);      (* one instance per created id whose constructor returned *)
  k_fired : list Z               (* one-shot raising listeners of the class that have raised *)
}.
Record state := { s_e : kstate; s_l : kstate }.

Definition init_k : kstate := {| k_tbl := []; k_next := 1; k_hs := []; k_fired := [] |}.
Definition init : state := {| s_e := init_k; s_l := init_k |}.

Definition ks (st : state) (k : cls) : kstate :=
  match k with KEager => s_e st | KLazy => s_l st end.
Definition set_ks (st : state) (k : cls) (x : kstate) : state :=
  match k with
  | KEager => {| s_e := x; s_l := s_l st |}
  | KLazy => {| s_e := s_e st; s_l := x |}
  end.

Fixpoint h_get (id : Z) (hs : list (Z * hstate)) : option hstate :=
  match hs with
  | [] => None
  | (i, h) :: r => if Z.eqb id i then Some h else h_get id r
  end.
Fixpoint h_put (id : Z) (h : hstate) (hs : list (Z * hstate)) : list (Z * hstate) :=
  match hs with
  | [] => [(id, h)]
  | (i, h') :: r => if Z.eqb id i then (id, h) :: r else (i, h') :: h_put id h r
  end.

(* UPDATE ... WHERE id = ...: no matching row, nothing happens *)
Definition row_update (upd row : kwargs) : kwargs :=
  map (fun p => match kw_get (fst p) upd with Some v => (fst p, v) | None => p end) row.
Definition tbl_update (id : Z) (upd : kwargs) (t : list (Z * kwargs)) : list (Z * kwargs) :=
  map (fun r => if Z.eqb (fst r) id then (fst r, row_update upd (snd r)) else r) t.
Definition tbl_delete (id : Z) (t : list (Z * kwargs)) : list (Z * kwargs) :=
  filter (fun r => negb (Z.eqb (fst r) id)) t.
Definition tbl_has (id : Z) (t : list (Z * kwargs)) : bool :=
  existsb (fun r => Z.eqb (fst r) id) t.

Inductive exn := XInvalid | XTypeError | XKeyError | XNotFound | XDuplicate
               | XBoom.   (* what a raising listener / callback raises *)
Inductive outcome :=
| Done
| Ids (l : list Z)          (* rows handed out by a fetch *)
| Exn (e : exn)
| NoHandle.                 (* the history names an instance that was never created *)

Inductive op :=
| OCreate (k : cls) (kw : list (col * val))
| OAssign (k : cls) (id : Z) (c : col) (v : val)      (* obj.c = v *)
| OSet (k : cls) (id : Z) (kw : list (col * val))     (* obj.set( **kw) *)
| OSync (k : cls) (id : Z)                            (* obj.syncUpdate() *)
| ODestroy (k : cls) (id : Z)
| OGet (k : cls) (id : Z) (fresh : bool)              (* cls.get(id), after cache.clear() when fresh *)
| OSelect (k : cls)                                   (* list(cls.select(orderBy='id')) *)
| OExpire (k : cls) (id : Z)                          (* obj.expire() *)
| OSyncFull (k : cls) (id : Z)                        (* obj.sync() *)
| OPickle (k : cls) (id : Z).                         (* pickle.dumps(obj) *)

(* the result of the update paths: outcome, trace, the instance's pending
   values afterwards, the UPDATE statements that reached the table *)
Record ures := {
  u_out : outcome;
  u_tr : list (ev cls);
  u_pend : kwargs;
  u_fired : list Z;
  u_upds : list kwargs
}.

(* _create's loop over columnList: absent columns get their default, a column
   without default is a TypeError *)
Fixpoint fill_defaults (cs : list col) (kw : kwargs) : option kwargs :=
  match cs with
  | [] => Some kw
  | c :: r =>
      if kw_has c kw then fill_defaults r kw
      else match col_default c with
           | Some d => fill_defaults r (kw ++ [(c, d)])
           | None => None
           end
  end.

(* SQLObject.set on a created instance.  sup = row_update_sig_suppress is set
   (the call comes from _SO_setValue, which has sent the RowUpdateSignal). *)
Definition set_core (g : cfg) (k : cls) (id : Z) (pend : kwargs) (fired : list Z) (sup : bool) (kw : kwargs) : ures :=
  let L := sel SUpdate (tab g k) in
  if negb sup && is_some (raiser fired L) then
    (* a RowUpdateSignal receiver raised: nothing validated, nothing written *)
    {| u_out := Exn XBoom; u_tr := sig_events SUpdate k (Some id) (cut fired L) kw; u_pend := pend;
       u_fired := fire fired (raiser fired L); u_upds := [] |}
  else
  let tr1 := if sup then [] else sig_events SUpdate k (Some id) L kw in
  let kw1 := if sup then kw else final_kw SUpdate L kw in
  if negb (validate kw1) then
    {| u_out := Exn XInvalid; u_tr := tr1; u_pend := pend; u_fired := fired; u_upds := [] |}
  else if is_lazy k then
    {| u_out := Done; u_tr := tr1; u_pend := kw_update pend kw1; u_fired := fired; u_upds := [] |}
  else
    let w := sort_cols kw1 in
    (* the UPDATE has run when RowUpdatedSignal / its callbacks raise *)
    let a := after_x (tab g k) fired SUpdated k id in
    {| u_out := if p_raised a then Exn XBoom else Done;
       u_tr := tr1 ++ (if is_nil w then [] else [EWrite (WUpdate k id w)]) ++ p_tr a;
       u_pend := pend; u_fired := p_fired a;
       u_upds := if is_nil w then [] else [w] |}.

(* _SO_setValue on a created instance *)
Definition assign_core (g : cfg) (k : cls) (id : Z) (pend : kwargs) (fired : list Z) (c : col) (v : val) : ures :=
  let L := sel SUpdate (tab g k) in
  let d0 := [(c, v)] in
  if is_some (raiser fired L) then
    {| u_out := Exn XBoom; u_tr := sig_events SUpdate k (Some id) (cut fired L) d0; u_pend := pend;
       u_fired := fire fired (raiser fired L); u_upds := [] |}
  else
  let tr1 := sig_events SUpdate k (Some id) L d0 in
  let d := final_kw SUpdate L d0 in
  if negb (Nat.eqb (length d) 1) || negb (kw_has c d) then
    (* a receiver added a key or removed `name`:
       flag := True; try: self.set( **d) finally: del flag; return
       -- the assignment IS set( **d): whatever is left of the dict is
       validated and stored with one UPDATE (none if it is empty), then
       RowUpdatedSignal and its callbacks; lazy: the dict goes to the pending
       values *)
    let r := set_core g k id pend fired true d in
    {| u_out := u_out r; u_tr := tr1 ++ u_tr r; u_pend := u_pend r; u_fired := u_fired r; u_upds := u_upds r |}
  else
    match kw_get c d with
    | None => (* not reachable: c is a key of d here *)
        {| u_out := Exn XKeyError; u_tr := tr1; u_pend := pend; u_fired := fired; u_upds := [] |}
    | Some v' =>
        if negb (val_ok (col_ty c) v') then
          {| u_out := Exn XInvalid; u_tr := tr1; u_pend := pend; u_fired := fired; u_upds := [] |}
        else if is_lazy k then
          {| u_out := Done; u_tr := tr1; u_pend := kw_set c v' pend; u_fired := fired; u_upds := [] |}
        else
          let a := after_x (tab g k) fired SUpdated k id in
          {| u_out := if p_raised a then Exn XBoom else Done;
             u_tr := tr1 ++ [EWrite (WUpdate k id [(c, v')])] ++ p_tr a;
             u_pend := pend; u_fired := p_fired a; u_upds := [[(c, v')]] |}
    end.

(* syncUpdate: the pending values are written and forgotten before
   RowUpdatedSignal is sent *)
Definition sync_core (g : cfg) (k : cls) (id : Z) (pend : kwargs) (fired : list Z) : ures :=
  if is_nil pend then {| u_out := Done; u_tr := []; u_pend := pend; u_fired := fired; u_upds := [] |}
  else
    let w := sort_cols pend in
    let a := after_x (tab g k) fired SUpdated k id in
    {| u_out := if p_raised a then Exn XBoom else Done;
       u_tr := [EWrite (WUpdate k id w)] ++ p_tr a;
       u_pend := []; u_fired := p_fired a; u_upds := [w] |}.

Definition commit_ures (st : state) (k : cls) (id : Z) (r : ures) : state * outcome * list (ev cls) :=
  let s := ks st k in
  (set_ks st k {| k_tbl := fold_left (fun t u => tbl_update id u t) (u_upds r) (k_tbl s);
                  k_next := k_next s;
                  k_hs := h_put id {| h_pend := u_pend r |} (k_hs s);
                  k_fired := u_fired r |},
   u_out r, u_tr r).

Definition with_handle (st : state) (k : cls) (id : Z)
           (f : hstate -> state * outcome * list (ev cls)) : state * outcome * list (ev cls) :=
  match h_get id (k_hs (ks st k)) with
  | Some h => f h
  | None => (st, NoHandle, [])
  end.

Definition step (g : cfg) (st : state) (o : op) : state * outcome * list (ev cls) :=
  match o with
  | OCreate k kw0 =>
      let s := ks st k in
      let fired := k_fired s in
      let L := sel SCreate (tab g k) in
      let kw := mk_kw kw0 in
      match raiser fired L with
      | Some i =>
          (* a RowCreateSignal receiver raised; the finally finds nothing postponed *)
          (set_ks st k {| k_tbl := k_tbl s; k_next := k_next s; k_hs := k_hs s; k_fired := i :: fired |},
           Exn XBoom, sig_events SCreate k None (cut fired L) kw)
      | None =>
      let tr1 := sig_events SCreate k None L kw in
      match fill_defaults all_cols (final_kw SCreate L kw) with
      | None => (st, Exn XTypeError, tr1)
      | Some kw2 =>
          if negb (validate kw2) then (st, Exn XInvalid, tr1)
          else
            let id := k_next s in
            let row := sort_cols kw2 in
            (* the row is in; a raising callback of RowCreateSignal skips the
               later ones, the postponed RowCreatedSignal is still delivered (in
               the finally); whoever raises, the constructor does not return:
               the row stays, the application holds no instance *)
            let p := posts_x fired SCreate k id L in
            let a := after_x (tab g k) (p_fired p) SCreated k id in
            let ok := negb (p_raised p) && negb (p_raised a) in
            (set_ks st k {| k_tbl := k_tbl s ++ [(id, row)];
                            k_next := id + 1;
                            k_hs := if ok then h_put id {| h_pend := [] |} (k_hs s) else k_hs s;
                            k_fired := p_fired a |},
             if ok then Done else Exn XBoom,
             tr1 ++ [EWrite (WInsert k id row)] ++ p_tr p ++ p_tr a)
      end
      end
  | OAssign k id c v =>
      with_handle st k id (fun h => commit_ures st k id (assign_core g k id (h_pend h) (k_fired (ks st k)) c v))
  | OSet k id kw0 =>
      with_handle st k id (fun h => commit_ures st k id (set_core g k id (h_pend h) (k_fired (ks st k)) false (mk_kw kw0)))
  | OSync k id =>
      with_handle st k id (fun h => commit_ures st k id (sync_core g k id (h_pend h) (k_fired (ks st k))))
  | OPickle k id =>
      (* __getstate__: `if lazyUpdate and _SO_createValues: self.syncUpdate()`,
         then a copy of __dict__ -- no reload, nothing else is sent or written *)
      with_handle st k id (fun h => commit_ures st k id (sync_core g k id (h_pend h) (k_fired (ks st k))))
  | ODestroy k id =>
      with_handle st k id (fun h =>
        let s := ks st k in
        let fired := k_fired s in
        let L := sel SDestroy (tab g k) in
        match raiser fired L with
        | Some i =>
            (* a RowDestroySignal receiver raised: nothing deleted *)
            (set_ks st k {| k_tbl := k_tbl s; k_next := k_next s; k_hs := k_hs s; k_fired := i :: fired |},
             Exn XBoom, sig_events SDestroy k (Some id) (cut fired L) [])
        | None =>
            (* the row is gone; a raising callback of RowDestroySignal leaves
               before RowDestroyedSignal is sent *)
            let p := posts_x fired SDestroy k id L in
            let a := if p_raised p then {| p_tr := []; p_fired := p_fired p; p_raised := true |}
                     else after_x (tab g k) (p_fired p) SDestroyed k id in
            (set_ks st k {| k_tbl := tbl_delete id (k_tbl s); k_next := k_next s; k_hs := k_hs s;
                            k_fired := p_fired a |},
             if p_raised a then Exn XBoom else Done,
             sig_events SDestroy k (Some id) L []
               ++ [EWrite (WDelete k id)] ++ p_tr p ++ p_tr a)
        end)
  | OGet k id _ =>
      if tbl_has id (k_tbl (ks st k)) then (st, Ids [id], []) else (st, Exn XNotFound, [])
  | OSelect k => (st, Ids (map fst (k_tbl (ks st k))), [])
  | OExpire k id =>
      (* the cached attributes go, and with them what a lazy instance held
         back (whether or not it was expired already); no event *)
      with_handle st k id (fun h =>
        let s := ks st k in
        (set_ks st k {| k_tbl := k_tbl s; k_next := k_next s; k_hs := h_put id {| h_pend := [] |} (k_hs s);
                        k_fired := k_fired s |}, Done, []))
  | OSyncFull k id =>
      (* sync(): syncUpdate() if something is pending, then the row is read
         again: SQLObjectNotFound if it is gone (after the flush) *)
      with_handle st k id (fun h =>
        let r := sync_core g k id (h_pend h) (k_fired (ks st k)) in
        let x := commit_ures st k id r in
        match u_out r with
        | Done => if tbl_has id (k_tbl (ks st k)) then x else (fst (fst x), Exn XNotFound, u_tr r)
        | _ => x
        end)
  end.

(* a history: every step with its pre-state, outcome and trace *)
Record srec := { r_pre : state; r_op : op; r_out : outcome; r_tr : list (ev cls); r_post : state }.

Fixpoint run (g : cfg) (st : state) (ops : list op) : list srec :=
  match ops with
  | [] => []
  | o :: r =>
      let x := step g st o in
      {| r_pre := st; r_op := o; r_out := snd (fst x); r_tr := snd x; r_post := fst (fst x) |}
        :: run g (fst (fst x)) r
  end.

(* ------------------------------------------------------------------ *)
(* Part 4: specification                                                *)

Definition succeeded (o : outcome) : bool :=
  match o with Done | Ids _ => true | _ => false end.

(* absent columns that have a default get it (total version of fill_defaults) *)
Definition with_defaults (kw : kwargs) : kwargs :=
  fold_left (fun k c => if kw_has c k then k
                        else match col_default c with Some d => k ++ [(c, d)] | None => k end)
            all_cols kw.

Definition pend_of (st : state) (k : cls) (id : Z) : kwargs :=
  match h_get id (k_hs (ks st k)) with Some h => h_pend h | None => [] end.

(* What a successful operation is documented to do: the before-signal to every
   receiver registered for it, in registration order, each seeing the dict as
   the earlier ones left it; then the one database write, holding the dict as
   the last receiver left it; then the callbacks appended to the before-signal's
   post_funcs (create, destroy); then the after-signal to every receiver, then
   its callbacks.  A lazy instance gets the before-signal at the assignment and
   write + after-signal at syncUpdate.  Fetching delivers nothing. *)
Definition spec_events (g : cfg) (st : state) (o : op) : list (ev cls) :=
  match o with
  | OCreate k kw0 =>
      let L := sel SCreate (tab g k) in
      let id := k_next (ks st k) in
      sig_events SCreate k None L (mk_kw kw0)
        ++ [EWrite (WInsert k id (sort_cols (with_defaults (final_kw SCreate L (mk_kw kw0)))))]
        ++ run_posts SCreate k id (posts SCreate L)
        ++ after_part (tab g k) SCreated k id
  | OAssign k id c v =>
      (* obj.c = v is obj.set(c=v): also when the receivers add columns to the
         dict or take c out of it (then nothing is written if it is empty) *)
      let L := sel SUpdate (tab g k) in
      let w := sort_cols (final_kw SUpdate L [(c, v)]) in
      sig_events SUpdate k (Some id) L [(c, v)]
        ++ (if is_lazy k then []
            else (if is_nil w then [] else [EWrite (WUpdate k id w)])
                   ++ after_part (tab g k) SUpdated k id)
  | OSet k id kw0 =>
      let L := sel SUpdate (tab g k) in
      let w := sort_cols (final_kw SUpdate L (mk_kw kw0)) in
      sig_events SUpdate k (Some id) L (mk_kw kw0)
        ++ (if is_lazy k then []
            else (if is_nil w then [] else [EWrite (WUpdate k id w)])
                   ++ after_part (tab g k) SUpdated k id)
  | OSync k id =>
      let p := pend_of st k id in
      if is_nil p then []
      else [EWrite (WUpdate k id (sort_cols p))] ++ after_part (tab g k) SUpdated k id
  | ODestroy k id =>
      let L := sel SDestroy (tab g k) in
      sig_events SDestroy k (Some id) L []
        ++ [EWrite (WDelete k id)]
        ++ run_posts SDestroy k id (posts SDestroy L)
        ++ after_part (tab g k) SDestroyed k id
  | OSyncFull k id | OPickle k id =>
      let p := pend_of st k id in
      if is_nil p then []
      else [EWrite (WUpdate k id (sort_cols p))] ++ after_part (tab g k) SUpdated k id
  | OGet _ _ _ | OSelect _ | OExpire _ _ => []
  end.

(* "Changes a listener makes to the keyword arguments are what gets stored":
   the table of the operation's class after a successful operation ... *)
Definition spec_table (g : cfg) (st : state) (o : op) : list (Z * kwargs) :=
  match o with
  | OCreate k kw0 =>
      k_tbl (ks st k)
        ++ [(k_next (ks st k), sort_cols (with_defaults (final_kw SCreate (sel SCreate (tab g k)) (mk_kw kw0))))]
  | OAssign k id c v =>
      if is_lazy k then k_tbl (ks st k)
      else tbl_update id (sort_cols (final_kw SUpdate (sel SUpdate (tab g k)) [(c, v)])) (k_tbl (ks st k))
  | OSet k id kw0 =>
      if is_lazy k then k_tbl (ks st k)
      else tbl_update id (sort_cols (final_kw SUpdate (sel SUpdate (tab g k)) (mk_kw kw0))) (k_tbl (ks st k))
  | OSync k id | OSyncFull k id | OPickle k id => tbl_update id (sort_cols (pend_of st k id)) (k_tbl (ks st k))
  | ODestroy k id => tbl_delete id (k_tbl (ks st k))
  | OGet k _ _ | OSelect k | OExpire k _ => k_tbl (ks st k)
  end.
(* ... and the values a lazy instance holds back for its next syncUpdate *)
Definition spec_pend (g : cfg) (st : state) (o : op) : kwargs :=
  match o with
  | OAssign k id c v =>
      if is_lazy k then kw_update (pend_of st k id) (final_kw SUpdate (sel SUpdate (tab g k)) [(c, v)])
      else pend_of st k id
  | OSet k id kw0 =>
      if is_lazy k then kw_update (pend_of st k id) (final_kw SUpdate (sel SUpdate (tab g k)) (mk_kw kw0))
      else pend_of st k id
  | _ => []
  end.
Definition op_target (o : op) : option (cls * Z) :=
  match o with
  | OAssign k id _ _ | OSet k id _ | OSync k id | OExpire k id | OSyncFull k id | OPickle k id => Some (k, id)
  | _ => None
  end.

Definition is_fetch (o : op) : bool :=
  match o with OGet _ _ _ | OSelect _ => true | _ => false end.

(* the before- and after-signal an operation owes its class *)
Definition before_sig (o : op) : option sig :=
  match o with
  | OCreate _ _ => Some SCreate
  | OAssign _ _ _ _ | OSet _ _ _ => Some SUpdate
  | ODestroy _ _ => Some SDestroy
  | _ => None
  end.
Definition after_sig (st : state) (o : op) : option sig :=
  match o with
  | OCreate _ _ => Some SCreated
  | OAssign k _ _ _ | OSet k _ _ => if is_lazy k then None else Some SUpdated
  | OSync k id | OSyncFull k id | OPickle k id => if is_nil (pend_of st k id) then None else Some SUpdated
  | ODestroy _ _ => Some SDestroyed
  | _ => None
  end.
Definition op_cls (o : op) : cls :=
  match o with
  | OCreate k _ | OAssign k _ _ _ | OSet k _ _ | OSync k _ | ODestroy k _ | OGet k _ _ | OSelect k
  | OExpire k _ | OSyncFull k _ | OPickle k _ => k
  end.

(* does the operation owe its class a delivery of signal s? *)
Definition owed (st : state) (o : op) (s : sig) : bool :=
  match before_sig o with Some b => sig_eqb s b | None => false end
  || match after_sig st o with Some a => sig_eqb s a | None => false end.
(* the (before, after) pair of the operation's kind *)
Definition around (o : op) : sig * sig :=
  match o with
  | OCreate _ _ => (SCreate, SCreated)
  | ODestroy _ _ => (SDestroy, SDestroyed)
  | _ => (SUpdate, SUpdated)
  end.
Definition is_create (o : op) : bool := match o with OCreate _ _ => true | _ => false end.

(* the flush points of a lazy instance: syncUpdate(), sync(), pickle.dumps();
   the operations that put values into its queue; running a history for its
   final state *)
Definition is_flush_of (o : op) (k : cls) (id : Z) : bool :=
  match o with
  | OSync k' id' | OSyncFull k' id' | OPickle k' id' => cls_eqb k k' && Z.eqb id id'
  | _ => false
  end.
Definition queues_for (o : op) (k : cls) (id : Z) : bool :=
  match o with
  | OAssign k' id' _ _ | OSet k' id' _ => cls_eqb k k' && Z.eqb id id'
  | _ => false
  end.
Definition is_expire (o : op) : bool := match o with OExpire _ _ => true | _ => false end.
Definition exec (g : cfg) (st : state) (ops : list op) : state :=
  fold_left (fun s o => fst (fst (step g s o))) ops st.
(* what a flush of a queue `p` is documented to do: one UPDATE holding the
   queued values, then RowUpdatedSignal to every receiver, then its callbacks;
   nothing at all for an empty queue *)
Definition flush_events (g : cfg) (k : cls) (id : Z) (p : kwargs) : list (ev cls) :=
  if is_nil p then [] else [EWrite (WUpdate k id (sort_cols p))] ++ after_part (tab g k) SUpdated k id.

(* counting deliveries / locating events in a trace *)
Definition is_sig_to {K} (s : sig) (li : Z) (e : ev K) : bool :=
  match e with ESig s' _ _ _ li' => sig_eqb s s' && Z.eqb li li' | _ => false end.
Definition is_sig {K} (s : sig) (e : ev K) : bool :=
  match e with ESig s' _ _ _ _ => sig_eqb s s' | _ => false end.
Definition is_write {K} (e : ev K) : bool :=
  match e with EWrite _ => true | _ => false end.
Definition is_insert {K} (e : ev K) : bool :=
  match e with EWrite (WInsert _ _ _) => true | _ => false end.
Definition count {A} (f : A -> bool) (l : list A) : nat := length (filter f l).

(* "callbacks run after the operation": once a callback of signal s has run,
   the operation performs no further write and delivers s to nobody *)
Fixpoint posts_last {K} (tr : list (ev K)) : bool :=
  match tr with
  | [] => true
  | e :: r =>
      match e with
      | EPost s _ _ _ => negb (existsb is_write r) && negb (existsb (is_sig s) r)
      | _ => true
      end && posts_last r
  end.

(* before-signal deliveries, then the writes, then after-signal deliveries:
   no before-signal after a write, no write after an after-signal *)
Fixpoint ordered_around {K} (sb sa : sig) (tr : list (ev K)) : bool :=
  match tr with
  | [] => true
  | e :: r =>
      (if is_write e then negb (existsb (is_sig sb) r) else true)
      && (if is_sig sa e then negb (existsb is_write r) else true)
      && ordered_around sb sa r
  end.

(* ------------------------------------------------------------------ *)
(* Part 5: the inheritance chain A <- B <- C                            *)

(* level LA owns column a, LB owns b, LC owns c *)
Inductive lvl := LA | LB | LC.
Definition lvl_eqb (a b : lvl) : bool :=
  match a, b with LA, LA | LB, LB | LC, LC => true | _, _ => false end.
Definition parent (l : lvl) : option lvl :=
  match l with LA => None | LB => Some LA | LC => Some LB end.
Definition own (l : lvl) : col := match l with LA => CA | LB => CB | LC => CC end.
(* the class itself followed by its ancestors *)
Definition lineage (l : lvl) : list lvl :=
  match l with LA => [LA] | LB => [LB; LA] | LC => [LC; LB; LA] end.

(* the script that builds the classes: class statements and events.listen
   calls in program order; a listener carries its own number *)
Inductive reg := RDef (l : lvl) | RListen (l : lvl) (i : Z) (x : listener).

Record tabs := { t_a : list (Z * listener); t_b : list (Z * listener); t_c : list (Z * listener) }.
Definition ltab (t : tabs) (l : lvl) : list (Z * listener) :=
  match l with LA => t_a t | LB => t_b t | LC => t_c t end.
Definition set_ltab (t : tabs) (l : lvl) (x : list (Z * listener)) : tabs :=
  match l with
  | LA => {| t_a := x; t_b := t_b t; t_c := t_c t |}
  | LB => {| t_a := t_a t; t_b := x; t_c := t_c t |}
  | LC => {| t_a := t_a t; t_b := t_b t; t_c := x |}
  end.
(* _makeSubclassConnectionsPost: a new class starts with a copy of what is
   connected to its base at that moment; listen() appends *)
Definition reg_step (t : tabs) (r : reg) : tabs :=
  match r with
  | RDef l => set_ltab t l (match parent l with Some p => ltab t p | None => [] end)
  | RListen l i x => set_ltab t l (ltab t l ++ [(i, x)])
  end.
Definition effective (script : list reg) : tabs :=
  fold_left reg_step script {| t_a := []; t_b := []; t_c := [] |}.

Definition crow := (Z * val * option lvl)%type.
Record chstate := {
  ca : list crow; cb : list crow; cc : list crow;   (* rows of the three tables: id, own column, childName *)
  cnext : Z;                                        (* AUTOINCREMENT counter of the root table *)
  cfired : list Z                                   (* one-shot raising listeners that have raised *)
}.
Definition ctable (s : chstate) (l : lvl) : list crow :=
  match l with LA => ca s | LB => cb s | LC => cc s end.
Definition set_ctable (s : chstate) (l : lvl) (x : list crow) : chstate :=
  match l with
  | LA => {| ca := x; cb := cb s; cc := cc s; cnext := cnext s; cfired := cfired s |}
  | LB => {| ca := ca s; cb := x; cc := cc s; cnext := cnext s; cfired := cfired s |}
  | LC => {| ca := ca s; cb := cb s; cc := x; cnext := cnext s; cfired := cfired s |}
  end.
Definition set_cnext (s : chstate) (n : Z) : chstate :=
  {| ca := ca s; cb := cb s; cc := cc s; cnext := n; cfired := cfired s |}.
Definition set_cfired (s : chstate) (f : list Z) : chstate :=
  {| ca := ca s; cb := cb s; cc := cc s; cnext := cnext s; cfired := f |}.
Definition cinit : chstate := {| ca := []; cb := []; cc := []; cnext := 1; cfired := [] |}.
Definition crow_id (r : crow) : Z := fst (fst r).
Definition ct_delete (id : Z) (t : list crow) : list crow :=
  filter (fun r => negb (Z.eqb (crow_id r) id)) t.

Definition no_default (c : col) : bool :=
  match col_default c with None => true | Some _ => false end.

(* result of creating one level (and, before it, its ancestors) *)
Record cres := {
  x_ok : option exn;             (* None = this level's row exists now *)
  x_tr : list (ev lvl);
  x_st : chstate;
  x_id : Z;
  x_done : list lvl              (* levels whose _SO_finishCreate ran, in order: their
                                    RowCreatedSignals wait in the per-thread list *)
}.

(* InheritableSQLObject.destroySelf of the instance of level (hd ls): parents
   first.  (Restriction: the listeners of a chain raise only at
   RowCreateSignal / RowCreatedSignal; here ARaise counts as ALog.) *)
Fixpoint chain_destroy (t : tabs) (ls : list lvl) (id : Z) (s : chstate) : list (ev lvl) * chstate :=
  match ls with
  | [] => ([], s)
  | l :: ps =>
      let '(tr, s1) := chain_destroy t ps id s in
      let L := sel SDestroy (ltab t l) in
      (tr ++ sig_events SDestroy l (Some id) L []
          ++ [EWrite (WDelete l id)]
          ++ run_posts SDestroy l id (posts SDestroy L)
          ++ after_part (ltab t l) SDestroyed l id,
       set_ctable s1 l (ct_delete id (ctable s1 l)))
  end.

(* __init__ + InheritableSQLObject._create of level (hd ls) with ancestors
   (tl ls); `seen` = the column keys the RowCreateSignal receivers find in
   their kwargs (the caller's dict for the outermost constructor, the wrapper
   {'kw':..., 'connection':...} for the nested ones); child = the childName
   to store *)
Fixpoint chain_level (t : tabs) (ls : list lvl) (seen kw : kwargs) (child : option lvl) (s : chstate) : cres :=
  match ls with
  | [] => {| x_ok := None; x_tr := []; x_st := s; x_id := cnext s; x_done := [] |}
  | l :: ps =>
      let L := sel SCreate (ltab t l) in
      match raiser (cfired s) L with
      | Some i =>
          (* a RowCreateSignal receiver of this level raised: nothing of this
             level or above it has happened *)
          {| x_ok := Some XBoom; x_tr := sig_events SCreate l None (cut (cfired s) L) seen;
             x_st := set_cfired s (i :: cfired s); x_id := 0; x_done := [] |}
      | None =>
      let tr0 := sig_events SCreate l None L seen in
      let c := own l in
      (* a child level checks its own required columns before creating the parent *)
      if negb (is_nil ps) && negb (kw_has c kw) && no_default c
      then {| x_ok := Some XTypeError; x_tr := tr0; x_st := s; x_id := 0; x_done := [] |}
      else
        let p := chain_level t ps [] kw (Some l) s in
        match x_ok p with
        | Some e =>
            (* raised by the parent's constructor, outside this level's try *)
            {| x_ok := Some e; x_tr := tr0 ++ x_tr p; x_st := x_st p; x_id := 0; x_done := x_done p |}
        | None =>
            let s1 := x_st p in
            let id := if is_nil ps then cnext s1 else x_id p in
            let fail (e : exn) :=
                let d := chain_destroy t ps id s1 in
                {| x_ok := Some e; x_tr := tr0 ++ x_tr p ++ fst d; x_st := snd d; x_id := 0; x_done := x_done p |} in
            match (match kw_get c kw with Some v => Some v | None => col_default c end) with
            | None => fail XTypeError
            | Some v =>
                if negb (val_ok (col_ty c) v) then fail XInvalid
                else
                  let s2 := set_ctable s1 l (ctable s1 l ++ [(id, v, child)]) in
                  let s3 := if is_nil ps then set_cnext s2 (id + 1) else s2 in
                  (* the row is in and its RowCreatedSignal is postponed; a
                     raising callback of RowCreateSignal leaves the constructor
                     (outside the try of the level below: no clean-up) *)
                  let q := posts_x (cfired s3) SCreate l id L in
                  {| x_ok := if p_raised q then Some XBoom else None;
                     x_tr := tr0 ++ x_tr p ++ [EWrite (WInsert l id [(c, v)])] ++ p_tr q;
                     x_st := set_cfired s3 (p_fired q); x_id := id; x_done := x_done p ++ [l] |}
            end
        end
      end
  end.

(* keys of kw must belong to the level or its ancestors *)
Definition chain_kw_ok (l : lvl) (kw : kwargs) : bool :=
  forallb (fun p => existsb (fun a => col_eqb (fst p) (own a)) (lineage l)) kw.

Inductive coutcome := CDone (id : Z) | CExn (e : exn) | CBadInput.

(* the per-thread list is flushed: RowCreatedSignal + callbacks level by
   level, until somebody raises *)
Fixpoint flush_x (t : tabs) (fired : list Z) (id : Z) (done : list lvl) : phase lvl :=
  match done with
  | [] => {| p_tr := []; p_fired := fired; p_raised := false |}
  | a :: r =>
      let x := after_x (ltab t a) fired SCreated a id in
      if p_raised x then x
      else let y := flush_x t (p_fired x) id r in
           {| p_tr := p_tr x ++ p_tr y; p_fired := p_fired y; p_raised := p_raised y |}
  end.

(* the outermost constructor: the postponed RowCreatedSignals are delivered in
   its `finally`, whether or not the creation succeeded; an exception raised
   there replaces the one on its way out *)
Definition chain_create (t : tabs) (l : lvl) (kw0 : list (col * val)) (s : chstate)
  : chstate * coutcome * list (ev lvl) :=
  let kw := mk_kw kw0 in
  if negb (chain_kw_ok l kw) then (s, CBadInput, [])
  else
    let r := chain_level t (lineage l) kw kw None s in
    (* all levels share the id the root INSERT got *)
    let f := flush_x t (cfired (x_st r)) (cnext s) (x_done r) in
    (set_cfired (x_st r) (p_fired f),
     if p_raised f then CExn XBoom else match x_ok r with None => CDone (x_id r) | Some e => CExn e end,
     x_tr r ++ p_tr f).

Record crec := { cr_lvl : lvl; cr_out : coutcome; cr_tr : list (ev lvl); cr_post : chstate }.
Fixpoint chain_run (t : tabs) (s : chstate) (ops : list (lvl * list (col * val))) : list crec :=
  match ops with
  | [] => []
  | (l, kw) :: r =>
      let x := chain_create t l kw s in
      {| cr_lvl := l; cr_out := snd (fst x); cr_tr := snd x; cr_post := fst (fst x) |}
        :: chain_run t (fst (fst x)) r
  end.

Definition has_row (id : Z) (t : list crow) : bool := existsb (fun r => Z.eqb (crow_id r) id) t.

(* every RowCreatedSignal delivery comes after every INSERT of the operation *)
Fixpoint created_after_inserts {K} (tr : list (ev K)) : bool :=
  match tr with
  | [] => true
  | e :: r => (if is_sig SCreated e then negb (existsb is_insert r) else true) && created_after_inserts r
  end.
Definition inserts_of {K} (tr : list (ev K)) : list (K * Z) :=
  flat_map (fun e => match e with EWrite (WInsert k id _) => [(k, id)] | _ => [] end) tr.

(* ------------------------------------------------------------------ *)
(* Part 6: updates of chain instances                                   *)

(* InheritableSQLMeta.addColumn gives a child class, for every column of its
   parent, a setter
       def setfunc(self, val):
           if not creating and not row_update_sig_suppress:
               self.sqlmeta.send(RowUpdateSignal, self, {cname: val})
           setattr(self._parent, cname, val)
   (the grandchild inherits the child's): an assignment of an inherited column
   sends RowUpdateSignal of every class between the instance's and the
   column's owner -- each with a throw-away dict -- and ends in the owner's
   _SO_setValue (RowUpdateSignal, validation, UPDATE of the owner's table,
   RowUpdatedSignal + callbacks of the owner's class).
   InheritableSQLObject.set of an instance that has a parent is
   SQLObject.set(_suppress_set_sig=True): NO RowUpdateSignal of its own; the
   own column is validated, the inherited ones go one by one, in the order of
   the keyword dict, through setattr (= the assignment above, complete with
   its UPDATE and after-event), then one UPDATE of the own column (if given),
   then RowUpdatedSignal + callbacks of the instance's class.  The root class
   has plain setters and the plain set().
   Restriction: the listeners of a chain do not rewrite and raise only at
   RowCreateSignal / RowCreatedSignal (elsewhere ARaise counts as ALog,
   APostRaise t as APost t). *)
Definition owner (c : col) : lvl := match c with CA => LA | CB => LB | CC => LC end.
Definition ct_update (id : Z) (v : val) (t : list crow) : list crow :=
  map (fun r => if Z.eqb (crow_id r) id then (id, v, snd r) else r) t.
(* the instance of level l with this id: its row carries no childName *)
Definition is_leaf (id : Z) (r : crow) : bool :=
  Z.eqb (crow_id r) id && match snd r with None => true | Some _ => false end.
Definition has_handle (s : chstate) (l : lvl) (id : Z) : bool := existsb (is_leaf id) (ctable s l).

(* result of an update path: the exception (None = done), the trace, the state *)
Definition ures_c := (option exn * list (ev lvl) * chstate)%type.

(* setattr(inst, c, v) on the instance of level (hd ls), ancestors (tl ls) *)
Fixpoint uassign_at (t : tabs) (ls : list lvl) (id : Z) (c : col) (v : val) (s : chstate) : ures_c :=
  match ls with
  | [] => (Some XKeyError, [], s)      (* not reachable: c belongs to the lineage *)
  | a :: ps =>
      let sg := sig_events SUpdate a (Some id) (sel SUpdate (ltab t a)) [(c, v)] in
      if lvl_eqb a (owner c) then
        (* _SO_setValue of the owner *)
        if negb (val_ok (col_ty c) v) then (Some XInvalid, sg, s)
        else (None,
              sg ++ [EWrite (WUpdate a id [(c, v)])] ++ after_part (ltab t a) SUpdated a id,
              set_ctable s a (ct_update id v (ctable s a)))
      else
        (* the generated setter: signal of this class, then the parent's turn *)
        let r := uassign_at t ps id c v s in
        (fst (fst r), sg ++ snd (fst r), snd r)
  end.

(* the `for name, value in extra.items(): setattr(self, name, value)` loop *)
Fixpoint uextras (t : tabs) (ls : list lvl) (id : Z) (extra : kwargs) (s : chstate) : ures_c :=
  match extra with
  | [] => (None, [], s)
  | (c, v) :: r =>
      let x := uassign_at t ls id c v s in
      match fst (fst x) with
      | Some e => x
      | None => let y := uextras t ls id r (snd x) in (fst (fst y), snd (fst x) ++ snd (fst y), snd y)
      end
  end.

Definition uset (t : tabs) (l : lvl) (id : Z) (kw : kwargs) (s : chstate) : ures_c :=
  let own_kw := filter (fun p => lvl_eqb (owner (fst p)) l) kw in
  let extra := filter (fun p => negb (lvl_eqb (owner (fst p)) l)) kw in
  let L := sel SUpdate (ltab t l) in
  (* only an instance without parent sends the RowUpdateSignal of set() *)
  let sg := match parent l with None => sig_events SUpdate l (Some id) L kw | Some _ => [] end in
  if negb (validate own_kw) then (Some XInvalid, sg, s)
  else
    let x := uextras t (lineage l) id extra s in
    match fst (fst x) with
    | Some e => (Some e, sg ++ snd (fst x), snd x)
    | None =>
        let s1 := snd x in
        (None,
         sg ++ snd (fst x)
            ++ (if is_nil own_kw then [] else [EWrite (WUpdate l id (sort_cols own_kw))])
            ++ after_part (ltab t l) SUpdated l id,
         match kw_get (own l) own_kw with
         | Some v => set_ctable s1 l (ct_update id v (ctable s1 l))
         | None => s1
         end)
    end.

Inductive cop :=
| UCreate (l : lvl) (kw : list (col * val))
| UAssign (l : lvl) (id : Z) (c : col) (v : val)      (* inst.c = v *)
| USet (l : lvl) (id : Z) (kw : list (col * val)).    (* inst.set( **kw) *)

Definition ures_out (id : Z) (r : ures_c) : chstate * coutcome * list (ev lvl) :=
  (snd r, match fst (fst r) with None => CDone id | Some e => CExn e end, snd (fst r)).

Definition chain_step (t : tabs) (s : chstate) (o : cop) : chstate * coutcome * list (ev lvl) :=
  match o with
  | UCreate l kw => chain_create t l kw s
  | UAssign l id c v =>
      if negb (has_handle s l id) || negb (chain_kw_ok l [(c, v)]) then (s, CBadInput, [])
      else ures_out id (uassign_at t (lineage l) id c v s)
  | USet l id kw0 =>
      if negb (has_handle s l id) || negb (chain_kw_ok l (mk_kw kw0)) then (s, CBadInput, [])
      else ures_out id (uset t l id (mk_kw kw0) s)
  end.

Record urec := { ur_pre : chstate; ur_op : cop; ur_out : coutcome; ur_tr : list (ev lvl); ur_post : chstate }.
Fixpoint chain_steps (t : tabs) (s : chstate) (ops : list cop) : list urec :=
  match ops with
  | [] => []
  | o :: r =>
      let x := chain_step t s o in
      {| ur_pre := s; ur_op := o; ur_out := snd (fst x); ur_tr := snd x; ur_post := fst (fst x) |}
        :: chain_steps t (fst (fst x)) r
  end.

(* ---- what the update of a chain instance delivers, in closed form ---- *)
Definition lvl_le (a b : lvl) : bool :=   (* a is b or an ancestor of b *)
  existsb (lvl_eqb a) (lineage b).
(* the classes from the instance's down to the column's owner *)
Definition path_to (l o : lvl) : list lvl := filter (fun a => lvl_le o a) (lineage l).
Definition uspec_assign (t : tabs) (l : lvl) (id : Z) (c : col) (v : val) : list (ev lvl) :=
  flat_map (fun a => sig_events SUpdate a (Some id) (sel SUpdate (ltab t a)) [(c, v)]) (path_to l (owner c))
    ++ [EWrite (WUpdate (owner c) id [(c, v)])]
    ++ after_part (ltab t (owner c)) SUpdated (owner c) id.
Definition uspec (t : tabs) (o : cop) : list (ev lvl) :=
  match o with
  | UCreate _ _ => []
  | UAssign l id c v => uspec_assign t l id c v
  | USet l id kw0 =>
      let kw := mk_kw kw0 in
      let own_kw := filter (fun p => lvl_eqb (owner (fst p)) l) kw in
      let extra := filter (fun p => negb (lvl_eqb (owner (fst p)) l)) kw in
      (match parent l with None => sig_events SUpdate l (Some id) (sel SUpdate (ltab t l)) kw | Some _ => [] end)
        ++ flat_map (fun p => uspec_assign t l id (fst p) (snd p)) extra
        ++ (if is_nil own_kw then [] else [EWrite (WUpdate l id (sort_cols own_kw))])
        ++ after_part (ltab t l) SUpdated l id
  end.
(* the rows afterwards *)
Definition store (id : Z) (s : chstate) (p : col * val) : chstate :=
  set_ctable s (owner (fst p)) (ct_update id (snd p) (ctable s (owner (fst p)))).
Definition uspec_state (o : cop) (s : chstate) : chstate :=
  match o with
  | UCreate _ _ => s
  | UAssign l id c v => store id s (c, v)
  | USet l id kw0 =>
      let s1 := fold_left (store id) (filter (fun p => negb (lvl_eqb (owner (fst p)) l)) (mk_kw kw0)) s in
      match kw_get (own l) (filter (fun p => lvl_eqb (owner (fst p)) l) (mk_kw kw0)) with
      | Some v => store id s1 (own l, v)
      | None => s1
      end
  end.

(* the listeners that received signal s of class a, in the order of delivery *)
Definition recv_of {K} (keq : K -> K -> bool) (s : sig) (a : K) (tr : list (ev K)) : list Z :=
  flat_map (fun e => match e with
                     | ESig s' a' _ _ li => if sig_eqb s s' && keq a a' then [li] else []
                     | _ => []
                     end) tr.
(* how many rounds of signal s an update owes the receivers of class a *)
Definition b2n (b : bool) : nat := if b then 1%nat else 0%nat.
Definition uowed_assign (l : lvl) (c : col) (a : lvl) (s : sig) : nat :=
  match s with
  | SUpdate => b2n (lvl_le (owner c) a && lvl_le a l)     (* every class from the instance's down to the owner *)
  | SUpdated => b2n (lvl_eqb a (owner c))                 (* the owner only *)
  | _ => 0%nat
  end.
Definition uowed (o : cop) (a : lvl) (s : sig) : nat :=
  match o with
  | UCreate _ _ => 0%nat
  | UAssign l _ c _ => uowed_assign l c a s
  | USet l _ kw0 =>
      (match s with
       | SUpdate => match parent l with None => b2n (lvl_eqb a l) | Some _ => 0%nat end
       | SUpdated => b2n (lvl_eqb a l)
       | _ => 0%nat
       end
       + list_sum (map (fun p => uowed_assign l (fst p) a s)
                       (filter (fun p => negb (lvl_eqb (owner (fst p)) l)) (mk_kw kw0))))%nat
  end.
(* n rounds over the receivers of a class *)
Definition rounds (n : nat) (L : list (Z * act)) : list Z := concat (repeat (map fst L) n).
Definition is_uupdate (o : cop) : bool := match o with UCreate _ _ => false | _ => true end.
Definition uop_lvl (o : cop) : lvl := match o with UCreate l _ | UAssign l _ _ _ | USet l _ _ => l end.
(* the updates that behave like those of a plain class: an assignment of a
   column the instance's own class declares, and anything on the root class *)
Definition uplain (o : cop) : bool :=
  match o with
  | UCreate _ _ => false
  | UAssign l _ c _ => lvl_eqb (owner c) l
  | USet l _ _ => lvl_eqb l LA
  end.
