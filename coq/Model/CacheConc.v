(* C09 -- the instance cache under line-atomic interleavings.

   A small-step interleaving semantics of sqlobject/cache.py (CacheSet /
   CacheFactory, both values of the `cache` option: s_docache) and of the cache-relevant statements of
   sqlobject/main.py (SQLObject.get, expire, _SO_finishCreate,
   sqlmeta.expireAll).  One transition = one executed source statement of one
   thread; the program points carry the line numbers of the tree the model was
   written against (tools/sched/expected.py ties them to the tree under test).
   Definitions only. *)
From Coq Require Import List ZArith Bool Arith.
Import ListNotations.

(* ------------------------------------------------------------------ program points *)
Inductive pc :=
| Idle
(* CacheSet.get *)
| SG301 | SG302 | SG303 | SG306 | SG308
(* CacheFactory.get, cache=True branch *)
| F93 | F94 | F99 | F100 | F102 | F104 | F105 | F106 | F107 | F108 | F109 | F110 | F111 | F112
| F114 | F115 | F116 | F117 | F118 | F119 | F121 | F122 | F123 | F124 | F125 | F126
(* CacheFactory.get, cache=False branch *)
| F129 | F130 | F131 | F132 | F133 | F134 | F135 | F136 | F137 | F138 | F139 | F141 | F142 | F143 | F144 | F145
(* SQLObject.get after a miss; CacheSet.put / CacheFactory.put; finishPut *)
| M951 | M954 | SP311 | P152 | P153 | P155 | M956 | SQ314 | Q162
(* _SO_finishCreate; CacheSet.created; CacheFactory.created *)
| C1397 | C1400 | SK317 | SK318 | SK319 | SK320 | SK322 | K171 | K172 | K177 | K178 | K180
| K181a | K181t | K181 | K181r | K183a | K183t | K183 | K183r
(* CacheFactory.cull *)
| U192 | U193 | U195 | U196 | U197 | U198 | U200 | U201 | U202 | U204 | U205 | U209 | U210 | U214 | U216
(* SQLObject.expire; CacheSet.expire; CacheFactory.expire *)
| X1072 | X1074 | X1078 | X1079 | SE325 | SE326 | SE327 | SE328
| E232 | E233 | E234 | E235 | E236 | E237 | E238 | E239 | E241 | X1083
(* CacheSet.weakrefAll; CacheFactory.expireAll *)
| SW364 | SW367 | SW368 | A248 | A249 | A250 | A251 | A252 | A253 | A254 | A256
(* sqlmeta.expireAll; CacheSet.getAll; CacheFactory.getAll *)
| Z681 | Z682 | Z683 | SL375 | SL380 | SL381 | SL383
| L272 | L273 | L275 | L276 | L278 | L279 | L280 | L280n | L281 | L283 | L282.

Definition pc_eq_dec : forall a b : pc, {a = b} + {a <> b}.
Proof. decide equality. Defined.
Definition pc_eqb (a b : pc) : bool := if pc_eq_dec a b then true else false.

(* ------------------------------------------------------------------ data *)
Definition dict := list (Z * nat).       (* a Python dict in insertion order: key -> object *)

Fixpoint dget (d : dict) (k : Z) : option nat :=
  match d with
  | [] => None
  | (k', v) :: r => if Z.eqb k' k then Some v else dget r k
  end.
Fixpoint dmem (d : dict) (k : Z) : bool :=
  match d with
  | [] => false
  | (k', _) :: r => Z.eqb k' k || dmem r k
  end.
(* assignment: an existing key keeps its position, a new key goes to the end *)
Fixpoint dset (d : dict) (k : Z) (v : nat) : dict :=
  match d with
  | [] => [(k, v)]
  | (k', v') :: r => if Z.eqb k' k then (k', v) :: r else (k', v') :: dset r k v
  end.
Fixpoint ddel (d : dict) (k : Z) : dict :=
  match d with
  | [] => []
  | (k', v') :: r => if Z.eqb k' k then r else (k', v') :: ddel r k
  end.
Definition dkeys (d : dict) : list Z := map fst d.
Definition dvals (d : dict) : list nat := map snd d.

(* range(off, len keys, frac) applied to keys *)
Fixpoint select_from (keys : list Z) (skip : nat) (frac : nat) : list Z :=
  match keys with
  | [] => []
  | k :: r => match skip with
              | O => k :: select_from r (pred frac) frac
              | S n => select_from r n frac
              end
  end.

Inductive exn := NotFound | RuntimeErr | AttrErr | KeyErr.
Definition exn_eqb (a b : exn) : bool :=
  match a, b with
  | NotFound, NotFound | RuntimeErr, RuntimeErr | AttrErr, AttrErr | KeyErr, KeyErr => true
  | _, _ => false
  end.

(* the outcome of a finished operation, kept by the application (a reference when it is an
   object).  The epoch is ghost: the number of purges of the row's cache entry before the
   lookup that produced the object. *)
Inductive res :=
| RObj (o : nat) (i : Z) (e : nat)
| RExc (x : exn)
| RNone
| RDropped.

Inductive op :=
| Get (i : Z)            (* Cls.get(i): hit, miss, missing row, first use of the class *)
| Create                 (* Cls(...): INSERT, then cache.created *)
| Expire (t k : nat)     (* inst.expire() of the object in result slot k of thread t *)
| XAll                   (* connection.cache.weakrefAll(Cls) = CacheFactory.expireAll *)
| MExAll                 (* Cls.sqlmeta.expireAll() *)
| Drop (t k : nat).      (* the application forgets the object in result slot k of thread t *)

Inductive cret := RetGet | RetCreated.

(* o_init: the constructor has returned (`_init` has set `id` and the final `_SO_writeLock`); an instance made by
   create is registered by cache.created() BEFORE that *)
Record obj := { o_key : Z; o_expired : bool; o_wlock : option nat; o_init : bool }.

Record thread := {
  t_pc : pc;
  t_prog : list op;             (* operations still to run; the head is the one in progress *)
  t_slots : list res;           (* results of the finished operations, in order *)
  t_id : Z;                     (* `id` of get / put / created *)
  t_val : option nat;           (* `val` (get), `value` (expireAll): a strong reference *)
  t_ep : nat;                   (* ghost: epoch of t_id when t_val was looked up / put *)
  t_self : option nat;          (* `self` of create / expire: a strong reference *)
  t_key : Z;                    (* `key` / `id` of cull, expire, expireAll *)
  t_keys : list Z;              (* cull: keys still to visit *)
  t_cobj : option nat;          (* cull `obj`, getAll `value`: a WEAK reference *)
  t_cret : cret;                (* who called cull *)
  t_mex : bool;                 (* inside sqlmeta.expireAll *)
  t_mexl : bool;                (* sqlmeta.expireAll: getAll has returned, the loop runs *)
  t_iter : option (nat * nat * nat);   (* dict iterator: position, size at creation, version at creation *)
  t_all : list nat;             (* getAll `all`: strong references *)
  t_items : list nat;           (* sqlmeta.expireAll: items still to expire *)
  t_exc : option exn            (* exception in flight while a finally clause runs *)
}.

Record state := {
  s_docache : bool;                       (* CacheFactory.doCache: the `cache` parameter of the connection *)
  s_freq : Z; s_frac : nat;               (* cullFrequency, cullFraction *)
  s_present : bool;                       (* CacheSet.caches has the class *)
  s_strong : dict;                        (* CacheFactory.cache *)
  s_weak : dict;                          (* CacheFactory.expiredCache: key -> referent (dead or alive) *)
  s_sver : nat; s_wver : nat;             (* structural versions of the two dicts (for iterators) *)
  s_cc : Z; s_co : nat;                   (* cullCount, cullOffset *)
  s_lock : option nat;                    (* CacheFactory.lock *)
  s_rows : list Z; s_nextid : Z;          (* the table *)
  s_heap : nat -> obj; s_nextobj : nat;   (* instances *)
  s_epoch : Z -> nat;                     (* ghost: purges of the entry of a row so far *)
  s_thr : nat -> thread; s_n : nat;       (* threads 0 .. s_n - 1 *)
  s_unmod : bool                          (* the run left what the model describes *)
}.

(* ------------------------------------------------------------------ updates *)
Definition set_pc (th : thread) (p : pc) : thread :=
  {| t_pc := p; t_prog := t_prog th; t_slots := t_slots th; t_id := t_id th; t_val := t_val th; t_ep := t_ep th;
     t_self := t_self th; t_key := t_key th; t_keys := t_keys th; t_cobj := t_cobj th; t_cret := t_cret th;
     t_mex := t_mex th; t_mexl := t_mexl th; t_iter := t_iter th; t_all := t_all th; t_items := t_items th;
     t_exc := t_exc th |}.
Definition set_id (th : thread) (i : Z) : thread :=
  {| t_pc := t_pc th; t_prog := t_prog th; t_slots := t_slots th; t_id := i; t_val := t_val th; t_ep := t_ep th;
     t_self := t_self th; t_key := t_key th; t_keys := t_keys th; t_cobj := t_cobj th; t_cret := t_cret th;
     t_mex := t_mex th; t_mexl := t_mexl th; t_iter := t_iter th; t_all := t_all th; t_items := t_items th;
     t_exc := t_exc th |}.
Definition set_val (th : thread) (v : option nat) (e : nat) : thread :=
  {| t_pc := t_pc th; t_prog := t_prog th; t_slots := t_slots th; t_id := t_id th; t_val := v; t_ep := e;
     t_self := t_self th; t_key := t_key th; t_keys := t_keys th; t_cobj := t_cobj th; t_cret := t_cret th;
     t_mex := t_mex th; t_mexl := t_mexl th; t_iter := t_iter th; t_all := t_all th; t_items := t_items th;
     t_exc := t_exc th |}.
Definition set_self (th : thread) (v : option nat) : thread :=
  {| t_pc := t_pc th; t_prog := t_prog th; t_slots := t_slots th; t_id := t_id th; t_val := t_val th; t_ep := t_ep th;
     t_self := v; t_key := t_key th; t_keys := t_keys th; t_cobj := t_cobj th; t_cret := t_cret th;
     t_mex := t_mex th; t_mexl := t_mexl th; t_iter := t_iter th; t_all := t_all th; t_items := t_items th;
     t_exc := t_exc th |}.
Definition set_key (th : thread) (k : Z) : thread :=
  {| t_pc := t_pc th; t_prog := t_prog th; t_slots := t_slots th; t_id := t_id th; t_val := t_val th; t_ep := t_ep th;
     t_self := t_self th; t_key := k; t_keys := t_keys th; t_cobj := t_cobj th; t_cret := t_cret th;
     t_mex := t_mex th; t_mexl := t_mexl th; t_iter := t_iter th; t_all := t_all th; t_items := t_items th;
     t_exc := t_exc th |}.
Definition set_keys (th : thread) (l : list Z) : thread :=
  {| t_pc := t_pc th; t_prog := t_prog th; t_slots := t_slots th; t_id := t_id th; t_val := t_val th; t_ep := t_ep th;
     t_self := t_self th; t_key := t_key th; t_keys := l; t_cobj := t_cobj th; t_cret := t_cret th;
     t_mex := t_mex th; t_mexl := t_mexl th; t_iter := t_iter th; t_all := t_all th; t_items := t_items th;
     t_exc := t_exc th |}.
Definition set_cobj (th : thread) (v : option nat) : thread :=
  {| t_pc := t_pc th; t_prog := t_prog th; t_slots := t_slots th; t_id := t_id th; t_val := t_val th; t_ep := t_ep th;
     t_self := t_self th; t_key := t_key th; t_keys := t_keys th; t_cobj := v; t_cret := t_cret th;
     t_mex := t_mex th; t_mexl := t_mexl th; t_iter := t_iter th; t_all := t_all th; t_items := t_items th;
     t_exc := t_exc th |}.
Definition set_cret (th : thread) (r : cret) : thread :=
  {| t_pc := t_pc th; t_prog := t_prog th; t_slots := t_slots th; t_id := t_id th; t_val := t_val th; t_ep := t_ep th;
     t_self := t_self th; t_key := t_key th; t_keys := t_keys th; t_cobj := t_cobj th; t_cret := r;
     t_mex := t_mex th; t_mexl := t_mexl th; t_iter := t_iter th; t_all := t_all th; t_items := t_items th;
     t_exc := t_exc th |}.
Definition set_mex (th : thread) (a b : bool) : thread :=
  {| t_pc := t_pc th; t_prog := t_prog th; t_slots := t_slots th; t_id := t_id th; t_val := t_val th; t_ep := t_ep th;
     t_self := t_self th; t_key := t_key th; t_keys := t_keys th; t_cobj := t_cobj th; t_cret := t_cret th;
     t_mex := a; t_mexl := b; t_iter := t_iter th; t_all := t_all th; t_items := t_items th;
     t_exc := t_exc th |}.
Definition set_iter (th : thread) (it : option (nat * nat * nat)) : thread :=
  {| t_pc := t_pc th; t_prog := t_prog th; t_slots := t_slots th; t_id := t_id th; t_val := t_val th; t_ep := t_ep th;
     t_self := t_self th; t_key := t_key th; t_keys := t_keys th; t_cobj := t_cobj th; t_cret := t_cret th;
     t_mex := t_mex th; t_mexl := t_mexl th; t_iter := it; t_all := t_all th; t_items := t_items th;
     t_exc := t_exc th |}.
Definition set_all (th : thread) (l : list nat) : thread :=
  {| t_pc := t_pc th; t_prog := t_prog th; t_slots := t_slots th; t_id := t_id th; t_val := t_val th; t_ep := t_ep th;
     t_self := t_self th; t_key := t_key th; t_keys := t_keys th; t_cobj := t_cobj th; t_cret := t_cret th;
     t_mex := t_mex th; t_mexl := t_mexl th; t_iter := t_iter th; t_all := l; t_items := t_items th;
     t_exc := t_exc th |}.
Definition set_items (th : thread) (l : list nat) : thread :=
  {| t_pc := t_pc th; t_prog := t_prog th; t_slots := t_slots th; t_id := t_id th; t_val := t_val th; t_ep := t_ep th;
     t_self := t_self th; t_key := t_key th; t_keys := t_keys th; t_cobj := t_cobj th; t_cret := t_cret th;
     t_mex := t_mex th; t_mexl := t_mexl th; t_iter := t_iter th; t_all := t_all th; t_items := l;
     t_exc := t_exc th |}.
Definition set_exc (th : thread) (x : option exn) : thread :=
  {| t_pc := t_pc th; t_prog := t_prog th; t_slots := t_slots th; t_id := t_id th; t_val := t_val th; t_ep := t_ep th;
     t_self := t_self th; t_key := t_key th; t_keys := t_keys th; t_cobj := t_cobj th; t_cret := t_cret th;
     t_mex := t_mex th; t_mexl := t_mexl th; t_iter := t_iter th; t_all := t_all th; t_items := t_items th;
     t_exc := x |}.
Definition set_slots (th : thread) (l : list res) : thread :=
  {| t_pc := t_pc th; t_prog := t_prog th; t_slots := l; t_id := t_id th; t_val := t_val th; t_ep := t_ep th;
     t_self := t_self th; t_key := t_key th; t_keys := t_keys th; t_cobj := t_cobj th; t_cret := t_cret th;
     t_mex := t_mex th; t_mexl := t_mexl th; t_iter := t_iter th; t_all := t_all th; t_items := t_items th;
     t_exc := t_exc th |}.

(* the operation in progress is over: its result goes to the application, the frame is gone *)
Definition finish (th : thread) (r : res) : thread :=
  {| t_pc := Idle; t_prog := tl (t_prog th); t_slots := t_slots th ++ [r]; t_id := 0%Z; t_val := None; t_ep := 0;
     t_self := None; t_key := 0%Z; t_keys := []; t_cobj := None; t_cret := RetGet;
     t_mex := false; t_mexl := false; t_iter := None; t_all := []; t_items := []; t_exc := None |}.

Definition new_thread (p : list op) : thread :=
  {| t_pc := Idle; t_prog := p; t_slots := []; t_id := 0%Z; t_val := None; t_ep := 0;
     t_self := None; t_key := 0%Z; t_keys := []; t_cobj := None; t_cret := RetGet;
     t_mex := false; t_mexl := false; t_iter := None; t_all := []; t_items := []; t_exc := None |}.

Definition upd {A : Type} (f : nat -> A) (t : nat) (v : A) : nat -> A :=
  fun x => if Nat.eqb x t then v else f x.
Definition updz {A : Type} (f : Z -> A) (t : Z) (v : A) : Z -> A :=
  fun x => if Z.eqb x t then v else f x.

Fixpoint keys_eqb (a b : list Z) : bool :=
  match a, b with
  | [], [] => true
  | x :: a', y :: b' => Z.eqb x y && keys_eqb a' b'
  | _, _ => false
  end.

Definition with_thr (s : state) (f : nat -> thread) : state :=
  {| s_docache := s_docache s; s_freq := s_freq s; s_frac := s_frac s; s_present := s_present s; s_strong := s_strong s; 
     s_weak := s_weak s; s_sver := s_sver s; s_wver := s_wver s; s_cc := s_cc s; s_co := s_co s; 
     s_lock := s_lock s; s_rows := s_rows s; s_nextid := s_nextid s; s_heap := s_heap s; 
     s_nextobj := s_nextobj s; s_epoch := s_epoch s; s_thr := f; s_n := s_n s; s_unmod := s_unmod s |}.
Definition with_present (s : state) (b : bool) : state :=
  {| s_docache := s_docache s; s_freq := s_freq s; s_frac := s_frac s; s_present := b; s_strong := s_strong s; s_weak := s_weak s; 
     s_sver := s_sver s; s_wver := s_wver s; s_cc := s_cc s; s_co := s_co s; s_lock := s_lock s; 
     s_rows := s_rows s; s_nextid := s_nextid s; s_heap := s_heap s; s_nextobj := s_nextobj s; 
     s_epoch := s_epoch s; s_thr := s_thr s; s_n := s_n s; s_unmod := s_unmod s |}.
(* a structural change (a new key, a deleted key) bumps the version seen by iterators *)
Definition with_strong (s : state) (d : dict) : state :=
  {| s_docache := s_docache s; s_freq := s_freq s; s_frac := s_frac s; s_present := s_present s; s_strong := d; s_weak := s_weak s; 
     s_sver := (if keys_eqb (dkeys d) (dkeys (s_strong s)) then s_sver s else S (s_sver s)); 
     s_wver := s_wver s; s_cc := s_cc s; s_co := s_co s; s_lock := s_lock s; s_rows := s_rows s; 
     s_nextid := s_nextid s; s_heap := s_heap s; s_nextobj := s_nextobj s; s_epoch := s_epoch s; 
     s_thr := s_thr s; s_n := s_n s; s_unmod := s_unmod s |}.
Definition with_weak (s : state) (d : dict) : state :=
  {| s_docache := s_docache s; s_freq := s_freq s; s_frac := s_frac s; s_present := s_present s; s_strong := s_strong s; 
     s_weak := d; s_sver := s_sver s; 
     s_wver := (if keys_eqb (dkeys d) (dkeys (s_weak s)) then s_wver s else S (s_wver s)); s_cc := s_cc s; 
     s_co := s_co s; s_lock := s_lock s; s_rows := s_rows s; s_nextid := s_nextid s; s_heap := s_heap s; 
     s_nextobj := s_nextobj s; s_epoch := s_epoch s; s_thr := s_thr s; s_n := s_n s; s_unmod := s_unmod s |}.
Definition with_cc (s : state) (c : Z) : state :=
  {| s_docache := s_docache s; s_freq := s_freq s; s_frac := s_frac s; s_present := s_present s; s_strong := s_strong s; 
     s_weak := s_weak s; s_sver := s_sver s; s_wver := s_wver s; s_cc := c; s_co := s_co s; 
     s_lock := s_lock s; s_rows := s_rows s; s_nextid := s_nextid s; s_heap := s_heap s; 
     s_nextobj := s_nextobj s; s_epoch := s_epoch s; s_thr := s_thr s; s_n := s_n s; s_unmod := s_unmod s |}.
Definition with_co (s : state) (c : nat) : state :=
  {| s_docache := s_docache s; s_freq := s_freq s; s_frac := s_frac s; s_present := s_present s; s_strong := s_strong s; 
     s_weak := s_weak s; s_sver := s_sver s; s_wver := s_wver s; s_cc := s_cc s; s_co := c; 
     s_lock := s_lock s; s_rows := s_rows s; s_nextid := s_nextid s; s_heap := s_heap s; 
     s_nextobj := s_nextobj s; s_epoch := s_epoch s; s_thr := s_thr s; s_n := s_n s; s_unmod := s_unmod s |}.
Definition with_lock (s : state) (l : option nat) : state :=
  {| s_docache := s_docache s; s_freq := s_freq s; s_frac := s_frac s; s_present := s_present s; s_strong := s_strong s; 
     s_weak := s_weak s; s_sver := s_sver s; s_wver := s_wver s; s_cc := s_cc s; s_co := s_co s; 
     s_lock := l; s_rows := s_rows s; s_nextid := s_nextid s; s_heap := s_heap s; 
     s_nextobj := s_nextobj s; s_epoch := s_epoch s; s_thr := s_thr s; s_n := s_n s; s_unmod := s_unmod s |}.
Definition with_rows (s : state) (r : list Z) (n : Z) : state :=
  {| s_docache := s_docache s; s_freq := s_freq s; s_frac := s_frac s; s_present := s_present s; s_strong := s_strong s; 
     s_weak := s_weak s; s_sver := s_sver s; s_wver := s_wver s; s_cc := s_cc s; s_co := s_co s; 
     s_lock := s_lock s; s_rows := r; s_nextid := n; s_heap := s_heap s; s_nextobj := s_nextobj s; 
     s_epoch := s_epoch s; s_thr := s_thr s; s_n := s_n s; s_unmod := s_unmod s |}.
Definition with_heap (s : state) (h : nat -> obj) (n : nat) : state :=
  {| s_docache := s_docache s; s_freq := s_freq s; s_frac := s_frac s; s_present := s_present s; s_strong := s_strong s; 
     s_weak := s_weak s; s_sver := s_sver s; s_wver := s_wver s; s_cc := s_cc s; s_co := s_co s; 
     s_lock := s_lock s; s_rows := s_rows s; s_nextid := s_nextid s; s_heap := h; s_nextobj := n; 
     s_epoch := s_epoch s; s_thr := s_thr s; s_n := s_n s; s_unmod := s_unmod s |}.
Definition with_epoch (s : state) (e : Z -> nat) : state :=
  {| s_docache := s_docache s; s_freq := s_freq s; s_frac := s_frac s; s_present := s_present s; s_strong := s_strong s; 
     s_weak := s_weak s; s_sver := s_sver s; s_wver := s_wver s; s_cc := s_cc s; s_co := s_co s; 
     s_lock := s_lock s; s_rows := s_rows s; s_nextid := s_nextid s; s_heap := s_heap s; 
     s_nextobj := s_nextobj s; s_epoch := e; s_thr := s_thr s; s_n := s_n s; s_unmod := s_unmod s |}.
Definition with_unmod (s : state) (b : bool) : state :=
  {| s_docache := s_docache s; s_freq := s_freq s; s_frac := s_frac s; s_present := s_present s; s_strong := s_strong s; 
     s_weak := s_weak s; s_sver := s_sver s; s_wver := s_wver s; s_cc := s_cc s; s_co := s_co s; 
     s_lock := s_lock s; s_rows := s_rows s; s_nextid := s_nextid s; s_heap := s_heap s; 
     s_nextobj := s_nextobj s; s_epoch := s_epoch s; s_thr := s_thr s; s_n := s_n s; s_unmod := b |}.

(* ------------------------------------------------------------------ liveness (CPython reference counting) *)
Definition omem (o : nat) (l : list (option nat)) : bool :=
  existsb (fun x => match x with Some o' => Nat.eqb o' o | None => false end) l.
Definition res_refs (o : nat) (r : res) : bool :=
  match r with RObj o' _ _ => Nat.eqb o' o | _ => false end.
(* the references a thread holds: its frame locals and the results it keeps *)
Definition thread_refs (th : thread) (o : nat) : bool :=
  omem o [t_val th; t_self th] || existsb (Nat.eqb o) (t_all th) || existsb (res_refs o) (t_slots th).
Fixpoint any_thread (f : nat -> thread) (n : nat) (o : nat) : bool :=
  match n with
  | O => false
  | S m => thread_refs (f m) o || any_thread f m o
  end.
Definition aliveb (s : state) (o : nat) : bool :=
  existsb (fun kv => Nat.eqb (snd kv) o) (s_strong s) || any_thread (s_thr s) (s_n s) o.
(* dereferencing a weak reference *)
Definition deref (s : state) (o : nat) : option nat := if aliveb s o then Some o else None.

(* ------------------------------------------------------------------ one step of one thread *)
Definition put_thr (s : state) (t : nat) (th : thread) : state := with_thr s (upd (s_thr s) t th).
Definition goto (s : state) (t : nat) (th : thread) (p : pc) : option state := Some (put_thr s t (set_pc th p)).

(* a release of a lock nobody holds / a KeyError the code does not expect: outside the model *)
Definition crash (s : state) (t : nat) (th : thread) (x : exn) : option state :=
  Some (put_thr s t (finish th (RExc x))).
(* an iterator over a dict that was modified without a change of size: what CPython does then
   depends on the layout of the hash table; the model stops describing the run *)
Definition unmodelled (s : state) (t : nat) (th : thread) : option state :=
  Some (with_unmod (put_thr s t (finish th RNone)) true).

Definition acquire (s : state) (t : nat) (th : thread) (p : pc) : option state :=
  match s_lock s with
  | None => Some (put_thr (with_lock s (Some t)) t (set_pc th p))
  | Some _ => None                                   (* blocked *)
  end.
(* release the lock, then continue as thread state th' (already holding its new pc) *)
Definition release (s : state) (t : nat) (th th' : thread) : option state :=
  match s_lock s with
  | Some _ => Some (put_thr (with_lock s None) t th')
  | None => crash s t th RuntimeErr
  end.

Definition set_obj_expired (h : nat -> obj) (o : nat) (b : bool) : nat -> obj :=
  upd h o {| o_key := o_key (h o); o_expired := b; o_wlock := o_wlock (h o); o_init := o_init (h o) |}.
Definition set_obj_wlock (h : nat -> obj) (o : nat) (l : option nat) : nat -> obj :=
  upd h o {| o_key := o_key (h o); o_expired := o_expired (h o); o_wlock := l; o_init := o_init (h o) |}.
Definition set_obj_init (h : nat -> obj) (o : nat) : nat -> obj :=
  upd h o {| o_key := o_key (h o); o_expired := o_expired (h o); o_wlock := o_wlock (h o); o_init := true |}.
Definition fresh_obj (k : Z) : obj := {| o_key := k; o_expired := false; o_wlock := None; o_init := true |}.
Definition fresh_obj_uninit (k : Z) : obj := {| o_key := k; o_expired := false; o_wlock := None; o_init := false |}.

Definition bump (e : Z -> nat) (i : Z) : Z -> nat := updz e i (S (e i)).

(* where SQLObject.expire returns to *)
Definition expire_return (s : state) (t : nat) (th : thread) : option state :=
  if t_mex th then goto s t (set_self th None) Z682 else Some (put_thr s t (finish th RNone)).
(* where CacheSet.weakrefAll returns to *)
Definition xall_return (s : state) (t : nat) (th : thread) : option state :=
  if t_mex th then goto s t th Z682 else Some (put_thr s t (finish th RNone)).
(* the for loop of sqlmeta.expireAll takes its next item *)
Definition mex_next (s : state) (t : nat) (th : thread) : option state :=
  match t_items th with
  | [] => Some (put_thr s t (finish th RNone))
  | x :: r => goto s t (set_self (set_items th r) (Some x)) Z683
  end.

Definition self_of (th : thread) : nat := match t_self th with Some o => o | None => 0 end.

(* next(iterator) over a dict of the given length and version: Some (inl pos) = yields the item
   at pos, Some (inr false) = exhausted, Some (inr true) = RuntimeError (size changed),
   None = modified without a change of size: CPython's behaviour is not modelled *)
Definition iter_next (it : option (nat * nat * nat)) (len ver : nat) : option (nat + bool) :=
  match it with
  | None => if Nat.ltb 0 len then Some (inl 0) else Some (inr false)
  | Some (pos, size, v) =>
      if negb (Nat.eqb len size) then Some (inr true)
      else if negb (Nat.eqb ver v) then None
      else if Nat.ltb pos len then Some (inl pos) else Some (inr false)
  end.
Definition iter_adv (it : option (nat * nat * nat)) (len ver : nat) : option (nat * nat * nat) :=
  match it with
  | None => Some (1, len, ver)
  | Some (pos, size, v) => Some (S pos, size, v)
  end.

Definition drop_slot (l : list res) (k : nat) : list res := firstn k l ++ [RDropped] ++ skipn (S k) l.

Definition start_op (s : state) (t : nat) (th : thread) (o : op) : option state :=
  match o with
  | Get i => goto s t (set_id th i) SG301
  | Create => goto s t th C1397
  | Expire t' k =>
      match nth k (t_slots (s_thr s t')) RNone with
      | RObj o _ _ => goto s t (set_self th (Some o)) X1072
      | _ => Some (put_thr s t (finish th RNone))
      end
  | XAll => goto s t th SW364
  | MExAll => goto s t th Z681
  | Drop t' k =>
      let th' := s_thr s t' in
      match nth k (t_slots th') RNone with
      | RObj _ _ _ =>
          if Nat.eqb t' t then Some (put_thr s t (finish (set_slots th (drop_slot (t_slots th) k)) RNone))
          else Some (put_thr (put_thr s t' (set_slots th' (drop_slot (t_slots th') k))) t (finish th RNone))
      | _ => Some (put_thr s t (finish th RNone))
      end
  end.

Definition step (s : state) (t : nat) : option state :=
  if negb (Nat.ltb t (s_n s)) then None else
  let th := s_thr s t in
  let i := t_id th in
  match t_pc th with
  | Idle => match t_prog th with [] => None | o :: _ => start_op s t th o end
  (* ---- CacheSet.get *)
  | SG301 => goto s t th SG302
  | SG302 => goto s t th (if s_present s then SG308 else SG303)
  | SG303 => goto s t th SG306
  | SG306 => goto (with_present s true) t th SG308
  | SG308 => goto s t th F93
  (* ---- CacheFactory.get *)
  | F93 => goto s t th (if s_docache s then F94 else F129)
  | F94 => goto s t th (if Z.ltb (s_freq s) (s_cc s) then F99 else F102)
  | F99 => goto (with_cc s 0%Z) t th F100
  | F100 => goto s t (set_cret th RetGet) U192
  | F102 => goto (with_cc s (s_cc s + 1)%Z) t th F104
  | F104 => goto s t th F105
  | F105 => match dget (s_strong s) i with
            | Some o => Some (put_thr s t (finish th (RObj o i (s_epoch s i))))
            | None => goto s t th F106
            end
  | F106 => goto s t th F107
  | F107 => goto s t th F108
  | F108 => acquire s t th F109
  | F109 => goto s t th F110
  | F110 => match dget (s_strong s) i with
            | Some o => goto s t (set_val th (Some o) (s_epoch s i)) F114
            | None => goto s t th F111
            end
  | F111 => goto s t th F112
  | F112 => goto s t th F116
  | F114 => release s t th (set_pc th F115)
  | F115 => Some (put_thr s t (finish th (match t_val th with Some o => RObj o i (t_ep th) | None => RNone end)))
  | F116 => goto s t th F117
  | F117 => match dget (s_weak s) i with
            | Some o => goto s t (set_val th (deref s o) (s_epoch s i)) F121
            | None => goto s t th F118
            end
  | F118 => goto s t th F119
  | F119 => goto s t th M951
  | F121 => goto (with_weak s (ddel (s_weak s) i)) t th F122
  | F122 => goto s t th (match t_val th with None => F123 | Some _ => F124 end)
  | F123 => goto s t th M951
  | F124 => match t_val th with
            | Some o => goto (with_strong s (dset (s_strong s) i o)) t th F125
            | None => crash s t th KeyErr
            end
  | F125 => release s t th (set_pc th F126)
  | F126 => Some (put_thr s t (finish th (match t_val th with Some o => RObj o i (t_ep th) | None => RNone end)))
  (* ---- CacheFactory.get, cache=False: only the weak dict, looked at without the lock first *)
  | F129 => goto s t th F130
  | F130 => match dget (s_weak s) i with
            | Some o => goto s t (set_val th (deref s o) (s_epoch s i)) F131
            | None => goto s t th F133
            end
  | F131 => goto s t th (match t_val th with Some _ => F132 | None => F135 end)
  | F132 => Some (put_thr s t (finish th (match t_val th with Some o => RObj o i (t_ep th) | None => RNone end)))
  | F133 => goto s t th F134
  | F134 => goto s t th F135
  | F135 => acquire s t th F136
  | F136 => goto s t th F137
  | F137 => match dget (s_weak s) i with
            | Some o => goto s t (set_val th (deref s o) (s_epoch s i)) F141
            | None => goto s t th F138
            end
  | F138 => goto s t th F139
  | F139 => goto s t th M951
  | F141 => goto s t th (match t_val th with None => F142 | Some _ => F144 end)
  | F142 => match dget (s_weak s) i with
            | Some _ => goto (with_weak s (ddel (s_weak s) i)) t th F143
            | None => crash s t th KeyErr
            end
  | F143 => goto s t th M951
  | F144 => release s t th (set_pc th F145)
  | F145 => Some (put_thr s t (finish th (match t_val th with Some o => RObj o i (t_ep th) | None => RNone end)))
  (* ---- SQLObject.get after a miss: construct + _init (SELECT), put, finishPut *)
  | M951 => if existsb (Z.eqb i) (s_rows s)
            then let n := s_nextobj s in
                 goto (with_heap s (upd (s_heap s) n (fresh_obj i)) (S n)) t (set_val th (Some n) (t_ep th)) M954
            else goto s t (set_exc (set_val th None (t_ep th)) (Some NotFound)) M956
  | M954 => goto s t th SP311
  | SP311 => goto s t th P152
  | P152 => goto s t th (if s_docache s then P153 else P155)
  | P153 => match t_val th with
            | Some o => goto (with_strong s (dset (s_strong s) i o)) t (set_val th (Some o) (s_epoch s i)) M956
            | None => crash s t th KeyErr
            end
  | P155 => match t_val th with
            | Some o => goto (with_weak s (dset (s_weak s) i o)) t (set_val th (Some o) (s_epoch s i)) M956
            | None => crash s t th KeyErr
            end
  | M956 => goto s t th SQ314
  | SQ314 => goto s t th Q162
  | Q162 => release s t th
              (finish th (match t_exc th with
                          | Some x => RExc x
                          | None => match t_val th with Some o => RObj o i (t_ep th) | None => RNone end
                          end))
  (* ---- create: INSERT, cache.created *)
  | C1397 => let k := s_nextid s in
             let n := s_nextobj s in
             (* the instance exists since the operation began; it gets its id here and nothing can see it before *)
             goto (with_heap (with_rows s (s_rows s ++ [k]) (k + 1)%Z) (upd (s_heap s) n (fresh_obj_uninit k)) (S n))
                  t (set_self (set_id th k) (Some n)) C1400
  | C1400 => goto s t th SK317
  | SK317 => goto s t th SK318
  | SK318 => goto s t th (if s_present s then SK322 else SK319)
  | SK319 => goto s t th SK320
  | SK320 => goto (with_present s true) t th SK322
  | SK322 => goto s t th K171
  | K171 => goto s t th (if s_docache s then K172 else K183a)
  | K172 => goto s t th (if Z.ltb (s_freq s) (s_cc s) then K177 else K180)
  | K177 => goto (with_cc s 0%Z) t th K178
  | K178 => goto s t (set_cret th RetCreated) U192
  | K180 => goto (with_cc s (s_cc s + 1)%Z) t th K181a
  | K181a => acquire s t th K181t
  | K181t => goto s t th K181
  | K181 => goto (with_strong s (dset (s_strong s) i (self_of th))) t
                  (set_val th (Some (self_of th)) (s_epoch s i)) K181r
  | K181r => (* release; created() returns and _SO_finishCreate runs self._init(id): only now the instance is complete *)
             release (with_heap s (set_obj_init (s_heap s) (self_of th)) (s_nextobj s)) t th
               (finish th (match t_val th with Some o => RObj o i (t_ep th) | None => RNone end))
  (* created, cache=False: the weak dict, under the lock since 2cc82cd *)
  | K183a => acquire s t th K183t
  | K183t => goto s t th K183
  | K183 => goto (with_weak s (dset (s_weak s) i (self_of th))) t
                  (set_val th (Some (self_of th)) (s_epoch s i)) K183r
  | K183r => release (with_heap s (set_obj_init (s_heap s) (self_of th)) (s_nextobj s)) t th
               (finish th (match t_val th with Some o => RObj o i (t_ep th) | None => RNone end))
  (* ---- cull *)
  | U192 => acquire s t th U193
  | U193 => goto s t th U195
  | U195 => goto s t (set_keys th (dkeys (s_weak s))) U196
  | U196 => match t_keys th with
            | [] => goto s t th U200
            | k :: r => goto s t (set_key (set_keys th r) k) U197
            end
  | U197 => match dget (s_weak s) (t_key th) with
            | Some o => goto s t th (if aliveb s o then U196 else U198)
            | None => crash s t th KeyErr
            end
  | U198 => goto (with_weak s (ddel (s_weak s) (t_key th))) t th U196
  | U200 => goto s t (set_keys th (select_from (dkeys (s_strong s)) (s_co s) (s_frac s))) U201
  | U201 => match t_keys th with
            | [] => goto s t th U214
            | k :: r => goto s t (set_key (set_keys th r) k) U202
            end
  | U202 => goto s t th U204
  | U204 => match dget (s_strong s) (t_key th) with
            | Some o => goto s t (set_cobj th (Some o)) U205
            | None => crash s t th KeyErr
            end
  | U205 => goto (with_strong s (ddel (s_strong s) (t_key th))) t th U209
  | U209 => match t_cobj th with
            | Some o => goto s t th (if aliveb s o then U210 else U201)
            | None => crash s t th KeyErr
            end
  | U210 => match t_cobj th with
            | Some o => goto (with_weak s (dset (s_weak s) (t_key th) o)) t th U201
            | None => crash s t th KeyErr
            end
  | U214 => goto (with_co s (Nat.modulo (S (s_co s)) (s_frac s))) t th U216
  | U216 => release s t th (set_pc (set_cobj th None) (match t_cret th with RetGet => F104 | RetCreated => K181a end))
  (* ---- expire (since ad272ca: the flag is tested under the write lock; an instance that is expired already
     does not purge the entry of its id again) *)
  | X1072 => if negb (o_init (s_heap s (self_of th))) then unmodelled s t th else
             (* (expire() of an instance whose constructor has not returned yet in another thread: `self.id` is not
                set and `_init` will replace the write lock; finding created_publishes_uninitialised_instance) *)
             match o_wlock (s_heap s (self_of th)) with
             | None => goto (with_heap s (set_obj_wlock (s_heap s) (self_of th) (Some t)) (s_nextobj s)) t th X1074
             | Some _ => None                         (* blocked on the instance's write lock *)
             end
  | X1074 => goto s t th (if o_expired (s_heap s (self_of th)) then X1083 else X1078)
  | X1078 => goto (with_heap s (set_obj_expired (s_heap s) (self_of th) true) (s_nextobj s)) t th X1079
  | X1079 => goto s t (set_key th (o_key (s_heap s (self_of th)))) SE325
  | SE325 => goto s t th SE326
  | SE326 => goto s t th (if s_present s then E232 else SE327)
  | SE327 => goto s t th SE328
  | SE328 => goto s t th X1083
  | E232 => goto s t th (if s_docache s then E234 else E233)
  | E233 => goto s t th X1083
  | E234 => acquire s t th E235
  | E235 => goto s t th E236
  | E236 => goto s t th (if dmem (s_strong s) (t_key th) then E237 else E238)
  | E237 => goto (with_epoch (with_strong s (ddel (s_strong s) (t_key th))) (bump (s_epoch s) (t_key th))) t th E238
  | E238 => goto s t th (if dmem (s_weak s) (t_key th) then E239 else E241)
  | E239 => goto (with_epoch (with_weak s (ddel (s_weak s) (t_key th))) (bump (s_epoch s) (t_key th))) t th E241
  | E241 => release s t th (set_pc th X1083)
  | X1083 => match o_wlock (s_heap s (self_of th)) with
             | Some _ => expire_return (with_heap s (set_obj_wlock (s_heap s) (self_of th) None) (s_nextobj s)) t th
             | None => crash s t th RuntimeErr
             end
  (* ---- CacheSet.weakrefAll(cls) / CacheFactory.expireAll *)
  | SW364 => goto s t th SW367
  | SW367 => if s_present s then goto s t th SW368 else xall_return s t th
  | SW368 => goto s t th A248
  | A248 => goto s t th (if s_docache s then A250 else A249)
  | A249 => xall_return s t th
  | A250 => acquire s t th A251
  | A251 => goto s t (set_iter th None) A252
  | A252 => match iter_next (t_iter th) (length (s_strong s)) (s_sver s) with
            | Some (inl pos) =>
                match nth_error (s_strong s) pos with
                | Some (k, o) =>
                    goto s t (set_iter (set_key (set_val th (Some o) (t_ep th)) k)
                                       (iter_adv (t_iter th) (length (s_strong s)) (s_sver s))) A253
                | None => crash s t th KeyErr
                end
            | Some (inr false) => goto s t (set_iter th None) A254
            | Some (inr true) => goto s t (set_exc (set_iter th None) (Some RuntimeErr)) A256
            | None => unmodelled s t th
            end
  | A253 => match t_val th with
            | Some o => goto (with_weak s (dset (s_weak s) (t_key th) o)) t th A252
            | None => crash s t th KeyErr
            end
  | A254 => goto (with_strong s []) t th A256
  | A256 => match t_exc th with
            | Some x => release s t th (finish th (RExc x))
            | None => if t_mex th then release s t th (set_pc (set_val th None 0) Z682)
                      else release s t th (finish th RNone)
            end
  (* ---- sqlmeta.expireAll *)
  | Z681 => goto s t (set_mex th true false) SW364
  | Z682 => if t_mexl th then mex_next s t th else goto s t th SL375
  | Z683 => goto s t th X1072
  | SL375 => goto s t th SL380
  | SL380 => goto s t th (if s_present s then SL381 else SL383)
  | SL381 => goto s t th L272
  | SL383 => Some (put_thr s t (finish th RNone))
  | L272 => acquire s t th L273
  | L273 => goto s t th L275
  | L275 => goto s t th (if s_docache s then L276 else L278)
  | L276 => goto s t (set_iter (set_all th (dvals (s_strong s))) None) L279
  | L278 => goto s t (set_iter (set_all th []) None) L279
  | L279 => match iter_next (t_iter th) (length (s_weak s)) (s_wver s) with
            | Some (inl pos) =>
                match nth_error (s_weak s) pos with
                | Some (_, o) =>
                    goto s t (set_iter (set_cobj th (Some o)) (iter_adv (t_iter th) (length (s_weak s)) (s_wver s))) L280
                | None => crash s t th KeyErr
                end
            | Some (inr false) => goto s t (set_iter th None) L283
            | Some (inr true) => goto s t (set_exc (set_iter th None) (Some RuntimeErr)) L283
            | None => unmodelled s t th
            end
  | L280 => match t_cobj th with
            | Some o => goto s t (set_val th (deref s o) (t_ep th)) L280n
            | None => crash s t th KeyErr
            end
  | L280n => goto s t th (match t_val th with Some _ => L281 | None => L279 end)
  | L281 => match t_val th with
            | Some o => goto s t (set_all th (t_all th ++ [o])) L279
            | None => crash s t th KeyErr
            end
  | L283 => match t_exc th with
            | Some x => release s t th (finish th (RExc x))
            | None => release s t th (set_pc th L282)
            end
  | L282 => mex_next s t (set_val (set_cobj (set_items (set_mex th true true) (t_all th)) None) None 0)
  end.

(* ------------------------------------------------------------------ initial state, runs *)
Definition max_row (rows : list Z) : Z := fold_right Z.max 0%Z rows.

Definition initc (dc : bool) (freq : Z) (frac : nat) (rows : list Z) (progs : list (list op)) : state :=
  {| s_docache := dc; s_freq := freq; s_frac := frac; s_present := false; s_strong := []; s_weak := []; s_sver := 0; s_wver := 0;
     s_cc := 0%Z; s_co := 0; s_lock := None; s_rows := rows; s_nextid := (max_row rows + 1)%Z;
     s_heap := fun _ => fresh_obj 0; s_nextobj := 0; s_epoch := fun _ => 0;
     s_thr := fun t => new_thread (nth t progs []); s_n := length progs; s_unmod := false |}.

(* the configuration the first version of the model had: cache=True *)
Definition init (freq : Z) (frac : nat) (rows : list Z) (progs : list (list op)) : state :=
  initc true freq frac rows progs.

Fixpoint run (s : state) (sched : list nat) : option state :=
  match sched with
  | [] => Some s
  | t :: r => match step s t with Some s' => run s' r | None => None end
  end.

Definition finished (th : thread) : bool :=
  match t_pc th, t_prog th with Idle, [] => true | _, _ => false end.
Definition enabled (s : state) (t : nat) : bool :=
  match step s t with Some _ => true | None => false end.
