(* C15 -- model of sqlobject/inheritance over a fixed hierarchy

      HA(x) <- HB(y) <- HC(z)        HA <- HB2(w)

   (every class an InheritableSQLObject with one own Int column; x is an
   alternateID, hence NOT NULL UNIQUE; y, z, w are UNIQUE and nullable; y has
   no default) plus a plain class HR holding a cascade=False ForeignKey to HB.

   One table per class: (id, own column, child_name).  Definitions only. *)
From Coq Require Import List ZArith Bool.
Import ListNotations.
Open Scope Z_scope.

(* ------------------------------------------------------------------ classes *)
Inductive cls := KA | KB | KC | KB2.

Definition cls_eqb (a b : cls) : bool :=
  match a, b with
  | KA, KA | KB, KB | KC, KC | KB2, KB2 => true
  | _, _ => false
  end.

Definition parent (k : cls) : option cls :=
  match k with KA => None | KB => Some KA | KC => Some KB | KB2 => Some KA end.

(* the class and its ancestors, root first *)
Definition chain (k : cls) : list cls :=
  match k with KA => [KA] | KB => [KA; KB] | KC => [KA; KB; KC] | KB2 => [KA; KB2] end.

Definition memc (k : cls) (l : list cls) : bool := existsb (cls_eqb k) l.
Definition level (k : cls) : nat := length (chain k).
Definition is_child_of (p c : cls) : bool :=
  match parent c with Some q => cls_eqb q p | None => false end.

(* the child_name a row of table l carries when it belongs to an object of class k *)
Definition tagof (k l : cls) : option cls :=
  match k, l with
  | KB, KA => Some KB
  | KC, KA => Some KB
  | KC, KB => Some KC
  | KB2, KA => Some KB2
  | _, _ => None
  end.

(* ------------------------------------------------------------------ tables *)
Record row := mkrow { rid : Z; rv : option Z; rtag : option cls }.

Record st := mkst {
  tA : list row; tB : list row; tC : list row; tB2 : list row;
  seq : Z;                    (* sqlite_sequence of the root table (AUTOINCREMENT) *)
  refs : list Z;              (* HR rows: the HB ids they reference (cascade=False) *)
  born : list (Z * cls)       (* ghost: what each live id was created as *)
}.

Definition init : st := mkst [] [] [] [] 0 [] [].

Definition tab (s : st) (k : cls) : list row :=
  match k with KA => tA s | KB => tB s | KC => tC s | KB2 => tB2 s end.

Definition set_tab (s : st) (k : cls) (t : list row) : st :=
  match k with
  | KA => mkst t (tB s) (tC s) (tB2 s) (seq s) (refs s) (born s)
  | KB => mkst (tA s) t (tC s) (tB2 s) (seq s) (refs s) (born s)
  | KC => mkst (tA s) (tB s) t (tB2 s) (seq s) (refs s) (born s)
  | KB2 => mkst (tA s) (tB s) (tC s) t (seq s) (refs s) (born s)
  end.
Definition set_seq (s : st) (z : Z) : st := mkst (tA s) (tB s) (tC s) (tB2 s) z (refs s) (born s).
Definition set_refs (s : st) (r : list Z) : st := mkst (tA s) (tB s) (tC s) (tB2 s) (seq s) r (born s).
Definition set_born (s : st) (b : list (Z * cls)) : st := mkst (tA s) (tB s) (tC s) (tB2 s) (seq s) (refs s) b.

Inductive exn := ENotFound | EDup | EIntegrity | EInvalid | EType | ERestrict | EKey | EAttr | EOther.

Fixpoint find (id : Z) (t : list row) : option row :=
  match t with
  | [] => None
  | r :: t' => if rid r =? id then Some r else find id t'
  end.
Definition del (id : Z) (t : list row) : list row := filter (fun r => negb (rid r =? id)) t.
Definition setv (id : Z) (v : option Z) (t : list row) : list row :=
  map (fun r => if rid r =? id then mkrow (rid r) v (rtag r) else r) t.
Definition has (id : Z) (t : list row) : bool := match find id t with Some _ => true | None => false end.
Definition isnone {X} (o : option X) : bool := match o with None => true | Some _ => false end.

(* UNIQUE: some row other than `but` already holds the non-NULL value *)
Definition taken (v : option Z) (but : option Z) (t : list row) : bool :=
  match v with
  | None => false
  | Some z => existsb (fun r => match rv r with
                                | Some z' => (z' =? z) && negb (match but with Some i => rid r =? i | None => false end)
                                | None => false
                                end) t
  end.
Definition notnull (k : cls) : bool := cls_eqb k KA.

Definition sql_insert (k : cls) (id : Z) (v : option Z) (tag : option cls) (s : st) : exn + st :=
  if notnull k && isnone v then inl EIntegrity
  else if taken v None (tab s k) || has id (tab s k) then inl EDup
  else inr (set_tab s k (tab s k ++ [mkrow id v tag])).

(* UPDATE k SET col = v WHERE id = .. : no row, no effect, no error *)
Definition sql_update (k : cls) (id : Z) (v : option Z) (s : st) : exn + st :=
  if has id (tab s k) then
    if notnull k && isnone v then inl EIntegrity
    else if taken v (Some id) (tab s k) then inl EDup
    else inr (set_tab s k (setv id v (tab s k)))
  else inr s.

(* ------------------------------------------------------------------ values handed to the ORM *)
Inductive inval := Omit | Null | Int (z : Z) | Bad.        (* Bad: not an integer (validator raises Invalid) *)
Definition is_omit (v : inval) : bool := match v with Omit => true | _ => false end.
Definition validate (v : inval) : exn + option Z :=
  match v with Omit => inr None | Null => inr None | Int z => inr (Some z) | Bad => inl EInvalid end.

Record cargs := mkargs { ax : inval; ay : inval; az : inval; aw : inval }.
Definition arg_of (a : cargs) (k : cls) : inval :=
  match k with KA => ax a | KB => ay a | KC => az a | KB2 => aw a end.
Definition required (k : cls) : bool := cls_eqb k KB.       (* y = IntCol(unique=True): no default *)

(* ------------------------------------------------------------------ destroySelf *)
(* SQLObject.destroySelf of the instance of class k: the restrict test over
   the classes that reference k (only HR -> HB here), then the DELETE.
   InheritableSQLObject.destroySelf runs it for the ancestors first. *)
Definition restricted (k : cls) (id : Z) (s : st) : bool := cls_eqb k KB && existsb (Z.eqb id) (refs s).

Fixpoint destroy_chain (ls : list cls) (id : Z) (s : st) : st * option exn :=
  match ls with
  | [] => (s, None)
  | k :: r => if restricted k id s then (s, Some ERestrict)
              else destroy_chain r id (set_tab s k (del id (tab s k)))
  end.

(* ------------------------------------------------------------------ _create *)
(* SQLObject._create + _SO_finishCreate for the class k alone: defaults,
   unknown keywords, validation of the own column, INSERT.  `idopt` is the id
   handed down by InheritableSQLObject._create (the parent's id). *)
Definition own_create (k : cls) (idopt : option Z) (tag : option cls) (a : cargs) (unk : bool) (s : st) : exn + (st * Z) :=
  if required k && is_omit (arg_of a k) then inl EType
  else if unk then inl EType          (* refused before the own values are validated (main.py set, creating branch) *)
  else match validate (arg_of a k) with
       | inl e => inl e
       | inr v =>
           let id := match idopt with Some i => i | None => seq s + 1 end in
           match sql_insert k id v tag s with
           | inl e => inl e
           | inr s' => inr (match idopt with Some _ => s' | None => set_seq s' id end, id)
           end
       end.

(* InheritableSQLObject._create; ls = the class, then its ancestors.  `tag`
   is the childName handed up by the subclass being created.  `auto` = the
   connection is not a Transaction and autoCommit is on. *)
Fixpoint creat (auto : bool) (ls : list cls) (tag : option cls) (a : cargs) (unk : bool) (s : st) : st * (exn + Z) :=
  match ls with
  | [] => (s, inl EOther)
  | k :: ps =>
      match ps with
      | [] => match own_create k None tag a unk s with
              | inl e => (s, inl e)
              | inr (s', id) => (s', inr id)
              end
      | _ :: _ =>
          if required k && is_omit (arg_of a k) then (s, inl EType)
          else match creat auto ps (Some k) a false s with
               | (s1, inl e) => (s1, inl e)
               | (s1, inr id) =>
                   match own_create k (Some id) tag a unk s1 with
                   | inr (s2, id') => (s2, inr id')
                   | inl e =>
                       if auto then
                         match destroy_chain (rev ps) id s1 with
                         | (s3, None) => (s3, inl e)
                         | (s3, Some e') => (s3, inl e')      (* the clean-up itself raised *)
                         end
                       else (s1, inl e)
                   end
               end
      end
  end.

(* ------------------------------------------------------------------ get *)
Record obj := mkobj { oid : Z; ocls : cls; ovals : list (option Z) }.   (* values along chain ocls, root first *)

(* follow the childName tags downwards *)
Fixpoint descend (fuel : nat) (k : cls) (id : Z) (s : st) : exn + cls :=
  match fuel with
  | O => inl EOther
  | S f =>
      match find id (tab s k) with
      | None => inl ENotFound
      | Some r => match rtag r with
                  | None => inr k
                  | Some c => if is_child_of k c then descend f c id s else inl EKey
                  end
      end
  end.

Definition val_of (s : st) (k : cls) (id : Z) : option Z :=
  match find id (tab s k) with Some r => rv r | None => None end.

(* cls.get(id): down-cast, then the _parent chain up to the root *)
Definition get_obj (s : st) (e : cls) (id : Z) : exn + obj :=
  match descend 4 e id s with
  | inl x => inl x
  | inr k => if forallb (fun l => has id (tab s l)) (chain k)
             then inr (mkobj id k (map (fun l => val_of s l id) (chain k)))
             else inl ENotFound
  end.

(* ------------------------------------------------------------------ filters and the SQL they become *)
Inductive cmp := Ceq | Cne | Clt | Cle | Cgt | Cge.
Inductive filt :=
| FTrue
| FCmp (c : cls) (o : cmp) (v : option Z)       (* K.q.<col of c> o v ; v = None: IS [NOT] NULL *)
| FId (o : cmp) (v : Z)                          (* K.q.id o v *)
| FAnd (a b : filt) | FOr (a b : filt) | FNot (a : filt).

Inductive sqlx :=
| XTrue
| XCmp (t : cls) (o : cmp) (v : option Z)
| XId (t : cls) (o : cmp) (v : Z)
| XTag (t : cls) (k : cls)                       (* t.child_name = 'k' *)
| XJoin (a b : cls)                              (* a.id = b.id *)
| XAnd (a b : sqlx) | XOr (a b : sqlx) | XNot (a : sqlx).

(* K.q.id is rewritten to the parent's id by _patch_id_clause, which walks
   SQLOp nodes only: not below a NOT *)
Fixpoint to_sql (k : cls) (patch : bool) (f : filt) : sqlx :=
  match f with
  | FTrue => XTrue
  | FCmp c o v => XCmp c o v
  | FId o v => XId (if patch then match parent k with Some p => p | None => k end else k) o v
  | FAnd a b => XAnd (to_sql k patch a) (to_sql k patch b)
  | FOr a b => XOr (to_sql k patch a) (to_sql k patch b)
  | FNot a => XNot (to_sql k false a)
  end.

Definition select_clause (k : cls) (f : filt) : sqlx :=
  match parent k with
  | None => to_sql k false f
  | Some p => match f with
              | FTrue => XTag p k
              | _ => XAnd (to_sql k true f) (XTag p k)
              end
  end.

Fixpoint xtables (x : sqlx) : list cls :=
  match x with
  | XTrue => []
  | XCmp t _ _ | XId t _ _ | XTag t _ => [t]
  | XJoin a b => [a; b]
  | XAnd a b | XOr a b => xtables a ++ xtables b
  | XNot a => xtables a
  end.

Definition deepest (ls : list cls) : cls :=
  fold_left (fun acc k => if Nat.ltb (level acc) (level k) then k else acc) ls KA.
Definition shallowest (ls : list cls) (dflt : cls) : cls :=
  fold_left (fun acc k => if Nat.ltb (level k) (level acc) then k else acc) ls dflt.
(* the classes of chain hi from lo downwards *)
Definition seg (lo hi : cls) : list cls := skipn (level lo - 1) (chain hi).

Fixpoint joins (ls : list cls) : list sqlx :=
  match ls with
  | a :: ((b :: _) as r) => joins r ++ [XJoin b a]
  | _ => []
  end.

(* InheritableSelectResults.__init__: the tables of the clause plus the
   source class, completed to a chain, one id-join per link *)
Definition from_tables (src : cls) (x : sqlx) : list cls :=
  let used := xtables x ++ [src] in seg (shallowest used src) (deepest used).
Definition full_clause (src : cls) (x : sqlx) : sqlx :=
  fold_left XAnd (joins (from_tables src x)) x.

(* SQL evaluation: the cartesian product of the FROM tables, filtered by WHERE under three-valued logic *)
Definition env := list (cls * row).
Fixpoint lookup (e : env) (k : cls) : option row :=
  match e with
  | [] => None
  | (c, r) :: e' => if cls_eqb c k then Some r else lookup e' k
  end.

Definition cmp3 (o : cmp) (a b : option Z) : option bool :=
  match b with
  | None => match o with Ceq => Some (isnone a) | Cne => Some (negb (isnone a)) | _ => None end
  | Some y => match a with
              | None => None
              | Some x => Some (match o with
                                | Ceq => x =? y | Cne => negb (x =? y) | Clt => x <? y
                                | Cle => x <=? y | Cgt => y <? x | Cge => y <=? x
                                end)
              end
  end.

Definition and3 (a b : option bool) : option bool :=
  match a, b with
  | Some false, _ | _, Some false => Some false
  | Some true, Some true => Some true
  | _, _ => None
  end.
Definition or3 (a b : option bool) : option bool :=
  match a, b with
  | Some true, _ | _, Some true => Some true
  | Some false, Some false => Some false
  | _, _ => None
  end.
Definition not3 (a : option bool) : option bool := option_map negb a.

Fixpoint ev (x : sqlx) (e : env) : option bool :=
  match x with
  | XTrue => Some true
  | XCmp t o v => match lookup e t with Some r => cmp3 o (rv r) v | None => None end
  | XId t o v => match lookup e t with Some r => cmp3 o (Some (rid r)) (Some v) | None => None end
  | XTag t k => match lookup e t with
                | Some r => match rtag r with Some c => Some (cls_eqb c k) | None => None end
                | None => None
                end
  | XJoin a b => match lookup e a, lookup e b with
                 | Some ra, Some rb => Some (rid ra =? rid rb)
                 | _, _ => None
                 end
  | XAnd a b => and3 (ev a e) (ev b e)
  | XOr a b => or3 (ev a e) (ev b e)
  | XNot a => not3 (ev a e)
  end.

Definition holds (x : sqlx) (e : env) : bool := match ev x e with Some true => true | _ => false end.

Fixpoint product (s : st) (ts : list cls) : list env :=
  match ts with
  | [] => [[]]
  | k :: r => flat_map (fun x => map (cons (k, x)) (product s r)) (tab s k)
  end.

(* SELECT src.id FROM tables WHERE clause *)
Definition sql_select (s : st) (src : cls) (x : sqlx) : list Z :=
  flat_map (fun e => match lookup e src with Some r => [rid r] | None => [] end)
           (filter (holds (full_clause src x)) (product s (from_tables src x))).

Fixpoint get_all (s : st) (e : cls) (ids : list Z) : exn + list obj :=
  match ids with
  | [] => inr []
  | i :: r => match get_obj s e i with
              | inl x => inl x
              | inr o => match get_all s e r with inl x => inl x | inr os => inr (o :: os) end
              end
  end.

(* ------------------------------------------------------------------ operations *)
Inductive op :=
| Create (k : cls) (a : cargs) (unk : bool)
| CreateId (k : cls) (a : cargs) (unk : bool) (i : Z)      (* K(id=i, ...) *)
| Get (e : cls) (id : Z)
| SetAttr (e : cls) (id : Z) (col : cls) (v : inval)
| SetMany (e : cls) (id : Z) (kvs : list (cls * inval))
| Select (k : cls) (f : filt)
| SelectBy (k : cls) (col : option cls) (v : option Z)
| ByX (k : cls) (v : Z)
| Destroy (e : cls) (id : Z)
| Ref (id : Z)
| Unref (id : Z).

Inductive res :=
| ROk | RSkip
| RErr (e : exn)
| RObj (o : obj)
| RSeen (l : list obj)                               (* after a write: what get through every entry class shows *)
| RObjs (l : list obj) (n : Z) (from : list cls).    (* objects, COUNT, FROM list *)

(* attribute assignment through an instance of class k (delegated to the ancestor's instance) *)
Definition write1 (s : st) (id : Z) (col : cls) (v : inval) : exn + st :=
  match validate v with
  | inl e => inl e
  | inr ov => sql_update col id ov s
  end.

Fixpoint get_entries (s : st) (es : list cls) (id : Z) : exn + list obj :=
  match es with
  | [] => inr []
  | e :: r => match get_obj s e id with
              | inl x => inl x
              | inr o => match get_entries s r id with inl x => inl x | inr os => inr (o :: os) end
              end
  end.

Definition seen (s : st) (k : cls) (id : Z) : res :=
  match get_entries s (chain k) id with
  | inl e => RErr e
  | inr l => RSeen l
  end.

(* SQLObject.set with keywords kvs on an instance of class k: the own columns are
   validated first; then every other keyword is assigned one by one through the
   property (a column of an ancestor: its own UPDATE; anything else: TypeError);
   then the own columns are written *)
Fixpoint validate_all (kvs : list (cls * inval)) : option exn :=
  match kvs with
  | [] => None
  | (_, v) :: r => match validate v with inl e => Some e | inr _ => validate_all r end
  end.

Fixpoint write_all (s : st) (k : cls) (id : Z) (kvs : list (cls * inval)) : st * option exn :=
  match kvs with
  | [] => (s, None)
  | (c, v) :: r =>
      if memc c (chain k) then
        match write1 s id c v with
        | inl e => (s, Some e)
        | inr s' => write_all s' k id r
        end
      else (s, Some EType)
  end.

Definition set_many (s : st) (k : cls) (id : Z) (kvs : list (cls * inval)) : st * option exn :=
  let own := filter (fun kv => cls_eqb (fst kv) k) kvs in
  let extra := filter (fun kv => negb (cls_eqb (fst kv) k)) kvs in
  match validate_all own with
  | Some e => (s, Some e)
  | None => match write_all s k id extra with
            | (s1, Some e) => (s1, Some e)
            | (s1, None) => write_all s1 k id own
            end
  end.

Definition run_select (s : st) (src : cls) (x : sqlx) : res :=
  let ids := sql_select s src x in
  match get_all s src ids with
  | inl e => RErr e
  | inr os => RObjs os (Z.of_nat (length ids)) (from_tables src x)
  end.

Definition by_clause (col : option cls) (v : option Z) : sqlx :=
  match col with None => XTrue | Some c => XCmp c Ceq v end.

Definition do_create (auto : bool) (s : st) (k : cls) (a : cargs) (unk : bool) : st * res :=
  match creat auto (rev (chain k)) None a unk s with
  | (s', inl e) => (s', RErr e)
  | (s', inr id) =>
      let s'' := set_born s' (born s' ++ [(id, k)]) in
      (s'', match get_obj s'' k id with inl e => RErr e | inr ob => RObj ob end)
  end.

(* the root class with an explicit id: same checks as own_create, the row gets
   the id given (0 and negative ids are fine for sqlite), a primary-key
   collision is a DuplicateEntryError, the AUTOINCREMENT counter only grows *)
Definition root_create_id (a : cargs) (unk : bool) (i : Z) (s : st) : exn + st :=
  if unk then inl EType
  else match validate (arg_of a KA) with
       | inl e => inl e
       | inr v => match sql_insert KA i v None s with
                  | inl e => inl e
                  | inr s' => inr (set_seq s' (Z.max (seq s) i))
                  end
       end.

Definition step (auto : bool) (s : st) (o : op) : st * res :=
  match o with
  | Create k a unk => do_create auto s k a unk
  | CreateId k a unk i =>
      match parent k with
      | Some _ => do_create auto s k a unk      (* InheritableSQLObject._create: id = self._parent.id, the id given is dropped *)
      | None =>
          match root_create_id a unk i s with
          | inl e => (s, RErr e)
          | inr s' =>
              let s'' := set_born s' (born s' ++ [(i, k)]) in
              (s'', match get_obj s'' k i with inl e => RErr e | inr ob => RObj ob end)
          end
      end
  | Get e id => (s, match get_obj s e id with inl x => RErr x | inr ob => RObj ob end)
  | SetAttr e id col v =>
      match get_obj s e id with
      | inl x => (s, RErr x)
      | inr ob =>
          if memc col (chain (ocls ob)) then
            match write1 s id col v with
            | inl x => (s, RErr x)
            | inr s' => (s', seen s' (ocls ob) id)
            end
          else (s, RSkip)
      end
  | SetMany e id kvs =>
      match get_obj s e id with
      | inl x => (s, RErr x)
      | inr ob =>
          match set_many s (ocls ob) id kvs with
          | (s', Some x) => (s', RErr x)
          | (s', None) => (s', seen s' (ocls ob) id)
          end
      end
  | Select k f => (s, run_select s KA (select_clause k f))
  | SelectBy k col v =>
      (s, if match col with Some c => memc c (chain k) | None => true end
          then run_select s k (by_clause col v)
          else RErr EAttr)
  | ByX k v =>
      (s, match run_select s k (by_clause (Some KA) (Some v)) with
          | RObjs (ob :: _) _ _ => RObj ob
          | RObjs [] _ _ => RErr ENotFound
          | r => r
          end)
  | Destroy e id =>
      match get_obj s e id with
      | inl x => (s, RErr x)
      | inr ob =>
          match destroy_chain (chain (ocls ob)) id s with
          | (s', Some x) => (s', RErr x)
          | (s', None) => (set_born s' (filter (fun p => negb (fst p =? id)) (born s')), ROk)
          end
      end
  | Ref id => (set_refs s (refs s ++ [id]), ROk)
  | Unref id => (set_refs s (filter (fun i => negb (i =? id)) (refs s)), ROk)
  end.

Fixpoint run (auto : bool) (s : st) (ops : list op) : st :=
  match ops with
  | [] => s
  | o :: r => run auto (fst (step auto s o)) r
  end.

(* the run with every intermediate (state, result), for the correspondence *)
Fixpoint trace (auto : bool) (s : st) (ops : list op) : list (st * res) :=
  match ops with
  | [] => []
  | o :: r => let sr := step auto s o in sr :: trace auto (fst sr) r
  end.

(* ------------------------------------------------------------------ notions the theorems are stated with *)
Definition ids (t : list row) : list Z := map rid t.

(* the tables nest: see Props/C15.v for the reading of each clause *)
Definition nesting (s : st) : Prop :=
  (forall k, NoDup (ids (tab s k))) /\
  (forall k p r, parent k = Some p -> In r (tab s k) ->
     exists r', In r' (tab s p) /\ rid r' = rid r /\ rtag r' = Some k) /\
  (forall p r c, In r (tab s p) -> rtag r = Some c ->
     parent c = Some p /\ exists r', In r' (tab s c) /\ rid r' = rid r) /\
  (forall id k, In (id, k) (born s) <-> exists r, In r (tab s k) /\ rid r = id /\ rtag r = None) /\
  (forall id k, In (id, k) (born s) -> forall l, In l (chain k) ->
     exists r, In r (tab s l) /\ rid r = id /\ rtag r = tagof k l).

Definition born_as (s : st) (id : Z) : option cls :=
  match List.find (fun p => fst p =? id) (born s) with Some p => Some (snd p) | None => None end.
(* K or a subclass of K *)
Definition kind_of (s : st) (k : cls) (id : Z) : bool :=
  match born_as s id with Some k' => memc k (chain k') | None => false end.

(* the filter read as a predicate on the attribute values of one object (three-valued) *)
Fixpoint feval (s : st) (f : filt) (id : Z) : option bool :=
  match f with
  | FTrue => Some true
  | FCmp c o v => cmp3 o (val_of s c id) v
  | FId o v => cmp3 o (Some id) (Some v)
  | FAnd a b => and3 (feval s a id) (feval s b id)
  | FOr a b => or3 (feval s a id) (feval s b id)
  | FNot a => not3 (feval s a id)
  end.
Definition ftrue (s : st) (f : filt) (id : Z) : bool := match feval s f id with Some true => true | _ => false end.

(* selectBy(col = v) read as a predicate on one object; v = None: IS NULL *)
Definition by_true (s : st) (col : option cls) (v : option Z) (id : Z) : bool :=
  match col with
  | None => true
  | Some c => match cmp3 Ceq (val_of s c id) v with Some true => true | _ => false end
  end.

(* the filter mentions only columns the class has (own and inherited) *)
Fixpoint fvis (k : cls) (f : filt) : bool :=
  match f with
  | FTrue | FId _ _ => true
  | FCmp c _ _ => memc c (chain k)
  | FAnd a b | FOr a b => fvis k a && fvis k b
  | FNot a => fvis k a
  end.

Definition is_err {X} (r : exn + X) : bool := match r with inl _ => true | inr _ => false end.
Definition zmem (z : Z) (l : list Z) : bool := existsb (Z.eqb z) l.

(* the two trigger classes of the findings *)
(* a create that fails after its root row was inserted (the id counter moved) ... *)
Definition fails_midway (auto : bool) (s : st) (k : cls) (a : cargs) (unk : bool) : bool :=
  match creat auto (rev (chain k)) None a unk s with
  | (s', inl _) => negb (seq s' =? seq s)
  | (_, inr _) => false
  end.
(* ... on a connection that does not clean up, or with a cascade=False reference already waiting for the new id *)
Definition trig_create (auto : bool) (s : st) (k : cls) (a : cargs) (unk : bool) : bool :=
  fails_midway auto s k a unk && (negb auto || zmem (seq s + 1) (refs s)).
(* destroySelf of an object whose HB row is referenced through the cascade=False key *)
Definition trig_destroy (s : st) (e : cls) (id : Z) : bool :=
  match get_obj s e id with
  | inr ob => memc KB (chain (ocls ob)) && zmem id (refs s)
  | inl _ => false
  end.
Definition trigger (auto : bool) (s : st) (o : op) : bool :=
  match o with
  | Create k a unk => trig_create auto s k a unk
  | CreateId k a unk _ => match parent k with Some _ => trig_create auto s k a unk | None => false end
  | Destroy e id => trig_destroy s e id
  | _ => false
  end.
Fixpoint clean (auto : bool) (s : st) (ops : list op) : bool :=
  match ops with
  | [] => true
  | o :: r => negb (trigger auto s o) && clean auto (fst (step auto s o)) r
  end.

(* a multi-column set that raises changes nothing -- outside the trigger class of the finding
   inherit_set_not_atomic: either the validation of an own column fails (it runs before anything
   is written), or at most one column is set *)
Definition set_guard (k : cls) (kvs : list (cls * inval)) : bool :=
  match validate_all (filter (fun kv => cls_eqb (fst kv) k) kvs) with Some _ => true | None => false end
  || Nat.leb (length kvs) 1.

(* the value a create stores for the column of class l *)
Definition argval (a : cargs) (l : cls) : option Z :=
  match validate (arg_of a l) with inr v => v | inl _ => None end.

(* states reached by histories that stay outside the two trigger classes *)
Definition reachable (auto : bool) (s : st) : Prop :=
  exists ops, clean auto init ops = true /\ s = run auto init ops.
